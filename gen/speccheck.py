"""Helper shared by C06-C11: run cases, judge against Spec.v monitors."""
from . import common as C
from . import engine as E
from . import catalogue as K

SPEC_MON = ("mon_c02", "the keep-going outcome differs from the reference interpreter (Spec.spec): value, or multiset of reports")
TIE = ("model_vs_spec", "internal tie: interpreter model and declarative specification disagree on this input")


def run_spec_check(ctx, H, tag, cases, extra_mons, rule, corr="corr_full", corr_label="corr_full (result and ordered trace)"):
    obs = E.run_cases(H, cases)
    mons = list(extra_mons) + [SPEC_MON, TIE]
    bads = E.decide(ctx, H, tag, cases, obs, corr, mons, corr_label, extra_imports="KMon KSpec")
    ctx.coverage.update({
        "evaluations": len(cases), "distinct_nontrivial": E.nontrivial(cases, obs),
        "rule": rule + "; non-trivial = distinct (type,payload,script) whose run calls the error type or returns Ok",
        "input_distribution": E.distribution(cases, obs),
        "samples": [cases[i].describe() for i in (0, len(cases) // 2, len(cases) - 1)],
        "correspondence_disagreements": bads[0].total,
        "monitor_failures": sum(b.total for b in bads[1:]),
    })
    return obs, bads


def script_mix(ctx, keep_going_share=0.6):
    if ctx.rng.random() < keep_going_share:
        return [], True, "cont"
    return K.gen_scripts(ctx.rng)
