"""C19 - value pointers record the path that was pushed."""
import itertools
from .. import common as C

THEOREMS = ["c19_to_owned", "c19_origin", "c19_first_field", "c19_last_field", "c19_build_onto"]


def gen_paths(ctx):
    alphabet = ["a", "key", {"i": "0"}, {"i": "3"}]
    paths = []
    for n in range(0, 7):
        for p in itertools.product(alphabet, repeat=n):
            paths.append(list(p))
    n_exh = len(paths)
    keys = ["a", "b", "toto", "tata", "x y", "0", "", "é", "k.k", "[1]", "lol"]
    # every length from 7 to 260 once (buffers, chunking: multiples of 8 / 16 / 32 / 64 / 128 and their neighbours), and a few
    # lengths around larger powers of two
    for ln in list(range(7, 261)) + [511, 512, 513, 1023, 1024, 1025]:
        p = []
        for j in range(ln):
            p.append(ctx.rng.choice(keys) if ctx.rng.random() < 0.5 else {"i": str(ctx.rng.choice([0, 1, 2, 42, 2**32, 2**64 - 1]))})
        paths.append(p)
    n_rand = 300 if ctx.tier == "quick" else 5000
    for _ in range(n_rand):
        ln = ctx.rng.choice([7, 8, 10, 20, 50, 200])
        p = []
        for _ in range(ln):
            if ctx.rng.random() < 0.5:
                p.append(ctx.rng.choice(keys))
            else:
                p.append({"i": str(ctx.rng.choice([0, 1, 2, 42, 2**32, 2**64 - 1]))})
        paths.append(p)
    return paths, n_exh


def emit(cases, obs):
    rows = []
    for i, (steps, o) in enumerate(zip(cases, obs)):
        rows.append("(%d, (%s, {| po_owned := %s; po_origin := %s; po_first := %s; po_last := %s |}))" % (
            i, C.cloc(steps), C.cloc(o["owned"]), C.cbool(o["origin"]),
            C.copt(o["first"], C.cstr), C.copt(o["last"], C.cstr)))
    return rows


def run(ctx, H):
    paths, n_exh = gen_paths(ctx)
    cases = [{"mode": "ptr", "steps": p} for p in paths]
    obs = C.run_harness(H.binary, cases)
    rows = emit(paths, obs)
    shards = 8
    files = []
    for s in range(shards):
        part = rows[s::shards]
        text = (C.CASE_HEADER % "" + "From Deserr.checks Require Import K19.\n"
                + C.cbigdef("cases", "N * (list step * ptr_obs)", part)
                + C.evals(["bad_ids c19_corr cases", "bad_ids c19_mon cases"]))
        files.append(("c19_%d_%d" % (ctx.seed, s), text))
    outs = C.run_coq_files(files)
    bad_corr, bad_mon = C.BadList(), C.BadList()
    for name, (rc, out) in outs.items():
        if rc != 0:
            raise C.Broken("coqc failed on %s:\n%s" % (name, out[-3000:]))
        a, b = C.parse_idlists(out, 2)
        bad_corr = bad_corr + a
        bad_mon = bad_mon + b
    for i in sorted(set(bad_mon))[:5]:
        ctx.violation("mon-%d" % i, {"kind": "monitor c19_mon failed on the implementation",
                                     "steps": paths[i], "impl": obs[i]})
    if bad_corr and not bad_mon:
        i = sorted(bad_corr)[0]
        ctx.violation("corr-%d" % i, {"kind": "correspondence c19_corr (model Pointer.v vs src/value.rs) broken",
                                      "theorem_or_correspondence": "c19_corr", "steps": paths[i], "impl": obs[i]},
                      no_input=True)
    nontrivial = len({C.json.dumps(p) for p in paths if len(p) >= 1})
    ctx.coverage.update({
        "evaluations": len(paths), "distinct_nontrivial": nontrivial,
        "rule": "all paths of <= 6 steps over {2 keys, 2 indices} (exhaustive: %d) plus %d longer paths (every length 7..260, 511..513, 1023..1025, and random ones); "
                "non-trivial = distinct path with at least one step" % (n_exh, len(paths) - n_exh),
        "exhaustive_part": n_exh, "exhaustive": False,
        "samples": [paths[5], paths[n_exh - 1], paths[-1][:12]],
        "correspondence_disagreements": bad_corr.total, "monitor_failures": bad_mon.total,
    })
    ctx.assumptions += ["keys in C19 cases avoid characters whose Rust Debug escaping differs from JSON (read-back of to_owned through Debug)"]
