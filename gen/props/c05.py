"""C05 - scalars accept exactly the representable values, exactly, and say why not."""
from .. import common as C
from .. import engine as E
from .. import tys as T
from .. import catalogue as K

THEOREMS = ["c05_int_exact", "c05_in_domain", "c05_unit", "c05_bool", "c05_string", "c05_char", "c05_f64_total", "c05_f32_total", "c05_round_even_nearest",
            "c05_f64_of_int_exact", "c05_f64_of_int_rounded", "c05_f32_of_int_exact", "c05_f32_of_int_rounded", "c05_float_of_negative", "c05_f32_of_f64_normal", "c05_f32_of_f64_unfold", "c05_f32_of_f64_subnormal", "c05_f32_of_f64_special"]


def boundary_values():
    vals = set()
    for k in range(0, 65):
        for d in (-1, 0, 1):
            vals.add((1 << k) + d)
            vals.add(-((1 << k) + d))
    for name in T.INTS:
        lo, hi = T.int_range(name)
        for d in (-1, 0, 1):
            vals.add(lo + d)
            vals.add(hi + d)
    vals |= {2 ** 53 - 1, 2 ** 53, 2 ** 53 + 1, 16777215, 16777216, 16777217, 0}
    # integers around f32 / f64 rounding midpoints (a conversion through an intermediate float type rounds twice)
    for k in range(25, 64):
        h = 1 << (k - 24)
        for m in (1, 3):
            for d in (-1, 0, 1):
                vals.add((1 << k) + m * h + d)
                vals.add(-((1 << k) + m * h + d))
    for k in range(54, 64):
        h = 1 << (k - 53)
        for m in (1, 3):
            for d in (-1, 0, 1):
                vals.add((1 << k) + m * h + d)
                vals.add(-((1 << k) + m * h + d))
    return sorted(v for v in vals if -(1 << 63) <= v < (1 << 64))


FLOATS = ["0000000000000000", "8000000000000000", "3ff0000000000000", "bff8000000000000", "0000000000000001", "000fffffffffffff",
          "0010000000000000", "7fefffffffffffff", "ffefffffffffffff", "47efffffe0000000", "47efffffefffffff", "47effffff0000000",
          "47f0000000000000", "36a0000000000000", "369fffffffffffff", "3690000000000001", "3690000000000000", "4340000000000001",
          "4330000000000000", "7ff0000000000000", "fff0000000000000", "7ff8000000000000", "7ff0000000000001", "40091eb851eb851f",
          "3fb999999999999a", "c05ec00000000000", "380fffffffffffff", "3810000000000000"]
STRINGS = ["", "a", "ab", "abc", "é", "éa", "€", "😀", "😀😀", "a😀b€", "\u0301e", "hello world", "!", " ", "\n", "\"q\"", "`b`", "\\", "\u0000", "\t",
           # three and more characters with the multi-byte ones late (character count vs byte count of a tail), and long strings of
           # mixed byte widths (anything that cuts a text at a byte offset)
           # numeric / keyword-looking strings (a string is never a number, a bool or null)
           "0", "1", "12", "-1", "+1", "1.0", "1e2", "255", "256", "true", "false", "null", "NaN", "inf",
           " a", "a ", " a ", "\ta", "a\n", "é ", " 1", "1 ",
           "aaé", "ab€", "abc😀", "jortés", "aé€😀", "\u5b57" * 22, "\u043a\u043b\u044e\u0447\u2192" * 6, "a\u00e9" * 40, "x" * 63 + "\u20ac" + "tail", "x" * 62 + "\U0001f600" + "y" * 70,
           "\u20ac" * 100, "a" + "\u20ac" * 100, "ab" + "\u20ac" * 100]
NONSCALAR = [None, True, False, [], [{"i": "1"}], {"m": []}, {"m": [["a", {"i": "1"}]]}, [None, None]]


def run(ctx, H):
    # ---- 1. exhaustive integer sweep, every one of the 24 integer targets
    lo, hi = (-70000, 70000)
    sweeps = C.run_harness(H.binary, [{"mode": "int_sweep", "ty": n, "lo": lo, "hi": hi} for n in T.INTS], shards=min(C.NPROC, 24))
    files = []
    nruns = 0
    for name, sw in zip(T.INTS, sweeps):
        runs = []
        for a, b, tmpl in sw["runs"]:
            a, b = int(a), int(b)
            nruns += 1
            # split long runs so that no single Coq recursion is deeper than 4000
            while a <= b:
                e = min(b, a + 3999)
                runs.append("(%s, %s, %s)" % (C.cZ(a), C.cZ(e), C.cstr(tmpl)))
                a = e + 1
        text = (C.CASE_HEADER % "Kinds Value Prog Scalars ScalarSpec Types Deser Derive" + "From Deserr.checks Require Import KDeser K05.\n"
                + C.cbigdef("runs", "Z * Z * string", runs)
                + C.evals(["sweep_model %s runs" % T.coq_int_desc(name), "sweep_spec %s runs" % T.coq_int_desc(name)]))
        files.append(("c05_sweep_%s_%d" % (name, ctx.seed), text))
    outs = C.run_coq_files(files)
    sweep_corr = sweep_mon = 0
    for name, sw in zip(T.INTS, sweeps):
        rc, out = outs["c05_sweep_%s_%d" % (name, ctx.seed)]
        if rc != 0:
            raise C.Broken("coqc failed on sweep %s:\n%s" % (name, out[-3000:]))
        bc, bm = C.parse_idlists(out, 2)
        sweep_corr += bc.total
        sweep_mon += bm.total
        for n in list(bm)[:2]:
            # the list holds |n|; recover the sign by asking the harness again
            for cand in (n, -n):
                if lo <= cand <= hi:
                    o = C.run_harness(H.binary, [{"mode": "int_sweep", "ty": name, "lo": cand, "hi": cand}], shards=1)[0]
                    ctx.violation("sweep-%s-%d" % (name, cand), {
                        "kind": "integer target disagrees with the specification (spec_int): accepted/rejected wrongly, value not preserved, or wrong kinds/message",
                        "type": name, "payload_integer": cand, "impl_outcome_template": o["runs"]})
        if bc and not bm:
            ctx.violation("sweep-corr-%s" % name, {"kind": "correspondence broken on integer sweep (Scalars.deser_int vs impls.rs) without a spec failure",
                                                   "theorem_or_correspondence": "sweep_model", "type": name, "first": list(bc)[:5]}, no_input=True)
    # ---- 2. explicit boundary cases on every scalar target through the generic engine
    scal = [e for e in H.entries if "scalar" in e.tags]
    bvals = boundary_values()
    cases = []
    for e in scal:
        vals = [K.wi(v) for v in bvals] + [{"f": f} for f in FLOATS] + STRINGS + NONSCALAR
        if ctx.tier == "quick" and e.ty[0] == "int":
            vals = vals[::3] + [K.wi(v) for v in (T.int_range(e.ty[1])[0] - 1, T.int_range(e.ty[1])[0], T.int_range(e.ty[1])[1], T.int_range(e.ty[1])[1] + 1)
                                if -(1 << 63) <= v < (1 << 64)] + NONSCALAR
        for v in vals:
            src = "json" if K.is_json_doc(v) and ctx.rng.random() < 0.5 else "ov"
            sc, d, kind = K.gen_scripts(ctx.rng)
            cases.append(E.Case(e, v, src, sc, d, kind, 0))
        # a NegativeInteger holding a non-negative number (only a non-serde_json source can do that)
        cases.append(E.Case(e, {"n": "5"}, "ov", [], True, "cont", 0))
    obs = E.run_cases(H, cases)
    bads = E.decide(ctx, H, "c05", cases, obs, "corr_full",
                    [("mon_c05", "a scalar target accepted/rejected a value against the specification, changed the value, or gave the wrong kinds/message")],
                    "corr_full on scalar targets (floats: exact bit patterns)", extra_imports="KMon K05")
    total_sweep = 24 * (hi - lo + 1)
    ctx.coverage.update({
        "evaluations": total_sweep + len(cases),
        "distinct_nontrivial": total_sweep + E.nontrivial(cases, obs),
        "exhaustive": True,
        "rule": "all 24 integer targets x every integer in [%d, %d] (exhaustive, %d runs after run-length templating, re-expanded and compared integer by integer in Coq) "
                "plus %d explicit cases: every scalar target x {2^k+-1 (k<=64), every type's MIN/MAX+-1, 28 float bit patterns incl. subnormal/huge/NaN/inf/-0.0, "
                "30 strings of 0..140 scalar values incl. multi-byte ones late in the string and long strings of mixed byte widths, every non-scalar kind}; every input is distinct and exercises an accept/reject decision" % (lo, hi, nruns, len(cases)),
        "samples": [{"type": "u8", "runs": sweeps[0]["runs"]}, cases[5].describe(), cases[-2].describe()],
        "input_distribution": E.distribution(cases, obs),
        "correspondence_disagreements": sweep_corr + bads[0].total, "monitor_failures": sweep_mon + bads[1].total,
    })
    ctx.assumptions += ["usize/isize are 64 bits (x86-64)", "NaN results are compared as a class (canonical quiet NaN)",
                        "float conversion theorems (Flocq) are not yet part of the registered obligations: floats are tied by exact bit-pattern correspondence (Floats.v uses Flocq's binary_normalize)"]
