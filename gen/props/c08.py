"""C08 - missing, default and skip: absent means absent, once, at the right place."""
import copy
import itertools
from .. import common as C
from .. import engine as E
from .. import catalogue as K
from .. import speccheck as S

THEOREMS = ["c08_missing_state_iff", "c08_selected_by_own_key", "c08_missing_reports", "c08_struct_runs_fields", "c08_struct_value_shape", "c08_absent_key_default"]


def run(ctx, H):
    ents = [e for e in H.entries if e.ty[0] == "item" and e.ty[1].kind in ("struct", "enum")
            and any(f.has("default") or f.has("skip") or f.has("missing") or f.has("map") or f.deser_ty()[0] == "option" for f in e.ty[1].all_fields())]
    cases = []
    for e in ents:
        it = e.ty[1]
        reps = 2 if ctx.tier == "quick" else 10
        for _ in range(reps):
            base = K.gen_item_valid(it, ctx.rng, 0)
            # make every key present first
            full = base
            if isinstance(base, dict) and "m" in base:
                have = {k for k, _ in base["m"]}
                fields = it.fields if it.kind == "struct" else []
                for f, key in K.field_keys(fields, K.item_ra(it)):
                    if key not in have:
                        base["m"].append([key, K.gen_valid(f.deser_ty(), ctx.rng, 1)])
                ms = base["m"]
                n = len(ms)
                subsets = list(itertools.product([0, 1, 2, 3], repeat=n)) if n <= 3 else [tuple(ctx.rng.choice([0, 0, 1, 2, 3]) for _ in range(n)) for _ in range(24)]
                if ctx.tier == "quick" and len(subsets) > 20:
                    subsets = ctx.rng.sample(subsets, 20)
                for choice in subsets:
                    q = []
                    for (k, v), c in zip(ms, choice):
                        if c == 0:
                            q.append([k, copy.deepcopy(v)])        # keep
                        elif c == 1:
                            continue                                # delete
                        elif c == 2:
                            q.append([k, None])                     # null
                        else:
                            q.append([k, copy.deepcopy(ctx.rng.choice(K.WRONG))])   # corrupt
                    # the names of skipped fields as keys, sometimes
                    if ctx.rng.random() < 0.3:
                        for f in it.all_fields():
                            if f.skipped():
                                q.append([f.ident, K.gen_valid(f.ty, ctx.rng, 1)])
                    sc, d, kind = S.script_mix(ctx, 0.7)
                    cases.append(E.Case(e, {"m": q}, "json" if K.is_json_doc({"m": q}) and ctx.rng.random() < 0.3 else "ov", sc, d, kind, sum(1 for c in choice if c)))
            else:
                cases.append(E.Case(e, base, "ov", [], True, "cont", 0))
    S.run_spec_check(ctx, H, "c08", cases,
                     [("mon_c04", "a MissingField report for a key that is present in the object at that location (or another false report)")],
                     "every derived struct/enum mixing default / default = expr / skip / missing_field_error / map / Option fields x payloads obtained by deleting / nulling / corrupting "
                     "subsets of the keys (all 4^n combinations for n <= 3 fields, random beyond), names of skipped fields added as keys")
