"""C17 - expected-kinds phrase depends only on the set of kinds and covers it exactly."""
import itertools
from .. import common as C

THEOREMS = ["c17_set_only", "c17_covers_exactly", "c17_empty"]


def run(ctx, H):
    maxlen = 5
    sweep = C.run_harness(H.binary, [{"mode": "kinds_sweep", "maxlen": maxlen}], shards=1)[0]
    n_sweep = len(sweep["idx"])
    # permutation classes of all 256 subsets: each subset in several random orders with repeats
    lists = []
    reps = 3 if ctx.tier == "quick" else 30
    for mask in range(256):
        members = [k for k in range(8) if mask >> k & 1]
        for _ in range(reps):
            l = list(members) + [ctx.rng.choice(members) for _ in range(ctx.rng.randint(0, 6))] if members else []
            ctx.rng.shuffle(l)
            lists.append(l)
    # long lists: a kind that occurs only after many repetitions of others (fixed-size buffers, early exits)
    for mask in range(1, 256):
        members = [k for k in range(8) if mask >> k & 1]
        if len(members) < 2 or (ctx.tier == "quick" and ctx.rng.random() < 0.5):
            continue
        ctx.rng.shuffle(members)
        n = ctx.rng.choice([7, 8, 9, 15, 16, 17, 31, 32, 33, 64, 255, 256, 300])
        lists.append([ctx.rng.choice(members[:-1]) for _ in range(n)] + [members[-1]])
        lists.append([members[0]] + [ctx.rng.choice(members[1:]) for _ in range(n)])
    obs = C.run_harness(H.binary, [{"mode": "kinds", "kinds": l} for l in lists])
    # same subset must give the same phrase whatever the order (monitor on the implementation alone)
    by_set = {}
    for l, o in zip(lists, obs):
        by_set.setdefault(frozenset(l), set()).add(o["phrase"])
    for s, phrases in by_set.items():
        if len(phrases) > 1:
            ctx.violation("order-%s" % "".join(map(str, sorted(s))),
                          {"kind": "phrase depends on order/multiplicity", "set": sorted(s), "phrases": sorted(phrases)})
    rows = ["(%d, (%s, %s))" % (i, C.clist([C.cN(k) for k in l]), C.cstr(o["phrase"])) for i, (l, o) in enumerate(zip(lists, obs))]
    text = (C.CASE_HEADER % "Kinds" + "From Deserr.checks Require Import K17.\n"
            + "Definition dict : list string := %s.\n" % C.clist([C.cstr(d) for d in sweep["dict"]])
            + C.cbigdef("idx", "N", [C.cN(i) for i in sweep["idx"]], 4000)
            + C.cbigdef("cases", "N * (list N * string)", rows)
            + C.evals(["c17_sweep_corr %d dict idx" % maxlen, "c17_sweep_mon %d dict idx" % maxlen,
                       "bad_ids c17_corr cases", "bad_ids c17_mon cases"]))
    outs = C.run_coq_files([("c17_%d" % ctx.seed, text)])
    rc, out = outs["c17_%d" % ctx.seed]
    if rc != 0:
        raise C.Broken("coqc failed:\n" + out[-3000:])
    sw_corr, sw_mon, ex_corr, ex_mon = C.parse_idlists(out, 4)

    def seq_at(pos):
        # decode the enumeration position back to a sequence (same order as Kinds.all_seqs)
        n = 0
        while pos >= 8 ** n:
            pos -= 8 ** n
            n += 1
        s = []
        for k in range(n):
            s.append((pos // 8 ** (n - 1 - k)) % 8)
        return s
    names = ["Null", "Boolean", "Integer", "NegativeInteger", "Float", "String", "Sequence", "Map"]
    for pos in sw_mon[:5]:
        s = seq_at(pos)
        ctx.violation("sweep-mon-%d" % pos, {"kind": "phrase differs from the rule of the property (spec_describe)",
                                             "kinds": [names[k] for k in s],
                                             "impl_phrase": sweep["dict"][sweep["idx"][pos]] if pos < n_sweep else None})
    for i in ex_mon[:5]:
        ctx.violation("mon-%d" % i, {"kind": "phrase differs from the rule of the property (spec_describe)",
                                     "kinds": [names[k] for k in lists[i]], "impl_phrase": obs[i]["phrase"]})
    if (sw_corr or ex_corr) and not (sw_mon or ex_mon or ctx.violations):
        ctx.violation("corr", {"kind": "correspondence broken: Kinds.describe vs value_kinds_description_json",
                               "theorem_or_correspondence": "c17_sweep_corr / c17_corr",
                               "first_positions": sw_corr[:5], "first_cases": [lists[i] for i in ex_corr[:5]]}, no_input=True)
    ctx.coverage.update({
        "evaluations": n_sweep + len(lists),
        "distinct_nontrivial": n_sweep - 1 + len({tuple(l) for l in lists if l}),
        "exhaustive": True,
        "rule": "every sequence of value kinds of length 0..5 (8^0+...+8^5 = %d, enumerated by the harness and independently by Coq in the "
                "same canonical order) plus %d shuffled lists with repeats covering all 256 subsets, among them long lists (7..300 entries) where one kind occurs only last or only first; non-trivial = non-empty sequence" % (n_sweep, len(lists)),
        "samples": [{"kinds": [names[k] for k in seq_at(1234)], "phrase": sweep["dict"][sweep["idx"][1234]]},
                    {"kinds": [names[k] for k in lists[-1]], "phrase": obs[-1]["phrase"]}],
        "distinct_phrases": len(sweep["dict"]),
        "correspondence_disagreements": sw_corr.total + ex_corr.total, "monitor_failures": sw_mon.total + ex_mon.total,
    })
