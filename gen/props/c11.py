"""C11 - from / try_from / map / validate see only good values, once, in order."""
import copy
from .. import common as C
from .. import engine as E
from .. import stages as S2
from .. import catalogue as K
from .. import tys as T
from .. import speccheck as S

THEOREMS = ["c11_from_container", "c11_try_from_container", "c11_validate", "c11_field_stage_ok", "c11_field_stage_err", "c11_maps_at_construction"]


def uses_functions(it):
    if it.get("from") or it.get("try_from") or it.get("validate"):
        return True
    return any(f.has(n) for f in it.all_fields() for n in ("from", "try_from", "map", "missing", "error")) or (it.get("deny") and it.get("deny")[1] is not None)


def run(ctx, H):
    ents = [e for e in H.entries if any(uses_functions(it) for it in T.items_in(e.ty))]
    per = 16 if ctx.tier == "quick" else 90
    cases = []
    for e in ents:
        for p, k in K.gen_payloads(e, ctx.rng, per):
            # push values towards the failure predicate of the fallible functions (ints = 3 mod 4, "!..", lists of 3)
            if ctx.rng.random() < 0.5:
                pos = [q for q in K.positions(p)]
                path = ctx.rng.choice(pos)
                cur = K.get_at(p, path)
                if isinstance(cur, dict) and ("i" in cur):
                    p = K.set_at(p, path, {"i": str(ctx.rng.choice([3, 7, 11, 4, 8]))})
                elif isinstance(cur, str):
                    p = K.set_at(p, path, ctx.rng.choice(["!bad", "ok", "!"]))
                elif isinstance(cur, list):
                    p = K.set_at(p, path, (cur + cur + cur + [copy.deepcopy(x) for x in cur])[:3] if cur else cur)
            sc, d, kind = S.script_mix(ctx, 0.6)
            cases.append(E.Case(e, p, "json" if K.is_json_doc(p) and ctx.rng.random() < 0.3 else "ov", sc, d, kind, k))
    cases += S2.staged_cases(ctx, H)
    S.run_spec_check(ctx, H, "c11", cases,
                     [("mon_c11", "under a keep-going error type the user functions invoked (which, in which order, with which arguments) differ from the reference interpreter"),
                      ("mon_c01", "an error of a field-level error type or of a user function was dropped or handed over twice")],
                     "every catalogue type using from / try_from (by value and by reference) / map / validate / missing_field_error / deny_unknown_fields = f / field-level `error =` at "
                     "field and container level, with logging functions x payloads steering values towards and away from the functions' failure predicate, faults before/after each stage")
