"""C11 - from / try_from / map / validate see only good values, once, in order."""
import copy
from .. import common as C
from .. import engine as E
from .. import stages as S2
from .. import catalogue as K
from .. import tys as T
from .. import speccheck as S

THEOREMS = ["c11_from_container", "c11_try_from_container", "c11_validate", "c11_field_stage_ok", "c11_field_stage_err", "c11_maps_at_construction"]


def uses_functions(it):
    if it.get("from") or it.get("try_from") or it.get("validate"):
        return True
    return any(f.has(n) for f in it.all_fields() for n in ("from", "try_from", "map", "missing", "error")) or (it.get("deny") and it.get("deny")[1] is not None)


# ---------------------------------------------------------------- user functions returning the impl's own error type

def wi(n):
    return {"i": str(n)}


def own_payloads(rng):
    """(which, payload): well-kinded payloads for the hand-written types of harness/src/own.rs"""
    s = lambda: rng.choice(["ok", "a", "!bad", "!", "x y", "!z"])
    out = []
    for which in ("tf", "gen", "tf_opt"):
        for _ in range(3):
            out.append((which, s()))
    out.append(("tf_opt", None))
    for which in ("tf_vec", "gen_vec"):
        for n in (0, 1, 2, 4):
            out.append((which, [s() for _ in range(n)]))
    for n in (1, 2, 4):
        out.append(("tf_map", {"m": [["k%d" % i, s()] for i in range(n)]}))

    def obj():
        ms = [["theCount", wi(rng.choice([1, 13, 13, 200]))], ["theName", s()]]
        if rng.random() < 0.6:
            ms.append(["inner", rng.choice([None, s(), s()])])
        rng.shuffle(ms)
        return {"m": ms}
    for _ in range(8):
        out.append(("v", obj()))
    for n in (1, 3):
        out.append(("v_vec", [obj() for _ in range(n)]))
    return out


def own_expected(which, p, path=()):
    """the conversion / validation failures of the payload: set of (message, location of the hand-over)"""
    exp = set()
    if which in ("tf", "gen", "tf_opt"):
        if isinstance(p, str) and p.startswith("!"):
            exp.add(("own:gen" if which == "gen" else "own:tf", path))
    elif which in ("tf_vec", "gen_vec"):
        for i, x in enumerate(p):
            exp |= own_expected("gen" if which == "gen_vec" else "tf", x, path + (("i", i),))
    elif which == "tf_map":
        for k, x in p["m"]:
            exp |= own_expected("tf", x, path + (k,))
    elif which == "v":
        d = dict((k, v) for k, v in p["m"])
        bad = False
        if d["theName"].startswith("!"):
            exp.add(("own:field", path + ("theName",)))
            bad = True
        if isinstance(d.get("inner"), str) and d["inner"].startswith("!"):
            exp.add(("own:tf", path + ("inner",)))
            bad = True
        if not bad and d["theCount"]["i"] == "13":
            exp.add(("own:validate", path))
    elif which == "v_vec":
        for i, x in enumerate(p):
            exp |= own_expected("v", x, path + (("i", i),))
    return exp


def loc_tuple(loc):
    return tuple((("i", int(st["i"])) if isinstance(st, dict) else st) for st in loc)


def own_error_check(ctx, H):
    """C11: "a try_from or validate failure is handed to the error type at the field's (resp. container's) location" also
    when the function returns the impl's own error type (then the hand-over is `MergeWithError<E> for E`)."""
    cases = []
    for which, p in own_payloads(ctx.rng):
        for sc, d in (([], True), ([], False), ([ctx.rng.random() < 0.5 for _ in range(6)], True)):
            cases.append({"mode": "deser", "own": which, "payload": p, "src": "ov", "err": "rec", "script": sc, "default": d, "tid": 0})
    obs = C.run_harness(H.binary, cases)
    nbad = 0
    for c, o in zip(cases, obs):
        tr = o["trace"]
        why = None
        if "panic" in o["res"]:
            why = "deserialize panicked"
        handed = set()
        for i, call in enumerate(tr):
            if call.get("c") == "error" and call["kind"].get("k") == "unexpected" and str(call["kind"].get("msg", "")).startswith("own:"):
                nxt = tr[i + 1] if i + 1 < len(tr) else None
                if not (nxt and nxt.get("c") == "merge" and nxt.get("other") == i and nxt.get("self") is None):
                    why = why or "the error returned by the user function (call %d, %s) was not handed to the error type by the next call" % (i, call["kind"]["msg"])
                else:
                    handed.add((call["kind"]["msg"], loc_tuple(nxt["loc"])))
        if why is None and c["default"] and not c["script"]:
            exp = own_expected(c["own"], c["payload"])
            if handed != exp:
                why = "hand-overs of user-function failures (message, location) %s differ from the expected %s" % (sorted(handed), sorted(exp))
            if ("ok" in o["res"]) != (not exp):
                why = why or "Ok/Err does not match the failures of the payload"
        if why:
            nbad += 1
            if nbad <= 4:
                ctx.violation("own-%d" % nbad, {"kind": "a failure of a user function returning the impl's own error type was not handed over at the right place: " + why,
                                               "harness_case": c, "impl": o})
    ctx.coverage["own_error_type_runs"] = len(cases)
    return len(cases)


def run(ctx, H):
    own_error_check(ctx, H)
    ents = [e for e in H.entries if any(uses_functions(it) for it in T.items_in(e.ty))]
    per = 16 if ctx.tier == "quick" else 90
    cases = []
    for e in ents:
        for p, k in K.gen_payloads(e, ctx.rng, per):
            # push values towards the failure predicate of the fallible functions (ints = 3 mod 4, "!..", lists of 3)
            if ctx.rng.random() < 0.5:
                pos = [q for q in K.positions(p)]
                path = ctx.rng.choice(pos)
                cur = K.get_at(p, path)
                if isinstance(cur, dict) and ("i" in cur):
                    p = K.set_at(p, path, {"i": str(ctx.rng.choice([3, 7, 11, 4, 8]))})
                elif isinstance(cur, str):
                    p = K.set_at(p, path, ctx.rng.choice(["!bad", "ok", "!"]))
                elif isinstance(cur, list):
                    p = K.set_at(p, path, (cur + cur + cur + [copy.deepcopy(x) for x in cur])[:3] if cur else cur)
            sc, d, kind = S.script_mix(ctx, 0.6)
            cases.append(E.Case(e, p, "json" if K.is_json_doc(p) and ctx.rng.random() < 0.3 else "ov", sc, d, kind, k))
    cases += S2.staged_cases(ctx, H)
    S.run_spec_check(ctx, H, "c11", cases,
                     [("mon_c11", "under a keep-going error type the user functions invoked (which, in which order, with which arguments) differ from the reference interpreter"),
                      ("mon_c01", "an error of a field-level error type or of a user function was dropped or handed over twice")],
                     "every catalogue type using from / try_from (by value and by reference) / map / validate / missing_field_error / deny_unknown_fields = f / field-level `error =` at "
                     "field and container level, with logging functions x payloads steering values towards and away from the functions' failure predicate, faults before/after each stage")
