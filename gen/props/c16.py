"""C16 - the derive rejects what it cannot honour instead of ignoring it."""
import copy
import json
import os
import random
from .. import common as C
from .. import tys as T
from ..tys import Field, Variant, Item

THEOREMS = ["c16_never_accepted", "c16_container_rejected", "c16_field_attrs_rejected", "c16_variant_attrs_rejected",
            "c16_accepted_reads_attrs", "c16_container_no_override", "c16_variant_no_override", "c16_field_no_override"]

REJ = os.path.join(C.VERIF, "harness_reject")


def base_items(n, rng, prefix):
    """valid items used as carriers: a struct, a struct with attributes, a tagged enum, a unit enum"""
    I = T.Int
    out = []
    for k in range(n):
        kind = k % 4
        name = "%s%d" % (prefix, k)
        if kind == 0:
            it = Item(name, "struct", fields=[Field("alpha", I("u8")), Field("beta_gamma", T.String, [[("rename", "bg")]]),
                                             Field("opt", T.Option(T.Bool), [[("default", None)]])])
        elif kind == 1:
            it = Item(name, "struct", attrs=[[("rename_all", "camelCase")], [("deny", None)]],
                      fields=[Field("first_one", T.Vec(I("u8"))), Field("sk", T.String, [[("skip",)]]), Field("x", T.Bool)])
        elif kind == 2:
            it = Item(name, "enum", attrs=[[("tag", "type")]],
                      variants=[Variant("Aa"), Variant("Bb", [Field("inner_v", I("i32"))], [[("rename", "bee")]]),
                                Variant("Cc", [Field("s", T.String, [[("default", None)]])], [[("rename_all", "lowercase")]])])
        else:
            it = Item(name, "enum", attrs=[[("rename_all", "lowercase")]], variants=[Variant("First"), Variant("SecondOne", attrs=[[("rename", "2nd")]])])
        out.append(it)
    return out


def add_attr(groups, attr, spread, rng):
    """add an attribute item either inside an existing #[deserr(..)] or as a new one"""
    groups = [list(g) for g in groups]
    if spread or not groups:
        groups.insert(rng.randint(0, len(groups)), [attr])
    else:
        g = rng.choice(groups)
        g.insert(rng.randint(0, len(g)), attr)
    return groups


def poisons():
    """(cause id, level, function(item, spread, rng) -> poisoned item or None)"""
    P = []

    def cont(cause, mk, need=None):
        def f(it, spread, rng):
            if need and not need(it):
                return None
            it = copy.deepcopy(it)
            for a in mk(it):
                it.attrs = add_attr(it.attrs, a, spread, rng)
            return it
        P.append((cause, "container", f))
    is_struct = lambda it: it.kind == "struct"
    is_enum = lambda it: it.kind == "enum"
    cont("c-unknown", lambda it: [("unknown", "bogus")])
    cont("c-unknown-x", lambda it: [("unknown", "x_custom")])
    cont("c-unknown-case", lambda it: [("unknown", "Deny_unknown_fields")])
    cont("c-unknown-serde", lambda it: [("unknown", 'serde(rename_all = "camelCase")')])
    cont("c-unknown-value", lambda it: [("unknown", "bogus = 1")])
    cont("c-rename_all-twice", lambda it: [("rename_all", "camelCase")] * (1 if it.get("rename_all") else 2))
    cont("c-rename_all-invalid", lambda it: [("rename_all", "snake_case")], lambda it: not it.get("rename_all"))
    cont("c-tag-twice", lambda it: [("tag", "t2")] * (1 if it.get("tag") else 2), is_enum)
    cont("c-tag-on-struct", lambda it: [("tag", "t")], is_struct)
    cont("c-error-twice", lambda it: [("error", 0), ("error", 0)])
    cont("c-deny-twice", lambda it: [("deny", None)] * (1 if it.get("deny") else 2))
    cont("c-validate-twice", lambda it: [("validate", 901), ("validate", 902)])
    cont("c-from-twice", lambda it: [("from", T.String, 903, False), ("from", T.String, 904, False)])
    cont("c-try_from-twice", lambda it: [("try_from", T.String, 905, False), ("try_from", T.String, 906, False)],
         lambda it: not (it.get("rename_all") or it.get("tag") or it.get("deny")))
    cont("c-from-and-try_from", lambda it: [("from", T.String, 907, False), ("try_from", T.String, 908, False)],
         lambda it: not (it.get("rename_all") or it.get("tag") or it.get("deny")))
    cont("c-try_from-and-from", lambda it: [("try_from", T.String, 909, False), ("from", T.String, 910, False)],
         lambda it: not (it.get("rename_all") or it.get("tag") or it.get("deny")))
    cont("c-try_from-with-rename_all", lambda it: [("try_from", T.String, 911, False)] + ([] if it.get("rename_all") else [("rename_all", "lowercase")]),
         lambda it: not (it.get("tag") or it.get("deny")))
    cont("c-try_from-with-tag", lambda it: [("try_from", T.String, 912, False)] + ([] if it.get("tag") else [("tag", "t")]),
         lambda it: it.kind == "enum" and not (it.get("rename_all") or it.get("deny")))
    cont("c-try_from-with-deny", lambda it: [("try_from", T.String, 913, False)] + ([] if it.get("deny") else [("deny", None)]),
         lambda it: not (it.get("rename_all") or it.get("tag")))
    cont("c-malformed-no-eq", lambda it: [("malformed", "tag")], lambda it: not it.get("tag"))
    cont("c-malformed-no-value", lambda it: [("malformed", "error =")])
    cont("c-malformed-trailing", lambda it: [("malformed", 'validate = f -> E extra')])

    def empty_attr(it, spread, rng):
        it = copy.deepcopy(it)
        it.attrs.insert(rng.randint(0, len(it.attrs)), [])
        return it
    P.append(("c-empty-attribute", "container", empty_attr))

    def var(cause, mk, need=None):
        def f(it, spread, rng):
            if it.kind != "enum":
                return None
            it = copy.deepcopy(it)
            vs = [v for v in it.variants if (need is None or need(v))]
            if not vs:
                return None
            v = rng.choice(vs)
            for a in mk(v):
                v.attrs = add_attr(v.attrs, a, spread, rng)
            return it
        P.append((cause, "variant", f))
    vhas = lambda v, n: any(a[0] == n for a in v.flat())
    var("v-unknown", lambda v: [("unknown", "default")])
    var("v-unknown-x", lambda v: [("unknown", "x_note = \"n\"")])
    var("v-unknown-case", lambda v: [("unknown", "Rename = \"r\"")])
    var("v-rename-twice", lambda v: [("rename", "zz")] * (1 if vhas(v, "rename") else 2))
    var("v-rename_all-twice", lambda v: [("rename_all", "camelCase")] * (1 if vhas(v, "rename_all") else 2))
    var("v-rename_all-invalid", lambda v: [("rename_all", "UPPER")], lambda v: not vhas(v, "rename_all"))
    var("v-malformed", lambda v: [("malformed", "rename")], lambda v: not vhas(v, "rename"))

    def fld(cause, mk, need=None):
        def f(it, spread, rng):
            it = copy.deepcopy(it)
            fs = [x for x in it.all_fields() if (need is None or need(x))]
            if not fs:
                return None
            x = rng.choice(fs)
            for a in mk(x):
                x.attrs = add_attr(x.attrs, a, spread, rng)
            return it
        P.append((cause, "field", f))
    fld("f-unknown", lambda x: [("unknown", "tag = \"x\"")])
    fld("f-unknown-x", lambda x: [("unknown", "x_doc = \"d\"")])
    fld("f-unknown-alias", lambda x: [("unknown", "alias = \"other\"")])
    fld("f-unknown-case", lambda x: [("unknown", "Default")])
    fld("f-unknown-flag", lambda x: [("unknown", "deny_unknown_fields")])
    fld("f-rename-twice", lambda x: [("rename", "r2")] * (1 if x.has("rename") else 2))
    fld("f-default-twice", lambda x: [("default", None)] * (1 if x.has("default") else 2), lambda x: not x.skipped())
    fld("f-missing-twice", lambda x: [("missing", 921), ("missing", 922)])
    fld("f-error-twice", lambda x: [("error", 0), ("error", 0)])
    fld("f-map-twice", lambda x: [("map", 923, x.ty), ("map", 924, x.ty)])
    fld("f-from-twice", lambda x: [("from", x.ty, 925, False), ("from", x.ty, 926, False)])
    fld("f-try_from-twice", lambda x: [("try_from", x.ty, 927, False), ("try_from", x.ty, 928, False)])
    fld("f-from-and-try_from", lambda x: [("from", x.ty, 929, False), ("try_from", x.ty, 930, False)])
    fld("f-try_from-and-from", lambda x: [("try_from", x.ty, 931, False), ("from", x.ty, 932, False)])
    fld("f-malformed-no-eq", lambda x: [("malformed", "rename")], lambda x: not x.has("rename"))
    fld("f-malformed-no-value", lambda x: [("malformed", "map =")])
    fld("f-malformed-trailing", lambda x: [("malformed", 'rename = "a" "b"')], lambda x: not x.has("rename"))

    # "sandwiches": the same single-valued attribute twice with ANOTHER valid attribute between the two
    # occurrences (within one #[deserr(..)] or across three), in this order
    def ordered(level, cause, mk, pick, need=None):
        def f(it, spread, rng):
            it = copy.deepcopy(it)
            tgt = pick(it, rng, need)
            if tgt is None:
                return None
            attrs = mk(tgt)
            if spread:
                tgt.attrs = [list(g) for g in tgt.attrs] + [[a] for a in attrs]
            else:
                tgt.attrs = [list(g) for g in tgt.attrs] + [list(attrs)]
            return it
        P.append((cause, level, f))
    pick_item = lambda it, rng, need: it if (need is None or need(it)) else None
    def pick_variant(it, rng, need):
        if it.kind != "enum":
            return None
        vs = [v for v in it.variants if (need is None or need(v))]
        return rng.choice(vs) if vs else None
    def pick_field(it, rng, need):
        fs = [x for x in it.all_fields() if (need is None or need(x))]
        return rng.choice(fs) if fs else None
    ordered("container", "c-rename_all-sandwich", lambda it: [("rename_all", "camelCase"), ("validate", 950), ("rename_all", "lowercase")], pick_item,
            lambda it: not it.get("rename_all"))
    ordered("container", "c-deny-sandwich", lambda it: [("deny", None), ("error", 0), ("deny", None)], pick_item, lambda it: not (it.get("deny") or it.get("error")))
    # the valued form `deny_unknown_fields = f` next to the bare flag, twice, around another attribute, and with try_from
    nodeny = lambda it: not (it.get("deny") or it.get("error"))
    ordered("container", "c-deny-valued-then-bare", lambda it: [("deny", 970), ("deny", None)], pick_item, nodeny)
    ordered("container", "c-deny-bare-then-valued", lambda it: [("deny", None), ("deny", 971)], pick_item, nodeny)
    ordered("container", "c-deny-valued-twice", lambda it: [("deny", 972), ("deny", 973)], pick_item, nodeny)
    ordered("container", "c-deny-valued-sandwich", lambda it: [("deny", 974), ("error", 0), ("deny", 975)], pick_item, nodeny)
    plain_c = lambda it: not (it.get("rename_all") or it.get("tag") or it.get("deny"))
    ordered("container", "c-try_from-with-deny-valued", lambda it: [("try_from", T.String, 976, False), ("deny", 977)], pick_item, plain_c)
    ordered("container", "c-deny-valued-with-try_from", lambda it: [("deny", 978), ("try_from", T.String, 979, False)], pick_item, plain_c)
    ordered("container", "c-validate-sandwich", lambda it: [("validate", 951), ("deny", None), ("validate", 952)], pick_item, lambda it: not it.get("deny"))
    ordered("container", "c-tag-sandwich", lambda it: [("tag", "t1"), ("validate", 953), ("tag", "t2")], pick_item, lambda it: it.kind == "enum" and not it.get("tag"))
    ordered("variant", "v-rename_all-sandwich", lambda v: [("rename_all", "camelCase"), ("rename", "sw1"), ("rename_all", "lowercase")], pick_variant,
            lambda v: not (vhas(v, "rename") or vhas(v, "rename_all")))
    ordered("variant", "v-rename-sandwich", lambda v: [("rename", "sw2"), ("rename_all", "camelCase"), ("rename", "sw3")], pick_variant,
            lambda v: not (vhas(v, "rename") or vhas(v, "rename_all")))
    ordered("field", "f-rename-sandwich", lambda x: [("rename", "sw4"), ("missing", 954), ("rename", "sw5")], pick_field,
            lambda x: not (x.has("rename") or x.has("missing") or x.skipped()))
    ordered("field", "f-default-sandwich", lambda x: [("default", None), ("rename", "sw6"), ("default", None)], pick_field,
            lambda x: not (x.has("rename") or x.has("default") or x.skipped()))
    dflt = ("default", ("::std::default::Default::default()", {"i": "0"}))
    ordered("field", "f-default-valued-then-bare", lambda x: [dflt, ("default", None)], pick_field, lambda x: not (x.has("default") or x.skipped()))
    ordered("field", "f-default-bare-then-valued", lambda x: [("default", None), dflt], pick_field, lambda x: not (x.has("default") or x.skipped()))
    ordered("field", "f-default-valued-twice", lambda x: [dflt, dflt], pick_field, lambda x: not (x.has("default") or x.skipped()))
    ordered("field", "f-default-valued-bare-skipped", lambda x: [dflt, ("default", None)], pick_field, lambda x: x.skipped() and not x.has("default"))
    ordered("field", "f-map-sandwich", lambda x: [("map", 955, x.ty), ("error", 0), ("map", 956, x.ty)], pick_field, lambda x: not (x.has("map") or x.has("error")))
    ordered("field", "f-from-sandwich", lambda x: [("from", x.ty, 957, False), ("rename", "sw7"), ("from", x.ty, 958, False)], pick_field,
            lambda x: not (x.has("rename") or x.has("from") or x.has("try_from") or x.skipped()))
    ordered("field", "f-missing-sandwich", lambda x: [("missing", 959), ("error", 0), ("missing", 960)], pick_field, lambda x: not (x.has("missing") or x.has("error")))

    def shape(cause, kind):
        def f(it, spread, rng):
            if it.kind != "struct":
                return None
            it = copy.deepcopy(it)
            it.kind = kind
            it.fields = []
            it.attrs = [g for g in it.attrs if all(a[0] not in ("rename_all", "deny") for a in g)]
            return it
        P.append((cause, "shape", f))
    shape("s-tuple-struct", "tuple_struct")
    shape("s-unit-struct", "unit_struct")
    shape("s-union", "union")

    def unnamed(it, spread, rng):
        if it.kind != "enum":
            return None
        it = copy.deepcopy(it)
        it.variants.insert(rng.randint(0, len(it.variants)), Variant("Tup", None, [], unnamed=True))
        return it
    P.append(("s-variant-unnamed", "shape", unnamed))

    def untagged_data(it, spread, rng):
        if it.kind != "enum" or not it.get("tag"):
            return None
        it = copy.deepcopy(it)
        it.attrs = [[a for a in g if a[0] != "tag"] for g in it.attrs]
        it.attrs = [g for g in it.attrs if g]
        return it
    P.append(("s-enum-data-without-tag", "shape", untagged_data))
    return P


def fix_map_attr(it):
    """`map = f` needs the declared type W<T>; reject cases only need the text to parse"""
    return it


def rust_reject_item(it):
    """Rust source of a reject case: derive + item; no ToOut (it may not even be a legal item for it)"""
    src = it.rust_src()
    # drop the ToOut impls: they are irrelevant here and may not type-check for poisoned items
    return "\n".join(l for l in src.split("\n") if not l.startswith("impl ToOut for"))


def classify(diags, lo, hi):
    """class of one item from the compiler messages whose primary span starts inside its lines"""
    mine = []
    for d in diags:
        for sp in d.get("spans", []):
            if sp.get("is_primary") and lo <= sp["line_start"] <= hi:
                mine.append(d)
                break
    if not mine:
        return 0, []
    if any("proc-macro derive panicked" in d["message"] for d in mine):
        return 2, mine
    if any(d.get("code") is None for d in mine):
        return 1, mine
    return 3, mine


def run(ctx, H):
    rng = ctx.rng
    P = poisons()
    reps = 2 if ctx.tier == "quick" else 8
    cases = []   # (cause, level, spread, item)
    nbase = 8
    for rep in range(reps):
        bases = base_items(nbase, rng, "B%d_" % rep)
        for it in bases:
            cases.append(("control", "none", False, copy.deepcopy(it)))
        for cause, level, f in P:
            for spread in (False, True):
                cands = list(bases)
                rng.shuffle(cands)
                for b in cands:
                    q = f(b, spread, rng)
                    if q is not None:
                        cases.append((cause, level, spread, q))
                        break
    # every case once more with a (by itself legal) container-level `from`, which makes the macro skip the body:
    # container-level causes must still be rejected
    twins = []
    for cause, level, spread, it in cases:
        if it.get("from") or it.get("try_from"):
            continue
        if level in ("field", "variant") and rng.random() < 0.5:
            continue
        q = copy.deepcopy(it)
        q.attrs = add_attr(q.attrs, ("from", T.String, 940, False), rng.random() < 0.5, rng)
        twins.append((cause + "+from", level, spread, q))
    cases += twins
    # unique names, one module per case
    lines = ["#![allow(dead_code, unused_imports, non_camel_case_types, non_snake_case, unused_variables)]",
             '#[path = "../../harness/src/ov.rs"] pub mod ov;', '#[path = "../../harness/src/out.rs"] pub mod out;',
             '#[path = "../../harness/src/rec.rs"] pub mod rec;', '#[path = "../../harness/src/user.rs"] pub mod user;',
             "pub mod generated { pub use super::*; }"]
    spans = []
    for i, (cause, level, spread, it) in enumerate(cases):
        it.name = "Case%d" % i
        body = rust_reject_item(it).rstrip("\n").split("\n")
        start = len(lines) + 1
        lines += body
        spans.append((start, len(lines)))
        lines.append("")
    with C.Lock("cargo-reject"):
        tmpl = open(os.path.join(REJ, "Cargo.toml.in")).read()
        C.write_if_changed(os.path.join(REJ, "Cargo.toml"), tmpl.replace("@REPO@", C.REPO))
        lock_dst = os.path.join(REJ, "Cargo.lock")
        if not os.path.exists(lock_dst):
            open(lock_dst, "w").write(open(os.path.join(C.REPO, "Cargo.lock")).read())
        os.makedirs(os.path.join(REJ, "src"), exist_ok=True)
        open(os.path.join(REJ, "src", "lib.rs"), "w").write("\n".join(lines) + "\n")
        marker, hsh = C.ensure_fresh_repo_build(REJ, os.path.join(C.TARGET, "reject_marker"))
        rc, out = C.sh(["cargo", "check", "--offline", "--message-format=json", "--quiet"], cwd=REJ, timeout=3000)
        C.mark_fresh(marker, hsh)
    diags = []
    for line in out.split("\n"):
        line = line.strip()
        if not line.startswith("{"):
            continue
        try:
            m = json.loads(line)
        except ValueError:
            continue
        if m.get("reason") == "compiler-message" and m["message"].get("level") == "error":
            if any(sp.get("file_name", "").endswith("lib.rs") for sp in m["message"].get("spans", [])):
                diags.append(m["message"])
    if rc != 0 and not diags:
        raise C.Broken("cargo check of the reject crate failed without diagnostics in lib.rs:\n" + out[-3000:])
    rows, classes = [], []
    for i, ((cause, level, spread, it), (lo, hi)) in enumerate(zip(cases, spans)):
        cl, mine = classify(diags, lo, hi)
        classes.append((cl, mine))
        rows.append("(%d, (%s, %d))" % (i, it.coq(), cl))
    text = (C.CASE_HEADER % "Kinds Value Scalars Types Derive DeriveSpec" + "From Deserr.checks Require Import K16.\n"
            + C.cbigdef("cases", "N * (item ity * N)", rows, 200)
            + C.evals(["bad_ids corr_c16 cases", "bad_ids mon_c16 cases"]))
    rcq, outq = C.run_coq_files([("c16_%d" % ctx.seed, text)])["c16_%d" % ctx.seed]
    if rcq != 0:
        raise C.Broken("coqc failed:\n" + outq[-3000:])
    corr, mon = C.parse_idlists(outq, 2)
    names = {0: "accepted", 1: "rejected by the derive", 2: "derive panicked", 3: "only rustc errors"}
    seen_causes = set()
    for i in mon:
        cause, level, spread, it = cases[i]
        if cause in seen_causes:
            continue
        seen_causes.add(cause)
        ctx.violation("mon-%s-%s" % (cause, "spread" if spread else "one"), {
            "kind": "a derive input that must be rejected was %s" % names[classes[i][0]],
            "cause": cause, "level": level, "spelling": "spread across several #[deserr] attributes" if spread else "within one attribute",
            "rust_item": rust_reject_item(it), "diagnostics": [d["message"] for d in classes[i][1]][:3]},
            site="derive-" + cause)
    if corr and not mon:
        i = sorted(corr)[0]
        ctx.violation("corr-%d" % i, {"kind": "correspondence broken: Derive.compile vs the derive macro (accept/reject)",
                                      "theorem_or_correspondence": "corr_c16", "cause": cases[i][0], "rust_item": rust_reject_item(cases[i][3]),
                                      "impl_class": names[classes[i][0]], "diagnostics": [d["message"] for d in classes[i][1]][:3]}, no_input=True)
    by_cause = {}
    for (cause, level, spread, it), (cl, _) in zip(cases, classes):
        by_cause.setdefault(cause, {}).setdefault(names[cl], 0)
        by_cause[cause][names[cl]] += 1
    ctx.coverage.update({
        "evaluations": len(cases), "distinct_nontrivial": len({rust_reject_item(c[3]).replace(c[3].name, "X") for c in cases if c[0] != "control"}),
        "rule": "%d rejection causes (container / variant / field / shape) x {within one attribute, spread across several} applied to %d valid carrier items "
                "(struct, struct with attributes, tagged enum, unit enum) x %d repetitions with random insertion points, plus the unpoisoned carriers as controls, and every case once more with an additional container-level `from` (the macro then skips the body; container-level causes must still be rejected); "
                "one crate, one `cargo check --message-format=json`, diagnostics attributed to items by line; non-trivial = distinct poisoned item" % (len(P), nbase, reps),
        "causes": sorted(by_cause), "outcome_by_cause": by_cause,
        "samples": [{"cause": cases[k][0], "rust": rust_reject_item(cases[k][3])} for k in (nbase + 1, len(cases) // 2, len(cases) - 1)],
        "correspondence_disagreements": corr.total, "monitor_failures": mon.total,
    })
    ctx.assumptions += ["accept/reject and no-panic are compared, not the wording or span of the diagnostics",
                        "field/variant-level causes are only required to be rejected when no container-level from/try_from replaces the body (the macro does not look at the body then)"]
