"""C14 - built-in error messages name the right place, value and alternatives."""
import copy
from .. import common as C
from .. import engine as E
from .. import catalogue as K
from .. import tys as T

THEOREMS = ["c14_first_report", "c14_ok_same", "c14_path_roundtrip", "c14_path_injective", "c14_rendered_report_is_true", "c14_path_qp_roundtrip", "c14_contents_path", "c14_contents_root", "c14_contents_value", "c14_contents_value_quoted", "c14_contents_missing", "c14_contents_unknown_key", "c14_contents_unknown_value", "c14_contents_len", "c14_contents_detail", "c14_contents_suggestion", "c14_contents_qp"]


def float_bits(p, acc):
    if isinstance(p, list):
        for x in p:
            float_bits(x, acc)
    elif isinstance(p, dict):
        if "f" in p:
            acc.add(p["f"])
        elif "m" in p:
            for _, v in p["m"]:
                float_bits(v, acc)
    return acc


def run(ctx, H):
    ents = [e for e in H.entries if not e.rec_only]
    per = 8 if ctx.tier == "quick" else 50
    base = []
    for e in ents:
        for p, k in K.gen_payloads(e, ctx.rng, per):
            src = "json" if K.is_json_doc(p) and ctx.rng.random() < 0.5 else "ov"
            base.append(E.Case(e, p, src, [], True, "cont", k))
        # faults at the root
        for p in (None, True, {"i": "5"}, "la", [{"i": "2"}], {"m": [["toto", {"i": "2"}]]}, {"f": "3ff8000000000000"}, {"n": "-7"}):
            base.append(E.Case(e, copy.deepcopy(p), "json", [], True, "cont", -1))
    robs = E.run_cases(H, base)

    def variant(c, err):
        d = E.Case(c.entry, c.payload, c.src, [], True, "cont", c.nfaults, err)
        return d
    jobs = E.run_cases(H, [variant(c, "json") for c in base])
    qobs = E.run_cases(H, [variant(c, "qp") for c in base])
    allbits = set()
    for c in base:
        float_bits(c.payload, allbits)
    allbits = sorted(allbits)
    ft = C.run_harness(H.binary, [{"mode": "ftext", "bits": allbits}], shards=1)[0] if allbits else {"json": [], "display": []}
    jtxt = dict(zip(allbits, ft["json"]))
    dtxt = dict(zip(allbits, ft["display"]))

    def row(i):
        c = base[i]
        bits = sorted(float_bits(c.payload, set()))
        jo, qo = jobs[i]["res"], qobs[i]["res"]
        okj = "(Some %s)" % T.cout(jo["ok"]) if "ok" in jo else "None"
        mj = "(Some %s)" % C.cstr(jo["msg"]) if "msg" in jo else "None"
        mq = "(Some %s)" % C.cstr(qo["msg"]) if "msg" in qo else "None"
        f1 = C.clist(["(%d, %s)" % (T.canon64(int(b, 16)), C.cstr(jtxt[b])) for b in bits])
        f2 = C.clist(["(%d, %s)" % (T.canon64(int(b, 16)), C.cstr(dtxt[b])) for b in bits])
        return "(mkMC %s %s %s %s %s %s)" % (E.ccase(c, robs[i]), okj, mj, mq, f1, f2)
    for i, (jo, qo) in enumerate(zip(jobs, qobs)):
        if "panic" in jo["res"] or "panic" in qo["res"]:
            ctx.violation("panic-%d" % i, dict(base[i].describe(), kind="a built-in error type made deserialize panic", impl=[jo, qo]))
    bads = E.coq_check(ctx, "c14", base, robs, ["corr_c14", "mon_c14"], extra_imports="K14", row=row, typ="mcase")
    corr, mon = bads
    for i in sorted(mon, key=lambda i: E.payload_size(base[i].payload))[:4]:
        d = base[i].describe()
        d.update({"kind": "JsonError / QueryParamError message is not the rendering of the first report of the keep-going run (or Ok/Err differs)",
                  "json_error": jobs[i]["res"], "query_param_error": qobs[i]["res"], "recording_run": robs[i]})
        ctx.violation("mon-%d" % i, d)
    if corr and not mon:
        i = sorted(corr, key=lambda i: E.payload_size(base[i].payload))[0]
        d = base[i].describe()
        d.update({"kind": "correspondence broken: Messages.v vs errors/json.rs, errors/query_params.rs", "theorem_or_correspondence": "corr_c14",
                  "json_error": jobs[i]["res"], "query_param_error": qobs[i]["res"]})
        ctx.violation("corr-%d" % i, d, no_input=True)
    kinds = {}
    for o in robs:
        for c in o["trace"]:
            if c["c"] in ("error", "mergeu"):
                k = c["kind"]["k"] if c["c"] == "error" else "user"
                depth = len(c["loc"])
                kinds["%s@%s" % (k, "root" if depth == 0 else "depth%d" % min(depth, 3))] = kinds.get("%s@%s" % (k, "root" if depth == 0 else "depth%d" % min(depth, 3)), 0) + 1
                break
    ctx.coverage.update({
        "evaluations": 3 * len(base), "distinct_nontrivial": E.nontrivial(base, robs),
        "rule": "every catalogue type that is generic in the error type x (mutated valid payloads + root-level faults), each run three times: recording error type (keep-going), "
                "JsonError, QueryParamError; messages compared character by character with Messages.v; non-trivial = distinct (type,payload) that reports something or returns Ok",
        "first_report_kind_by_depth": kinds,
        "samples": [dict(base[i].describe(), json_error=jobs[i]["res"], query_param_error=qobs[i]["res"]) for i in (3, len(base) // 2)],
        "correspondence_disagreements": corr.total, "monitor_failures": mon.total,
    })
    ctx.assumptions += ["the text of a float (serde_json / Display) is an oracle supplied with the case, not modelled", "strsim / did_you_mean as in C18"]
