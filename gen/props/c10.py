"""C10 - enum dispatch: the tag or string selects exactly the named variant."""
import copy
from .. import common as C
from .. import engine as E
from .. import catalogue as K
from .. import speccheck as S

THEOREMS = ["c10_unit_string", "c10_unit_match", "c10_unit_no_match", "c10_unit_non_string", "c10_tag_absent", "c10_tag_non_string", "c10_tag_names_no_variant", "c10_tag_selects", "c10_variant_first_exact", "c10_variant_names", "c10_lowercase_ascii"]


def run(ctx, H):
    ents = [e for e in H.entries if e.ty[0] == "item" and e.ty[1].kind == "enum"]
    reps = 3 if ctx.tier == "quick" else 15
    cases = []
    for e in ents:
        it = e.ty[1]
        tag = it.get("tag")
        names = [K.variant_key(it, v) for v in it.variants]
        idents = [v.ident for v in it.variants]
        cand = set(names) | set(idents)
        for n in list(cand):
            cand |= {n.lower(), n.upper(), n.capitalize(), n + " ", " " + n, n[:-1], n + "x", K.py_camel(n), K.near_miss(n, ctx.rng)}
        cand |= {"", "type", "null"}
        nonstr = [None, True, {"i": "0"}, {"n": "-1"}, {"f": "3ff0000000000000"}, [], ["A"], {"m": []}, {"m": [["A", None]]}]
        for _ in range(reps):
            for name in sorted(cand):
                if tag is None:
                    p = name
                else:
                    # fields of the variant whose name is closest (or the first one)
                    v = it.variants[names.index(name)] if name in names else ctx.rng.choice(it.variants)
                    ms = K.gen_fields_valid(v.fields or [], K.variant_ra(v), ctx.rng, 0)
                    if ctx.rng.random() < 0.25:
                        # fields of ANOTHER variant: the tag alone must decide
                        w = ctx.rng.choice(it.variants)
                        ms = K.gen_fields_valid(w.fields or [], K.variant_ra(w), ctx.rng, 0)
                    ms.insert(ctx.rng.randint(0, len(ms)), [tag[1], name])
                    p = {"m": ms}
                sc, d, kind = S.script_mix(ctx, 0.7)
                cases.append(E.Case(e, p, "json" if K.is_json_doc(p) and ctx.rng.random() < 0.3 else "ov", sc, d, kind, 0))
            for x in nonstr:
                if tag is None:
                    p = copy.deepcopy(x)
                else:
                    v = ctx.rng.choice(it.variants)
                    ms = K.gen_fields_valid(v.fields or [], K.variant_ra(v), ctx.rng, 0)
                    ms.insert(ctx.rng.randint(0, len(ms)), [tag[1], copy.deepcopy(x)])
                    p = {"m": ms}
                sc, d, kind = S.script_mix(ctx, 0.7)
                cases.append(E.Case(e, p, "ov", sc, d, kind, 1))
            if tag is not None:
                v = ctx.rng.choice(it.variants)
                ms = K.gen_fields_valid(v.fields or [], K.variant_ra(v), ctx.rng, 0)      # missing tag
                cases.append(E.Case(e, {"m": ms}, "ov", [], True, "cont", 1))
                ms2 = [[tag[1].upper(), names[0]]] + ms                                   # tag key in the wrong case
                cases.append(E.Case(e, {"m": ms2}, "ov", [], True, "cont", 1))
                cases.append(E.Case(e, {"m": [[tag[1], names[0]], [tag[1], names[-1]]] + ms}, "ov", [], True, "cont", 0))   # duplicate tag (second source only)
    S.run_spec_check(ctx, H, "c10", cases, [("mon_c04", "a report whose location / content is not true of the payload (e.g. tag kind error not at the tag's own location)")],
                     "every enum of the catalogue (unit-only and tagged, renamed variants, rename_all, 1..n variants, variants sharing field names with different types) x "
                     "{every variant name and identifier, case variations, near-misses, empty string, non-string tags of every kind, missing tag, tag key in the wrong case, "
                     "duplicate tag, fields of another variant}")
