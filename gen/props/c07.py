"""C07 - derived fields are read from exactly their effective key."""
import copy
from .. import common as C
from .. import engine as E
from .. import catalogue as K
from .. import tys as T
from .. import speccheck as S

THEOREMS = ["c07_pairing", "c07_variant_scope", "c07_effective_key", "c07_field_filled_from_own_key", "c07_own_member_result", "c07_member_fills_first_claimant", "c07_claimed_key_fills"]


def plausible_keys(it):
    keys = set()
    for f in it.all_fields():
        i = f.ident
        keys |= {i, K.py_camel(i), i.lower(), i.upper(), i.replace("_", ""), "_" + i, i.capitalize(), K.near_miss(i, __import__("random").Random(i))}
        rn = f.get("rename")
        if rn:
            keys |= {rn[1], rn[1].upper(), rn[1].lower(), rn[1] + " "}
    return sorted(keys)


def key_payloads(it, rng, n):
    """objects over the union of plausible keys of the item (any subset, any order)"""
    out = []
    keys = plausible_keys(it) or ["x"]
    fields = it.all_fields()
    for _ in range(n):
        base = K.gen_item_valid(it, rng, 0)
        if not (isinstance(base, dict) and "m" in base):
            out.append(base)
            continue
        ms = [list(m) for m in base["m"]]
        for _ in range(rng.choice([0, 1, 1, 2, 3])):
            op = rng.choice(["rekey", "add", "drop"])
            if op == "rekey" and ms:
                ms[rng.randrange(len(ms))][0] = rng.choice(keys)
            elif op == "add":
                f = rng.choice(fields) if fields else None
                v = K.gen_valid(f.deser_ty(), rng, 1) if f and rng.random() < 0.7 else copy.deepcopy(rng.choice(K.WRONG))
                ms.insert(rng.randint(0, len(ms)), [rng.choice(keys), v])
            elif op == "drop" and ms:
                del ms[rng.randrange(len(ms))]
        seen, uniq = set(), []
        for k, v in ms:
            if k not in seen:
                seen.add(k)
                uniq.append([k, v])
        out.append({"m": uniq})
    return out


def run(ctx, H):
    ents = [e for e in H.entries if e.ty[0] == "item" and e.ty[1].kind in ("struct", "enum")]
    per = 14 if ctx.tier == "quick" else 80
    cases = []
    for e in ents:
        for p in key_payloads(e.ty[1], ctx.rng, per):
            sc, d, kind = S.script_mix(ctx, 0.8)
            cases.append(E.Case(e, p, "json" if K.is_json_doc(p) and ctx.rng.random() < 0.3 else "ov", sc, d, kind, 0))
    S.run_spec_check(ctx, H, "c07", cases, [],
                     "every derived struct / enum of the catalogue (hand-written + random derive inputs: identifier shapes with digits, leading/trailing/double underscores, "
                     "acronyms, PascalCase variants; rename / rename_all at container and variant level mixed with skip/default/from in any order) x objects over the union of "
                     "plausible keys (identifier, camelCase, lowercase, UPPER, renamed, near-misses, wrong case)")
