"""C18 - did-you-mean suggests only a closest accepted name within the typo budget."""
from .. import common as C

THEOREMS = ["c18_budget", "c18_empty_short", "c18_empty_iff", "c18_suggests_closest_earliest"]
ALPHA = "abc"


def words(maxlen):
    out, cur = [""], [""]
    for _ in range(maxlen):
        cur = [w + c for w in cur for c in ALPHA]
        out += cur
    return out


def rand_word(rng, nbytes):
    pool = ["a", "b", "c", "d", "e", "x", "y", "z", "_", "é", "ß", "€", "😀", "A", "B", "1"]
    s = ""
    while len(s.encode()) < nbytes:
        s += rng.choice(pool)
    return s


def mutate(rng, w):
    cs = list(w)
    for _ in range(rng.choice([0, 1, 1, 2, 2, 3, 4, 6])):
        op = rng.choice("idstxyc")
        pos = rng.randrange(len(cs) + 1)
        if op == "i":
            cs.insert(pos, rng.choice("abcxyzé"))
        elif op == "d" and cs:
            del cs[min(pos, len(cs) - 1)]
        elif op == "s" and cs:
            cs[min(pos, len(cs) - 1)] = rng.choice("abcxyzé")
        elif op == "t" and len(cs) >= 2:
            p = min(pos, len(cs) - 2)
            cs[p], cs[p + 1] = cs[p + 1], cs[p]
        elif op == "c" and cs:
            # the same letter in the other case (distance 1 like any substitution, 0 for a case-insensitive comparison)
            q = min(pos, len(cs) - 1)
            cs[q] = cs[q].swapcase() if cs[q].swapcase() != cs[q] and len(cs[q].swapcase()) == 1 else "Q"
        elif op == "x" and len(cs) >= 2:
            # two letters swapped with a stray letter typed between them: distance 2 for the unrestricted
            # Damerau-Levenshtein distance, 3 for the optimal-string-alignment variant
            p = min(pos, len(cs) - 2)
            cs[p:p + 2] = [cs[p + 1], rng.choice("abcxyzé"), cs[p]]
        elif op == "y" and len(cs) >= 3:
            # the same the other way round: the letter between two swapped letters dropped
            p = min(pos, len(cs) - 3)
            cs[p:p + 3] = [cs[p + 2], cs[p]]
    return "".join(cs)


def run(ctx, H):
    maxlen = 5 if ctx.tier == "quick" else 6
    ws = words(maxlen)
    n = len(ws)
    sweep = C.run_harness(H.binary, [{"mode": "dym_sweep", "alphabet": ALPHA, "maxlen": maxlen}], shards=1)[0]
    bits = sweep["bits"]
    assert sweep["n"] == n and len(bits) == n * n
    for pos, ch in enumerate(bits):
        if ch == "?":
            r, a = ws[pos // n], ws[pos % n]
            out = C.run_harness(H.binary, [{"mode": "dym", "received": r, "accepted": [a]}], shards=1)[0]["dym"]
            ctx.violation("alien-%d" % pos, {"kind": "suggestion is neither empty nor names the accepted string",
                                             "received": r, "accepted": [a], "impl": out})
            break
    masks = []
    for i in range(n):
        row = bits[i * n:(i + 1) * n]
        masks.append(sum(1 << j for j, ch in enumerate(row) if ch == "1"))
    # multi-candidate explicit cases
    nrand = 400 if ctx.tier == "quick" else 6000
    explicit = []
    for _ in range(nrand):
        nb = ctx.rng.choice([0, 2, 3, 4, 5, 7, 8, 9, 12, 13, 14, 17, 18, 19, 24, 25, 26, 30])
        base = rand_word(ctx.rng, nb)
        k = ctx.rng.choice([0, 1, 2, 3, 5, 8])
        acc = [mutate(ctx.rng, base) for _ in range(k)]
        if acc and ctx.rng.random() < 0.3:
            acc.insert(ctx.rng.randrange(len(acc) + 1), base)            # exact match somewhere
        if acc and ctx.rng.random() < 0.4:
            acc.insert(ctx.rng.randrange(len(acc) + 1), ctx.rng.choice(acc))  # ties / duplicates
        if ctx.rng.random() < 0.2:
            acc.append(rand_word(ctx.rng, ctx.rng.choice([1, 5, 20])))
        explicit.append((base, acc))
    # every class boundary of the typo budget, at the distances just inside and just outside the budget: a received string of
    # exactly L bytes and a candidate at Damerau-Levenshtein distance exactly d (d substitutions by a letter used nowhere else)
    budget = lambda n: None if n <= 3 else 1 if n <= 7 else 2 if n <= 12 else 3 if n <= 17 else 4 if n <= 24 else 5
    letters = "abcdefghijklmnopqrstuvwxyz0123456789"
    for L in (3, 4, 5, 7, 8, 9, 12, 13, 14, 17, 18, 19, 23, 24, 25, 26, 40):
        base = letters[:L] if L <= len(letters) else (letters + letters.upper())[:L]
        b = budget(L) or 0
        for d in sorted({1, b, b + 1, b + 2} - {0}):
            if d > L:
                continue
            pos = ctx.rng.sample(range(L), d)
            cand = "".join("_" if i in pos else ch for i, ch in enumerate(base))
            explicit.append((base, [cand]))
            explicit.append((base, ["zzzzzzzzzzzz", cand, base[::-1]]))
            # the same budget class reached with multi-byte characters: the byte length decides the class
            mb = "\u00e9" * (L // 2) + ("x" if L % 2 else "")
            if d <= len(mb):
                posm = ctx.rng.sample(range(len(mb)), d)
                explicit.append((mb, ["".join("_" if i in posm else ch for i, ch in enumerate(mb))]))
    # ties decided by nothing but the position in the list: candidates at the same distance that differ from the received
    # string by case, by a separator, by their first letter, by their length
    for r, cands in (("nAme", ["nome", "name"]), ("nAme", ["name", "nome"]), ("PrimaryKey", ["primaryKeys", "primarykey"]), ("user_name", ["user-name", "username", "user_nam"]),
                     ("username", ["user_name", "usernam", "usernames"]), ("abcdefgh", ["xbcdefgh", "abcdefgx", "abcdefg", "abcdefghi"]), ("abcdefgh", ["abcdefghi", "abcdefg", "abcdefgx", "xbcdefgh"]),
                     ("Abcd", ["abcd", "Abce", "Bbcd"]), ("abcd", ["Abcd", "abce", "bbcd"]), ("maxTotalHits", ["maxtotalhits", "maxTotalHit", "MaxTotalHits"])):
        explicit.append((r, cands))
        explicit.append((r, list(reversed(cands))))
    eobs = C.run_harness(H.binary, [{"mode": "dym", "received": r, "accepted": acc} for r, acc in explicit])
    erows = ["(%d, (%s, %s, %s))" % (i, C.cstr(r), C.clist([C.cstr(a) for a in acc]), C.cstr(o["dym"]))
             for i, ((r, acc), o) in enumerate(zip(explicit, eobs))]
    shards = C.NPROC
    files = []
    alpha = C.clist(['"%s"%%char' % c for c in ALPHA])
    for s in range(shards):
        rows = ["(%d, (%d, %d))" % (i, i, masks[i]) for i in range(s, n, shards)]
        ex = erows[s::shards]
        text = (C.CASE_HEADER % "Utf8 DidYouMean" + "From Deserr.checks Require Import K18.\n"
                + "Definition ws := Eval vm_compute in words %s %d.\n" % (alpha, maxlen)
                + C.cbigdef("rows", "N * (N * N)", rows)
                + C.cbigdef("cases", "N * (string * list string * string)", ex)
                + C.evals(["bad_ids (row_ok model_bit ws) rows", "bad_ids (row_ok spec_bit ws) rows",
                           "bad_ids c18_corr cases", "bad_ids c18_mon cases"]))
        files.append(("c18_%d_%d" % (ctx.seed, s), text))
    outs = C.run_coq_files(files)
    tot = [C.BadList() for _ in range(4)]
    for name, (rc, out) in outs.items():
        if rc != 0:
            raise C.Broken("coqc failed on %s:\n%s" % (name, out[-3000:]))
        for k, b in enumerate(C.parse_idlists(out, 4)):
            tot[k] = tot[k] + b
    row_corr, row_mon, ex_corr, ex_mon = tot
    # pinpoint failing pairs of the sweep (second round, only on failure)
    bad_rows = sorted(set(row_mon) | set(row_corr))[:3]
    pin = []
    if bad_rows:
        prow = []
        for ri in bad_rows:
            for ci in range(n):
                prow.append("(%d, (%d, %d, %s))" % (ri * n + ci, ri, ci, C.cbool(bits[ri * n + ci] == "1")))
        text = (C.CASE_HEADER % "Utf8 DidYouMean" + "From Deserr.checks Require Import K18.\n"
                + "Definition ws := Eval vm_compute in words %s %d.\n" % (alpha, maxlen)
                + C.cbigdef("pairs", "N * (N * N * bool)", prow)
                + C.evals(["bad_ids (pair_ok spec_bit ws) pairs", "bad_ids (pair_ok model_bit ws) pairs"]))
        rc, out = C.run_coq_files([("c18_pin_%d" % ctx.seed, text)])["c18_pin_%d" % ctx.seed]
        if rc != 0:
            raise C.Broken("coqc failed on pinpoint:\n" + out[-3000:])
        pmon, pcorr = C.parse_idlists(out, 2)
        for pos in pmon[:5]:
            r, a = ws[pos // n], ws[pos % n]
            out1 = C.run_harness(H.binary, [{"mode": "dym", "received": r, "accepted": [a]}], shards=1)[0]["dym"]
            ctx.violation("sweep-mon-%d" % pos, {"kind": "suggestion disagrees with the budget rule (spec_bit: len>3 and DL distance <= budget)",
                                                 "received": r, "accepted": [a], "impl": out1})
        pin = list(pmon) + list(pcorr)
    for i in ex_mon[:5]:
        ctx.violation("mon-%d" % i, {"kind": "suggestion is not the earliest closest accepted string within the budget (spec_dym)",
                                     "received": explicit[i][0], "accepted": explicit[i][1], "impl": eobs[i]["dym"]})
    if (row_corr or ex_corr) and not ctx.violations:
        ctx.violation("corr", {"kind": "correspondence broken: DidYouMean.did_you_mean vs errors::helpers::did_you_mean",
                               "theorem_or_correspondence": "row_ok model_bit / c18_corr",
                               "rows": [ws[i] for i in row_corr[:5]], "cases": [explicit[i] for i in ex_corr[:5]]},
                      no_input=True)
    ones = bits.count("1")
    ctx.coverage.update({
        "evaluations": n * n + len(explicit),
        "distinct_nontrivial": sum(1 for w in ws if len(w) > 3) * n + len({(r, tuple(a)) for r, a in explicit if len(r.encode()) > 3 and a}),
        "exhaustive": True,
        "rule": "every (received, single candidate) pair over alphabet 'abc' up to length %d (%d words, %d pairs; enumerated by the harness and "
                "independently by Coq) plus %d random multi-candidate lists (ties, exact matches, empty list, multi-byte, lengths around every "
                "budget threshold); non-trivial = received string longer than 3 bytes (a suggestion is possible)" % (maxlen, n, n * n, len(explicit)),
        "sweep_pairs_with_suggestion": ones,
        "explicit_with_suggestion": sum(1 for o in eobs if o["dym"]),
        "samples": [{"received": explicit[k][0], "accepted": explicit[k][1], "impl": eobs[k]["dym"]} for k in (0, 1, 2)],
        "correspondence_disagreements": row_corr.total + ex_corr.total,
        "monitor_failures": row_mon.total + ex_mon.total,
    })
    ctx.assumptions += ["strsim::damerau_levenshtein is modelled (DidYouMean.dl, Lowrance-Wagner recurrence) and tied by this correspondence, not verified",
                        "theorems are stated for an arbitrary distance function"]
