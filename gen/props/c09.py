"""C09 - unknown keys: denied exactly and completely, otherwise ignored completely."""
import copy
from .. import common as C
from .. import engine as E
from .. import catalogue as K
from .. import tys as T
from .. import speccheck as S

THEOREMS = ["c09_ignored", "c09_denied_step", "c09_unknown_member_result", "c09_accepted_keys"]


def has_deny_anywhere(t):
    return any(it.get("deny") for it in T.items_in(t))


def run(ctx, H):
    ents = [e for e in H.entries if e.ty[0] == "item" and e.ty[1].kind in ("struct", "enum") and not (e.ty[1].get("from") or e.ty[1].get("try_from"))]
    per = 10 if ctx.tier == "quick" else 60
    cases, pairs = [], []
    for e in ents:
        it = e.ty[1]
        extra_pool = ["extra", "zzz", "", "0", "Type", "x y", "$schema", "_comment", "_id", "$ref", "@type", "#"] + [f.ident for f in it.all_fields() if f.skipped()]
        for _ in range(per):
            base = K.gen_item_valid(it, ctx.rng, 0)
            if not (isinstance(base, dict) and "m" in base):
                continue
            if ctx.rng.random() < 0.3:
                base = K.mutate_once(base, ctx.rng)
                if not (isinstance(base, dict) and "m" in base):
                    continue
            have = {k for k, _ in base["m"]}
            ext = copy.deepcopy(base)
            known = [k for k, _ in base["m"]]
            pool = extra_pool + [K.near_miss(k, ctx.rng) for k in known]
            added = 0
            for _ in range(ctx.rng.choice([1, 1, 2, 3])):
                k = ctx.rng.choice(pool)
                if k in have or k in {kk for kk, _ in ext["m"]}:
                    continue
                # the added key must be unknown to the (selected variant of the) type: checked by comparing the keep-going runs below
                ext["m"].insert(ctx.rng.randint(0, len(ext["m"])), [k, copy.deepcopy(ctx.rng.choice(K.WRONG))])
                added += 1
            if not added:
                continue
            sc, d, kind = S.script_mix(ctx, 0.6)
            c1 = E.Case(e, base, "ov", sc, d, kind, 0)
            c2 = E.Case(e, ext, "ov", sc, d, kind, added)
            cases.append(c2)
            if not it.get("deny"):
                pairs.append((c1, c2, [kk for kk, _ in ext["m"] if kk not in have]))
    # many unknown members (size-dependent code paths: counts around small multiples of the number of fields), next to
    # several faulty known members in an order that is neither the declaration order nor sorted
    for e in ents:
        it = e.ty[1]
        for rep in range(1 if ctx.tier == "quick" else 4):
            base = K.gen_item_valid(it, ctx.rng, 0)
            if not (isinstance(base, dict) and "m" in base) or not base["m"]:
                continue
            tagk = it.get("tag")[1] if it.get("tag") else None
            idx = [i for i, (k, _) in enumerate(base["m"]) if k != tagk]
            for i in ctx.rng.sample(idx, min(len(idx), ctx.rng.choice([2, 2, 3]))):
                base["m"][i][1] = copy.deepcopy(ctx.rng.choice(K.WRONG))
            base["m"].reverse()
            n = max(1, len(idx))
            have = {k for k, _ in base["m"]}
            for cnt in sorted({n, 3 * n, 4 * n, 4 * n + 1, 4 * n + 2, 5 * n + 3, 8 * n + 1, 40}):
                if ctx.tier == "quick" and ctx.rng.random() < 0.4:
                    continue
                ext = copy.deepcopy(base)
                for j in range(cnt):
                    ext["m"].insert(ctx.rng.randint(0, len(ext["m"])), ["unk_%02d" % j, copy.deepcopy(ctx.rng.choice(K.WRONG))])
                sc, d, kind = S.script_mix(ctx, 0.6)
                c1 = E.Case(e, base, "ov", sc, d, kind, 0)
                c2 = E.Case(e, ext, "json" if K.is_json_doc(ext) and ctx.rng.random() < 0.3 else "ov", sc, d, kind, cnt)
                if c2.src == "json":
                    c1 = E.Case(e, base, "json", sc, d, kind, 0)
                cases.append(c2)
                if not it.get("deny"):
                    pairs.append((c1, c2, [kk for kk, _ in ext["m"] if kk not in have]))
    obs, bads = S.run_spec_check(ctx, H, "c09", cases, [("mon_c04", "an UnknownKey report that is not true of the payload (key absent, or listed among the accepted keys)")],
                                 "every derived struct / tagged enum with and without deny_unknown_fields (default and custom function, skipped/renamed fields) x payloads extended with "
                                 "extra keys incl. near-misses of real keys and the names of skipped fields; plus payloads with n .. 8n+1 and 40 unknown members (n = number of fields present) next to two or three faulty fields")
    # "ignored completely": without the attribute the run with the extra keys is identical to the run without them,
    # provided the extra keys really are unknown to the type (they are not effective keys of the container examined)
    plain = []
    for c1, c2, added in pairs:
        it = c1.entry.ty[1]
        keys = set()
        if it.kind == "struct":
            keys = {k for _, k in K.field_keys(it.fields, K.item_ra(it))}
        else:
            tag = it.get("tag")
            keys = {tag[1]} if tag else set()
            for v in it.variants:
                keys |= {k for _, k in K.field_keys(v.fields or [], K.variant_ra(v))}
        if not (set(added) & keys):
            plain.append((c1, c2))
    o1 = E.run_cases(H, [p[0] for p in plain])
    o2 = E.run_cases(H, [p[1] for p in plain])
    pb = E.decide_pairs(ctx, H, "c09ign", plain, list(zip(o1, o2)), "corr_pair",
                        [("mon_c09_ignored", "without deny_unknown_fields, adding unknown keys changed the value or the reports")],
                        "corr_pair", extra_imports="KMon KSpec")
    ctx.coverage["ignored_pairs"] = len(plain)
    ctx.coverage["evaluations"] += 2 * len(plain)
    ctx.coverage["monitor_failures"] += pb[1].total
    ctx.coverage["correspondence_disagreements"] += pb[0].total
