"""Development aid (not a registered check): full-observation correspondence over the catalogue."""
from .. import common as C
from .. import engine as E

THEOREMS = []


def run(ctx, H):
    per = 12 if ctx.tier == "quick" else 60
    cases = E.make_cases(ctx, H, per)
    obs = E.run_cases(H, cases)
    (bad,) = E.coq_check(ctx, "full", cases, obs, ["corr_full"])
    print("cases", len(cases), "bad", bad.total)
    by_type = {}
    for i in bad:
        by_type.setdefault(cases[i].entry.rust(), []).append(i)
    for t, ids in list(by_type.items())[:12]:
        i = ids[0]
        print("==", t, len(ids))
        print("  payload", C.json.dumps(cases[i].payload), cases[i].src, cases[i].script, cases[i].default)
        print("  impl", C.json.dumps(obs[i])[:1500])
    ctx.coverage.update({"evaluations": len(cases), "distinct_nontrivial": E.nontrivial(cases, obs), "dist": E.distribution(cases, obs)})
