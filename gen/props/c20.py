"""C20 - HTTP extractors add nothing and lose nothing."""
import json
import os
import urllib.parse
from .. import common as C
from .. import engine as E
from .. import catalogue as K
from .. import tys as T
from . import c14

THEOREMS = ["c20_iff", "c20_framework_rejection", "c20_carries", "c20_rejected_cases"]
HTTP = os.path.join(C.VERIF, "harness_http")
TARGET_HTTP = os.path.join(C.CACHE, "target_http")


def build_http(entries):
    sel = [e for e in entries if not e.rec_only and ("hand" in e.tags or e.tid % 9 == 0)][:40]
    items = []
    for e in sel:
        for it in e.items:
            if it not in items:
                items.append(it)
    src = ["#![allow(non_snake_case, non_camel_case_types, dead_code, unused_imports)]", "use crate::out::ToOut;", "use crate::Req;",
           "use serde_json::{json, Value as J};", ""]
    for it in items:
        src.append(it.rust_src())
    arms = ["        %d => crate::run_http::<%s>(r)," % (e.tid, e.rust()) for e in sel]
    src.append("pub fn dispatch_http(tid: u32, r: &Req) -> J {\n    match tid {\n" + "\n".join(arms) + "\n        _ => json!({\"unknown_tid\": tid}),\n    }\n}\n")
    with C.Lock("cargo-http"):
        C.write_if_changed(os.path.join(HTTP, "Cargo.toml"), open(os.path.join(HTTP, "Cargo.toml.in")).read().replace("@REPO@", C.REPO))
        lock = os.path.join(HTTP, "Cargo.lock")
        if not os.path.exists(lock):
            open(lock, "w").write(open(os.path.join(C.REPO, "Cargo.lock")).read())
        C.write_if_changed(os.path.join(HTTP, "src", "generated.rs"), "\n".join(src))
        env = dict(C.ENV)
        env["CARGO_TARGET_DIR"] = TARGET_HTTP
        marker, hsh = C.ensure_fresh_repo_build(HTTP, TARGET_HTTP, env=env)
        rc, out = C.sh(["cargo", "build", "--offline", "--quiet"], cwd=HTTP, timeout=3000, env=env)
        if rc != 0:
            open(lock, "w").write(open(os.path.join(C.REPO, "Cargo.lock")).read())
            rc, out = C.sh(["cargo", "build", "--offline", "--quiet"], cwd=HTTP, timeout=3000, env=env)
        if rc != 0:
            if C.rustc_refused(out):
                raise C.HarnessBuildFailed("the HTTP harness crate (/verif/harness_http)", out)
            raise C.Broken("http harness does not build:\n" + out[-5000:])
        C.mark_fresh(marker, hsh)
    return os.path.join(TARGET_HTTP, "debug", "verif-http"), sel


def to_json_text(p):
    """JSON text of a payload that is a JSON document"""
    if isinstance(p, list):
        return "[" + ",".join(to_json_text(x) for x in p) + "]"
    if isinstance(p, dict):
        if "m" in p:
            return "{" + ",".join(json.dumps(k) + ":" + to_json_text(v) for k, v in p["m"]) + "}"
        if "i" in p:
            return p["i"]
        if "n" in p:
            return p["n"]
        if "f" in p:
            import struct
            return repr(struct.unpack("<d", struct.pack("<Q", int(p["f"], 16)))[0])
    return json.dumps(p)


def query_of(p, rng):
    if isinstance(p, dict) and "m" in p:
        parts = []
        for k, v in p["m"]:
            if isinstance(v, str):
                s = v
            elif isinstance(v, dict) and ("i" in v or "n" in v):
                s = v.get("i", v.get("n"))
            elif isinstance(v, bool):
                s = "true" if v else "false"
            elif isinstance(v, list):
                s = ",".join(str(x.get("i", "x")) if isinstance(x, dict) else "y" for x in v)
            else:
                s = ""
            parts.append(urllib.parse.quote(k) + "=" + urllib.parse.quote(s))
        q = "&".join(parts)
        r = rng.random()
        if r < 0.08 and parts:
            # characters that are data inside a query string although they look like delimiters: a literal '?', '#'-less, '+', ';'
            i = rng.randrange(len(parts))
            parts[i] = parts[i] + rng.choice(["?", "?x=1", "+b", ";c=2", "%3F"])
            q = "&".join(parts)
        elif r < 0.12:
            q = rng.choice(["?", "?" + q, q + "?", q.replace("&", "?", 1)])
        return q
    return rng.choice(["", "a=1", "x", "a=1&a=2", "%zz=1", "a[]=1", "=3", "a=b=c", "&&", "?a=1", "a=1?b=2", "a=what?&b=1", "??"])


def cfw(o):
    if "rej" in o:
        return "(FwRej %d %s)" % (o["rej"]["status"], C.cstr(o["rej"]["body"]))
    return "(FwDoc %s)" % T.cvalue_canon(o["doc"])


def cex(o):
    if "rej" in o:
        return "(Rejected %d %s)" % (o["rej"]["status"], C.cstr(o["rej"]["body"]))
    return "(Extracted %s)" % T.cout(o["ok"])


def run(ctx, H):
    binary, sel = build_http(H.entries)
    per = 10 if ctx.tier == "quick" else 60
    reqs, meta = [], []
    for e in sel:
        for p, k in K.gen_payloads(e, ctx.rng, per):
            if not K.is_json_doc(p):
                continue
            body = to_json_text(p)
            r = ctx.rng.random()
            ct = "application/json"
            if r < 0.12:
                body = ctx.rng.choice([body[:-1], body + "]", "", "{", "nul", body.replace(":", "=", 1), "\ufeff" + body, "[1,]"])   # malformed
            elif r < 0.30:
                ct = ctx.rng.choice([None, "text/plain", "application/x-www-form-urlencoded", "application/jsonx", "application/json; charset=utf-8", "application/vnd.api+json",
                                     # suffix types with parameters, case, spacing, and headers the mime crate refuses to parse
                                     "application/ld+json; charset=utf-8", "application/problem+json;charset=utf-8", "APPLICATION/JSON", "Application/Vnd.Api+Json ; q=1",
                                     "application/json;charset=UTF-8;x=y", "application/+json", "application/json;;", " application/json", "application/json ", "text/json",
                                     "application/x+json+xml", "application/json+x", "json", "application/", "*/*", "application/*+json", "multipart/form-data; boundary=x"])
            cfg = None
            if ctx.rng.random() < 0.3:
                # an application-level web::JsonConfig (payload limit, accepted content type, optional content type, custom error handler)
                cfg = ctx.rng.choice(["limit16", "text_plain", "ct_optional", "handler409"])
                if cfg == "text_plain" and ctx.rng.random() < 0.6:
                    ct = "text/plain"
                if cfg == "ct_optional" and ctx.rng.random() < 0.6:
                    ct = None
            reqs.append({"tid": e.tid, "body": body, "content_type": ct, "query": query_of(p, ctx.rng), "cfg": cfg})
            meta.append(e)
    # a few requests whose rejection message is tens of kilobytes long, judged inside the harness (Coq parses such
    # literals too slowly): the body of the rejection must be exactly the message of deserialize on the same document
    bigreqs, bigmeta = [], []
    for e in sel[::5]:
        p = K.gen_valid(e.ty, ctx.rng)
        for big in ("x" * 20000, "\u20ac" * 7000, [{"i": str(i)} for i in range(4000)]):
            q = K.set_at(p, ctx.rng.choice(list(K.positions(p))), big)
            if K.is_json_doc(q):
                bigreqs.append({"tid": e.tid, "body": to_json_text(q), "content_type": "application/json", "query": "", "cfg": None, "big": True})
                bigmeta.append(e)
    bobs = C.run_harness(binary, bigreqs) if bigreqs else []
    nbig_err = 0
    for r, e, o in zip(bigreqs, bigmeta, bobs):
        if o.get("big") is True:
            nbig_err += 1 if o.get("direct_is_err") else 0
            if not (o.get("actix_same") and o.get("axum_same")):
                ctx.violation("big-%d" % len(ctx.violations), {"kind": "the rejection of a large failing document does not carry exactly the deserr error (status 400, body = message)",
                                                              "type": e.rust(), "request_body_bytes": len(r["body"]), "request_body_head": r["body"][:300], "impl": o})
        elif "panic" in o:
            ctx.violation("big-panic-%d" % len(ctx.violations), {"kind": "an extractor panicked on a large document", "type": e.rust(), "request_body_head": r["body"][:300]})
    ctx.coverage["large_message_requests"] = len(bigreqs)
    ctx.coverage["large_message_rejections"] = nbig_err
    obs = C.run_harness(binary, reqs)
    # float texts for the documents
    bits = set()
    for o in obs:
        for key in ("fw_actix", "fw_query", "fw_axum"):
            if "doc" in o.get(key, {}):
                c14.float_bits(o[key]["doc"], bits)
    bits = sorted(bits)
    ft = C.run_harness(H.binary, [{"mode": "ftext", "bits": bits}], shards=1)[0] if bits else {"json": []}
    ftl = C.clist(["(%d, %s)" % (T.canon64(int(b, 16)), C.cstr(t)) for b, t in zip(bits, ft["json"])])
    rows, what = [], []
    for i, (o, e) in enumerate(zip(obs, meta)):
        if "panic" in o:
            ctx.violation("panic-%d" % i, {"kind": "an extractor panicked", "request": reqs[i], "type": e.rust()})
            continue
        for fw, ex, name in (("fw_actix", "ex_actix", "actix-web AwebJson"), ("fw_query", "ex_query", "actix-web AwebQueryParameter::from_query"),
                             ("fw_query", "ex_query_req", "actix-web AwebQueryParameter (FromRequest)"), ("fw_axum", "ex_axum", "axum AxumJson"),
                             ("fw_actix", "ex_actix_c", "actix-web AwebJson with a user error type (own response 422)"),
                             ("fw_axum", "ex_axum_c", "axum AxumJson with a user error type (own response 422)"),
                             ("fw_actix", "ex_actix_c200", "actix-web AwebJson with a user error type answering 200"),
                             ("fw_axum", "ex_axum_c200", "axum AxumJson with a user error type answering 200")):
            custom = "(Some 422%N)" if ex.endswith("_c") else ("(Some 200%N)" if ex.endswith("_c200") else "None")
            rows.append("(%d, mkHC t_%d %s %s ftl %s)" % (len(rows), e.tid, cfw(o[fw]), cex(o[ex]), custom))
            what.append((i, name, fw, ex))
    shards = min(C.NPROC, max(1, len(rows) // 200))
    files = []
    for s in range(shards):
        idx = list(range(s, len(rows), shards))
        tids = sorted({meta[what[j][0]].tid for j in idx})
        ents = {e.tid: e for e in sel}
        defs = "".join("Definition t_%d : dres ty := Eval vm_compute in compile %s.\n" % (t, ents[t].coq()) for t in tids)
        text = (E.HEADER % "K14 K20" + "From Deserr Require Import Messages Http.\n" + "Definition ftl : list (N * string) := %s.\n" % ftl + defs
                + C.cbigdef("cases", "N * hcase", [rows[j] for j in idx], 300) + C.evals(["bad_ids corr_c20 cases", "bad_ids mon_c20 cases"]))
        files.append(("c20_%d_%d" % (ctx.seed, s), text))
    outs = C.run_coq_files(files)
    corr, mon = C.BadList(), C.BadList()
    for name, (rc, out) in outs.items():
        if rc != 0:
            raise C.Broken("coqc failed on %s:\n%s" % (name, out[-3000:]))
        a, b = C.parse_idlists(out, 2)
        corr, mon = corr + a, mon + b
    bad = list(mon) + [j for j in corr if j not in mon]
    for j in bad[:4]:
        i, name, fw, ex = what[j]
        ctx.violation("ex-%d" % j, {"kind": "%s: the extractor's outcome is not `framework outcome, then deserr::deserialize::<T,_,JsonError>` "
                                             "(value differs / deserr error not carried as 400 + message / framework rejection altered)" % name,
                                    "type": meta[i].rust(), "request": reqs[i], "framework": obs[i][fw], "extractor": obs[i][ex]})
    classes = {}
    for j, (i, name, fw, ex) in enumerate(what):
        k = name.split()[0] + ":" + ("fw-rejects" if "rej" in obs[i][fw] else ("ok" if "ok" in obs[i][ex] else "deserr-rejects"))
        classes[k] = classes.get(k, 0) + 1
    ctx.coverage.update({
        "evaluations": len(rows), "distinct_nontrivial": len({(r["tid"], r["body"], r["content_type"], r["query"], r["cfg"]) for r in reqs}),
        "rule": "%d catalogue types (all generic in the error type) x requests generated from mutated payloads: valid / ill-typed JSON bodies, malformed bodies, right / wrong / missing "
                "content types, with or without an application-level web::JsonConfig (payload limit, accepted content type, optional content type, custom error handler), query strings derived from the payload or malformed; six extractor runs per request (AwebJson, AwebQueryParameter::from_query and as FromRequest, AxumJson with JsonError; AwebJson and AxumJson again with a user error type whose own response is 422), "
                "AxumJson), each compared with the framework's own extractor on an identical request followed by the model of deserialize + JsonError; non-trivial = distinct request" % len(sel),
        "outcome_classes": classes,
        "samples": [dict(reqs[k], framework=obs[k]["fw_axum"], extractor=obs[k]["ex_axum"]) for k in (0, len(reqs) // 2)],
        "correspondence_disagreements": corr.total, "monitor_failures": mon.total,
    })
    ctx.assumptions += ["async polling (Pending/wake), body streaming and content-type negotiation happen inside actix-web / axum: the framework's own extractor on the same request is the oracle input",
                        "QueryParamError does not implement actix's ResponseError: the query extractor is driven with JsonError"]
