"""C13 - the serde_json bridge is lossless and self-consistent."""
import json
from .. import common as C
from .. import tys as T

THEOREMS = ["c13_deser_roundtrip", "c13_deser_same_document", "c13_from_roundtrip", "c13_kind_agrees", "c13_wf",
            "c13_class_nonneg", "c13_class_neg", "c13_class_float"]

INT_LITS = ["0", "-0", "1", "-1", "7", "42", "255", "256", "-128", "-129", "65535", "4294967295", "4294967296",
            "9007199254740991", "9007199254740992", "9007199254740993", "-9007199254740993",
            "9223372036854775807", "9223372036854775808", "9223372036854775809", "18446744073709551615",
            "18446744073709551616", "18446744073709551617", "-9223372036854775807", "-9223372036854775808",
            "-9223372036854775809", "-18446744073709551615", "123456789012345678901234567890", "-123456789012345678901234567890",
            "10000000000000000000", "99999999999999999999"]
FLOAT_LITS = ["0.0", "-0.0", "1.5", "-1.5", "1e0", "1E2", "1e-2", "0.1", "2.5e-324", "4.9e-324", "5e-324", "2.2250738585072014e-308",
              "2.2250738585072011e-308", "1.7976931348623157e308", "1e308", "1.0", "3.0", "123.0", "1e19", "1.8446744073709552e19",
              "0e0", "-0e0", "0.000", "9007199254740993.0", "1e-400", "12345678901234567890.5", "0.3", "2e-1"]
STR_LITS = ["", "a", "The", "best doggos", "é", "😀", "a\"b", "back\\slash", "new\nline", "tab\t", "\u0000x", "/"]
KEYS = ["a", "b", "The", "the", "doggos", "bernese", "", "0", "10", "2", "é", "z", "A", "key with space", "k\"q"]


def gen_doc(rng, depth=0):
    r = rng.random()
    if depth >= 4 or r < 0.45:
        k = rng.choice(["null", "bool", "int", "int", "float", "float", "str"])
        if k == "null": return ("null",)
        if k == "bool": return ("bool", rng.random() < 0.5)
        if k == "int":
            if rng.random() < 0.3:
                n = rng.choice([rng.randint(-2**64 - 5, 2**64 + 5), rng.randint(-70000, 70000), rng.randint(2**63 - 3, 2**63 + 3), -rng.randint(2**63 - 3, 2**63 + 3)])
                return ("int", str(n))
            return ("int", rng.choice(INT_LITS))
        if k == "float": return ("float", rng.choice(FLOAT_LITS))
        return ("str", rng.choice(STR_LITS))
    if r < 0.72:
        return ("arr", [gen_doc(rng, depth + 1) for _ in range(rng.choice([0, 1, 2, 3, 4]))])
    keys = rng.sample(KEYS, rng.choice([0, 1, 2, 3, 4]))
    return ("obj", [(k, gen_doc(rng, depth + 1)) for k in keys])


def exhaustive_small():
    """all documents built from 3 leaves with at most 2 levels of nesting and <= 2 children"""
    leaves = [("null",), ("int", "1"), ("int", "-1"), ("float", "1.5"), ("str", "s")]
    docs = list(leaves)
    lvl1 = []
    for a in leaves:
        lvl1.append(("arr", [a]))
        lvl1.append(("obj", [("k", a)]))
        for b in leaves:
            lvl1.append(("arr", [a, b]))
            lvl1.append(("obj", [("b", a), ("a", b)]))
    docs += [("arr", []), ("obj", [])] + lvl1
    for x in lvl1[::7]:
        docs.append(("arr", [x, ("arr", [])]))
        docs.append(("obj", [("z", x), ("m", ("obj", []))]))
    return docs


def text(d):
    k = d[0]
    if k == "null": return "null"
    if k == "bool": return "true" if d[1] else "false"
    if k in ("int", "float"): return d[1]
    if k == "str": return json.dumps(d[1])
    if k == "arr": return "[" + ",".join(text(x) for x in d[1]) + "]"
    return "{" + ",".join(json.dumps(key) + ":" + text(v) for key, v in d[1]) + "}"


class Mismatch(Exception):
    pass


def cdoc(d, view):
    """Coq jdoc term; float values (oracle) are read off the implementation's view at the same position"""
    k = d[0]
    if k == "null": return "DNull"
    if k == "bool": return "(DBool %s)" % C.cbool(d[1])
    if k == "str": return "(DStr %s)" % C.cstr(d[1])
    if k in ("int", "float"):
        bits = int(view["f"], 16) if isinstance(view, dict) and "f" in view else 0
        if k == "float":
            return "(DNum (LFloat %d))" % bits
        neg = d[1].startswith("-")
        return "(DNum (LInt %s %s %d))" % (C.cbool(neg), d[1].lstrip("-"), bits)
    if k == "arr":
        if not isinstance(view, list) or len(view) != len(d[1]):
            raise Mismatch()
        return "(DArr %s)" % C.clist([cdoc(x, v) for x, v in zip(d[1], view)])
    if not (isinstance(view, dict) and "m" in view):
        raise Mismatch()
    vm = dict((kk, vv) for kk, vv in view["m"])
    if set(vm) != set(kk for kk, _ in d[1]):
        raise Mismatch()
    return "(DObj %s)" % C.clist(["(%s, %s)" % (C.cstr(kk), cdoc(x, vm[kk])) for kk, x in d[1]])


def run(ctx, H):
    docs = exhaustive_small()
    n_exh = len(docs)
    docs += [("int", l) for l in INT_LITS] + [("float", l) for l in FLOAT_LITS] + [("str", s) for s in STR_LITS]
    nrand = 600 if ctx.tier == "quick" else 8000
    docs += [gen_doc(ctx.rng) for _ in range(nrand)]
    # long homogeneous runs broken by one element of another kind (vectorised or batched fast paths), and wide objects
    for n in (15, 16, 17, 63, 64, 65, 128, 129, 300):
        for run_kind, odd in ((("float", "0.5"), ("int", "0")), (("int", "7"), ("float", "7.0")), (("str", "s"), ("null",)), (("bool", True), ("int", "1"))):
            for pos in (1, n // 2, n - 1):
                elems = [run_kind] * n
                elems[pos] = odd
                docs.append(("arr", elems))
        docs.append(("obj", [("k%03d" % i, ("float", "1.5") if i != n // 2 else ("int", "1")) for i in range(n)]))
    obs = C.run_harness(H.binary, [{"mode": "json", "text": text(d)} for d in docs])
    rows = []
    kept = []
    for i, (d, o) in enumerate(zip(docs, obs)):
        if "parse_error" in o:
            # serde_json itself refuses the text (e.g. a number out of f64 range): not a document
            continue
        try:
            term = cdoc(d, o["view"])
        except Mismatch:
            ctx.violation("shape-%d" % i, {"kind": "the view of the document does not have the document's shape", "text": text(d), "impl": o})
            continue
        kept.append(i)
        rows.append("(%d, (%s, mkJO %s %s %s %d %s %s))" % (i, term, T.cvalue_canon(o["view"]), C.cbool(o["deser_same"]), C.cbool(o["deser_ov_same"]),
                                                           o["calls"], C.cbool(o["from_same"]), C.cbool(o["kinds_agree"])))
    shards = min(C.NPROC, max(1, len(rows) // 100))
    files = []
    for s in range(shards):
        textv = (C.CASE_HEADER % "Kinds Value Prog Deser Json" + "From Deserr.checks Require Import K13.\n"
                 + C.cbigdef("cases", "N * (jdoc * jobs)", rows[s::shards], 300)
                 + C.evals(["bad_ids corr_c13 cases", "bad_ids mon_c13 cases"]))
        files.append(("c13_%d_%d" % (ctx.seed, s), textv))
    outs = C.run_coq_files(files)
    corr, mon = C.BadList(), C.BadList()
    for name, (rc, out) in outs.items():
        if rc != 0:
            raise C.Broken("coqc failed on %s:\n%s" % (name, out[-3000:]))
        a, b = C.parse_idlists(out, 2)
        corr, mon = corr + a, mon + b
    for i in sorted(mon, key=lambda i: len(text(docs[i])))[:4]:
        ctx.violation("mon-%d" % i, {"kind": "serde_json bridge: wrong number class / a round trip changed the document / kind() disagrees / the error type was called",
                                     "text": text(docs[i]), "impl": obs[i]})
    if corr and not mon:
        i = sorted(corr)[0]
        ctx.violation("corr-%d" % i, {"kind": "correspondence broken: Json.v vs src/serde_json.rs", "theorem_or_correspondence": "corr_c13",
                                      "text": text(docs[i]), "impl": obs[i]}, no_input=True)
    # documents deeper than the text parser accepts (127), built programmatically: serde_json::Value has no depth limit
    deep = [{"mode": "json_deep", "kind": k, "depth": d} for k in ("arr", "obj", "mix") for d in ((126, 127, 128, 129, 200) if ctx.tier == "quick" else (126, 127, 128, 129, 200, 500, 1000))]
    dobs = C.run_harness(H.binary, deep, shards=1)
    for c, o in zip(deep, dobs):
        if not (o.get("deser_same") and o.get("from_same") and o.get("kinds_agree") and o.get("calls") == 0 and not o.get("panicked")):
            ctx.violation("deep-%s-%d" % (c["kind"], c["depth"]), {"kind": "serde_json bridge on a deeply nested document (built programmatically, depth beyond the text parser's limit): "
                                                                           "a round trip changed the document / failed / the error type was called", "document": c, "impl": o})
    ctx.coverage.update({
        "deep_documents": len(deep),
        "evaluations": len(docs) + len(deep), "distinct_nontrivial": len({text(docs[i]) for i in kept}),
        "rule": "JSON texts parsed by serde_json: %d small documents enumerated exhaustively (leaves null/1/-1/1.5/\"s\", <=2 children, <=2 levels), every "
                "boundary literal (0, -0, u64::MAX(+1), i64::MIN(-1), 2^53+-1, subnormals, exponents, huge integers), %d random nested documents, plus documents nested 126..200 (thorough: ..1000) levels deep built programmatically (arrays, objects, alternating); "
                "non-trivial = distinct text accepted by serde_json's parser" % (n_exh, nrand),
        "refused_by_parser": len(docs) - len(kept),
        "samples": [text(docs[3]), text(docs[n_exh + 5]), text(docs[-1])[:300]],
        "correspondence_disagreements": corr.total, "monitor_failures": mon.total,
    })
    ctx.assumptions += ["the f64 value of a literal with fraction/exponent or out of integer range is taken from serde_json (oracle); decimal->binary rounding is not modelled",
                        "serde_json is built without arbitrary_precision / preserve_order (as in /repo's Cargo.lock)"]
