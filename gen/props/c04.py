"""C04 - every report points at the real culprit: location and payload match the input."""
from .. import common as C
from .. import engine as E

THEOREMS = ["c04_calls_true", "c04_trace_true", "c04_merge_location", "c04_call_true"]


def run(ctx, H):
    if getattr(ctx, "replay_file", None):
        cases = E.replay(ctx, H, None, ctx.replay_file)
    else:
        per = 14 if ctx.tier == "quick" else 90
        cases = E.make_cases(ctx, H, per)
    obs = E.run_cases(H, cases)
    bads = E.decide(ctx, H, "c04", cases, obs, "corr_c04",
                    [("mon_c04", "a report whose location does not resolve in the payload or whose content is not true of the value found there, or a hand-over location that is not an ancestor of what is handed over")],
                    "corr_c04 (multiset of calls with kind, payload and location)")
    ctx.coverage.update({
        "evaluations": len(cases), "distinct_nontrivial": E.nontrivial(cases, obs),
        "rule": "every catalogue type (std + hand-written + random derive inputs) x payloads (valid instance with 0..3 mutations, plus shape-blind values) "
                "x value source (OV / serde_json) x script (all-Continue, all-Break, k-switch, random); non-trivial = distinct (type,payload,script) whose run "
                "calls the error type or returns Ok",
        "input_distribution": E.distribution(cases, obs),
        "samples": [cases[i].describe() for i in (0, len(cases) // 2, len(cases) - 1)],
        "correspondence_disagreements": bads[0].total, "monitor_failures": bads[1].total,
    })
