"""C01 - no reported error is ever lost: Ok only when nothing was reported."""
from .. import common as C
from .. import engine as E
from .. import stages as S2

THEOREMS = ["c01_ok_silent", "c01_linear", "c01_each_exactly_once"]


def run(ctx, H):
    if getattr(ctx, "replay_file", None):
        cases = E.replay(ctx, H, None, ctx.replay_file)
    else:
        per = 14 if ctx.tier == "quick" else 90
        cases = E.make_cases(ctx, H, per)
        cases += S2.staged_cases(ctx, H)
    obs = E.run_cases(H, cases)
    bads = E.decide(ctx, H, "c01", cases, obs, "corr_c01",
                    [("mon_c01", "Ok although the error type was asked to record something, or an error value dropped / used twice")],
                    "corr_c01 (result class, report ids, number of creating calls)")
    ctx.coverage.update({
        "evaluations": len(cases), "distinct_nontrivial": E.nontrivial(cases, obs),
        "rule": "every catalogue type (std + hand-written + random derive inputs) x payloads (valid instance with 0..3 mutations, plus shape-blind values) "
                "x value source (OV / serde_json) x script (all-Continue, all-Break, k-switch, random), plus staged cases (a from/try_from field reached with a value failing the conversion, a faulty sibling before / after it, "
                "under every one-flip script: all-Continue except call j, all-Break except call j, switch at k); non-trivial = distinct (type,payload,script) whose run "
                "calls the error type or returns Ok",
        "input_distribution": E.distribution(cases, obs),
        "samples": [cases[i].describe() for i in (0, len(cases) // 2, len(cases) - 1)],
        "correspondence_disagreements": bads[0].total, "monitor_failures": bads[1].total,
    })
