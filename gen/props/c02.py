"""C02 - keep-going error types receive every independent fault exactly once."""
from .. import common as C
from .. import engine as E
from .. import catalogue as K

THEOREMS = ["c02_refinement", "c02_final_error_holds_every_report", "c02_keep_going",
            "c02_elements_independent", "c02_map_entries_independent", "c02_fields_independent"]


def run(ctx, H):
    per = 14 if ctx.tier == "quick" else 90
    cases = []
    for e in H.entries:
        for p, k in K.gen_payloads(e, ctx.rng, per, max_faults=8):
            src = "json" if K.is_json_doc(p) and ctx.rng.random() < 0.4 else "ov"
            cases.append(E.Case(e, p, src, [], True, "cont", k))
    obs = E.run_cases(H, cases)
    bads = E.decide(ctx, H, "c02", cases, obs, "corr_full",
                    [("mon_c02", "under an always-Continue error type the result / the multiset of reports differs from the reference interpreter (Spec.spec): a fault was dropped, duplicated or hidden by another"),
                     ("model_vs_spec", "internal tie: interpreter model and declarative specification disagree on this input")],
                    "corr_full restricted to the all-Continue script", extra_imports="KMon KSpec")
    nfaults = {}
    for o in obs:
        n = sum(1 for c in o["trace"] if c["c"] in ("error", "mergeu"))
        nfaults[str(min(n, 8))] = nfaults.get(str(min(n, 8)), 0) + 1
    ctx.coverage.update({
        "evaluations": len(cases), "distinct_nontrivial": E.nontrivial(cases, obs),
        "rule": "every catalogue type (hand-written + random derive inputs + std containers) x payloads with 0..8 faults placed at random positions, all-Continue script, "
                "both value sources; judged against the declarative reference interpreter Spec.spec evaluated in Coq; non-trivial = distinct (type,payload) whose run reports "
                "something or returns Ok",
        "reports_per_run_histogram": nfaults,
        "input_distribution": E.distribution(cases, obs),
        "samples": [cases[i].describe() for i in (0, len(cases) // 2, len(cases) - 1)],
        "correspondence_disagreements": bads[0].total, "monitor_failures": bads[1].total, "model_vs_spec_failures": bads[2].total,
    })
