"""C15 - object member order never changes the outcome."""
import copy
import itertools
import re
from .. import common as C
from .. import engine as E
from .. import catalogue as K

THEOREMS = ["c15_spec_order_insensitive", "c15_deserialize_order_insensitive", "c15_wfv_preserved"]


def objects(p, path=()):
    if isinstance(p, list):
        for i, x in enumerate(p):
            yield from objects(x, path + (i,))
    elif isinstance(p, dict) and "m" in p:
        yield path
        for i, (k, x) in enumerate(p["m"]):
            yield from objects(x, path + (("m", i),))


def canonical_keys(p):
    """no two distinct keys that a key parser would map to the same parsed key (e.g. "1" and "+1")"""
    if isinstance(p, list):
        return all(canonical_keys(x) for x in p)
    if isinstance(p, dict) and "m" in p:
        return all(not re.match(r"^[+-]?0\d|^\+|^-0$", k) for k, _ in p["m"]) and all(canonical_keys(v) for _, v in p["m"])
    return True


def run(ctx, H):
    per = 6 if ctx.tier == "quick" else 40
    pairs = []
    for e in H.entries:
        for p, k in K.gen_payloads(e, ctx.rng, per):
            if K.has_dup_keys(p) or not canonical_keys(p):
                continue
            objs = [o for o in objects(p) if len(K.get_at(p, o)["m"]) >= 2]
            if not objs:
                continue
            path = ctx.rng.choice(objs)
            ms = K.get_at(p, path)["m"]
            perms = list(itertools.permutations(range(len(ms)))) if len(ms) <= 4 else [tuple(ctx.rng.sample(range(len(ms)), len(ms))) for _ in range(6)]
            perms = [q for q in perms if list(q) != list(range(len(ms)))]
            if ctx.tier == "quick" and len(perms) > 4:
                perms = ctx.rng.sample(perms, 4)
            for q in perms:
                p2 = K.set_at(p, path, {"m": [copy.deepcopy(ms[i]) for i in q]})
                if ctx.rng.random() < 0.3 and len(objs) > 1:
                    # a second object permuted as well
                    # (positions below the first permuted object have moved: only objects outside it)
                    outside = [o for o in objs if o[:len(path)] != path and path[:len(o)] != o]
                    if outside:
                        path2 = ctx.rng.choice(outside)
                        m2 = K.get_at(p2, path2)["m"]
                        p2 = K.set_at(p2, path2, {"m": list(reversed(copy.deepcopy(m2)))})
                pairs.append((E.Case(e, p, "ov", [], True, "cont", k), E.Case(e, p2, "ov", [], True, "cont", k)))
    o1 = E.run_cases(H, [p[0] for p in pairs])
    o2 = E.run_cases(H, [p[1] for p in pairs])
    pobs = list(zip(o1, o2))
    bads = E.decide_pairs(ctx, H, "c15", pairs, pobs, "corr_pair",
                          [("mon_c15", "permuting the members of an object changed the value produced or the multiset of reports received by a keep-going error type"),
                           ("spec_order_insensitive", "internal: the reference interpreter itself depends on member order for this input")],
                          "corr_pair (both runs match the model)", extra_imports="KMon KSpec")
    flat = [p[1] for p in pairs]
    ctx.coverage.update({
        "evaluations": 2 * len(pairs), "distinct_nontrivial": E.nontrivial(flat, o2),
        "rule": "every catalogue type x payloads (valid instances with 0..3 mutations, unique keys per object, key strings canonical for the key parser) x permutations of the members of "
                "one object at any depth (all permutations for <= 4 members, random beyond; sometimes a second object reversed), through the order-preserving value source, all-Continue "
                "script; non-trivial = distinct (type, permuted payload) whose run reports something or returns Ok",
        "pairs": len(pairs),
        "input_distribution": E.distribution(flat, o2),
        "samples": [{"type": pairs[i][0].entry.rust(), "payload": pairs[i][0].payload, "permuted": pairs[i][1].payload} for i in (0, len(pairs) // 2)],
        "correspondence_disagreements": bads[0].total, "monitor_failures": bads[1].total + bads[2].total,
    })
    ctx.assumptions += ["objects have unique keys and, for map targets, key strings that parse to distinct keys (\"1\" and \"+1\" both parse to 1: last-wins is order dependent by nature)"]
