"""C15 - object member order never changes the outcome."""
import copy
import itertools
import re
from .. import common as C
from .. import engine as E
from .. import catalogue as K

THEOREMS = ["c15_spec_order_insensitive", "c15_deserialize_order_insensitive", "c15_wfv_preserved"]


def objects(p, path=()):
    if isinstance(p, list):
        for i, x in enumerate(p):
            yield from objects(x, path + (i,))
    elif isinstance(p, dict) and "m" in p:
        yield path
        for i, (k, x) in enumerate(p["m"]):
            yield from objects(x, path + (("m", i),))


def canonical_keys(p):
    """no two distinct keys that a key parser would map to the same parsed key (e.g. "1" and "+1")"""
    if isinstance(p, list):
        return all(canonical_keys(x) for x in p)
    if isinstance(p, dict) and "m" in p:
        return all(not re.match(r"^[+-]?0\d|^\+|^-0$", k) for k, _ in p["m"]) and all(canonical_keys(v) for _, v in p["m"])
    return True


def with_unknown_members(p, rng):
    """the payload with one or two members no field knows added to every object (ignored without deny_unknown_fields,
    reported with it): where they sit among the other members must not matter either"""
    q = copy.deepcopy(p)
    for path in reversed(list(objects(q))):       # innermost first: inserting shifts the positions of later siblings only
        ms = K.get_at(q, path)["m"]
        for _ in range(rng.choice([1, 1, 2])):
            k = rng.choice(["aa_unknown", "zz_unknown", "m_unknown", "unknown", "Zz", "0"])
            if all(k != x[0] for x in ms):
                ms.insert(rng.randint(0, len(ms)), [k, copy.deepcopy(rng.choice(K.WRONG))])
    return q


def full_objects(it, rng):
    """for a derived struct / every struct-like variant of a tagged enum: the object with EVERY non-skipped field present
    (declaration order, tag first)"""
    out = []
    if it.get("from") or it.get("try_from"):
        return out
    if it.kind == "struct":
        out.append([[key, K.gen_valid(f.deser_ty(), rng, 1)] for f, key in K.field_keys(it.fields, K.item_ra(it))])
    elif it.kind == "enum" and it.get("tag"):
        for v in it.variants:
            ms = [[key, K.gen_valid(f.deser_ty(), rng, 1)] for f, key in K.field_keys(v.fields or [], K.variant_ra(v))]
            out.append([[it.get("tag")[1], K.variant_key(it, v)]] + ms)
    return out


def unknown_everywhere(ms, rng):
    """(reference, variant) pairs: one member no field knows, last in the reference, at every other position in the variants;
    and the same with the object reversed - so that the member sits between any two consecutive fields in both directions"""
    unk = ["zz_unknown", copy.deepcopy(rng.choice(K.WRONG))]
    if any(k == unk[0] for k, _ in ms):
        return []
    out = []
    for base in (ms, list(reversed(ms))):
        ref = {"m": copy.deepcopy(base) + [copy.deepcopy(unk)]}
        for i in range(len(base)):
            out.append((ref, {"m": copy.deepcopy(base[:i]) + [copy.deepcopy(unk)] + copy.deepcopy(base[i:])}))
    return out


def run(ctx, H):
    per = 6 if ctx.tier == "quick" else 40
    pairs = []
    # an ignored (or denied) member at every position of an object that has all its fields
    for e in H.entries:
        if e.ty[0] != "item":
            continue
        for ms in full_objects(e.ty[1], ctx.rng):
            if len(ms) > 8 and ctx.tier == "quick":
                continue
            for ref, var in unknown_everywhere(ms, ctx.rng):
                if canonical_keys(ref) and not K.has_dup_keys(ref):
                    pairs.append((E.Case(e, ref, "ov", [], True, "cont", -1), E.Case(e, var, "ov", [], True, "cont", -1)))
    n_everywhere = len(pairs)
    for e in H.entries:
        payloads = list(K.gen_payloads(e, ctx.rng, per))
        if K.contains_item(e.ty) or e.ty[0] == "item":
            nbase = 2 if ctx.tier == "quick" else 8
            if e.ty[0] == "item" and e.ty[1].kind == "enum":
                nbase *= max(1, len(e.ty[1].variants))       # every variant gets its turn
            for _ in range(nbase):
                base = K.gen_valid(e.ty, ctx.rng)
                payloads.append((with_unknown_members(base, ctx.rng), -1))
                payloads.append((with_unknown_members(K.mutate_once(base, ctx.rng), ctx.rng), -1))
        for p, k in payloads:
            if K.has_dup_keys(p) or not canonical_keys(p):
                continue
            objs = [o for o in objects(p) if len(K.get_at(p, o)["m"]) >= 2]
            if not objs:
                continue
            path = ctx.rng.choice(objs)
            ms = K.get_at(p, path)["m"]
            perms = list(itertools.permutations(range(len(ms)))) if len(ms) <= 4 else [tuple(ctx.rng.sample(range(len(ms)), len(ms))) for _ in range(6)]
            perms = [q for q in perms if list(q) != list(range(len(ms)))]
            if ctx.tier == "quick" and len(perms) > 4:
                perms = ctx.rng.sample(perms, 4)
            for q in perms:
                p2 = K.set_at(p, path, {"m": [copy.deepcopy(ms[i]) for i in q]})
                if ctx.rng.random() < 0.3 and len(objs) > 1:
                    # a second object permuted as well
                    # (positions below the first permuted object have moved: only objects outside it)
                    outside = [o for o in objs if o[:len(path)] != path and path[:len(o)] != o]
                    if outside:
                        path2 = ctx.rng.choice(outside)
                        m2 = K.get_at(p2, path2)["m"]
                        p2 = K.set_at(p2, path2, {"m": list(reversed(copy.deepcopy(m2)))})
                pairs.append((E.Case(e, p, "ov", [], True, "cont", k), E.Case(e, p2, "ov", [], True, "cont", k)))
    o1 = E.run_cases(H, [p[0] for p in pairs])
    o2 = E.run_cases(H, [p[1] for p in pairs])
    pobs = list(zip(o1, o2))
    bads = E.decide_pairs(ctx, H, "c15", pairs, pobs, "corr_pair",
                          [("mon_c15", "permuting the members of an object changed the value produced or the multiset of reports received by a keep-going error type"),
                           ("spec_order_insensitive", "internal: the reference interpreter itself depends on member order for this input")],
                          "corr_pair (both runs match the model)", extra_imports="KMon KSpec")
    flat = [p[1] for p in pairs]
    ctx.coverage.update({
        "evaluations": 2 * len(pairs), "distinct_nontrivial": E.nontrivial(flat, o2),
        "rule": "every catalogue type x payloads (valid instances with 0..3 mutations, and instances with unknown members added to every object; unique keys per object, key strings canonical for the key parser) x permutations of the members of "
                "one object; plus, for every derived struct and every variant of every tagged enum, the object with all its fields and one unknown member at every position, forwards and reversed; permutations of "
                "one object at any depth (all permutations for <= 4 members, random beyond; sometimes a second object reversed), through the order-preserving value source, all-Continue "
                "script; non-trivial = distinct (type, permuted payload) whose run reports something or returns Ok",
        "pairs": len(pairs), "pairs_unknown_member_at_every_position": n_everywhere,
        "input_distribution": E.distribution(flat, o2),
        "samples": [{"type": pairs[i][0].entry.rust(), "payload": pairs[i][0].payload, "permuted": pairs[i][1].payload} for i in (0, len(pairs) // 2)],
        "correspondence_disagreements": bads[0].total, "monitor_failures": bads[1].total + bads[2].total,
    })
    ctx.assumptions += ["objects have unique keys and, for map targets, key strings that parse to distinct keys (\"1\" and \"+1\" both parse to 1: last-wins is order dependent by nature)"]
