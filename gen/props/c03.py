"""C03 - a stop answer ends the work; the fail-fast result is the first keep-going report."""
from .. import common as C
from .. import engine as E
from .. import catalogue as K
from .. import stages as S2

THEOREMS = ["c03_causal", "c03_failfast_first", "c03_stop_ends_the_work", "c03_stop_next"]


def run(ctx, H):
    per = 5 if ctx.tier == "quick" else 30
    base = E.make_cases(ctx, H, per, scripts=False)
    # several faults at once (every leaf wrong, and two wrong siblings): a stop in the middle must really stop
    for e in H.entries:
        for _ in range(2 if ctx.tier == "quick" else 6):
            p = K.gen_valid(e.ty, ctx.rng)
            base.append(E.Case(e, K.corrupt_all(p, ctx.rng), "ov", [], True, "cont", 9))
            seqs = [q for q in K.positions(p) if isinstance(K.get_at(p, q), list) and len(K.get_at(p, q)) >= 2]
            if seqs:
                q = ctx.rng.choice(seqs)
                cur = list(K.get_at(p, q))
                i = ctx.rng.randrange(len(cur) - 1)
                cur[i] = {"m": [["zz", None]]}
                cur[i + 1] = {"m": [["zz", None]]}
                base.append(E.Case(e, K.set_at(p, q, cur), "ov", [], True, "cont", 2))
    # conversions reached with a failing value and a faulty sibling before / after them
    staged = set()
    for e in H.entries:
        ps = S2.staged_payloads(e, ctx.rng)
        if ctx.tier == "quick" and len(ps) > 3:
            ps = ctx.rng.sample(ps, 3)
        for p in ps:
            c = E.Case(e, p, "ov", [], True, "cont", -1)
            staged.add(id(c))
            base.append(c)
    # keep the payloads that make the keep-going run call the error type at least once
    kobs = E.run_cases(H, base)
    pairs = []
    for c, o in zip(base, kobs):
        n = len(o["trace"])
        if n == 0 and ctx.rng.random() < 0.7:
            continue
        ks = list(range(0, n + 1))
        if len(ks) > 6:
            ks = sorted(set([0, 1, n - 1, n] + ctx.rng.sample(ks, 3)))
        for k in ks:
            pairs.append((c, E.Case(c.entry, c.payload, c.src, [True] * k, False, "switch", c.nfaults)))
        # a single Break followed by Continue answers (a stop must end the work of its container even if later answers are Continue)
        js = list(range(n))
        if id(c) not in staged and len(js) > 2:
            js = ctx.rng.sample(js, 2)
        for j in js:
            pairs.append((c, E.Case(c.entry, c.payload, c.src, [True] * j + [False], True, "one-break", c.nfaults)))
            if id(c) in staged:
                pairs.append((c, E.Case(c.entry, c.payload, c.src, [False] * j + [True], False, "one-continue", c.nfaults)))
        # an arbitrary script as well
        sc = [ctx.rng.random() < 0.5 for _ in range(ctx.rng.randint(1, max(1, n)))]
        pairs.append((c, E.Case(c.entry, c.payload, c.src, sc, ctx.rng.random() < 0.5, "random", c.nfaults)))
    sobs = E.run_cases(H, [p[1] for p in pairs])
    kg_by_id = {id(c): o for c, o in zip(base, kobs)}
    pobs = [(kg_by_id[id(p[0])], so) for p, so in zip(pairs, sobs)]
    bads = E.decide_pairs(ctx, H, "c03", pairs, pobs, "corr_c03",
                          [("mon_c03", "the run under a script that switches to Break at call k differs from the keep-going run before/at call k, "
                                       "or something other than hand-overs of the built error happens after the stop")],
                          "corr_c03 (ordered trace of both runs)")
    # "the container in which the report was made returns at once": a failing FIELD-level try_from is reported by the struct
    # itself (the conversion is part of the struct's code), so when that report is answered Break the struct may only hand
    # the result over and return - whatever the hand-over is answered. The functions concerned are known from the catalogue.
    from .. import tys as T
    field_tf = set()
    for e in H.entries:
        for it in T.items_in(e.ty):
            for f in it.all_fields():
                a = f.get("try_from")
                if a:
                    field_tf.add(a[2])
    nown = 0
    for (c0, c1), so in zip(pairs, sobs):
        tr = so["trace"]
        ans = lambda j: c1.script[j] if j < len(c1.script) else c1.default
        for i, call in enumerate(tr):
            if call.get("c") == "mergeu" and call["u"]["f"] in field_tf and call.get("self") is None and not ans(i):
                if i + 2 < len(tr):
                    nxt = tr[i + 2]
                    if not (nxt.get("c") == "merge" and nxt.get("other") == i + 1):
                        nown += 1
                        if nown <= 3:
                            d = c1.describe()
                            d.update({"kind": "a struct went on after the report of its own failed field conversion (call %d) was answered Break: call %d is not the "
                                              "hand-over of the struct's result to its parent" % (i, i + 2), "impl": so})
                            ctx.violation("own-stop-%d" % nown, d)
                break
    ctx.coverage["own_report_stop_failures"] = nown
    flat_cases = [p[1] for p in pairs]
    ctx.coverage.update({
        "evaluations": len(pairs), "distinct_nontrivial": E.nontrivial(flat_cases, sobs),
        "rule": "for each (type, payload) whose keep-going run reports something: one run per switch position k in [0, n] (all of them when n <= 5, "
                "else 0,1,n-1,n and 3 random), plus one-Break-then-Continue scripts (all positions for staged conversion payloads) and a random Continue/Break script; each compared with the keep-going run; non-trivial = distinct "
                "(type,payload,script) whose run calls the error type or returns Ok",
        "keep_going_runs": len(base),
        "input_distribution": E.distribution(flat_cases, sobs),
        "samples": [dict(pairs[i][1].describe(), impl_trace_len=len(sobs[i]["trace"])) for i in (0, len(pairs) // 2, len(pairs) - 1)],
        "correspondence_disagreements": bads[0].total, "monitor_failures": bads[1].total,
    })
