"""C12 - deserialize is total: it returns Ok or Err, it never panics."""
import copy
from .. import common as C
from .. import engine as E
from .. import catalogue as K
from .. import tys as T

THEOREMS = ["c12_no_panic"]

ADVERSARIAL = [None, True, {"i": "0"}, {"i": "18446744073709551615"}, {"n": "-9223372036854775808"}, {"n": "0"}, {"n": "7"},
               {"f": "7ff8000000000000"}, {"f": "7ff0000000000000"}, {"f": "fff0000000000000"}, {"f": "0000000000000001"}, "", "x", [], [[]], [None],
               {"m": []}, {"m": [["", None]]}, {"m": [["a", None], ["a", True]]}, {"m": [["type", "A"], ["type", "B"]]},
               [{"m": []}, []], {"m": [["x", {"m": [["x", {"m": []}]]}]]}]


def deep(kind, depth):
    p = None if kind != "num" else {"i": "1"}
    for i in range(depth):
        if kind == "arr" or (kind == "mix" and i % 2 == 0):
            p = [p]
        else:
            p = {"m": [["k", p]]}
    return p


def object_paths(p, path=()):
    if isinstance(p, list):
        for i, x in enumerate(p):
            yield from object_paths(x, path + (i,))
    elif isinstance(p, dict) and "m" in p:
        yield path
        for i, (k, x) in enumerate(p["m"]):
            yield from object_paths(x, path + (("m", i),))


def at(p, path):
    for st in path:
        p = p["m"][st[1]][1] if isinstance(st, tuple) else p[st]
    return p


def dup_variants(p, rng):
    """the same document with repeated keys (only an order-preserving value source can present
    them): a member repeated, a member repeated while another one is dropped (so that the number
    of members still equals the number of fields), a member given three times"""
    out = []
    for path in object_paths(p):
        ms = at(p, path)["m"]
        if not ms:
            continue
        for mode in ("dup", "dup_drop", "triple"):
            q = copy.deepcopy(p)
            qm = at(q, path)["m"]
            i = rng.randrange(len(qm))
            if mode == "dup_drop":
                if len(qm) < 2:
                    continue
                j = rng.choice([x for x in range(len(qm)) if x != i])
                keep = copy.deepcopy(qm[i])
                del qm[j]
                qm.insert(rng.randrange(len(qm) + 1), keep)
            elif mode == "dup":
                qm.insert(rng.randrange(len(qm) + 1), copy.deepcopy(qm[i]))
            else:
                qm.append(copy.deepcopy(qm[i]))
                qm.insert(0, copy.deepcopy(qm[i]))
            out.append(q)
    return out


def run(ctx, H):
    per = 8 if ctx.tier == "quick" else 40
    cases = E.make_cases(ctx, H, per)
    # repeated keys at every object of a valid payload
    ndup = 0
    for e in H.entries:
        for rep in range(1 if ctx.tier == "quick" else 4):
            p = K.gen_valid(e.ty, ctx.rng)
            vs = dup_variants(p, ctx.rng)
            if ctx.tier == "quick" and len(vs) > 6:
                vs = ctx.rng.sample(vs, 6)
            for q in vs:
                sc, d, kind = K.gen_scripts(ctx.rng)
                cases.append(E.Case(e, q, "ov", sc, d, kind, -1))
                ndup += 1
    for e in H.entries:
        for p in ADVERSARIAL:
            sc, d, kind = K.gen_scripts(ctx.rng)
            cases.append(E.Case(e, copy.deepcopy(p), "ov", sc, d, kind, -1))
    # wrong kind at every position of a valid payload
    for e in H.entries:
        if ctx.tier == "quick" and ctx.rng.random() < 0.5:
            continue
        p = K.gen_valid(e.ty, ctx.rng)
        pos = list(K.positions(p))
        for path in (pos if len(pos) <= 6 else ctx.rng.sample(pos, 6)):
            q = K.set_at(p, path, copy.deepcopy(ctx.rng.choice(K.WRONG)))
            sc, d, kind = K.gen_scripts(ctx.rng)
            cases.append(E.Case(e, q, "ov", sc, d, kind, 1))
    # long strings of mixed byte widths at a leaf and as a map key (anything that cuts a text at a byte offset)
    for e in H.entries:
        p = K.gen_valid(e.ty, ctx.rng)
        pos = list(K.positions(p))
        for sidx in ([10, 11, 12] + ctx.rng.sample(range(10), 2)):
            q = K.set_at(p, ctx.rng.choice(pos), K.LONG_STRINGS[sidx])
            sc, d, kind = K.gen_scripts(ctx.rng)
            cases.append(E.Case(e, q, "ov", sc, d, kind, 1))
        objs = [x for x in pos if isinstance(K.get_at(p, x), dict) and "m" in K.get_at(p, x)]
        if objs:
            x = ctx.rng.choice(objs)
            cur = copy.deepcopy(K.get_at(p, x))
            cur["m"].insert(ctx.rng.randint(0, len(cur["m"])), [K.LONG_STRINGS[ctx.rng.choice([10, 11, 12])], copy.deepcopy(ctx.rng.choice(K.WRONG))])
            sc, d, kind = K.gen_scripts(ctx.rng)
            cases.append(E.Case(e, K.set_at(p, x, cur), "ov", sc, d, kind, 1))
    # depth 128: what serde_json's parser accepts
    deep_targets = [e for e in H.entries if e.ty[0] == "json" or e.ty in (T.Vec(T.Json), T.Option(T.Json), T.Map("btree", "String", T.Json))]
    for e in deep_targets:
        for kind in ("arr", "obj", "mix", "num"):
            for depth in (127, 128):
                p = deep(kind, depth)
                leaf = None if kind != "num" else {"i": "1"}
                w = {"deep": ["obj" if kind == "num" else kind, depth, leaf]}
                if e.ty[0] == "vec":
                    p, w = [p], [w]
                elif e.ty[0] == "map":
                    p, w = {"m": [["k", p]]}, {"m": [["k", w]]}
                for sc, d in (([], True), ([], False)):
                    c = E.Case(e, p, "json" if K.is_json_doc(p) else "ov", sc, d, "cont" if d else "break", 0)
                    c.wire_payload = w
                    cases.append(c)
    try:
        obs = E.run_cases(H, cases)
    except C.HarnessDied as ex:
        k = len(ex.lines)
        culprit = ex.cases[k] if k < len(ex.cases) else None
        ctx.violation("abort", {"kind": "the harness process died while running a case (abort / stack overflow): deserialize did not return",
                                "case": culprit, "stderr": ex.err[-800:]})
        ctx.coverage.update({"evaluations": len(cases), "distinct_nontrivial": 0, "rule": "aborted", "samples": [culprit]})
        return
    # the built-in error types are behaviours of the error type too: building their message must not panic either
    builtin = []
    for c in cases:
        if c.entry.rec_only or getattr(c, "wire_payload", None) is not None:
            continue
        if ctx.tier == "quick" and ctx.rng.random() < 0.5:
            continue
        builtin.append(E.Case(c.entry, c.payload, c.src, [], False, "break", c.nfaults, ctx.rng.choice(["json", "qp"])))
    bobs = E.run_cases(H, builtin)
    nb = 0
    for c, o in zip(builtin, bobs):
        if "panic" in o["res"]:
            nb += 1
            if nb <= 4:
                ctx.violation("builtin-panic-%d" % nb, dict(c.describe(), kind="deserialize panicked with a built-in error type (JsonError / QueryParamError)", impl=o))
    ctx.coverage["builtin_error_type_runs"] = len(builtin)
    bads = E.decide(ctx, H, "c12", cases, obs, "corr_c12",
                    [("mon_c12", "deserialize panicked instead of returning Ok or Err")], "corr_c12 (Ok / Err / panic class of the outcome)")
    ctx.coverage.update({
        "evaluations": len(cases), "distinct_nontrivial": E.nontrivial(cases, obs),
        "rule": "every catalogue type x (mutated valid payloads, %d adversarial shapes incl. duplicate keys / NaN / empty containers / non-negative NegativeInteger, "
                "repeated keys (member repeated / repeated while another is dropped / given three times) at every object of a valid payload, a wrong kind at every position, depth 127/128 arrays/objects for serde_json::Value targets) x both value sources x all script kinds, plus the same payloads under JsonError / QueryParamError (their message building must not panic), each under catch_unwind "
                "in a separate harness process; non-trivial = distinct (type,payload,script) whose run calls the error type or returns Ok" % len(ADVERSARIAL),
        "input_distribution": E.distribution(cases, obs),
        "samples": [cases[i].describe() for i in (1, len(cases) // 2)] + [{"type": cases[-1].entry.rust(), "payload": "depth-128 nesting", "script_default": cases[-1].default}],
        "correspondence_disagreements": bads[0].total, "monitor_failures": bads[1].total,
    })
    ctx.assumptions += ["stack exhaustion on deeper payloads is runtime behaviour the model cannot exhibit (partial): depth 128 is run, an abort is a violation",
                        "user functions and IntoValue implementations return; Sequence::len is truthful"]
