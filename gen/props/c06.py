"""C06 - containers keep structure: order, arity, None-iff-null, set and map semantics."""
import copy
from .. import common as C
from .. import engine as E
from .. import catalogue as K
from .. import speccheck as S

THEOREMS = ["c06_array_arity", "c06_tuple2_arity", "c06_tuple3_arity", "c06_option_null", "c06_option_some", "c06_box", "c06_vec_elements", "c06_vec_length", "c06_map_bad_key_fails",
            "c06_set_value", "c06_map_value", "c06_set_members", "c06_set_distinct", "c06_set_covers", "c06_map_insert_same", "c06_map_insert_other", "c06_cs_split_join", "c06_cs_segments_comma_free", "c06_cs_split_determined", "c06_cs_dropped_iff_empty", "c06_cs_ok", "c06_cs_err", "c06_cs_strings", "c06_cs_run", "c06_key_int_sound", "c06_key_int_canonical"]


def run(ctx, H):
    ents = [e for e in H.entries if "container" in e.tags]
    cases = []
    reps = 2 if ctx.tier == "quick" else 12
    for e in ents:
        t = e.ty
        for _ in range(reps):
            # lengths 0..6 including arity +-1, a fault at every position
            if t[0] in ("vec", "hashset", "btreeset", "array", "tuple"):
                el = [t[1]] if t[0] in ("vec", "hashset", "btreeset") else ([t[2]] * t[1] if t[0] == "array" else list(t[1:]))
                arity = len(el) if t[0] in ("array", "tuple") else None
                lens = range(0, 7) if arity is None else sorted({max(0, arity - 1), arity, arity + 1, 0})
                for n in lens:
                    elts = [K.gen_valid(el[i % len(el)] if el else K.T.Unit, ctx.rng, 1) for i in range(n)] if el else [None] * n
                    for fault_at in [None] + list(range(n)):
                        p = copy.deepcopy(elts)
                        if fault_at is not None:
                            p[fault_at] = copy.deepcopy(ctx.rng.choice(K.WRONG))
                        sc, d, kind = S.script_mix(ctx)
                        cases.append(E.Case(e, p, "json" if K.is_json_doc(p) and ctx.rng.random() < 0.3 else "ov", sc, d, kind, 0 if fault_at is None else 1))
            elif t[0] == "map":
                for n in range(0, 5):
                    ms, seen = [], set()
                    for i in range(n):
                        k = K.gen_key(t[2], ctx.rng, valid=ctx.rng.random() < 0.75)
                        if k in seen:
                            continue
                        seen.add(k)
                        v = K.gen_valid(t[3], ctx.rng, 1) if ctx.rng.random() < 0.75 else copy.deepcopy(ctx.rng.choice(K.WRONG))
                        ms.append([k, v])
                    sc, d, kind = S.script_mix(ctx)
                    cases.append(E.Case(e, {"m": ms}, "json" if K.is_json_doc({"m": ms}) and ctx.rng.random() < 0.3 else "ov", sc, d, kind, 1))
            for p, k in K.gen_payloads(e, ctx.rng, 3):
                sc, d, kind = S.script_mix(ctx)
                cases.append(E.Case(e, p, "json" if K.is_json_doc(p) and ctx.rng.random() < 0.3 else "ov", sc, d, kind, k))
            if t[0] in ("option", "box", "cs"):
                for p in [None, "1,2,,3", ",", "", "a,b", "300", "1,x,2", "true,false", "-1,+2", "+", "1,,", " ", "a, ,b", "1, ,2", "1 ,2", " 1,2", "\t", "a,\n,b", "1,2 ", ",  ,", "\u00a0", "1,\u3000,2", "true, ,false", " , "]:
                    sc, d, kind = S.script_mix(ctx)
                    cases.append(E.Case(e, p, "ov", sc, d, kind, 0))
    S.run_spec_check(ctx, H, "c06", cases,
                     [("mon_c06", "arity mismatch not reported as the whole sequence with the expected length / null not None / unparsable map key did not fail the call / Vec length changed")],
                     "every std container of the catalogue (Vec, arrays incl. [T;0], tuples, sets, Hash/BTree maps with String/int/bool/NonZero keys, Option, Box, CS, nested and around "
                     "derived structs) x lengths 0..6 incl. arity+-1 x a fault at every position x map keys valid/invalid x script kinds")
