#!/usr/bin/env python3
"""Regenerates MANIFEST.json from the table below (kept in one place so it stays valid)."""
import json
import os

VERIF = os.path.dirname(os.path.dirname(os.path.abspath(__file__)))

BASELINE_OFF = ("cd /repo && cargo nextest run --workspace --no-fail-fast --test-threads 8 --offline "
                "|| cargo test --workspace --no-fail-fast --offline")

CHECKS = {
    "C19": dict(
        text="Proof: five theorems over the Gallina model of ValuePointerRef (to_owned/is_origin/first_field/last_field of any "
             "pushed path, by induction on the path, unbounded length) + correspondence of the model with src/value.rs on all "
             "paths of <= 6 steps and random long ones, evaluated inside Coq on every run.",
        ref="5 C19", technique="Coq theorems by induction on the step list; in-Coq differential check model vs crate",
        note="Trusted: Coq kernel + vm_compute, hand-written model Pointer.v (tied by the correspondence on the inputs of each run), "
             "harness and Python emitter. No axioms (Print Assumptions: closed under the global context)."),
}

NOT_YET = {}


def main():
    props = [json.loads(l) for l in open(os.path.join(VERIF, "properties.jsonl"))]
    checks, na = [], []
    for p in props:
        pid = p["id"]
        if pid in CHECKS:
            c = CHECKS[pid]
            checks.append({
                "property_id": pid,
                "quick_cmd": "python3 run.py %s --tier quick" % pid,
                "thorough_cmd": "python3 run.py %s --tier thorough" % pid,
                "evidence_file": "/verif/evidence/%s.json" % pid,
                "replay_cmd_template": "python3 run.py %s --replay {path}" % pid,
                "engine": "coq-model+correspondence",
                "level_claimed": {"category": "proof", "text": c["text"], "design_ref": c["ref"]},
                "level_note": c["note"],
                "technique": c["technique"],
            })
        else:
            na.append({"property_id": pid, "reason": NOT_YET.get(pid, "check not built yet in this session (work in progress, see DESIGN.md section 9 build order); not a claim that the technique cannot apply")})
    m = {
        "version": 1,
        "setup_cmd": "python3 setup.py",
        "hooks": {"guard": "deserr_verif", "enable": "no hooks are needed: everything is observed through the public API (RUSTFLAGS=\"--cfg deserr_verif\" would enable them)",
                  "baseline_off_cmd": BASELINE_OFF, "source_commits": [], "add_only": True},
        "engines": [{"name": "coq-model+correspondence", "path": "/verif/coq, /verif/harness, /verif/gen, /verif/run.py",
                     "serves_properties": sorted(CHECKS), "kind_free_text": "Rocq/Coq 8.16 theorems over a hand-written executable model; model tied to /repo on every run by an in-Coq differential check against a Rust harness"}],
        "checks": checks,
        "not_applicable": na,
        "notes": "See DESIGN.md. Every check rebuilds the harness against /repo's working tree (VERIF_REPO overrides), rebuilds all proofs (make), audits assumptions, then runs the correspondence and monitors.",
    }
    json.dump(m, open(os.path.join(VERIF, "MANIFEST.json"), "w"), indent=1)


if __name__ == "__main__":
    main()
