#!/usr/bin/env python3
"""Regenerates MANIFEST.json from the table below (kept in one place so it stays valid)."""
import json
import os

VERIF = os.path.dirname(os.path.dirname(os.path.abspath(__file__)))

BASELINE_OFF = ("cd /repo && cargo nextest run --workspace --no-fail-fast --test-threads 8 --offline "
                "|| cargo test --workspace --no-fail-fast --offline")

CHECKS = {
    "C19": dict(
        text="Proof: five theorems over the Gallina model of ValuePointerRef (to_owned/is_origin/first_field/last_field of any "
             "pushed path, by induction on the path, unbounded length) + correspondence of the model with src/value.rs on all "
             "paths of <= 6 steps and random long ones, evaluated inside Coq on every run.",
        ref="5 C19", technique="Coq theorems by induction on the step list; in-Coq differential check model vs crate",
        note="Trusted: Coq kernel + vm_compute, hand-written model Pointer.v (tied by the correspondence on the inputs of each run), "
             "harness and Python emitter. No axioms (Print Assumptions: closed under the global context)."),
    "C17": dict(
        text="Proof: describe l = spec_describe l for every list of kinds (any length, any multiplicity) and describe depends on membership only; "
             "proved via sort+dedup = filter over the 8 kinds (uniqueness of strictly sorted lists) and a finite check of the 256 membership tables "
             "lifted by forallb_forall. Correspondence of the model with value_kinds_description_json on all 37449 sequences of length <= 5, exhaustively, every run.",
        ref="5 C17", technique="Coq theorem (structural lemmas + finite-domain vm_compute lifted with forallb_forall); exhaustive in-Coq differential check",
        note="Trusted: Coq kernel + vm_compute, model Kinds.v (sort_by_key modelled as insertion sort: the result of a stable sort is unique), harness, emitter. No axioms."),
    "C18": dict(
        text="Proof: for an arbitrary distance function, did_you_mean is empty iff the received string has <= 3 bytes or no accepted string is within the budget "
             "table, and otherwise names the earliest accepted string of minimal distance (decomposition acc = pre ++ a :: post with strict/weak minimality). "
             "Correspondence with errors::helpers::did_you_mean (strsim's Damerau-Levenshtein modelled by a Gallina port) on all pairs over a 3-letter alphabet "
             "up to length 5 (quick) / 6 (thorough) plus random multi-candidate lists.",
        ref="5 C18", technique="Coq theorems parametric in the distance (Section variable); exhaustive + random in-Coq differential check",
        note="Trusted: Coq kernel + vm_compute, model DidYouMean.v; strsim is modelled and tied by correspondence only (partial: distance = strsim by correspondence). No axioms."),
}

NOT_YET = {}


def main():
    props = [json.loads(l) for l in open(os.path.join(VERIF, "properties.jsonl"))]
    checks, na = [], []
    for p in props:
        pid = p["id"]
        if pid in CHECKS:
            c = CHECKS[pid]
            checks.append({
                "property_id": pid,
                "quick_cmd": "python3 run.py %s --tier quick" % pid,
                "thorough_cmd": "python3 run.py %s --tier thorough" % pid,
                "evidence_file": "/verif/evidence/%s.json" % pid,
                "replay_cmd_template": "python3 run.py %s --replay {path}" % pid,
                "engine": "coq-model+correspondence",
                "level_claimed": {"category": "proof", "text": c["text"], "design_ref": c["ref"]},
                "level_note": c["note"],
                "technique": c["technique"],
            })
        else:
            na.append({"property_id": pid, "reason": NOT_YET.get(pid, "check not built yet in this session (work in progress, see DESIGN.md section 9 build order); not a claim that the technique cannot apply")})
    m = {
        "version": 1,
        "setup_cmd": "python3 setup.py",
        "hooks": {"guard": "deserr_verif", "enable": "no hooks are needed: everything is observed through the public API (RUSTFLAGS=\"--cfg deserr_verif\" would enable them)",
                  "baseline_off_cmd": BASELINE_OFF, "source_commits": [], "add_only": True},
        "engines": [{"name": "coq-model+correspondence", "path": "/verif/coq, /verif/harness, /verif/gen, /verif/run.py",
                     "serves_properties": sorted(CHECKS), "kind_free_text": "Rocq/Coq 8.16 theorems over a hand-written executable model; model tied to /repo on every run by an in-Coq differential check against a Rust harness"}],
        "checks": checks,
        "not_applicable": na,
        "notes": "See DESIGN.md. Every check rebuilds the harness against /repo's working tree (VERIF_REPO overrides), rebuilds all proofs (make), audits assumptions, then runs the correspondence and monitors.",
    }
    json.dump(m, open(os.path.join(VERIF, "MANIFEST.json"), "w"), indent=1)


if __name__ == "__main__":
    main()
