#!/usr/bin/env python3
"""Regenerates MANIFEST.json from the table below (kept in one place so it stays valid)."""
import json
import os

VERIF = os.path.dirname(os.path.dirname(os.path.abspath(__file__)))

BASELINE_OFF = ("cd /repo && cargo nextest run --workspace --no-fail-fast --test-threads 8 --offline "
                "|| cargo test --workspace --no-fail-fast --offline")

CHECKS = {
    "C19": dict(
        text="Proof: five theorems over the Gallina model of ValuePointerRef (to_owned/is_origin/first_field/last_field of any "
             "pushed path, by induction on the path, unbounded length) + correspondence of the model with src/value.rs on all "
             "paths of <= 6 steps and random long ones, evaluated inside Coq on every run.",
        ref="5 C19", technique="Coq theorems by induction on the step list; in-Coq differential check model vs crate",
        note="Trusted: Coq kernel + vm_compute, hand-written model Pointer.v (tied by the correspondence on the inputs of each run), "
             "harness and Python emitter. No axioms (Print Assumptions: closed under the global context)."),
    "C17": dict(
        text="Proof: describe l = spec_describe l for every list of kinds (any length, any multiplicity) and describe depends on membership only; "
             "proved via sort+dedup = filter over the 8 kinds (uniqueness of strictly sorted lists) and a finite check of the 256 membership tables "
             "lifted by forallb_forall. Correspondence of the model with value_kinds_description_json on all 37449 sequences of length <= 5, exhaustively, every run.",
        ref="5 C17", technique="Coq theorem (structural lemmas + finite-domain vm_compute lifted with forallb_forall); exhaustive in-Coq differential check",
        note="Trusted: Coq kernel + vm_compute, model Kinds.v (sort_by_key modelled as insertion sort: the result of a stable sort is unique), harness, emitter. No axioms."),
    "C18": dict(
        text="Proof: for an arbitrary distance function, did_you_mean is empty iff the received string has <= 3 bytes or no accepted string is within the budget "
             "table, and otherwise names the earliest accepted string of minimal distance (decomposition acc = pre ++ a :: post with strict/weak minimality). "
             "Correspondence with errors::helpers::did_you_mean (strsim's Damerau-Levenshtein modelled by a Gallina port) on all pairs over a 3-letter alphabet "
             "up to length 5 (quick) / 6 (thorough) plus random multi-candidate lists.",
        ref="5 C18", technique="Coq theorems parametric in the distance (Section variable); exhaustive + random in-Coq differential check",
        note="Trusted: Coq kernel + vm_compute, model DidYouMean.v; strsim is modelled and tied by correspondence only (partial: distance = strsim by correspondence). No axioms."),
    "C05": dict(
        text="Proof: for every integer target (all signed/unsigned/NonZero widths = every int_desc), every value, every script and state, the run equals the "
             "specification outcome: Ok with the input number itself and no call iff kind admissible and number in the domain (c05_in_domain: within MIN..MAX, "
             "non-zero), otherwise exactly one error(None, kind, location) with exactly the admissible kinds or the domain message naming the received number/zero "
             "and the violated bound; same for (), bool, String, char. Correspondence: all 24 integer types x every integer of [-70000,70000] exhaustively "
             "(3.36 M outcomes re-expanded and compared in Coq) plus boundary values, floats by exact bit pattern (Flocq binary_normalize), strings, non-scalars.",
        ref="5 C05", technique="Coq theorems by case analysis + lia; exhaustive in-Coq differential sweep; Flocq-computed IEEE conversions compared bit for bit",
        note="Trusted: Coq kernel + vm_compute, model Scalars.v/Floats.v, harness, emitter. Theorems closed under the global context. The IEEE-rounding "
             "theorem for floats is not among the obligations (floats are tied by bit-exact correspondence with Flocq's binary_normalize only): partial for floats. "
             "usize = 64 bits assumed."),
    "C13": dict(
        text="Proof: for every document serde_json can hold (wf_json: u64 / negative i64 / finite f64, sorted unique keys), at any depth and size: Deserr for "
             "serde_json::Value returns Ok of the same document without a single call to the error type under any script; From<Value> gives the document back; "
             "kind() equals the kind of the consumed view; the view is well-formed; number classes follow the literal rule. Correspondence on JSON texts parsed by "
             "serde_json (exhaustive small documents, all boundary literals, random nesting).",
        ref="5 C13", technique="Coq theorems by nested induction on documents (custom induction principle, sorted-insert lemmas); in-Coq differential check on parsed JSON text",
        note="Trusted: Coq kernel + vm_compute, model Json.v, harness, emitter; serde_json's parser (literal classification is specified, tied by correspondence; "
             "float values of fractional/huge literals are an oracle from serde_json): partial for float literal values. No axioms."),
}

NOT_YET = {}


def main():
    props = [json.loads(l) for l in open(os.path.join(VERIF, "properties.jsonl"))]
    checks, na = [], []
    for p in props:
        pid = p["id"]
        if pid in CHECKS:
            c = CHECKS[pid]
            checks.append({
                "property_id": pid,
                "quick_cmd": "python3 run.py %s --tier quick" % pid,
                "thorough_cmd": "python3 run.py %s --tier thorough" % pid,
                "evidence_file": "/verif/evidence/%s.json" % pid,
                "replay_cmd_template": "python3 run.py %s --replay {path}" % pid,
                "engine": "coq-model+correspondence",
                "level_claimed": {"category": "proof", "text": c["text"], "design_ref": c["ref"]},
                "level_note": c["note"],
                "technique": c["technique"],
            })
        else:
            na.append({"property_id": pid, "reason": NOT_YET.get(pid, "check not built yet in this session (work in progress, see DESIGN.md section 9 build order); not a claim that the technique cannot apply")})
    m = {
        "version": 1,
        "setup_cmd": "python3 setup.py",
        "hooks": {"guard": "deserr_verif", "enable": "no hooks are needed: everything is observed through the public API (RUSTFLAGS=\"--cfg deserr_verif\" would enable them)",
                  "baseline_off_cmd": BASELINE_OFF, "source_commits": [], "add_only": True},
        "engines": [{"name": "coq-model+correspondence", "path": "/verif/coq, /verif/harness, /verif/gen, /verif/run.py",
                     "serves_properties": sorted(CHECKS), "kind_free_text": "Rocq/Coq 8.16 theorems over a hand-written executable model; model tied to /repo on every run by an in-Coq differential check against a Rust harness"}],
        "checks": checks,
        "not_applicable": na,
        "notes": "See DESIGN.md. Every check rebuilds the harness against /repo's working tree (VERIF_REPO overrides), rebuilds all proofs (make), audits assumptions, then runs the correspondence and monitors.",
    }
    json.dump(m, open(os.path.join(VERIF, "MANIFEST.json"), "w"), indent=1)


if __name__ == "__main__":
    main()
