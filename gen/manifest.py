#!/usr/bin/env python3
"""Regenerates MANIFEST.json from the table below (kept in one place so it stays valid)."""
import json
import os

VERIF = os.path.dirname(os.path.dirname(os.path.abspath(__file__)))

BASELINE_OFF = ("cd /repo && cargo nextest run --workspace --no-fail-fast --test-threads 8 --offline "
                "|| cargo test --workspace --no-fail-fast --offline")

CHECKS = {
    "C19": dict(
        text="Proof: five theorems over the Gallina model of ValuePointerRef (to_owned/is_origin/first_field/last_field of any "
             "pushed path, by induction on the path, unbounded length) + correspondence of the model with src/value.rs on all "
             "paths of <= 6 steps and random long ones, evaluated inside Coq on every run.",
        ref="5 C19", technique="Coq theorems by induction on the step list; in-Coq differential check model vs crate",
        note="Trusted: Coq kernel + vm_compute, hand-written model Pointer.v (tied by the correspondence on the inputs of each run), "
             "harness and Python emitter. No axioms (Print Assumptions: closed under the global context)."),
    "C17": dict(
        text="Proof: describe l = spec_describe l for every list of kinds (any length, any multiplicity) and describe depends on membership only; "
             "proved via sort+dedup = filter over the 8 kinds (uniqueness of strictly sorted lists) and a finite check of the 256 membership tables "
             "lifted by forallb_forall. Correspondence of the model with value_kinds_description_json on all 37449 sequences of length <= 5, exhaustively, every run.",
        ref="5 C17", technique="Coq theorem (structural lemmas + finite-domain vm_compute lifted with forallb_forall); exhaustive in-Coq differential check",
        note="Trusted: Coq kernel + vm_compute, model Kinds.v (sort_by_key modelled as insertion sort: the result of a stable sort is unique), harness, emitter. No axioms."),
    "C18": dict(
        text="Proof: for an arbitrary distance function, did_you_mean is empty iff the received string has <= 3 bytes or no accepted string is within the budget "
             "table, and otherwise names the earliest accepted string of minimal distance (decomposition acc = pre ++ a :: post with strict/weak minimality). "
             "Correspondence with errors::helpers::did_you_mean (strsim's Damerau-Levenshtein modelled by a Gallina port) on all pairs over a 3-letter alphabet "
             "up to length 5 (quick) / 6 (thorough) plus random multi-candidate lists.",
        ref="5 C18", technique="Coq theorems parametric in the distance (Section variable); exhaustive + random in-Coq differential check",
        note="Trusted: Coq kernel + vm_compute, model DidYouMean.v; strsim is modelled and tied by correspondence only (partial: distance = strsim by correspondence). No axioms."),
    "C05": dict(
        text="Proof: for every integer target (all signed/unsigned/NonZero widths = every int_desc), every value, every script and state, the run equals the "
             "specification outcome: Ok with the input number itself and no call iff kind admissible and number in the domain (c05_in_domain: within MIN..MAX, "
             "non-zero), otherwise exactly one error(None, kind, location) with exactly the admissible kinds or the domain message naming the received number/zero "
             "and the violated bound; same for (), bool, String, char. Correspondence: all 24 integer types x every integer of [-70000,70000] exhaustively "
             "(3.36 M outcomes re-expanded and compared in Coq) plus boundary values, floats by exact bit pattern (Flocq binary_normalize), strings, non-scalars.",
        ref="5 C05", technique="Coq theorems by case analysis + lia; exhaustive in-Coq differential sweep; Flocq-computed IEEE conversions compared bit for bit",
        note="Trusted: Coq kernel + vm_compute, model Scalars.v/Fround.v, harness, emitter. Theorems closed under the global context. Floats: c05_f64_total / c05_f32_total "
             "(the three numeric kinds are accepted without any call, everything else is one IncorrectValueKind); integers -> f64 / f32 are the IEEE conversion: exact up to 53 / 24 significant bits "
             "(c05_f64_of_int_exact, c05_f32_of_int_exact), otherwise q * 2^(size-53) with q the nearest integer to m / 2^(size-53), ties to even, carry into the exponent "
             "(c05_f64_of_int_rounded, c05_f32_of_int_rounded, c05_round_even_nearest), sign bit for negatives (c05_float_of_negative); f64 -> f32 of a finite normal f64 whose result is normal or overflows (c05_f32_of_f64_normal, c05_f32_of_f64_unfold) - all in "
             "integer arithmetic, no reals. f64 -> f32 with a result in the f32 subnormal range (c05_f32_of_f64_subnormal). Partial: subnormal f64 inputs, NaN canonicalisation and infinities have no theorem (bit-exact three-way comparison "
             "implementation / Fround / Flocq binary_normalize on every run). "
             "usize = 64 bits assumed."),
    "C13": dict(
        text="Proof: for every document serde_json can hold (wf_json: u64 / negative i64 / finite f64, sorted unique keys), at any depth and size: Deserr for "
             "serde_json::Value returns Ok of the same document without a single call to the error type under any script; From<Value> gives the document back; "
             "kind() equals the kind of the consumed view; the view is well-formed; number classes follow the literal rule. Correspondence on JSON texts parsed by "
             "serde_json (exhaustive small documents, all boundary literals, random nesting).",
        ref="5 C13", technique="Coq theorems by nested induction on documents (custom induction principle, sorted-insert lemmas); in-Coq differential check on parsed JSON text",
        note="Trusted: Coq kernel + vm_compute, model Json.v, harness, emitter; serde_json's parser (literal classification is specified, tied by correspondence; "
             "float values of fractional/huge literals are an oracle from serde_json): partial for float literal values. No axioms."),
    "C01": dict(
        text="Proof: a linear type discipline on call trees (Lin: every live error value is consumed exactly once or returned) with a soundness theorem for every run, "
             "and a proof by induction on the target type that the whole interpreter (std scalars and containers, serde_json::Value, derived structs/enums with every attribute, "
             "field-level error types, from/try_from/validate) obeys it. Theorems: Ok => not one call to the error type; Err e => e plus the consumed error values is a permutation of "
             "the created ones (none dropped, none used twice), for every payload, script and state. Correspondence: C01 projection (result class, returned id, wiring of all "
             "error-creating calls) + the same linearity predicate evaluated on the implementation's traces.",
        ref="5 C01", technique="Coq: linear resource invariant on free-monad call trees + soundness + induction on types; in-Coq differential check and monitor",
        note="Trusted: Coq kernel + vm_compute, model Deser.v/Derive.v (tied by correspondence on each run's inputs), harness (Rec error type, OV source), emitter. "
             "No axioms. Clause 'as long as the error type keeps what it is handed' = the error type is the free recording algebra."),
    "C02": dict(
        text="Proof: (c02_refinement) the interpreter refines the declarative reference interpreter Spec.spec - in which siblings cannot hide each other by construction "
             "(c02_elements_independent, c02_map_entries_independent, c02_fields_independent: the faults of a container are the concatenation of the faults of every element / entry / member plus "
             "one report per field left without a value) - for every target type (std scalars and containers, serde_json::Value, derived structs and enums with every attribute, field error types, "
             "from/try_from/validate), payload, location and starting state: under an always-Continue error type the run reports exactly the specification's faults, in order, each once, invokes "
             "exactly the specified user functions, returns Ok(v) iff there is no fault and never panics; (c02_final_error_holds_every_report) for EVERY script the returned error holds a permutation "
             "of the reports made during the run; (c02_keep_going) both together for deserialize. Only structural faults hide descendants: read off Spec.spec. Correspondence: every catalogue type x "
             "payloads with 0..8 faults; the implementation's reports (those held by the final error and those made) are compared with Spec.spec evaluated in Coq, and the model with the spec.",
        ref="5 C02", technique="Coq: refinement of the call-tree interpreter to a declarative specification by induction on types (loop lemmas per container, field-state/value correspondence for "
                               "derived structs) + held-reports invariant over linearly typed call trees; in-Coq differential check + specification monitor",
        note="Trusted: as C01 + Spec.v as the reading of 'independent fault' (its independence theorems are part of the obligations). No axioms."),
    "C03": dict(
        text="Proof: (c03_causal) for every call tree hence every deser t v l: two scripts agreeing on the answers before call k give runs that are identical or agree up to and "
             "including call k; (c03_failfast_first) the first call made to the error type is the same under every script, so an always-stop error type is handed exactly the first "
             "report of the keep-going run. Monitor on the implementation: prefix equality with the keep-going run for every switch position k, and after the stop only hand-overs of the "
             "built error (merge(_, previous result, _)) up to the returned error. (c03_stop_ends_the_work) for every type, payload and script whose answers are all Break from call k on: after the "
             "first error-creating call at or after k, every later call is a hand-over merge whose `other` is the result of the call just before it (no value examined, no report, no user function) "
             "and deserialize returns Err of the last result - the very predicate the monitor evaluates on the implementation (c03_tail_ok), proved by a static stop discipline on call trees "
             "(Stops/Tail, sound for runs) and induction on types. Implementation-only monitor for scripts that answer Continue again after a Break: after the report of a failed field-level "
             "try_from answered Break and its hand-over, the next call is the hand-over of the struct's result to its parent (the model says so: c11_field_stage_err).",
        ref="5 C03", technique="Coq: generic causality theorem on call trees + answer-insensitivity invariant + stop discipline (Stops/Tail) with soundness and induction on types; relational in-Coq "
                               "monitor over (keep-going, scripted) run pairs",
        note="Trusted: as C01. The stop theorem is for scripts that keep answering Break once they started (fail-fast and give-up-after-k error types); a parent that answers Continue to a hand-over "
             "resumes its own loop, which is the documented behaviour. No axioms."),
    "C06": dict(
        text="Proof: arity theorems (array, 2- and 3-tuples: exactly one BadSequenceLen with the whole sequence and the expected length, any script/state), Option (None iff null, "
             "otherwise Some of the content's result), Box transparent, Vec (an Ok result has one output per payload element, in order, each the Ok result of its own element at its own "
             "index), maps (an unparsable key makes the call fail whatever the error type answers). Sets and maps as values: (c06_set_value, c06_map_value, through the C02 refinement) a successful set is "
             "the de-duplication of its element values - only elements of the list, none equal to one kept before, every element kept or equal to a kept one (c06_set_members/_distinct/_covers) - and "
             "a successful map is the fold of map_insert over the members in payload order, map_insert being a finite-map update (c06_map_insert_same/_other: the last member with a given parsed key wins). "
             "CS lists (c06_cs_*): for every string the segments joined with commas are the text, none contains a comma and that determines them; only empty segments are dropped; the list succeeds exactly "
             "when every non-empty segment parses, with the parsed segments in order, and fails with the error of the first one that does not (any script/state); integer keys and elements "
             "(c06_key_int_sound/_canonical) parse only into the target's domain, and the canonical decimal text of every value of the domain parses to it.",
        ref="5 C06", technique="Coq theorems by unfolding/induction on the element list + Leaves invariant; in-Coq differential check + Spec.v monitor",
        note="Trusted: as C01. That split_comma / parse_int are str::split(',') / FromStr of the std integers is tied by correspondence; set/map value theorems are for the keep-going error type. No axioms."),
    "C09": dict(
        text="Proof: (c09_accepted_keys) the accepted-keys list built by the derive is the effective keys of the non-skipped fields in declaration order for every field list (the sort moving skipped fields last is stable); (c09_ignored) without deny_unknown_fields the run on a payload equals, for every script and state, result and calls, the run on the payload with all unknown-key "
             "members removed; (c09_denied_step) with it, a member whose key matches no field is reported as UnknownKey with the accepted-key list at the container's location and the loop "
             "continues; (c09_unknown_member_result, specification level) a member whose key is no field's effective key is exactly one UnknownKey report / one user-function call / nothing at all, "
             "per the attribute, summed over the members by c02_fields_independent. Correspondence + Spec.v monitor + pair monitor (extra keys change nothing) on generated derive inputs.",
        ref="5 C09", technique="Coq theorem by induction on the member list (run-level equality); relational in-Coq monitor on (payload, payload+extra keys) pairs",
        note="Trusted: as C01; the accepted list = effective keys in declaration order relies on Derive.v (C07). No axioms."),
    "C10": dict(
        text="Proof: nine theorems characterising run_unit_enum and run_tagged completely: exact case-sensitive first match, UnknownValue with all names in order, kind error [String] at "
             "the enum's / the tag's own location, MissingField(tag) at the enum's location, 'Incorrect tag value' at the enum's location, and on a match the fields are read by run_fields of "
             "that variant alone on the remaining entries. Correspondence + Spec.v monitor on every variant name, case variations, near-misses, non-string and missing tags.",
        ref="5 C10", technique="Coq theorems by unfolding + list lemmas; in-Coq differential check + Spec.v monitor",
        note="Trusted: as C01; effective variant names come from Derive.v (key_name_for_ident), tied by correspondence. No axioms."),
    "C11": dict(
        text="Proof: exact run equations for container-level from / try_from and for validate (function invoked once, right after and only after its input deserialized, with that value; "
             "failure handed to the error type once at the container's location; result flows into the output); field level, every script (c11_field_stage_ok / _err): once the field's value has "
             "deserialized its from/try_from function runs exactly once, right then, on that value - a failing try_from is handed to the field's error type, then to the container's, at the field's "
             "location - and when the value did not deserialize no function runs; (c11_maps_at_construction) map functions run once each in field order, skipped fields last, on the final values. "
             "The whole invocation sequence under a keep-going error type is the specified one (c02_refinement). Correspondence + Spec.v monitor on the sequence of invocations (mon_c11) + linearity monitor. Outside the model (no theorem): user functions that return the impl's own error type "
             "(try_from / validate -> E, field-level try_from -> E) are exercised through hand-written derive inputs (harness/src/own.rs) and judged by a monitor on the trace alone: each error such a "
             "function returns is handed over by the very next call at the container's (field's) location, and the hand-overs are exactly the failures of the payload.",
        ref="5 C11", technique="Coq run equations; in-Coq differential check with logging user functions + Spec.v monitor of the invocation sequence",
        note="Trusted: as C01 + the harness's user-function library and its Gallina twin (ufail). Field-level stages: under a keep-going error type the full sequence of invocations is the specified one by c02_refinement (trace_ucalls = s_ucalls); other scripts by correspondence. No axioms."),
    "C12": dict(
        text="Proof: every panic site of the code is an explicit RPanic outcome of the model (tuple slot unwraps, FieldState::unwrap, Vec->[T;N] conversion); c12_no_panic shows none is "
             "reachable for any target type, payload, script and state (invariants: empty accumulator => all slots filled / no FErr / no FMissing state / N outputs). Correspondence of the "
             "Ok/Err/panic class under catch_unwind incl. depth-128 payloads.",
        ref="5 C12", technique="Coq: Leaves invariant on call trees with loop invariants, induction on types; in-Coq differential check under catch_unwind",
        note="Trusted: as C01. Partial: stack exhaustion is runtime behaviour outside the model (depth 128 is executed; an abort is reported). Assumes user functions and IntoValue impls return. No axioms."),
    "C14": dict(
        text="Proof: (c14_first_report) the message of an always-Break pass-through error type is the rendering of the first call to the error type, and that call is the same under "
             "every script (hence the first report of the keep-going run); (c14_ok_same) an Ok run is the same run under every script; (c14_path_roundtrip, c14_path_injective) the JSON rendering of a location parses back into exactly its steps "
             "when no key contains '.' or '[' (for other keys the text is ambiguous by nature), hence names the place unambiguously; (c14_contents_*) text level: every message contains the back-quoted path from the root below the root and no place text at the root, and per kind the quoted JSON text of the offending value with the expected kinds, the missing field, the unknown key or value with the suggestion text (empty or one accepted alternative) and every accepted alternative, both lengths with the sequence, the detail message - for JsonError and QueryParamError. Correspondence: JsonError and QueryParamError messages "
             "compared character by character with Messages.v (paths, expected-kinds phrase, JSON text incl. escaping, did-you-mean, lengths) on every kind at every depth; monitor adds that "
             "the first report is true of the payload (path resolves to the quoted value).",
        ref="5 C14", technique="Coq theorems from the answer-insensitivity invariant + C01/C12; exact-string in-Coq differential check",
        note="Trusted: as C01 + Messages.v; float text (serde_json/Display) is an oracle: partial for floats. strsim as in C18. No axioms."),
    "C20": dict(
        text="Proof (thin by nature): extract fw = Extracted o iff the framework yielded a document and deserialize (JsonError) of it is Ok o; framework rejections pass through unchanged; "
             "a deserr failure is rejected as 400 with the message; nothing else is rejected. The content is the tie: actix-web AwebJson, AwebQueryParameter (from_query and FromRequest) and "
             "axum AxumJson driven in-process on generated requests, each compared with the framework's own extractor on an identical request followed by the model.",
        ref="5 C20", technique="Coq case-analysis theorems over an extractor model; in-process differential check against the frameworks' own extractors",
        note="Trusted: as C14; partial: async polling, body streaming, content-type negotiation happen inside actix/axum and are inputs (oracle), not modelled. No axioms."),
    "C04": dict(
        text="Proof: for every target type satisfying c04_wf (distinct effective keys per struct/variant, no variant field keyed like the tag), every payload with unique keys per object, "
             "every location at which the value sits in the payload, every script and state, EVERY call the interpreter can make is true of the payload (call_ok): locations resolve, "
             "IncorrectValueKind carries the value found there whose kind is not accepted, BadSequenceLen the sequence found there of another length, MissingField is absent there, UnknownKey is "
             "present there and not accepted, UnknownValue is the string found there and not accepted; by induction on types over a Calls invariant, using the C08 state invariant for missing "
             "fields; (c04_merge_location) under every script every hand-over merge(_, other, loc) is made at an ancestor-or-self of the location of every report held by other - a located typing "
             "discipline on call trees (each error value carries a location bound), sound for every run, induction on types; (c04_call_true) hence the very monitor the check evaluates on the "
             "implementation's traces (Monitors.call_true) holds of every call of every run of the model.",
        ref="5 C04", technique="Coq: Calls invariant on call trees + resolution lemmas + located typing discipline (Loc) with soundness, induction on types; in-Coq monitor evaluating the same "
                               "predicate on implementation traces",
        note="Trusted: as C01. Hypotheses stated in the theorem: c04_wf t, nodup_keys payload. No axioms."),
    "C07": dict(
        text="Proof: (c07_pairing) for every field list in any declaration order and attribute mix, the match arms generated from the vectors of NamedFieldsInfo are, position by position, the "
             "non-skipped fields in declaration order, each with its identifier, effective key, type, error type, conversion, default, map and missing-field function (stable sort + positional "
             "zip proved); (c07_variant_scope) a variant's fields are renamed by the variant's own rename_all only; (c07_effective_key) rename, else rename_all, else the identifier itself (without the raw-identifier escape: r#type is keyed type); (c07_member_fills_first_claimant, c07_claimed_key_fills) for every field list, colliding keys included, a member only ever fills a field whose effective key is exactly the member's key - the first one declared with it; (c07_field_filled_from_own_key, c07_own_member_result, specification level, interpreter through the C02 refinement) with "
             "distinct keys the value a field ends with is the result of the one member carrying exactly its effective key, whatever the other members are, else its default. camelCase / "
             "lowercase (convert_case, to_lowercase) are modelled for ASCII identifiers and tied by correspondence on generated derive inputs with payloads over all plausible keys.",
        ref="5 C07", technique="Coq theorems about the derive front-end model (list/zip/filter lemmas); in-Coq differential check on generated derive inputs compiled by the real macro",
        note="Trusted: as C01 + Derive.v; convert_case and str::to_lowercase are modelled (ASCII) and tied by correspondence only. No axioms."),
    "C08": dict(
        text="Proof: (c08_missing_state_iff) after the entry loop, under any script, field i is Missing iff it has no default and no payload member selected its arm (present-but-invalid and "
             "null never leave it Missing); (c08_selected_by_own_key) with distinct keys that means its key is absent; (c08_missing_reports) under a keep-going error type the missing loop "
             "reports exactly those fields, once each, in field order, as MissingField(effective key) at the container's location or through the user's function called with exactly (key, "
             "location); (c08_absent_key_default, c08_struct_value_shape, specification level, interpreter through the C02 refinement) a field whose key is absent ends with its default; a successful struct is "
             "its non-skipped fields in declaration order with their final values through their map functions, followed by the skipped fields built from their defaults alone. Correspondence + Spec.v "
             "monitor on all delete/null/corrupt subsets.",
        ref="5 C08", technique="Coq: Leaves invariant over the entry loop + explicit run of the missing loop + specification-level characterisation of field values; in-Coq differential check + Spec.v monitor",
        note="Trusted: as C01. The value-flow theorems are about Spec.spec (keep-going interpreter by c02_refinement; other scripts by correspondence). No axioms."),
    "C15": dict(
        text="Proof: (c15_spec_order_insensitive) for payloads v, v' related by permuting the members of any objects at any depth (veq: closure of member permutation under nesting in objects and "
             "sequences) where within each object keys are distinct and no two distinct keys parse to the same map key (wfv; e.g. \"1\" and \"01\" for an integer-keyed map, where the real code "
             "lets the last member win), every target type and location get the same value (Leibniz-equal: HashMap/BTreeMap/serde_json objects are modelled as sorted finite maps), the same reports up to "
             "order (actual values embedded in reports compared up to veq) and the same user-function invocations up to order; proved by induction on the permutation derivation and on the type, "
             "with order-insensitivity lemmas for the field machinery (at most one member fills a field), Map::remove of the tag, sorted-map insertion commutation, serde_json objects; "
             "(c15_deserialize_order_insensitive) transferred to the interpreter under a keep-going error type through the C02 refinement theorem. Correspondence: every catalogue type x payloads x "
             "member permutations at every depth (all for small objects, random for larger) through the order-preserving value source; implementation results compared pairwise in Coq.",
        ref="5 C15", technique="Coq: congruence/permutation proof over the declarative specification (induction on the permutation derivation x induction on types, permutation-modulo-relation lemmas, "
                               "sorted-insertion commutation) + transfer by refinement; in-Coq pairwise differential check on permuted payloads",
        note="Trusted: as C02. Hypothesis wfv excludes duplicate keys and parsed-key collisions (documented in DESIGN.md: order genuinely matters there). The theorem about the interpreter is for the "
             "keep-going error type (the one the property names); fail-fast runs are covered by the correspondence only. No axioms."),
    "C16": dict(
        text="Proof: (c16_never_accepted) every derive input that the property lists as rejectable (DeriveSpec.rejectable: empty/unknown/malformed attribute, invalid rename_all, a single-valued "
             "attribute twice within one attribute or across several, from with try_from, tag on a struct, try_from with rename_all/tag/deny_unknown_fields - at container, variant and field level - "
             "and the unsupported shapes) is never accepted by the front-end model; container causes yield Reject itself. The model has no panic outcome. (c16_container_no_override, "
             "c16_variant_no_override, c16_field_no_override) whenever attributes are accepted, every attribute item that was written - in whichever #[deserr(..)] group - is present in the merged "
             "attributes with exactly the value that was written: nothing is silently dropped or overridden; (c16_accepted_reads_attrs) an accepted item has readable, valid container attributes. Correspondence: generated crate of poisoned "
             "and control items compiled by the real macro with cargo check --message-format=json, accept/reject/panic attributed per item.",
        ref="5 C16", technique="Coq: merge invariants over attribute lists (counting invariant, brute-force merge inversion); differential check against rustc diagnostics",
        note="Trusted: as C07 + cargo/rustc diagnostics attribution by line. Field/variant causes are required only when no container-level from/try_from replaces the body (the macro does not look at "
             "the body then - documented in DESIGN.md). Wording/spans of diagnostics not compared. No axioms."),
}

NOT_YET = {}


def main():
    props = [json.loads(l) for l in open(os.path.join(VERIF, "properties.jsonl"))]
    checks, na = [], []
    for p in props:
        pid = p["id"]
        if pid in CHECKS:
            c = CHECKS[pid]
            checks.append({
                "property_id": pid,
                "quick_cmd": "python3 run.py %s --tier quick" % pid,
                "thorough_cmd": "python3 run.py %s --tier thorough" % pid,
                "evidence_file": "/verif/evidence/%s.json" % pid,
                "replay_cmd_template": "python3 run.py %s --replay {path}" % pid,
                "engine": "coq-model+correspondence",
                "level_claimed": {"category": "proof", "text": c["text"], "design_ref": c["ref"]},
                "level_note": c["note"],
                "technique": c["technique"],
            })
        else:
            na.append({"property_id": pid, "reason": NOT_YET.get(pid, "check not built yet in this session (work in progress, see DESIGN.md section 9 build order); not a claim that the technique cannot apply")})
    m = {
        "version": 1,
        "setup_cmd": "python3 setup.py",
        "hooks": {"guard": "deserr_verif", "enable": "no hooks are needed: everything is observed through the public API (RUSTFLAGS=\"--cfg deserr_verif\" would enable them)",
                  "baseline_off_cmd": BASELINE_OFF, "source_commits": [], "add_only": True},
        "engines": [{"name": "coq-model+correspondence", "path": "/verif/coq, /verif/harness, /verif/gen, /verif/run.py",
                     "serves_properties": sorted(CHECKS), "kind_free_text": "Rocq/Coq 8.16 theorems over a hand-written executable model; model tied to /repo on every run by an in-Coq differential check against a Rust harness"}],
        "checks": checks,
        "not_applicable": na,
        "notes": "See DESIGN.md. Every check rebuilds the harness against /repo's working tree (VERIF_REPO overrides), rebuilds all proofs (make), audits assumptions, then runs the correspondence and monitors.",
    }
    json.dump(m, open(os.path.join(VERIF, "MANIFEST.json"), "w"), indent=1)


if __name__ == "__main__":
    main()
