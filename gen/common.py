"""Shared machinery of the checks: builds, harness I/O, Coq emission, evidence, violations.

Every check goes through Ctx: it rebuilds the Coq project (full .vo build) and the harness
against the current working tree of the repository, runs cases on both sides and lets Coq do
the comparison (see DESIGN.md section 3).
"""
import fcntl
import hashlib
import json
import os
import random
import re
import subprocess
import sys
import time

VERIF = os.path.dirname(os.path.dirname(os.path.abspath(__file__)))
REPO = os.environ.get("VERIF_REPO", "/repo")
CACHE = os.path.join(VERIF, ".cache")
COQ = os.path.join(VERIF, "coq")
HARNESS = os.path.join(VERIF, "harness")
TARGET = os.path.join(CACHE, "target")
# the evidence files under /verif/evidence describe runs against /repo itself; a run against another tree (VERIF_REPO:
# seeded or refactored scratch copies during development) writes its evidence under .cache instead
EVIDENCE = os.path.join(VERIF, "evidence") if os.path.realpath(REPO) == "/repo" else os.path.join(VERIF, ".cache", "evidence_other_tree")
REPLAYS = os.path.join(VERIF, "replays")
NPROC = os.cpu_count() or 4

ENV = dict(os.environ)
ENV.update({"CARGO_NET_OFFLINE": "true", "CARGO_TARGET_DIR": TARGET})

FORBIDDEN = re.compile(
    r"\b(Admitted|admit|Axiom|Axioms|Parameter|Parameters|Conjecture|Conjectures|Hypothesis|Hypotheses|Variable|Variables)\b"
    r"|Unset\s+Guard|bypass_check|type-in-type|impredicative-set|Admit\s+Obligations|Unset\s+Positivity|Unset\s+Universe")

# axioms of the standard library that Flocq / Reals bring in (C05 float theorems only)
STDLIB_REAL_AXIOMS = {
    "ClassicalDedekindReals.sig_not_dec",
    "ClassicalDedekindReals.sig_forall_dec",
    "FunctionalExtensionality.functional_extensionality_dep",
    "Classical_Prop.classic",
}


class HarnessBuildFailed(Exception):
    """rustc refuses the harness - valid uses of deserr's public API and derive inputs the unchanged macro accepts -
    against the repository's current tree: the implementation can no longer be run, so the correspondence cannot be
    established and the property is no longer shown to hold (reported as a violation, no failing input)."""
    def __init__(self, what, out):
        self.what, self.out = what, out
        super().__init__("%s does not compile against %s" % (what, REPO))


def rustc_refused(out):
    """a compile error issued by rustc (as opposed to cargo being unable to run at all)"""
    return ("error[E" in out or "error: " in out) and "could not compile" in out


class Broken(Exception):
    """The check itself could not do its job (build failure, unreadable output...)."""


def sh(cmd, cwd=None, timeout=3600, env=None, inp=None):
    # In some sandboxes /dev/null is a regular file that accumulates whatever was redirected into it; cargo probes
    # the compiler with `rustc -` reading from it and fails when it is not empty. Emptying it is harmless on a real device.
    try:
        open("/dev/null", "w").close()
    except OSError:
        pass
    p = subprocess.run(cmd, cwd=cwd, timeout=timeout, env=env or ENV, input=inp,
                       stdout=subprocess.PIPE, stderr=subprocess.STDOUT, text=True)
    return p.returncode, p.stdout


class Lock:
    def __init__(self, name):
        os.makedirs(CACHE, exist_ok=True)
        self.path = os.path.join(CACHE, name + ".lock")

    def __enter__(self):
        self.f = open(self.path, "w")
        fcntl.flock(self.f, fcntl.LOCK_EX)

    def __exit__(self, *a):
        fcntl.flock(self.f, fcntl.LOCK_UN)
        self.f.close()


# ---------------------------------------------------------------------------- Coq build

def coq_sources():
    out = []
    with open(os.path.join(COQ, "_CoqProject")) as f:
        for line in f:
            line = line.strip()
            if line.endswith(".v"):
                out.append(line)
    return out


def check_forbidden():
    """No Admitted / Axiom / Parameter ... anywhere in the development (comments excluded)."""
    bad = []
    for rel in coq_sources():
        src = open(os.path.join(COQ, rel)).read()
        src = strip_coq_comments(src)
        for m in FORBIDDEN.finditer(src):
            # `Variable`/`Hypothesis` are allowed inside a Section only
            word = m.group(0)
            if word.split()[0] in ("Variable", "Variables", "Hypothesis", "Hypotheses"):
                if inside_section(src, m.start()):
                    continue
            bad.append((rel, word))
    return bad


def strip_coq_comments(src):
    out, depth, i, n = [], 0, 0, len(src)
    in_str = False
    while i < n:
        if depth == 0 and src[i] == '"':
            in_str = not in_str
            out.append(src[i]); i += 1
        elif not in_str and src.startswith("(*", i):
            depth += 1; i += 2
        elif not in_str and depth > 0 and src.startswith("*)", i):
            depth -= 1; i += 2
        elif depth > 0:
            i += 1
        else:
            out.append(src[i]); i += 1
    return "".join(out)


def inside_section(src, pos):
    opened = len(re.findall(r"^\s*Section\s+\w+", src[:pos], re.M))
    closed = 0
    for m in re.finditer(r"^\s*End\s+(\w+)\s*\.", src[:pos], re.M):
        name = m.group(1)
        if re.search(r"^\s*Section\s+%s\b" % re.escape(name), src[:m.start()], re.M):
            closed += 1
    return opened > closed


def build_coq():
    """Full .vo build of the whole development (no -vos). Returns the build log."""
    with Lock("coq"):
        mk = os.path.join(COQ, "Makefile")
        proj = os.path.join(COQ, "_CoqProject")
        if (not os.path.exists(mk)) or os.path.getmtime(mk) < os.path.getmtime(proj):
            rc, out = sh(["coq_makefile", "-f", "_CoqProject", "-o", "Makefile"], cwd=COQ)
            if rc != 0:
                raise Broken("coq_makefile failed:\n" + out)
        rc, out = sh(["timeout", "3000", "make", "-j%d" % NPROC], cwd=COQ, timeout=3100)
        if rc != 0:
            return False, out
        return True, out


def print_assumptions(prop, theorems):
    """Run `Print Assumptions` for each theorem of Properties/<prop>.v; returns {thm: set(axioms)}."""
    os.makedirs(os.path.join(CACHE, "cases"), exist_ok=True)
    path = os.path.join(CACHE, "cases", "assume_%s_%d.v" % (prop, os.getpid()))
    lines = ["From Deserr.Properties Require Import %s." % prop]
    for t in theorems:
        lines.append('Check (%s).' % t)
        lines.append('Print Assumptions %s.' % t)
    lines.append('Check (I).')
    open(path, "w").write("\n".join(lines) + "\n")
    rc, out = sh(["timeout", "600", "coqc", "-noglob", "-Q", COQ, "Deserr", path], cwd=os.path.dirname(path))
    for ext in (".v", ".vo", ".vok", ".vos", ".glob"):
        try:
            os.remove(path[:-2] + ext)
        except OSError:
            pass
    if rc != 0:
        raise Broken("Print Assumptions failed for %s:\n%s" % (prop, out))
    # split per theorem: output alternates Check output / assumptions
    res = {}
    chunks = re.split(r"^(?=\S)", out, flags=re.M)
    cur = None
    text = out
    # simpler: locate each theorem's Check line then the text up to the next Check
    positions = []
    for t in theorems:
        m = re.search(r"^%s\s*$|^%s\s*:" % (re.escape(t), re.escape(t)), text, re.M)
        if not m:
            raise Broken("no Check output for theorem %s" % t)
        positions.append((m.start(), t))
    positions.sort()
    for i, (pos, t) in enumerate(positions):
        end = positions[i + 1][0] if i + 1 < len(positions) else len(text)
        seg = text[pos:end]
        if "Closed under the global context" in seg:
            res[t] = set()
        elif "Axioms:" in seg:
            ax = seg.split("Axioms:", 1)[1]
            names = set(re.findall(r"^([A-Za-z_][\w.']*)\s*(?::|$)", ax, re.M))
            names.discard("I")
            res[t] = names
        else:
            raise Broken("cannot read assumptions of %s:\n%s" % (t, seg))
    return res


# ---------------------------------------------------------------------------- harness build

def repo_hash():
    h = hashlib.sha256()
    for root in ("src", "derive/src"):
        base = os.path.join(REPO, root)
        for d, _, files in sorted(os.walk(base)):
            for fn in sorted(files):
                p = os.path.join(d, fn)
                h.update(p.encode())
                h.update(open(p, "rb").read())
    for fn in ("Cargo.toml", "derive/Cargo.toml", "Cargo.lock"):
        h.update(open(os.path.join(REPO, fn), "rb").read())
    return h.hexdigest()[:16]


def ensure_fresh_repo_build(cwd, target_dir, env=None):
    """Guard against a stale build: cargo decides what to rebuild from file modification times, so a source
    tree whose files were restored with OLD timestamps (rsync -a, tar, some git workflows) would silently
    keep the previously compiled deserr / deserr-internal. The content hash of the repository's sources is
    remembered per target directory; when it changed since the last build there, the two crates of the
    repository are removed from that target directory so that cargo compiles them from what is on disk now."""
    h = repo_hash() + "@" + REPO
    marker = os.path.join(target_dir, ".deserr_repo_hash")
    old = open(marker).read() if os.path.exists(marker) else None
    if old != h:
        if old is not None:
            sh(["cargo", "clean", "--offline", "-p", "deserr", "-p", "deserr-internal"], cwd=cwd, timeout=600, env=env)
        os.makedirs(target_dir, exist_ok=True)
        return marker, h
    return None, None


def mark_fresh(marker, h):
    if marker:
        open(marker, "w").write(h)


def write_if_changed(path, content):
    if os.path.exists(path) and open(path).read() == content:
        return False
    open(path, "w").write(content)
    return True


def build_harness(generated_rs):
    """Builds the harness crate against the repository's current working tree."""
    with Lock("cargo"):
        tmpl = open(os.path.join(HARNESS, "Cargo.toml.in")).read()
        write_if_changed(os.path.join(HARNESS, "Cargo.toml"), tmpl.replace("@REPO@", REPO))
        lock_src = open(os.path.join(REPO, "Cargo.lock")).read()
        lock_dst = os.path.join(HARNESS, "Cargo.lock")
        if not os.path.exists(lock_dst):
            open(lock_dst, "w").write(lock_src)
        write_if_changed(os.path.join(HARNESS, "src", "generated.rs"), generated_rs)
        t0 = time.time()
        marker, hsh = ensure_fresh_repo_build(HARNESS, TARGET)
        rc, out = sh(["cargo", "build", "--offline", "--quiet"], cwd=HARNESS, timeout=3000)
        if rc != 0:
            # a stale lock file copied from an older tree: retry once with a fresh copy
            open(lock_dst, "w").write(lock_src)
            rc, out = sh(["cargo", "build", "--offline", "--quiet"], cwd=HARNESS, timeout=3000)
        if rc != 0:
            if rustc_refused(out):
                raise HarnessBuildFailed("the harness crate (/verif/harness)", out)
            raise Broken("harness does not build against %s:\n%s" % (REPO, out[-6000:]))
        mark_fresh(marker, hsh)
        return os.path.join(TARGET, "debug", "verif-harness"), time.time() - t0


def run_harness(binary, cases, shards=None):
    """cases: list of dicts; returns list of observation dicts (same order)."""
    if not cases:
        return []
    shards = shards or min(NPROC, max(1, len(cases) // 200))
    chunks = [cases[i::shards] for i in range(shards)]
    procs = []
    for ch in chunks:
        p = subprocess.Popen([binary], stdin=subprocess.PIPE, stdout=subprocess.PIPE,
                             stderr=subprocess.PIPE, text=True, env=ENV)
        procs.append(p)
    import threading
    results = [None] * shards

    def work(i):
        inp = "\n".join(json.dumps(c) for c in chunks[i]) + "\n"
        out, err = procs[i].communicate(inp)
        results[i] = (procs[i].returncode, out, err)
    ths = [threading.Thread(target=work, args=(i,)) for i in range(shards)]
    [t.start() for t in ths]
    [t.join() for t in ths]
    obs = [None] * len(cases)
    for i, (rc, out, err) in enumerate(results):
        lines = [l for l in out.split("\n") if l.strip()]
        if rc != 0 or len(lines) != len(chunks[i]):
            # the harness process died (abort / stack overflow): find the culprit case
            raise HarnessDied(chunks[i], lines, rc, err)
        for k, l in enumerate(lines):
            obs[i + k * shards] = json.loads(l)
    for c, o in zip(cases, obs):
        if isinstance(o, dict) and "impl_panic" in o:
            # a helper of the implementation (did_you_mean, the kinds phrase, pointers, conversions) panicked on this input
            raise ImplPanic(c, o)
    return obs


class ImplPanic(Exception):
    def __init__(self, case, obs):
        self.case, self.obs = case, obs
        super().__init__("the implementation panicked in mode %s: %s" % (obs.get("mode"), obs.get("impl_panic")))


class HarnessDied(Exception):
    def __init__(self, cases, lines, rc, err):
        self.cases, self.lines, self.rc, self.err = cases, lines, rc, err
        super().__init__("harness died rc=%s after %d/%d cases: %s" % (rc, len(lines), len(cases), err[-500:]))


# ---------------------------------------------------------------------------- Coq term emission

SAFE = set(range(32, 127)) - {ord('"')}


def cstr(s):
    """Coq string literal (byte string holding UTF-8)."""
    b = s.encode("utf-8")
    if all((c in SAFE) or c >= 128 for c in b) and "\ufeff" not in s:
        return '"' + s + '"'
    if all((c in SAFE) or c == ord('"') or c >= 128 for c in b):
        return '"' + s.replace('"', '""') + '"'
    return "(bs [" + ";".join(str(c) for c in b) + "])"


def cN(n):
    return "%d" % int(n)


def cZ(z):
    z = int(z)
    return ("(%d)%%Z" % z) if z < 0 else ("%d%%Z" % z)


def cbool(b):
    return "true" if b else "false"


def clist(items):
    return "[" + "; ".join(items) + "]"


def copt(x, f=lambda v: v):
    return "None" if x is None else "(Some %s)" % f(x)


def cstep(s):
    if isinstance(s, str):
        return "(SKey %s)" % cstr(s)
    return "(SIndex %s)" % cN(s["i"])


def cloc(steps):
    return clist([cstep(s) for s in steps])


def cvalue(w):
    """wire OV -> Coq `value` term"""
    if w is None:
        return "VNull"
    if w is True or w is False:
        return "(VBool %s)" % cbool(w)
    if isinstance(w, str):
        return "(VStr %s)" % cstr(w)
    if isinstance(w, list):
        return "(VSeq %s)" % clist([cvalue(x) for x in w])
    if "i" in w:
        return "(VInt %s)" % cN(w["i"])
    if "n" in w:
        return "(VNeg %s)" % cZ(w["n"])
    if "f" in w:
        return "(VFloat %d)" % int(w["f"], 16)
    if "m" in w:
        return "(VMap %s)" % clist(["(%s, %s)" % (cstr(k), cvalue(v)) for k, v in w["m"]])
    raise ValueError(w)


def cbigdef(name, typ, items, chunk=1000):
    """A long list definition split into chunks (a single huge literal overflows coqc's stack)."""
    parts = []
    names = []
    for k in range(0, max(1, len(items)), chunk):
        nm = "%s_%d" % (name, k // chunk)
        names.append(nm)
        parts.append("Definition %s : list (%s) := [\n%s].\n" % (nm, typ, ";\n".join(items[k:k + chunk])))
    parts.append("Definition %s : list (%s) := %s.\n" % (name, typ, " ++ ".join(names)))
    return "".join(parts)


CASE_HEADER = """From Deserr Require Import Base Pointer %s.
Local Open Scope string_scope.
Local Open Scope N_scope.
Local Open Scope list_scope.
"""


def run_coq_files(files, timeout=1500):
    """files: list of (name, text). Runs coqc on each in parallel; returns {name: stdout}."""
    d = os.path.join(CACHE, "cases")
    os.makedirs(d, exist_ok=True)
    procs = {}
    outs = {}
    pending = list(files)
    running = []
    while pending or running:
        while pending and len(running) < NPROC:
            name, text = pending.pop(0)
            path = os.path.join(d, name + ".v")
            open(path, "w").write(text)
            p = subprocess.Popen(["bash", "-c", "ulimit -s unlimited 2>/dev/null; exec timeout %d coqc -noglob -Q %s Deserr %s" % (timeout, COQ, path)],
                                 cwd=d, stdout=open(path[:-2] + ".out", "w"), stderr=subprocess.STDOUT, text=True)
            running.append((name, path, p))
        still = []
        for name, path, p in running:
            if p.poll() is None:
                still.append((name, path, p))
            else:
                out = open(path[:-2] + ".out").read()
                outs[name] = (p.returncode, out)
                for ext in (".vo", ".vok", ".vos", ".glob", ".out"):
                    try:
                        os.remove(path[:-2] + ext)
                    except OSError:
                        pass
        running = still
        if running:
            time.sleep(0.05)
    return outs


RES_RE = re.compile(r"=\s*(\[[^\]]*\])\s*:\s*list N", re.S)


def parse_idlists(out, expected):
    """Reads the `= [..] : list N` answers of a case file; Broken if not exactly `expected`."""
    found = RES_RE.findall(out)
    if len(found) != expected:
        raise Broken("expected %d result lists, got %d in coqc output:\n%s" % (expected, len(found), out[-3000:]))
    res = []
    for f in found:
        ids = [int(x) for x in re.findall(r"(\d+)(?:%N)?", f)]
        # produced by Base.report: the total count first, then at most 40 ids
        if not ids:
            raise Broken("result list without its count: " + f)
        res.append(BadList(ids[1:], ids[0]))
    return res


def evals(exprs):
    """the closing lines of a case file: one truncated report per comparator"""
    return "".join("Eval vm_compute in (report_ids (%s)).\n" % e for e in exprs)


class BadList(list):
    """the first ids on which a comparator failed, with the total number of failures"""
    def __init__(self, ids=(), total=0):
        super().__init__(ids)
        self.total = total

    def __bool__(self):
        return self.total > 0

    def __add__(self, other):
        return BadList(list(self) + list(other), self.total + other.total)


# ---------------------------------------------------------------------------- evidence / violations

def known_findings():
    path = os.path.join(VERIF, "known_findings.txt")
    out = []
    if os.path.exists(path):
        for line in open(path):
            line = line.strip()
            if line.startswith("finding:"):
                m = re.match(r"finding:\s*property=(\S+)\s+site=(\S+)\s*(.*)", line)
                if m:
                    out.append({"property": m.group(1), "site": m.group(2), "what": m.group(3)})
    return out


class Ctx:
    def __init__(self, prop, tier, seed):
        self.prop, self.tier, self.seed = prop, tier, seed
        self.rng = random.Random("%s-%s-%d" % (prop, tier, seed))
        self.t0 = time.time()
        self.violations = []      # (replay path, note)
        self.known_hits = []
        self.coverage = {}
        self.assumptions = []
        self.cov_samples = []

    def replay_path(self, tag):
        os.makedirs(REPLAYS, exist_ok=True)
        return os.path.join(REPLAYS, "%s-%d-%s.json" % (self.prop, self.seed, tag))

    def violation(self, tag, data, no_input=False, site=None):
        """Record a violation unless it is a listed known finding (matched by site)."""
        if site is not None:
            for k in known_findings():
                if k["property"] == self.prop and k["site"] == site:
                    if site not in [h[0] for h in self.known_hits]:
                        self.known_hits.append((site, k["what"]))
                    return
        path = self.replay_path(tag)
        data = dict(data)
        data.setdefault("property", self.prop)
        data.setdefault("seed", self.seed)
        data.setdefault("replay_cmd", "python3 run.py %s --replay %s" % (self.prop, path))
        json.dump(data, open(path, "w"), indent=1, default=str)
        self.violations.append((path, no_input))

    def finish(self, level="proof"):
        os.makedirs(EVIDENCE, exist_ok=True)
        cov = dict(self.coverage)
        # a run that explored nothing must not pass silently
        if not self.violations:
            if not cov.get("evaluations"):
                raise Broken("the run evaluated no case at all (coverage.evaluations = %r)" % cov.get("evaluations"))
            if "distinct_nontrivial" in cov and not cov["distinct_nontrivial"]:
                raise Broken("no non-trivial case was produced (coverage.distinct_nontrivial = 0)")
        ev = {
            "property_id": self.prop,
            "tier": self.tier,
            "seed": self.seed,
            "level": level,
            "coverage": cov,
            "assumptions": self.assumptions,
            "wall_s": round(time.time() - self.t0, 2),
            "violations": len(self.violations),
        }
        json.dump(ev, open(os.path.join(EVIDENCE, "%s.json" % self.prop), "w"), indent=1, default=str)
        for site, what in self.known_hits:
            print("KNOWN-FINDING: property=%s site=%s %s" % (self.prop, site, what))
        seen = set()
        for path, no_input in self.violations[:20]:
            if path in seen:
                continue
            seen.add(path)
            print("VIOLATION property=%s replay=%s%s" % (self.prop, path, " no-failing-input-found" if no_input else ""))
        sys.stdout.flush()
        return 1 if self.violations else 0


def proof_obligations(ctx, prop, theorems, allowed_axioms=frozenset()):
    """Step 5 of every check: rebuild all proofs, re-check statements are pinned, audit assumptions.
    Returns coverage keys for the evidence file; records violations (no-failing-input-found)
    when a theorem no longer checks."""
    ok, log = build_coq()
    if not ok:
        # the development is hand-written and does not depend on the repository: a proof that no
        # longer builds is a defect of the machinery itself, never a property violation
        raise Broken("the Coq development does not build:\n" + log[-4000:])
    bad = check_forbidden()
    if bad:
        raise Broken("forbidden keyword in the development: %s" % bad)
    src = strip_coq_comments(open(os.path.join(COQ, "Properties", prop + ".v")).read())
    discharged = 0
    for t in theorems:
        if not re.search(r"\bTheorem\s+%s\b" % re.escape(t), src) or not re.search(r"\bCheck\s+%s\s*:" % re.escape(t), src):
            raise Broken("theorem %s is missing from Properties/%s.v or its statement is not pinned with Check" % (t, prop))
    ass = print_assumptions(prop, theorems)
    for t in theorems:
        extra = ass[t] - set(allowed_axioms)
        if extra:
            raise Broken("theorem %s depends on axioms outside the allow-list: %s" % (t, sorted(extra)))
        discharged += 1
    return {"obligations": len(theorems), "discharged": discharged,
            "theorems": list(theorems),
            "axioms_used": {t: sorted(a) for t, a in ass.items() if a},
            "checker_cmd": "make -C /verif/coq (coq_makefile, coqc 8.16.1, full .vo build) + coqc Print Assumptions per theorem",
            "trusted_base": TRUSTED_BASE}


TRUSTED_BASE = [
    "Coq 8.16.1 kernel and vm_compute (no native_compute, no extraction); every theorem of Properties/*.v is closed under the global context (Print Assumptions audited on this run; no axiom allow-list entries)",
    "hand-written Gallina model under /verif/coq (Deser.v, Derive.v, Scalars.v, Fround.v, Json.v, Messages.v, Http.v ...) and the declarative specification Spec.v - tied to /repo by the correspondence check of this run on this run's inputs, unchecked beyond them",
    "harness crates /verif/harness, harness_reject, harness_http (OV value source, Rec recording error type, ToOut, logging user-function library and its Gallina twin ufail)",
    "Python generators / Coq emitter under /verif/gen and run.py",
    "cargo/rustc building /repo; for C16 rustc's diagnostics attributed to items by source line; for C20 the frameworks' own extractors as oracle",
    "modelled dependencies (strsim, convert_case on ASCII identifiers, str::to_lowercase, FromStr of std integers, serde-cs, serde_json Number/Map): tied by correspondence, not proved",
]
