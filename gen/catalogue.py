"""Type catalogue (hand-written + randomly generated derive inputs), generated.rs for the harness,
and payload / script generators."""
import copy
import os
import random
from . import common as C
from . import tys as T
from .tys import Field, Variant, Item


class Entry:
    def __init__(self, tid, ty, tags=()):
        self.tid, self.ty, self.tags = tid, ty, set(tags)
        self.items = T.items_in(ty)
        self.rec_only = any(it.rec_only() for it in self.items)

    def rust(self):
        return T.rust(self.ty)

    def coq(self):
        return T.coq(self.ty)


class Harness:
    def __init__(self, binary, entries):
        self.binary = binary
        self.entries = entries


# ------------------------------------------------------------------ hand-written catalogue

class Ids:
    def __init__(self):
        self.fn = 10
        self.item = 0

    def f(self):
        self.fn += 1
        return self.fn

    def name(self, prefix="S"):
        self.item += 1
        return "%s%d" % (prefix, self.item)


def std_types():
    I = T.Int
    out = []
    out += [(t, ("scalar",)) for t in [T.Unit, T.Bool, T.F32, T.F64, T.Char, T.String]]
    out += [(I(n), ("scalar", "int")) for n in T.INTS]
    cont = [
        T.Vec(I("u8")), T.Vec(T.Vec(I("i16"))), T.Option(I("u8")), T.Option(T.Vec(T.String)), T.Box(I("u8")),
        T.Box(T.Option(T.Bool)), T.Array(3, I("u8")), T.Array(0, T.Bool), T.Array(2, T.Option(T.Bool)),
        T.Array(4, T.Vec(I("i8"))), T.Tuple(I("u8"), T.String), T.Tuple(T.Bool, I("i8"), T.Vec(I("u8"))),
        T.Tuple(T.Tuple(I("u8"), T.Bool), T.Option(T.String)), T.HashSet(I("u8")), T.BTreeSet(T.String),
        T.BTreeSet(T.Tuple(I("u8"), T.Bool)), T.Map("hash", "String", I("u8")), T.Map("btree", "u32", I("u8")),
        T.Map("btree", "i8", T.Vec(I("u8"))), T.Map("hash", "bool", T.String), T.Map("btree", "NonZeroU8", T.Bool),
        T.Map("btree", "String", T.Vec(T.Option(I("u8")))), T.Map("hash", "u64", T.Map("btree", "String", I("i32"))),
        T.CS("u8"), T.CS("String"), T.CS("i16"), T.CS("bool"), T.Phantom(), T.Json, T.Vec(T.Json), T.Option(T.Json),
        T.Map("btree", "String", T.Json), T.Vec(T.Tuple(I("u8"), T.Option(T.String))), T.Vec(T.Option(T.Vec(I("u16")))),
        T.Option(T.Option(I("u8"))), T.Vec(T.Array(2, I("u8"))), T.Tuple(T.Vec(I("u8")), T.Map("btree", "u8", I("u8"))),
        T.Vec(T.Char), T.Option(T.Unit), T.HashSet(T.Option(T.String)), T.Vec(T.F64), T.Tuple(T.F32, T.F64),
    ]
    out += [(t, ("container",)) for t in cont]
    return out


def hand_items(ids):
    """derived types covering every attribute at least once (the fixed part of the catalogue)"""
    I = T.Int
    f = ids.f
    items = []

    def S(name, fields, attrs=None):
        it = Item(name, "struct", attrs=attrs or [], fields=fields)
        items.append(it)
        return it

    def E(name, variants, attrs=None):
        it = Item(name, "enum", attrs=attrs or [], variants=variants)
        items.append(it)
        return it
    plain = S("HPlain", [Field("x", T.Bool), Field("y", I("u8"))])
    S("HRenameAll", [Field("my_field", T.Bool), Field("hello_world", I("u8"), [[("rename", "goodbye_world")]]),
                     Field("http_url2", T.String), Field("_lead", I("u8")), Field("a__b", I("u8")), Field("xY", T.Bool)],
      [[("rename_all", "camelCase")]])
    S("HLower", [Field("MyField", T.Bool), Field("other_Field", I("i8"))], [[("rename_all", "lowercase")]])
    S("HDeny", [Field("doggo", T.String), Field("catto", I("u8"), [[("default", None)]])], [[("deny", None)]])
    S("HDenyFn", [Field("doggo", T.String), Field("sk", I("u8"), [[("skip",)]]), Field("catto", T.Option(I("u8")))],
      [[("deny", f())], [("where_uerr",)]])
    S("HDefaults", [Field("a", I("u8"), [[("default", None)]]), Field("b", T.String, [[("default", ('String::from("dflt")', "dflt"))]]),
                    Field("c", T.Option(I("u8"))), Field("d", T.Vec(I("u8")), [[("default", ("vec![1, 2]", {"l": [{"i": "1"}, {"i": "2"}]}))]]),
                    Field("e", I("i32"), [[("skip",)]]), Field("g", T.Bool, [[("skip",), ("default", ("true", True))]])])
    S("HSkipMid", [Field("first", I("u8")), Field("skipped", T.String, [[("skip",)]]), Field("last", T.Bool),
                   Field("sk2", T.Vec(I("u8")), [[("skip",)], [("default", ("vec![7]", {"l": [{"i": "7"}]}))]])],
      [[("deny", None)]])
    S("HMissing", [Field("a", I("u8"), [[("missing", f())]]), Field("b", T.String), Field("c", T.Bool, [[("missing", f())]])],
      [[("where_uerr",)]])
    S("HMissingRenamed", [Field("good_boy", I("u8"), [[("missing", f())]]), Field("catto", T.String, [[("rename", "cat"), ("missing", f())]]),
                          Field("plain_one", T.Bool), Field("HTTPPort", I("u16"), [[("missing", f())], [("default", None)]])],
      [[("rename_all", "camelCase")], [("where_uerr",)]])
    E("HMissingVariant", [Variant("Big", [Field("side_length", I("u8"), [[("missing", f())]]), Field("DeltaX", T.Bool)], [[("rename_all", "lowercase")]]),
                          Variant("Small", [Field("side_length", I("u8")), Field("other_one", T.String, [[("missing", f())]])])],
      [[("tag", "kind"), ("rename_all", "camelCase")], [("where_uerr",)]])
    m1, m2, m3 = f(), f(), f()
    S("HMap", [Field("a", T.W(I("u8")), [[("map", m1, I("u8"))]]),
               Field("b", T.W(T.String), [[("map", m2, T.String), ("default", None)]]),
               Field("c", T.W(T.Option(I("u8"))), [[("skip",), ("map", m3, T.Option(I("u8")))]]),
               Field("d", T.W(I("i16")), [[("default", ("crate::user::w(5)", {"i": "5"})), ("map", f(), I("i16"))]])])
    f1, f2, f3, f4 = f(), f(), f(), f()
    S("HFrom", [Field("a", T.W(T.String), [[("from", T.String, f1, False)]]),
                Field("b", T.W(I("u8")), [[("from", I("u8"), f2, True)]]),
                Field("c", T.W(T.Vec(I("u8"))), [[("try_from", T.Vec(I("u8")), f3, False)]]),
                Field("d", T.W(I("i32")), [[("try_from", I("i32"), f4, True)], [("default", None)]]),
                Field("e", T.W(T.String), [[("from", T.String, f(), False), ("map", f(), T.String)]])])
    v1 = f()
    S("HValidate", [Field("a", I("u8")), Field("b", T.String)], [[("validate", v1)]])
    g1, g2 = f(), f()
    S("HFieldErr", [Field("a", I("u8"), [[("error", 1)]]), Field("b", T.W(T.String), [[("error", 1), ("try_from", T.String, g1, False)]]),
                    Field("c", T.Vec(I("u8"))), Field("d", T.W(I("u8")), [[("try_from", I("u8"), g2, False)]])],
      [[("error", 0)]])
    c1 = f()
    items.append(Item("HCFrom", "newtype_from", attrs=[[("from", T.Vec(I("u8")), c1, False)]]))
    c2, c3 = f(), f()
    items.append(Item("HCTryFrom", "newtype_from", attrs=[[("try_from", T.String, c2, True)], [("validate", c3)]]))
    # the two remaining spellings of container-level conversions: from by reference, try_from by value
    items.append(Item("HCFromRef", "newtype_from", attrs=[[("from", T.String, f(), True)]]))
    items.append(Item("HCTryFromVal", "newtype_from", attrs=[[("try_from", T.Vec(I("u8")), f(), False)]]))
    E("HUnitEnum", [Variant("Alpha"), Variant("BetaGamma"), Variant("delta", attrs=[[("rename", "D")]])])
    E("HUnitEnumCamel", [Variant("AlphaOne"), Variant("HTTPServer"), Variant("X2y")], [[("rename_all", "camelCase")]])
    E("HTagged", [Variant("A"), Variant("B", [Field("x", T.Bool), Field("y", I("u8"))]),
                  Variant("See", [Field("my_x", T.String), Field("y", T.Vec(I("u8")), [[("default", None)]])],
                          attrs=[[("rename", "c"), ("rename_all", "camelCase")]])],
      [[("tag", "type")]])
    E("HTaggedDeny", [Variant("One", [Field("a_b", I("u8"))]), Variant("Two", [Field("a_b", T.String), Field("type_", T.Bool, [[("rename", "kind")]])]),
                      Variant("Three")],
      [[("tag", "t"), ("rename_all", "lowercase")], [("deny", None)]])
    S("HNested", [Field("inner", T.It(plain)), Field("list", T.Vec(T.It(plain))), Field("opt", T.Option(T.It(plain))),
                  Field("m", T.Map("btree", "String", T.It(plain)), [[("default", None)]])], [[("deny", None)]])
    S("HEmpty", [])
    S("HEmptyDeny", [], [[("deny", None)]])
    # two fields claiming one effective key (accepted by the derive: the first claimant is filled, the other never is);
    # the fields declared after them must still be read from their own keys
    S("HCollide", [Field("a", I("u8"), [[("rename", "b")]]), Field("b", I("u8"), [[("default", None)]]), Field("c", I("u8"), [[("default", None)]]),
                   Field("d", T.String)])
    S("HCollideSkip", [Field("x", I("u8"), [[("rename", "y")]]), Field("s", I("u8"), [[("skip",)]]), Field("y", I("u8"), [[("default", None)]]),
                       Field("z", T.String), Field("w", T.Bool, [[("default", None)]])], [[("deny", None)]])
    E("HCollideVariant", [Variant("V", [Field("foo_bar", I("u8")), Field("fooBar", I("u8"), [[("default", None)]]), Field("tail_end", T.Bool),
                                        Field("last", T.Option(I("u8")))], [[("rename_all", "camelCase")]]),
                          Variant("W", [Field("foo_bar", I("u8")), Field("fooBar", T.Bool)])],
      [[("tag", "t"), ("rename_all", "lowercase")]])
    # identifiers and keys outside ASCII: `rename_all = lowercase` is str::to_lowercase (not ASCII lowercasing), and the
    # did-you-mean / message code must cope with texts that first differ inside a multi-byte character
    E("HUnicodeEnum", [Variant("\u00d6sterreich"), Variant("\u00c9tatsUnis"), Variant("\u0395\u03bb\u03bb\u03ac\u03b4\u03b1"), Variant("\u0420\u043e\u0441\u0441\u0438\u044f"),
                       Variant("PlainOne"), Variant("C\u00f4teDIvoire", attrs=[[("rename", "CIV")]])], [[("rename_all", "lowercase")]])
    E("HUnicodeEnumAsIs", [Variant("\u00d6sterreich"), Variant("\u00c9tatsUnis"), Variant("dog")])
    E("HUnicodeTagged", [Variant("\u00dcbung", [Field("\u00dcberSchrift", T.String), Field("MaxWert", I("u8"), [[("default", None)]])], [[("rename_all", "lowercase")]]),
                         Variant("\u0401\u043b\u043a\u0430"), Variant("Zwei", [Field("\u00c4nderung", T.Bool)])],
      [[("tag", "art"), ("rename_all", "lowercase")], [("deny", None)]])
    S("HUnicodeKeys", [Field("first_name", T.String, [[("rename", "pr\u00e9nom")]]), Field("pet", I("u8"), [[("rename", "dog-\U0001f436")]]),
                       Field("\u00dcberSchrift", T.Bool, [[("default", None)]]), Field("na\u00efve_cl\u00e9", T.Option(I("u8")))],
      [[("deny", None)], [("rename_all", "lowercase")]])
    # a wide struct (more fields than the small-slice thresholds of the standard sorts: 20) with skipped fields in the
    # middle: declaration order of the non-skipped fields must survive in the accepted-keys list and the missing reports
    wide = []
    for n in range(26):
        nm = "f%02d_%s" % (n, "abcdefghijklmnopqrstuvwxyz"[(n * 7) % 26])
        ty = [I("u8"), T.Bool, T.String, T.Option(I("u8"))][n % 4]
        at = []
        if n in (3, 11, 12, 20):
            at = [[("skip",)]]
        elif n in (5, 17):
            at = [[("default", None)]]
        elif n == 8:
            at = [[("rename", "zz_renamed")]]
        wide.append(Field(nm, ty, at))
    S("HWide", wide, [[("deny", None)]])
    E("HWideVariant", [Variant("Big", [Field(fl.ident, fl.ty, copy.deepcopy(fl.attrs)) for fl in wide[:23]]), Variant("Small", [Field("x", I("u8"))])],
      [[("tag", "kind")], [("deny", f())], [("where_uerr",)]])
    # generic derive inputs (the impl header the derive assembles: parameters, their bounds, a where clause, the added
    # `T: Deserr<E>` predicates); the model is given the instance the catalogue uses
    TO = "crate::out::ToOut"
    items.append(Item("HGen", "struct", attrs=[[("deny", None)], [("validate", f())]],
                      fields=[Field("a", T.Bool, decl="T"), Field("b_list", T.Vec(T.String), [[("needs_predicate",)]], decl="Vec<U>"),
                              Field("c", T.Option(T.Bool), [[("rename", "see")]], decl="Option<T>"), Field("d", I("u8"), [[("default", None)]])],
                      generics=[("T", TO, T.Bool), ("U", None, T.String)], where="U: Clone + " + TO))
    items.append(Item("HGenEnum", "enum", attrs=[[("tag", "type"), ("rename_all", "camelCase")]],
                      variants=[Variant("WithT", [Field("x_val", T.Vec(I("u8")), decl="T")]),
                                Variant("Other", [Field("y", T.Option(T.Vec(I("u8"))), decl="Option<T>"), Field("z", I("u8"), [[("missing", f())]])]),
                                Variant("Plain")],
                      generics=[("T", None, T.Vec(I("u8")))]))
    items.append(Item("HGenNested", "struct", fields=[Field("inner", T.It(plain), decl="T"), Field("list", T.Vec(T.It(plain)), decl="Vec<T>"),
                                                      Field("m", T.Map("btree", "String", I("i8")), decl="std::collections::BTreeMap<String, K>")],
                      generics=[("T", None, T.It(plain)), ("K", None, I("i8"))]))
    # two variants with one effective name (the derive accepts it): the first DECLARED one is selected, whatever its shape
    E("HTagCollide", [Variant("Circle", [Field("radius", I("u8"))], [[("rename", "Point")]]), Variant("Point"),
                      Variant("Solo"), Variant("Duo", [Field("x", T.Bool, [[("default", None)]])], [[("rename", "Solo")]]),
                      Variant("AB", [Field("y", I("u8"))]), Variant("Ab")],
      [[("tag", "t"), ("rename_all", "lowercase")]])
    E("HUnitCollide", [Variant("First"), Variant("Second", attrs=[[("rename", "First")]]), Variant("third"), Variant("Third")], [[("rename_all", "lowercase")]])
    # Option<Option<T>> fields are required like any other field (no implicit default)
    S("HNestedOpt", [Field("a", T.Option(T.Option(I("u8")))), Field("b", T.Option(T.Option(T.String)), [[("missing", f())]]), Field("c", I("u8")),
                     Field("d", T.Option(T.Option(T.Bool)), [[("default", None)]])], [[("where_uerr",)]])
    # a struct whose fields have their own error type, nested below other containers (locations must stay absolute)
    hfe = [it for it in items if it.name == "HFieldErr"][0]
    S("HFieldErrOuter", [Field("inner", T.It(hfe)), Field("list", T.Vec(T.It(hfe))), Field("by_key", T.Map("btree", "String", T.It(hfe)), [[("default", None)]]),
                         Field("pair", T.Tuple(I("u8"), T.It(hfe))), Field("count", T.Vec(I("u8")), [[("error", 1)]])])
    # camelCase word boundaries inside "single words": a digit followed by a letter
    S("HCamelDigits", [Field("sha256sum", T.String), Field("ipv4addr", I("u8"), [[("default", None)]]), Field("utf8mode", T.Bool), Field("crc32", I("u8")),
                       Field("h264profile_id", T.Option(I("u8")))], [[("rename_all", "camelCase")], [("deny", None)]])
    # variant names that look like numbers (an integer tag is still not a string)
    E("HDigitTagged", [Variant("V0", [Field("x", I("u8"))], [[("rename", "0")]]), Variant("V2", [Field("name", T.String), Field("retries", I("u8"), [[("default", None)]])], [[("rename", "2")]]),
                       Variant("V17", attrs=[[("rename", "17")]])], [[("tag", "version")]])
    E("HDigitUnit", [Variant("Low", attrs=[[("rename", "0")]]), Variant("Mid", attrs=[[("rename", "1")]]), Variant("High", attrs=[[("rename", "2")]]), Variant("Neg", attrs=[[("rename", "-1")]])])
    # the empty string as an effective name (variant, tag value, key)
    E("HEmptyName", [Variant("Meter"), Variant("Dimensionless", attrs=[[("rename", "")]]), Variant("Mile")], [[("rename_all", "lowercase")]])
    E("HEmptyNameTagged", [Variant("Nothing", attrs=[[("rename", "")]]), Variant("Some1", [Field("x", I("u8"), [[("rename", "")]]), Field("y", T.Bool, [[("default", None)]])])],
      [[("tag", "u")], [("deny", None)]])
    S("HEmptyKey", [Field("a", I("u8"), [[("rename", "")]]), Field("b", T.String)], [[("deny", None)]])
    # raw identifiers: the key is the identifier's text as `Ident::to_string` gives it
    S("HRaw", [Field("r#type", I("u8")), Field("r#match", T.Bool, [[("default", None)]]), Field("plain_one", T.String), Field("r#fn", I("u8"), [[("rename", "fn")]])],
      [[("deny", None)]])
    E("HRawTagged", [Variant("Loop", [Field("r#loop", I("u8")), Field("r#type", T.Bool, [[("default", None)]])], [[("rename_all", "camelCase")]]), Variant("Unit")],
      [[("tag", "kind")]])
    # lifetime and const parameters (the derive copies them into the impl header; only type parameters get a Deserr bound)
    items.append(Item("HConst", "struct", attrs=[[("deny", None)]],
                      fields=[Field("arr", T.Array(3, I("u8")), decl="[u8; N]"), Field("mark", T.Phantom(), [[("default", None)]], decl="std::marker::PhantomData<&'a u8>"),
                              Field("tail", T.Vec(T.Bool), decl="Vec<T>")],
                      generics=[("'a", "lifetime", None), ("T", None, T.Bool), ("N", "const usize", 3)]))
    return items


# ------------------------------------------------------------------ random derive inputs

IDENT_POOL = ["a", "b", "x", "id", "name", "my_field", "hello_world", "http_url2", "_lead", "a__b", "xY", "fooBar", "f1",
              "is_ok", "trail_", "v2x", "ABc", "kind", "value", "data2d", "r", "snake_case_name", "MAX", "i18n_key"]
VARIANT_POOL = ["A", "B", "Alpha", "BetaGamma", "HTTPServer", "X2y", "Unit", "WithData", "Other", "V1", "Foo_bar", "C3po"]
RENAMES = ["renamed", "x", "type", "goodbye_world", "ID", "a.b", "weird key", "myField", "é", "prénom", "naïve_clé", "dog-\U0001f436", "Überschrift"]


def base_types(rng, items, allow_items=True, depth=0):
    I = T.Int
    pool = [I("u8"), I("i16"), I("u32"), I("i64"), T.Bool, T.String, T.Option(I("u8")), T.Vec(I("u8")), T.Option(T.String),
            T.Char, T.F64, T.Unit, T.Vec(T.Option(T.Bool)), T.Tuple(I("u8"), T.Bool), T.Map("btree", "String", I("u8")),
            T.Map("hash", "u32", T.String), T.HashSet(I("u8")), T.Box(I("i8")), T.Array(2, I("u8")), T.CS("u8"),
            I("NonZeroU8"), T.Json, T.Vec(T.String), T.Option(T.Vec(I("u16"))), T.Option(T.Option(I("u8"))), T.Option(T.Option(T.String))]
    if allow_items and items and rng.random() < 0.35:
        it = rng.choice(items)
        w = rng.choice([lambda x: x, T.Vec, T.Option, lambda x: T.Map("btree", "String", x), lambda x: T.Tuple(I("u8"), x), T.Box])
        return w(T.It(it))
    return rng.choice(pool)


def literal_for(t, rng):
    """(rust expression, out wire) of a non-default literal of the type, or None"""
    k = t[0]
    if k == "w":
        inner = literal_for(t[1], rng)
        return ("crate::user::w(%s)" % inner[0], inner[1]) if inner else None
    if k == "int" and not t[1].startswith("NonZero"):
        lo, hi = T.int_range(t[1])
        v = rng.choice([1, 7, 42, min(hi, 200)])
        return ("%d" % v, {"i": str(v)})
    if k == "bool":
        return ("true", True)
    if k == "string":
        s = rng.choice(["dflt", "x", ""])
        return ('String::from("%s")' % s, s)
    if k == "option":
        inner = literal_for(t[1], rng)
        if inner and rng.random() < 0.6:
            return ("Some(%s)" % inner[0], {"some": inner[1]})
        return ("None", {"none": 0})
    if k == "vec":
        inner = literal_for(t[1], rng)
        if inner:
            return ("vec![%s]" % inner[0], {"l": [inner[1]]})
        return ("vec![]", {"l": []})
    return None


def has_default(t):
    k = t[0]
    if k == "int":
        return not t[1].startswith("NonZero")
    if k in ("unit", "bool", "f32", "f64", "char", "string", "phantom", "json", "vec", "hashset", "btreeset", "map", "option", "cs"):
        return True
    if k == "tuple":
        return all(has_default(x) for x in t[1:])
    if k == "box":
        return has_default(t[1])
    if k == "w":
        return has_default(t[1])
    return False


def rand_fields(rng, ids, items, n, used=None):
    fields = []
    idents = rng.sample(IDENT_POOL, n)
    for ident in idents:
        base = base_types(rng, items)
        attrs = []
        declared = base
        r = rng.random
        conv = None
        if r() < 0.12:
            fn = ids.f()
            conv = ("from", base, fn, r() < 0.4 and clonable(base))
            declared = T.W(base)
        elif r() < 0.14:
            fn = ids.f()
            conv = ("try_from", base, fn, r() < 0.4 and clonable(base))
            declared = T.W(base)
        if conv:
            attrs.append(conv)
        if r() < 0.12:
            if declared[0] != "w":
                declared = T.W(declared)
            attrs.append(("map", ids.f(), declared[1]))
        skipped = False
        if r() < 0.12 and has_default(declared):
            attrs.append(("skip",))
            skipped = True
        if has_default(declared) and r() < 0.3:
            lit = literal_for(declared, rng) if r() < 0.5 else None
            attrs.append(("default", lit))
        elif skipped and r() < 0.3:
            lit = literal_for(declared, rng)
            if lit:
                attrs.append(("default", lit))
        if r() < 0.15:
            attrs.append(("rename", rng.choice(RENAMES) + rng.choice(["", "", "2"])))
        if r() < 0.12 and not skipped:
            attrs.append(("missing", ids.f()))
        rng.shuffle(attrs)
        # spread over one or several #[deserr(..)] attributes
        groups = []
        for a in attrs:
            if groups and r() < 0.5:
                groups[-1].append(a)
            else:
                groups.append([a])
        fields.append(Field(ident, declared, groups))
    # distinct effective keys are a hypothesis of C04/C07: regenerate renames that collide
    return fields


def clonable(t):
    return not (t[0] == "item" or any(isinstance(x, tuple) and not clonable(x) for x in t[1:]))


def rand_item(rng, ids, items):
    r = rng.random
    name = ids.name("G")
    cattrs = []
    if r() < 0.4:
        cattrs.append(("rename_all", rng.choice(["camelCase", "lowercase"])))
    if r() < 0.35:
        cattrs.append(("deny", None if r() < 0.6 else ids.f()))
    if r() < 0.15:
        cattrs.append(("validate", ids.f()))
    if r() < 0.6:
        fields = rand_fields(rng, ids, items, rng.choice([0, 1, 2, 2, 3, 3, 4, 5, 6]))
        it = Item(name, "struct", fields=fields)
    else:
        nv = rng.choice([1, 2, 3, 4])
        idents = rng.sample(VARIANT_POOL, nv)
        unit_only = r() < 0.35
        variants = []
        for vi in idents:
            va = []
            if r() < 0.25:
                va.append(("rename", rng.choice(["v", "Renamed", "alpha", "x-y"]) + vi[:1]))
            if r() < 0.3 and not unit_only:
                va.append(("rename_all", rng.choice(["camelCase", "lowercase"])))
            vg = [va] if va else []
            if unit_only or r() < 0.3:
                variants.append(Variant(vi, None, vg))
            else:
                variants.append(Variant(vi, rand_fields(rng, ids, items, rng.choice([0, 1, 2, 3])), vg))
        if not unit_only:
            cattrs.append(("tag", rng.choice(["type", "t", "kind", "my_tag"])))
        else:
            cattrs = [a for a in cattrs if a[0] != "deny"]
        it = Item(name, "enum", variants=variants)
    rng.shuffle(cattrs)
    groups = []
    for a in cattrs:
        if groups and r() < 0.5:
            groups[-1].append(a)
        else:
            groups.append([a])
    it.attrs = groups
    if r() < 0.2:
        # a generic item: some fields without conversions or defaults get a type parameter as their declared type
        plain = [fl for fl in it.all_fields() if not any(a[0] in ("from", "try_from", "map", "default", "skip") for a in fl.flat())]
        rng.shuffle(plain)
        for n, fl in enumerate(plain[:rng.choice([1, 1, 2])]):
            pname = "T%d" % n
            if fl.ty[0] in ("vec", "option", "box") and r() < 0.5:
                fl.decl = "%s<%s>" % ({"vec": "Vec", "option": "Option", "box": "Box"}[fl.ty[0]], pname)
                conc = fl.ty[1]
            else:
                fl.decl, conc = pname, fl.ty
            it.generics.append((pname, "crate::out::ToOut" if r() < 0.5 or it.get("validate") else None, conc))
    return it


def uses_user_errors(it, seen=None):
    """does deserializing the item (transitively) hand a UErr to the error type"""
    for a in it.flat():
        if a[0] in ("try_from", "validate") or (a[0] == "deny" and a[1] is not None):
            return True
    for f in it.all_fields():
        for a in f.flat():
            if a[0] in ("try_from", "missing"):
                return True
    for s in it.subtypes():
        for sub in T.items_in(s):
            if sub is not it and uses_user_errors(sub):
                return True
    return False


def finalize_item(it):
    """add the bounds rustc needs: fixed error type when a child has one, MergeWithError<UErr> otherwise"""
    child_rec = any(sub.rec_only() for s in it.subtypes() for sub in T.items_in(s) if sub is not it)
    field_err = any(a[0] == "error" for f in it.all_fields() for a in f.flat())
    if (child_rec or field_err) and not it.rec_only():
        it.attrs.append([("error", 0)])
    if uses_user_errors(it) and not it.rec_only() and not any(a[0] == "where_uerr" for a in it.flat()):
        it.attrs.append([("where_uerr",)])
    return it


# ------------------------------------------------------------------ catalogue + generated.rs

def make_entries(type_seed, n_random):
    ids = Ids()
    entries = []
    for t, tags in std_types():
        entries.append((t, tags))
    hand = [finalize_item(it) for it in hand_items(ids)]
    for it in hand:
        entries.append((T.It(it), ("derived", "hand")))
    rng = random.Random("types-%d" % type_seed)
    gen = []
    for _ in range(n_random):
        it = finalize_item(rand_item(rng, ids, gen[-6:] + hand[:1]))
        gen.append(it)
        entries.append((T.It(it), ("derived", "random")))
    # a few std containers around derived items
    for it in (hand[:3] + gen[:4]):
        entries.append((T.Vec(T.It(it)), ("container", "derived")))
        entries.append((T.Map("btree", "String", T.Option(T.It(it))), ("container", "derived")))
    return [Entry(i, t, tags) for i, (t, tags) in enumerate(entries)]


def generated_rs(entries):
    items = []
    for e in entries:
        for it in e.items:
            if it not in items:
                items.append(it)
    src = ["#![allow(non_snake_case, non_camel_case_types, dead_code, unused_imports)]",
           "use crate::out::ToOut;", "use crate::Case;", "use serde_json::{json, Value as J};", ""]
    for it in items:
        src.append(it.rust_src())
    arms = []
    for e in entries:
        fn = "crate::run_rec" if e.rec_only else "crate::run_any"
        arms.append("        %d => %s::<%s>(c)," % (e.tid, fn, e.rust()))
    src.append("pub fn dispatch(tid: u32, c: &Case) -> J {\n    match tid {\n" + "\n".join(arms)
               + "\n        _ => json!({\"unknown_tid\": tid}),\n    }\n}\n")
    return "\n".join(src)


def build(ctx, mod):
    tier = getattr(ctx, "tier", "quick")
    type_seed = ctx.seed       # the random derive inputs follow the seed (one harness build per seed, shared by all checks)
    if os.environ.get("VERIF_TYPE_SEED"):
        type_seed = int(os.environ["VERIF_TYPE_SEED"])     # development aid: other random derive inputs in the quick tier
    n_random = 40 if tier == "quick" else 160
    entries = make_entries(type_seed, n_random)
    binary, secs = C.build_harness(generated_rs(entries))
    ctx.coverage["harness_build_s"] = round(secs, 1)
    ctx.coverage["repo_hash"] = C.repo_hash()
    ctx.coverage["catalogue"] = {"types": len(entries), "derived_random": n_random, "type_seed": type_seed}
    return Harness(binary, entries)


# ------------------------------------------------------------------ payloads

def py_camel(ident):
    """convert_case 0.6 Camel on ASCII identifiers (only used to aim payload keys; never to judge)"""
    words, cur = [], ""
    n = len(ident)
    for i, d in enumerate(ident):
        if d in "_- ":
            words.append(cur); cur = ""
            continue
        c = ident[i - 1] if i > 0 else None
        e = ident[i + 1] if i + 1 < n else None
        split = False
        if c is not None and c not in "_- ":
            lo, up, dg = str.islower, str.isupper, str.isdigit
            split = ((lo(c) and up(d)) or (up(c) and dg(d)) or (dg(c) and up(d)) or (dg(c) and lo(d)) or (lo(c) and dg(d))
                     or (up(c) and up(d) and e is not None and lo(e)))
        if split:
            words.append(cur); cur = d
        else:
            cur += d
    words.append(cur)
    words = [w for w in words if w]
    if not words:
        return ""
    return words[0].lower() + "".join(w[0].upper() + w[1:].lower() for w in words[1:])


def eff_key(ident, rename, ra):
    if rename is not None:
        return rename
    if ident.startswith("r#") and len(ident) > 2:
        ident = ident[2:]            # the identifier itself: `r#type` is the identifier `type`
    if ra == "camelCase":
        return py_camel(ident)
    if ra == "lowercase":
        return ident.lower()
    return ident


def field_keys(fields, ra):
    out = []
    for f in fields:
        if f.skipped():
            continue
        rn = f.get("rename")
        out.append((f, eff_key(f.ident, rn[1] if rn else None, ra)))
    return out


def item_ra(it):
    a = it.get("rename_all")
    return a[1] if a else None


def variant_key(it, v):
    rn = [a for a in v.flat() if a[0] == "rename"]
    return eff_key(v.ident, rn[0][1] if rn else None, item_ra(it))


def variant_ra(v):
    ra = [a for a in v.flat() if a[0] == "rename_all"]
    return ra[0][1] if ra else None


def wi(n): return {"i": str(n)} if n >= 0 else {"n": str(n)}


def gen_int(name, rng, valid=True):
    lo, hi = T.int_range(name)
    lo, hi = max(lo, -(1 << 63)), min(hi, (1 << 64) - 1)
    nz = name.startswith("NonZero")
    if valid:
        v = rng.choice([0, 1, 2, 3, 7, 11, 42, 100, hi, lo, rng.randint(lo, hi)])
        if nz and v == 0:
            v = 1
        return wi(v)
    return wi(rng.choice([hi + 1 if hi < (1 << 64) - 1 else 0, lo - 1 if lo > -(1 << 63) else 0, 0 if nz else 1000000, -1000000]))


def gen_str(rng, ok=True):
    pool = ["", "a", "bork", "jorts", "x,y", "12", "hello world", "é", "ab", "!bad", "doggo", "catto", "1,2,3", ",", "true"]
    if rng.random() < 0.12:
        # characters that JSON text must escape (or must NOT escape): quoted back inside error messages
        return rng.choice(["\b", "a\fb", "\u0000", "\u001b[0m", "del\u007f", "soft\u00adhyphen", "zero\u200bwidth", "q\"uote", "back\\slash", "tab\tnl\n", "ab\u00e9", "x\U0001f980y"])
    return rng.choice(pool)


NONFINITE = [{"f": "7ff8000000000000"}, {"f": "7ff0000000000000"}, {"f": "fff0000000000000"}, {"f": "7ff0000000000001"}]


def gen_json_faulty(rng, depth=0):
    """a document for a serde_json::Value target with non-finite floats (the only faults such a target has) at several
    nested positions: exercises the error accumulation of `Deserr for serde_json::Value` (only an order-preserving
    value source can carry them)"""
    r = rng.random()
    if depth > 2 or r < 0.35:
        return copy.deepcopy(rng.choice(NONFINITE + NONFINITE + [None, True, wi(7), "s", {"f": "3ff8000000000000"}]))
    if r < 0.7:
        return [gen_json_faulty(rng, depth + 1) for _ in range(rng.randint(1, 4))]
    keys = rng.sample(["a", "b", "k", "z", "The", "0"], rng.randint(1, 4))
    return {"m": [[k, gen_json_faulty(rng, depth + 1)] for k in keys]}


def contains_item(t):
    if t[0] == "item":
        return True
    return any(contains_item(x) for x in t[1:] if isinstance(x, tuple))


def contains_json(t):
    if t[0] == "json":
        return True
    if t[0] == "item":
        return any(contains_json(x) for x in t[1].subtypes())
    return any(contains_json(x) for x in t[1:] if isinstance(x, tuple))


def json_fault_variants(t, p, rng):
    """payloads for a type containing a serde_json::Value position: the valid payload with that position replaced"""
    out = []
    if t[0] == "json":
        return [gen_json_faulty(rng) for _ in range(3)]
    if t[0] in ("vec", "hashset", "btreeset") and t[1][0] == "json":
        return [[gen_json_faulty(rng) for _ in range(rng.randint(1, 3))] for _ in range(2)]
    if t[0] == "option" and t[1][0] == "json":
        return [gen_json_faulty(rng) for _ in range(2)]
    if t[0] == "map" and t[3][0] == "json":
        return [{"m": [[k, gen_json_faulty(rng)] for k in rng.sample(["a", "b", "c"], rng.randint(1, 3))]} for _ in range(2)]
    if t[0] == "item" and isinstance(p, dict) and "m" in p and t[1].kind == "struct" and not (t[1].get("from") or t[1].get("try_from")):
        for f, key in field_keys(t[1].fields, item_ra(t[1])):
            if f.deser_ty()[0] == "json":
                q = copy.deepcopy(p)
                q["m"] = [m for m in q["m"] if m[0] != key] + [[key, gen_json_faulty(rng)]]
                out.append(q)
    return out


def contains_parsed_map(t):
    """a HashMap / BTreeMap whose key type is parsed from the member's key (can fail)"""
    if t[0] == "map" and t[2] != "String":
        return True
    if t[0] == "item":
        return any(contains_parsed_map(x) for x in t[1].subtypes())
    return any(contains_parsed_map(x) for x in t[1:] if isinstance(x, tuple))


def map_fault_payload(t, rng, depth=0):
    """a payload for type t in which every map with a parsed key type gets several members, a mix of good / unparsable keys
    and good / faulty values in random order (the key report, the value hand-over and what follows a stop on either)"""
    k = t[0]
    if k == "map":
        n = rng.randint(2, 5)
        ms, seen = [], set()
        for _ in range(n):
            bad_key = t[2] != "String" and rng.random() < 0.45
            key = gen_key(t[2], rng, valid=not bad_key) if t[2] != "String" else gen_str(rng)
            if key in seen:
                continue
            seen.add(key)
            val = copy.deepcopy(rng.choice(WRONG)) if rng.random() < 0.4 else map_fault_payload(t[3], rng, depth + 1)
            ms.append([key, val])
        return {"m": ms}
    if k in ("vec", "hashset", "btreeset"):
        return [map_fault_payload(t[1], rng, depth + 1) for _ in range(rng.randint(1, 2))]
    if k == "array":
        return [map_fault_payload(t[2], rng, depth + 1) for _ in range(t[1])]
    if k == "tuple":
        return [map_fault_payload(x, rng, depth + 1) for x in t[1:]]
    if k in ("option", "box", "w"):
        return map_fault_payload(t[1], rng, depth + 1)
    if k == "item":
        it = t[1]
        if it.kind == "struct" and not (it.get("from") or it.get("try_from")):
            ms = []
            for f, key in field_keys(it.fields, item_ra(it)):
                ms.append([key, map_fault_payload(f.deser_ty(), rng, depth + 1) if contains_parsed_map(f.deser_ty()) else gen_valid(f.deser_ty(), rng, depth + 1)])
            rng.shuffle(ms)
            return {"m": ms}
    return gen_valid(t, rng, depth)


def gen_json(rng, depth=0):
    r = rng.random()
    if depth > 2 or r < 0.5:
        return rng.choice([None, True, False, wi(rng.choice([0, 1, 42, 2**64 - 1])), wi(-rng.choice([1, 5, 2**63])),
                           {"f": "%016x" % rng.choice([0x3ff8000000000000, 0x8000000000000000, 0x7fefffffffffffff, 1, 0x4340000000000001])},
                           gen_str(rng)])
    if r < 0.75:
        return [gen_json(rng, depth + 1) for _ in range(rng.randint(0, 3))]
    keys = rng.sample(["a", "b", "k", "z", "The", "the", "0"], rng.randint(0, 3))
    return {"m": [[k, gen_json(rng, depth + 1)] for k in keys]}


def gen_key(k, rng, valid=True):
    if k == "String":
        return gen_str(rng)
    if k == "bool":
        return rng.choice(["true", "false"]) if valid else rng.choice(["True", "1", "", "yes", rng.choice(LONG_STRINGS)])
    lo, hi = T.int_range(k)
    if valid:
        v = rng.choice([1, 2, 3, 7, 42, min(hi, 255), max(lo, -5)])
        if k.startswith("NonZero") and v == 0:
            v = 1
        s = str(v)
        return rng.choice([s, s, s, "+" + s if v >= 0 else s, "0" + s if v >= 0 else s])
    return rng.choice(["", "a", "-", "+", "1.0", " 1", str(hi + 1), str(lo - 1), "0" if k.startswith("NonZero") else "x", "-0" if lo == 0 else "--1", "1_0",
                       rng.choice(LONG_STRINGS), "9" * 70])


def gen_valid(t, rng, depth=0):
    k = t[0]
    if k == "int": return gen_int(t[1], rng)
    if k == "unit": return None
    if k == "bool": return rng.choice([True, False])
    if k in ("f32", "f64"):
        return rng.choice([wi(3), wi(-7), wi(2**53 + 1), wi(16777217), {"f": "3ff8000000000000"}, {"f": "47efffffe0000001"},
                           {"f": "0000000000000001"}, {"f": "7fefffffffffffff"}, {"f": "8000000000000000"}])
    if k == "char": return rng.choice(["a", "é", "€", "😀", "Z"])
    if k == "string": return gen_str(rng)
    if k == "json": return gen_json(rng)
    if k == "phantom": return rng.choice([None, wi(1), "x", []])
    if k in ("vec", "hashset", "btreeset"):
        n = rng.choice([0, 1, 2, 3, 4]) if depth < 3 else 0
        return [gen_valid(t[1], rng, depth + 1) for _ in range(n)]
    if k == "array": return [gen_valid(t[2], rng, depth + 1) for _ in range(t[1])]
    if k == "tuple": return [gen_valid(x, rng, depth + 1) for x in t[1:]]
    if k == "map":
        n = rng.choice([0, 1, 2, 3])
        seen, ms = set(), []
        for _ in range(n):
            key = gen_key(t[2], rng)
            if key not in seen:
                seen.add(key)
                ms.append([key, gen_valid(t[3], rng, depth + 1)])
        return {"m": ms}
    if k == "option":
        return None if rng.random() < 0.3 else gen_valid(t[1], rng, depth + 1)
    if k in ("box", "w"): return gen_valid(t[1], rng, depth + 1)
    if k == "cs":
        n = rng.choice([0, 1, 2, 3])
        return ",".join(gen_key(t[1], rng) if t[1] != "String" else rng.choice(["a", "bc", "d e", " ", "\t", " x ", "\u00a0"]) for _ in range(n))
    if k == "item":
        return gen_item_valid(t[1], rng, depth)
    raise ValueError(t)


def gen_fields_valid(fields, ra, rng, depth):
    ms = []
    for f, key in field_keys(fields, ra):
        optional = f.has("default")
        if optional and rng.random() < 0.5:
            continue
        ms.append([key, gen_valid(f.deser_ty(), rng, depth + 1)])
    rng.shuffle(ms)
    return ms


def gen_item_valid(it, rng, depth):
    conv = it.get("from") or it.get("try_from")
    if conv:
        return gen_valid(conv[1], rng, depth + 1)
    if it.kind == "struct":
        return {"m": gen_fields_valid(it.fields, item_ra(it), rng, depth)}
    if it.kind == "enum":
        v = rng.choice(it.variants)
        tag = it.get("tag")
        if tag is None:
            return variant_key(it, v)
        ms = gen_fields_valid(v.fields or [], variant_ra(v), rng, depth)
        ms.insert(rng.randint(0, len(ms)), [tag[1], variant_key(it, v)])
        return {"m": ms}
    return None


LONG_STRINGS = ["\u5b57" * 22, "\u043a\u043b\u044e\u0447\u2192" * 6, "a\u00e9" * 40, "x" * 63 + "\u20ac" + "tail", "x" * 62 + "\U0001f600" + "y" * 70,
                "\u00e9" * 31 + "ab\u20ac" * 5, "0123456789" * 13, "\u20ac" * 43 + "a", "0123456789" * 110, "long \u00e9 " * 30,
                # three shifts of a run of 3-byte characters: every byte offset from 1 to 300 falls inside a character in two of them
                "\u20ac" * 100, "a" + "\u20ac" * 100, "ab" + "\u20ac" * 100]
LONG_LIST = [{"i": str(i)} for i in range(70)]
WRONG = [None, True, "{location}", "{accepted} {suggestion}", LONG_STRINGS[0], LONG_STRINGS[1], LONG_STRINGS[8], LONG_STRINGS[10], LONG_STRINGS[11], LONG_STRINGS[12], LONG_LIST, "ctl\u0008\u000c\u001b\u007f\u00ad\u200b", {"i": "1"}, {"i": "1000"}, {"n": "-3"}, {"f": "3ff8000000000000"}, "str", [], [{"i": "1"}], {"m": []}, {"m": [["a", None]]},
         {"i": "18446744073709551615"}, {"n": "-9223372036854775808"}, "!bad", {"i": "3"}, [{"i": "1"}, {"i": "2"}, {"i": "3"}],
         {"f": "7ff8000000000000"}, [{"f": "7ff0000000000000"}, {"i": "1"}, {"f": "fff0000000000000"}], {"m": [["a", {"f": "7ff8000000000000"}], ["b", [{"f": "7ff0000000000000"}]]]}]


def positions(p, path=()):
    """all positions of a payload tree"""
    yield path
    if isinstance(p, list):
        for i, x in enumerate(p):
            yield from positions(x, path + (i,))
    elif isinstance(p, dict) and "m" in p:
        for i, (k, x) in enumerate(p["m"]):
            yield from positions(x, path + (("m", i),))


def get_at(p, path):
    for s in path:
        p = p["m"][s[1]][1] if isinstance(s, tuple) else p[s]
    return p


def set_at(p, path, v):
    if not path:
        return v
    p = copy.deepcopy(p)
    cur = p
    for s in path[:-1]:
        cur = cur["m"][s[1]][1] if isinstance(s, tuple) else cur[s]
    s = path[-1]
    if isinstance(s, tuple):
        cur["m"][s[1]][1] = v
    else:
        cur[s] = v
    return p


def near_miss(key, rng):
    if not key:
        return "x"
    ops = [key.upper(), key.lower(), key + "s", key[:-1], key[0] + key, key.replace("_", ""), key.capitalize(), key[1:] + key[:1],
           # padding that fixed-width or C-string-like comparisons ignore: NULs, blanks, a repeated last character
           key + "\u0000", key + "\u0000\u0000\u0000", "\u0000" + key, key + " ", " " + key, key + key[-1:], key + "\u200b"]
    # multi-byte typos: one edit each in characters, several bytes each (the typo budget counts bytes of the received string,
    # the distance counts characters)
    if len(key) >= 3:
        ops += [key[:1] + "\U0001f600" + key[2:], key[:1] + "\U0001f600\U0001f600" + key[3:], key[:2] + "\u20ac" + key[2:], key[:-1] + "\u00e9",
                key[:1] + "\U0001f600" + key[1:] + "\U0001f600", key + "\u20ac\u20ac"]
    # the other spelling conventions of the same words, and decorations that form / query libraries append
    if "_" in key:
        ops += [py_camel(key), key.replace("_", "-"), key.replace("_", " ")]
    if any(ch.isupper() for ch in key[1:]):
        ops += ["".join("_" + ch.lower() if ch.isupper() and i else ch.lower() for i, ch in enumerate(key))]
    ops += [key + "[]", key + "?", key + "[0]", key + "."]
    # a different character of the same UTF-8 length sharing its leading bytes (the texts first differ INSIDE a character)
    nonascii = [i for i, ch in enumerate(key) if ord(ch) > 127]
    if nonascii:
        i = rng.choice(nonascii)
        sib = chr(ord(key[i]) ^ 1)
        ops += [key[:i] + sib + key[i + 1:]] * 4
    ops = [o for o in ops if o != key]
    return rng.choice(ops) if ops else key + "x"


def mutate_once(p, rng, extra_keys=()):
    pos = list(positions(p))
    path = rng.choice(pos)
    cur = get_at(p, path)
    ops = ["wrong", "wrong", "null"]
    if isinstance(cur, list):
        ops += ["drop_elem", "add_elem", "add_elem", "dup_elem"]
    if isinstance(cur, dict) and "m" in cur:
        ops += ["del_member", "del_member", "extra_key", "extra_key", "near_key", "dup_member", "shuffle", "rename_key"]
    if isinstance(cur, dict) and ("i" in cur or "n" in cur):
        ops += ["range", "range"]
    if isinstance(cur, str):
        ops += ["str", "str", "ws"]
    op = rng.choice(ops)
    if op == "wrong":
        return set_at(p, path, copy.deepcopy(rng.choice(WRONG)))
    if op == "null":
        return set_at(p, path, None)
    if op == "range":
        return set_at(p, path, wi(rng.choice([255, 256, 65536, 2**31, 2**32, 2**63, 2**64 - 1, -1, -129, -32769, -2**31 - 1, -2**63, 0, 127, 128, 1000, 3, 7])))
    if op == "str":
        return set_at(p, path, rng.choice(["", "ab", "!x", "é", "a,b,,c", ",1", "1,,2", ",", "1,x", "1,x,3", "1,2,x", "x,1,y", "256", "{}", "{0}", "{value}", "{location}", "{accepted}", "{suggestion}", "{received}", "{expected}", "see {location} for details", "{key}", "{field}", "{msg}", "%s", "%1$s", "`x`", "$1", "${k}", "\\n", "a`b`c", "{{}}", "Alpha", "alpha", "abé", "ab\U0001f980", "\u0008\u000c\u007f", near_miss(cur, rng),
                                           rng.choice(LONG_STRINGS), rng.choice(LONG_STRINGS)]))
    if op == "ws":
        # blank is not empty: whitespace-only segments of comma-separated lists, padded elements, padded scalars
        w = rng.choice([" ", "  ", "\t", "\n", "\u00a0", "\u3000", " \t "])
        return set_at(p, path, rng.choice([w, cur + "," + w, w + "," + cur, cur.replace(",", "," + w + ",", 1), cur + "," + w + "," + cur, w + cur, cur + w,
                                           cur.replace(",", w + ",", 1), cur.replace(",", "," + w, 1), "1," + w + ",2", "a," + w + ",b", "true," + w]))
    new = copy.deepcopy(cur)
    if op == "drop_elem" and new:
        del new[rng.randrange(len(new))]
    elif op == "dup_elem" and new:
        new.insert(rng.randint(0, len(new)), copy.deepcopy(rng.choice(new)))
    elif op == "add_elem":
        new.insert(rng.randint(0, len(new)), copy.deepcopy(rng.choice(WRONG + (new[:1] if new else []))))
    elif op == "del_member" and new["m"]:
        del new["m"][rng.randrange(len(new["m"]))]
    elif op == "extra_key":
        pool = list(extra_keys) + ["extra", "zzz", "type", "x", "0", "", "{}", "{key}", "{location}", "{accepted}", "{suggestion}", "%s", "`k`", "$schema", "_comment", "_id", "$ref", "#", "@type", "__proto__"]
        new["m"].insert(rng.randint(0, len(new["m"])), [rng.choice(pool), copy.deepcopy(rng.choice(WRONG))])
    elif op == "near_key" and new["m"]:
        k = rng.choice(new["m"])[0]
        new["m"].insert(rng.randint(0, len(new["m"])), [near_miss(k, rng), copy.deepcopy(rng.choice(WRONG))])
    elif op == "rename_key" and new["m"]:
        i = rng.randrange(len(new["m"]))
        new["m"][i][0] = near_miss(new["m"][i][0], rng)
    elif op == "dup_member" and new["m"]:
        k, v = rng.choice(new["m"])
        new["m"].insert(rng.randint(0, len(new["m"])), [k, copy.deepcopy(rng.choice(WRONG + [v]))])
    elif op == "shuffle":
        rng.shuffle(new["m"])
    return set_at(p, path, new)


def has_dup_keys(p):
    if isinstance(p, list):
        return any(has_dup_keys(x) for x in p)
    if isinstance(p, dict) and "m" in p:
        ks = [k for k, _ in p["m"]]
        return len(set(ks)) != len(ks) or any(has_dup_keys(v) for _, v in p["m"])
    return False


def is_json_doc(p):
    """can serde_json hold it with the same classes (see harness ov_to_json)"""
    if isinstance(p, list):
        return all(is_json_doc(x) for x in p)
    if isinstance(p, dict):
        if "m" in p:
            ks = [k for k, _ in p["m"]]
            return len(set(ks)) == len(ks) and all(is_json_doc(v) for _, v in p["m"])
        if "n" in p:
            return int(p["n"]) < 0
        if "f" in p:
            b = int(p["f"], 16)
            return (b >> 52) & 0x7ff != 0x7ff
    return True


def skipped_names(t):
    out = []
    for it in T.items_in(t):
        for f in it.all_fields():
            if f.skipped():
                out.append(f.ident)
            out.append(f.ident)
    return out


def corrupt_all(p, rng):
    """every scalar leaf replaced by a value of another kind (containers and keys kept): many faults at once"""
    if isinstance(p, list):
        return [corrupt_all(x, rng) for x in p]
    if isinstance(p, dict) and "m" in p:
        return {"m": [[k, corrupt_all(v, rng)] for k, v in p["m"]]}
    if isinstance(p, str):
        return rng.choice([{"i": "5"}, True, None, [], {"m": []}])
    if isinstance(p, bool):
        return rng.choice([{"i": "1"}, "true", [], {"m": []}])
    if p is None:
        return rng.choice([{"i": "0"}, "null", []])
    return rng.choice(["str", True, [], {"m": []}, {"f": "3ff8000000000000"}])


def gen_payloads(entry, rng, n, max_faults=3):
    """n payloads for a type: valid instances with 0..max_faults mutations, plus shape-blind values"""
    out = []
    extra = skipped_names(entry.ty)
    for i in range(n):
        if rng.random() < 0.08:
            out.append((copy.deepcopy(rng.choice(WRONG)) if rng.random() < 0.7 else gen_json(rng), -1))
            continue
        p = gen_valid(entry.ty, rng)
        if rng.random() < 0.12:
            q = corrupt_all(p, rng)
            out.append((q, sum(1 for _ in positions(q))))
            continue
        k = rng.choice([0, 0, 1, 1, 1, 2, 2, 3, max_faults])
        for _ in range(k):
            p = mutate_once(p, rng, extra)
        out.append((p, k))
    # every member of every object dropped in turn (a missing field / tag / map entry at every position)
    if entry.ty[0] == "item" or contains_item(entry.ty):
        base = gen_valid(entry.ty, rng)
        drops = []
        for path in positions(base):
            cur = get_at(base, path)
            if isinstance(cur, dict) and "m" in cur:
                for i in range(len(cur["m"])):
                    new = copy.deepcopy(cur)
                    del new["m"][i]
                    drops.append(set_at(base, path, new))
        if len(drops) > 8:
            drops = rng.sample(drops, 8)
        for q in drops:
            out.append((q, 1))
    # other encodings of an enum that deserr does not speak: externally tagged objects, the variant index
    if entry.ty[0] == "item" and entry.ty[1].kind == "enum":
        it = entry.ty[1]
        for vi, v in enumerate(it.variants[:4]):
            vk = variant_key(it, v)
            body = {"m": gen_fields_valid(v.fields or [], variant_ra(v), rng, 1)} if v.fields else None
            out.append(({"m": [[vk, body]]}, -1))
            out.append((wi(vi), -1))
            if vk.lstrip("-").isdigit():
                out.append((wi(int(vk)), -1))
                if it.get("tag"):
                    out.append(({"m": [[it.get("tag")[1], wi(int(vk))]] + (body["m"] if body else [])}, -1))
            if it.get("tag"):
                out.append(({"m": [[it.get("tag")[1], wi(vi)]] + (body["m"] if body else [])}, -1))
                out.append(({"m": [[it.get("tag")[1], vk.upper() if vk.upper() != vk else vk.lower()]] + (body["m"] if body else [])}, -1))
    # a typo in a key: the member is an unknown key AND the field it was meant for is missing (two independent faults)
    if entry.ty[0] == "item" or contains_item(entry.ty):
        base2 = gen_valid(entry.ty, rng)
        typos = []
        for path in positions(base2):
            cur = get_at(base2, path)
            if isinstance(cur, dict) and "m" in cur:
                for i in range(len(cur["m"])):
                    new = copy.deepcopy(cur)
                    new["m"][i][0] = near_miss(new["m"][i][0], rng)
                    if len({k for k, _ in new["m"]}) == len(new["m"]):
                        typos.append(set_at(base2, path, new))
        for q in (rng.sample(typos, 6) if len(typos) > 6 else typos):
            out.append((q, 2))
    # near-misses made of multi-byte characters (did-you-mean: the budget counts bytes, the distance characters)
    if entry.ty[0] == "item":
        it = entry.ty[1]
        names = []
        if it.kind == "struct":
            names = [k for _, k in field_keys(it.fields, item_ra(it))]
        elif it.kind == "enum":
            names = [variant_key(it, v) for v in it.variants]
        for nm in [n for n in names if len(n) >= 5][:2]:
            for typo in (nm[:1] + "\U0001f600\U0001f600" + nm[3:], nm[:2] + "\u20ac\u20ac\u20ac" + nm[5:], nm + "\U0001f600"):
                base = gen_valid(entry.ty, rng)
                if it.kind == "struct" and isinstance(base, dict) and "m" in base:
                    base["m"].insert(rng.randint(0, len(base["m"])), [typo, None])
                    out.append((base, 1))
                elif it.kind == "enum" and it.get("tag") is None:
                    out.append((typo, 1))
                elif it.kind == "enum" and isinstance(base, dict) and "m" in base:
                    base["m"] = [[k, (typo if k == it.get("tag")[1] else v)] for k, v in base["m"]]
                    out.append((base, 1))
    # sequences that repeat a valid element before (and after) a faulty one: sets absorb repeats, so anything that
    # counts kept elements instead of consumed ones mislabels the reports that follow
    base = gen_valid(entry.ty, rng)
    seqs = [path for path in positions(base) if isinstance(get_at(base, path), list) and get_at(base, path)]
    for path in (rng.sample(seqs, 3) if len(seqs) > 3 else seqs):
        cur = get_at(base, path)
        x0 = cur[0]
        bad = lambda: copy.deepcopy(rng.choice(WRONG))
        for new in ([x0, x0] + cur[1:] + [bad()], [x0, x0, x0, bad()] + cur[1:] + [bad()], cur + [x0, bad(), x0], [x0] + cur + [bad(), bad()]):
            out.append((set_at(base, path, copy.deepcopy(new)), -1))
    # long sequences and wide objects (sizes around powers of two and the small-size thresholds of std), with a fault late
    seqs = [path for path in positions(base) if isinstance(get_at(base, path), list) and get_at(base, path)]
    for path in (rng.sample(seqs, 2) if len(seqs) > 2 else seqs):
        cur = get_at(base, path)
        n = rng.choice([8, 9, 16, 17, 21, 32, 33, 64, 65, 129])
        longer = [copy.deepcopy(cur[i % len(cur)]) for i in range(n)]
        longer[rng.choice([n - 1, n - 2, n // 2])] = copy.deepcopy(rng.choice(WRONG))
        out.append((set_at(base, path, longer), -1))
    objs = [path for path in positions(base) if isinstance(get_at(base, path), dict) and "m" in get_at(base, path) and get_at(base, path)["m"]]
    for path in (rng.sample(objs, 2) if len(objs) > 2 else objs):
        cur = get_at(base, path)
        n = rng.choice([9, 17, 21, 33, 65])
        ms = copy.deepcopy(cur["m"])
        i = 0
        while len(ms) < n:
            k, v = cur["m"][i % len(cur["m"])]
            ms.insert(rng.randint(0, len(ms)), [k + str(i), copy.deepcopy(v) if rng.random() < 0.8 else copy.deepcopy(rng.choice(WRONG))])
            i += 1
        out.append((set_at(base, path, {"m": ms}), -1))
    # fault families that random mutation reaches too rarely
    if contains_json(entry.ty):
        # serde_json::Value positions: their only faults are non-finite floats (order-preserving source only)
        for q in json_fault_variants(entry.ty, gen_valid(entry.ty, rng), rng):
            out.append((q, -1))
    if contains_parsed_map(entry.ty):
        # maps whose keys are parsed: unparsable keys and faulty values mixed, in any order
        for _ in range(3):
            out.append((map_fault_payload(entry.ty, rng), -1))
    # no sharing between the parts of a payload (families that repeat an element would otherwise alias it, and an edit of
    # one occurrence would silently edit the other)
    import json as _json
    return [(_json.loads(_json.dumps(q)), k) for q, k in out]


def gen_scripts(rng, ncalls_hint=6):
    """script kinds: all-Continue, all-Break, k Continues then Break, random"""
    kind = rng.choice(["cont", "cont", "break", "switch", "switch", "random"])
    if kind == "cont":
        return ([], True, kind)
    if kind == "break":
        return ([], False, kind)
    if kind == "switch":
        return ([True] * rng.randint(0, ncalls_hint), False, kind)
    return ([rng.random() < 0.6 for _ in range(rng.randint(1, 12))], rng.random() < 0.5, kind)
