"""Type catalogue: one abstract description per target type, rendered to Rust (harness/src/generated.rs)
and to Coq (`ity` terms). Placeholder until the interpreter model lands."""


class Harness:
    def __init__(self, binary, types):
        self.binary = binary
        self.types = types


def generated_rs(types):
    arms = []
    for i, t in enumerate(types):
        arms.append("        %d => crate::run_any::<%s>(c)," % (i, t))
    return ("use crate::Case;\nuse serde_json::{json, Value as J};\n"
            "pub fn dispatch(tid: u32, c: &Case) -> J {\n    match tid {\n" + "\n".join(arms)
            + "\n        _ => json!({\"unknown_tid\": tid}),\n    }\n}\n")


def build(ctx, mod):
    from . import common as C
    types = ["Vec<u8>"]
    binary, secs = C.build_harness(generated_rs(types))
    ctx.coverage["harness_build_s"] = round(secs, 1)
    ctx.coverage["repo_hash"] = C.repo_hash()
    return Harness(binary, types)
