"""Targeted cases around user conversions: a field (or container) whose from/try_from stage is
reached with a value that makes the harness's conversion function fail, with a faulty sibling
placed before or after it, each run under a family of answer scripts that flip one answer
(all-Continue except call j, all-Break except call j) or switch at k. Random payloads and random
scripts reach these combinations too rarely."""
import copy
from . import catalogue as K
from . import engine as E
from . import tys as T


def failing(t, rng, depth=0):
    """a payload accepted by type t whose deserialized value makes `ufail` true (None if impossible)"""
    k = t[0]
    if k == "int":
        lo, hi = T.int_range(t[1])
        return K.wi(rng.choice([3, 7])) if hi >= 7 else None
    if k == "string":
        return rng.choice(["!x", "!"])
    if k in ("vec",):
        return [K.gen_valid(t[1], rng, depth + 1) for _ in range(3)]
    if k == "option":
        return failing(t[1], rng, depth + 1)
    if k in ("box", "w"):
        return None
    if k == "item":
        it = t[1]
        if it.kind == "struct" and not (it.get("from") or it.get("try_from")):
            ms = K.gen_fields_valid(it.fields, K.item_ra(it), rng, depth)
            for f, key in K.field_keys(it.fields, K.item_ra(it)):
                if f.has("from") or f.has("try_from") or f.has("map"):
                    continue
                v = failing(f.deser_ty(), rng, depth + 1)
                if v is not None:
                    ms = [m for m in ms if m[0] != key] + [[key, v]]
                    return {"m": ms}
    return None


def flip_scripts(n, rng, limit=None):
    out = [([], True, "cont"), ([], False, "break")]
    for k in range(n):
        out.append(([True] * k, False, "switch"))
    for j in range(n):
        out.append(([True] * j + [False], True, "one-break"))
        out.append(([False] * j + [True], False, "one-continue"))
    if limit and len(out) > limit:
        out = out[:2] + rng.sample(out[2:], limit - 2)
    return out


def staged_payloads(entry, rng):
    """for a top-level derived struct / tagged enum with a field carrying from/try_from: payloads in
    which that field's stage is reached (failing value for try_from when possible) and one sibling
    is corrupted, the sibling placed before or after the conversion field"""
    if entry.ty[0] != "item":
        return []
    it = entry.ty[1]
    if it.get("from") or it.get("try_from"):
        base = K.gen_item_valid(it, rng, 0)
        inter = (it.get("try_from") or it.get("from"))[1]
        f = failing(inter, rng)
        return [p for p in (base, f) if p is not None]
    out = []
    for _ in range(2):
        base = K.gen_item_valid(it, rng, 0)
        if not (isinstance(base, dict) and "m" in base):
            continue
        if it.kind == "struct":
            fields, ra = it.fields, K.item_ra(it)
        else:
            tag = it.get("tag")
            if tag is None:
                continue
            tagv = [v for k, v in base["m"] if k == tag[1]]
            vs = [v for v in it.variants if tagv and K.variant_key(it, v) == tagv[0]]
            if not vs or not vs[0].fields:
                continue
            fields, ra = vs[0].fields, K.variant_ra(vs[0])
        keyed = K.field_keys(fields, ra)
        convs = [(f, key) for f, key in keyed if f.has("try_from") or f.has("from")]
        for f, key in convs:
            val = failing(f.deser_ty(), rng) if f.has("try_from") else None
            if val is None:
                val = K.gen_valid(f.deser_ty(), rng, 1)
            others = [m for m in base["m"] if m[0] != key]
            sib = [i for i, m in enumerate(others) if not (it.kind == "enum" and m[0] == it.get("tag")[1])]
            for where in ("before", "after", "unknown-before", "alone"):
                ms = copy.deepcopy(others)
                if where in ("before", "after") and sib:
                    i = rng.choice(sib)
                    bad = ms.pop(i)
                    bad[1] = copy.deepcopy(rng.choice(K.WRONG))
                    ms = ([bad] + ms + [[key, copy.deepcopy(val)]]) if where == "before" else ([[key, copy.deepcopy(val)]] + ms + [bad])
                elif where == "unknown-before":
                    ms = [["zz_unknown", None]] + ms + [[key, copy.deepcopy(val)]]
                else:
                    ms = ms + [[key, copy.deepcopy(val)]]
                out.append({"m": ms})
    return out


def staged_cases(ctx, H, ncalls=7, per_entry=None):
    cases = []
    for e in H.entries:
        ps = staged_payloads(e, ctx.rng)
        if ctx.tier == "quick" and len(ps) > 4:
            ps = ctx.rng.sample(ps, 4)
        for p in ps:
            for sc, d, kind in flip_scripts(ncalls, ctx.rng, limit=(10 if ctx.tier == "quick" else None)):
                cases.append(E.Case(e, copy.deepcopy(p), "ov", list(sc), d, kind, -1))
    return cases
