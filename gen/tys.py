"""Abstract target types and derive items. From ONE abstract description this module emits
(a) Rust source (type expression / #[derive(Deserr)] item + ToOut impl) and (b) the Coq `ity` term.
It also knows how to draw random items and (mostly valid) payloads for a type."""
import re
from . import common as C

INTS = {
    "u8": (False, "W8", False), "u16": (False, "W16", False), "u32": (False, "W32", False),
    "u64": (False, "W64", False), "u128": (False, "W128", False), "usize": (False, "WSize", False),
    "i8": (True, "W8", False), "i16": (True, "W16", False), "i32": (True, "W32", False),
    "i64": (True, "W64", False), "i128": (True, "W128", False), "isize": (True, "WSize", False),
    "NonZeroU8": (False, "W8", True), "NonZeroU16": (False, "W16", True), "NonZeroU32": (False, "W32", True),
    "NonZeroU64": (False, "W64", True), "NonZeroU128": (False, "W128", True), "NonZeroUsize": (False, "WSize", True),
    "NonZeroI8": (True, "W8", True), "NonZeroI16": (True, "W16", True), "NonZeroI32": (True, "W32", True),
    "NonZeroI64": (True, "W64", True), "NonZeroI128": (True, "W128", True), "NonZeroIsize": (True, "WSize", True),
}
BITS = {"W8": 8, "W16": 16, "W32": 32, "W64": 64, "W128": 128, "WSize": 64}


def int_range(name):
    s, w, nz = INTS[name]
    b = BITS[w]
    return (-(1 << (b - 1)), (1 << (b - 1)) - 1) if s else (0, (1 << b) - 1)


def coq_int_desc(name):
    s, w, nz = INTS[name]
    return "{| i_signed := %s; i_width := %s; i_nonzero := %s |}" % (C.cbool(s), w, C.cbool(nz))


def rust_int(name):
    return ("std::num::" + name) if name.startswith("NonZero") else name


# ---- type constructors: tuples ('kind', args...)
def Int(n): return ("int", n)
Unit, Bool, F32, F64, Char, String, Json = ("unit",), ("bool",), ("f32",), ("f64",), ("char",), ("string",), ("json",)
def Phantom(): return ("phantom",)
def Vec(t): return ("vec", t)
def Array(n, t): return ("array", n, t)
def Tuple(*ts): return ("tuple",) + tuple(ts)
def HashSet(t): return ("hashset", t)
def BTreeSet(t): return ("btreeset", t)
def Map(kind, key, t): return ("map", kind, key, t)        # kind: hash|btree ; key: 'String' | int name | 'bool'
def Option(t): return ("option", t)
def Box(t): return ("box", t)
def CS(elem): return ("cs", elem)                          # elem: 'String' | int name | 'bool'
def W(t): return ("w", t)
def It(item): return ("item", item)


def key_rust(k):
    return "String" if k == "String" else ("bool" if k == "bool" else rust_int(k))


def key_tyname(k):
    if k == "String":
        return "alloc::string::String"
    if k == "bool":
        return "bool"
    if k.startswith("NonZero"):
        # type_name of NonZeroU8 is core::num::nonzero::NonZero<u8>
        base = {"U8": "u8", "U16": "u16", "U32": "u32", "U64": "u64", "U128": "u128", "Usize": "usize",
                "I8": "i8", "I16": "i16", "I32": "i32", "I64": "i64", "I128": "i128", "Isize": "isize"}[k[len("NonZero"):]]
        return "core::num::nonzero::NonZero<%s>" % base
    return k


def key_coq(k):
    if k == "String":
        return "KPString"
    if k == "bool":
        return "KPBool"
    return "(KPInt %s)" % coq_int_desc(k)


def rust(t):
    k = t[0]
    if k == "int": return rust_int(t[1])
    if k == "unit": return "()"
    if k == "bool": return "bool"
    if k == "f32": return "f32"
    if k == "f64": return "f64"
    if k == "char": return "char"
    if k == "string": return "String"
    if k == "json": return "serde_json::Value"
    if k == "phantom": return "std::marker::PhantomData<u8>"
    if k == "vec": return "Vec<%s>" % rust(t[1])
    if k == "array": return "[%s; %d]" % (rust(t[2]), t[1])
    if k == "tuple": return "(%s)" % ", ".join(rust(x) for x in t[1:])
    if k == "hashset": return "std::collections::HashSet<%s>" % rust(t[1])
    if k == "btreeset": return "std::collections::BTreeSet<%s>" % rust(t[1])
    if k == "map":
        return "std::collections::%s<%s, %s>" % ("HashMap" if t[1] == "hash" else "BTreeMap", key_rust(t[2]), rust(t[3]))
    if k == "option": return "Option<%s>" % rust(t[1])
    if k == "box": return "Box<%s>" % rust(t[1])
    if k == "cs": return "serde_cs::vec::CS<%s>" % key_rust(t[1])
    if k == "w": return "crate::user::W<%s>" % rust(t[1])
    if k == "item": return "crate::generated::" + t[1].inst_name()
    raise ValueError(t)


def coq(t):
    k = t[0]
    if k == "int": return "(IInt %s)" % coq_int_desc(t[1])
    if k == "unit": return "IUnit"
    if k == "bool": return "IBool"
    if k == "f32": return "IF32"
    if k == "f64": return "IF64"
    if k == "char": return "IChar"
    if k == "string": return "IString"
    if k == "json": return "IJson"
    if k == "phantom": return "IPhantom"
    if k == "vec": return "(IVec %s)" % coq(t[1])
    if k == "array": return "(IArray %d %s)" % (t[1], coq(t[2]))
    if k == "tuple":
        return "(ITuple%d %s)" % (len(t) - 1, " ".join(coq(x) for x in t[1:]))
    if k == "hashset": return "(IHashSet %s)" % coq(t[1])
    if k == "btreeset": return "(IBTreeSet %s)" % coq(t[1])
    if k == "map": return "(IMap %s %s %s)" % (key_coq(t[2]), C.cstr(key_tyname(t[2])), coq(t[3]))
    if k == "option": return "(IOption %s)" % coq(t[1])
    if k == "box": return "(IBox %s)" % coq(t[1])
    if k == "cs": return "(ICS %s)" % key_coq(t[1])
    if k == "w": return "(IW %s)" % coq(t[1])
    if k == "item": return "(IItem %s)" % t[1].coq()
    raise ValueError(t)


def items_in(t, acc=None):
    """all derive items reachable from a type, dependencies first"""
    acc = acc if acc is not None else []
    k = t[0]
    if k == "item":
        it = t[1]
        for s in it.subtypes():
            items_in(s, acc)
        if it not in acc:
            acc.append(it)
    else:
        for x in t[1:]:
            if isinstance(x, tuple):
                items_in(x, acc)
    return acc


def hashable_ok(t):
    """may the type be a HashSet/BTreeSet element (Hash + Eq + Ord in Rust)"""
    k = t[0]
    if k in ("int", "bool", "char", "string", "unit"):
        return True
    if k in ("option", "box", "vec"):
        return hashable_ok(t[1])
    if k == "tuple":
        return all(hashable_ok(x) for x in t[1:])
    return False


# ---- attributes
# container attrs: ('rename_all', 'camelCase'|'lowercase'|other) ('tag', s) ('error', alg) ('deny', None|fn)
#   ('from', T, fn, byref) ('try_from', T, fn, byref) ('validate', fn) ('where_uerr',) ('unknown', text) ('malformed', text)
# variant attrs: ('rename', s) ('rename_all', x) ('unknown', text) ('malformed', text)
# field attrs: ('rename', s) ('default', None | (rust_expr, out_wire)) ('missing', fn) ('needs_predicate',)
#   ('error', alg) ('map', fn) ('from', T, fn, byref) ('try_from', T, fn, byref) ('skip',) ('unknown', text) ('malformed', text)

def coq_ra(x):
    return {"camelCase": "(Some RACamel)", "lowercase": "(Some RALower)"}.get(x, "None")


def rust_ra(x):
    return x


class Field:
    def __init__(self, ident, ty, attrs=None, decl=None):
        self.ident, self.ty, self.attrs = ident, ty, attrs or []   # attrs: list of groups
        # decl: how the field's type is written in a generic item (e.g. "Vec<T>"); [ty] is then the type at the
        # instance the catalogue uses, which is what the model is given
        self.decl = decl

    def flat(self):
        return [a for g in self.attrs for a in g]

    def has(self, name):
        return any(a[0] == name for a in self.flat())

    def get(self, name):
        for a in self.flat():
            if a[0] == name:
                return a
        return None

    def skipped(self):
        return self.has("skip")

    def deser_ty(self):
        """the type actually deserialized from the payload"""
        a = self.get("try_from") or self.get("from")
        return a[1] if a else self.ty


def rust_fattr(a, owner_ty=None):
    k = a[0]
    if k == "rename": return 'rename = "%s"' % a[1]
    if k == "default":
        return "default" if a[1] is None else "default = %s" % a[1][0]
    if k == "missing": return "missing_field_error = crate::user::mfe::<%d>" % a[1]
    if k == "needs_predicate": return "needs_predicate"
    if k == "error": return "error = crate::rec::Rec<%d>" % a[1]
    if k == "map": return "map = crate::user::mapf::<%d, %s>" % (a[1], rust(a[2]))
    if k == "from":
        return "from(%s%s) = crate::user::%s::<%d, %s>" % ("&" if a[3] else "", rust(a[1]), "conv_ref" if a[3] else "conv", a[2], rust(a[1]))
    if k == "try_from":
        return "try_from(%s%s) = crate::user::%s::<%d, %s> -> crate::rec::UErr" % (
            "&" if a[3] else "", rust(a[1]), "tconv_ref" if a[3] else "tconv", a[2], rust(a[1]))
    if k == "skip": return "skip"
    if k in ("unknown", "malformed"): return a[1]
    raise ValueError(a)


def coq_fattr(a):
    k = a[0]
    if k == "rename": return "(FARename %s)" % C.cstr(a[1])
    if k == "default":
        return "(FADefault None)" if a[1] is None else "(FADefault (Some %s))" % cout(a[1][1])
    if k == "missing": return "(FAMissing %d)" % a[1]
    if k == "needs_predicate": return "FANeedsPredicate"
    if k == "error": return "(FAError %d)" % a[1]
    if k == "map": return "(FAMap %d)" % a[1]
    if k == "from": return "(FAFrom %s %d)" % (coq(a[1]), a[2])
    if k == "try_from": return "(FATryFrom %s %d)" % (coq(a[1]), a[2])
    if k == "skip": return "FASkip"
    if k == "unknown": return "FAUnknown"
    if k == "malformed": return "FAMalformed"
    raise ValueError(a)


def rust_vattr(a):
    k = a[0]
    if k == "rename": return 'rename = "%s"' % a[1]
    if k == "rename_all": return "rename_all = %s" % a[1]
    return a[1]


def coq_vattr(a):
    k = a[0]
    if k == "rename": return "(VARename %s)" % C.cstr(a[1])
    if k == "rename_all": return "(VARenameAll %s)" % coq_ra(a[1])
    return "VAUnknown" if k == "unknown" else "VAMalformed"


class Variant:
    def __init__(self, ident, fields=None, attrs=None, unnamed=False):
        self.ident, self.fields, self.attrs, self.unnamed = ident, fields, attrs or [], unnamed

    def flat(self):
        return [a for g in self.attrs for a in g]


class Item:
    """kind: 'struct' | 'tuple_struct' | 'unit_struct' | 'enum' | 'union' | 'newtype_from' (container from/try_from)"""
    def __init__(self, name, kind, attrs=None, fields=None, variants=None, generic_e=True, generics=None, where=None):
        self.name, self.kind = name, kind
        # generics: [(param, bounds or None, concrete type of the catalogue's instance)]; where: text of a where clause
        self.generics = generics or []
        self.where = where
        self.attrs = attrs or []
        self.fields = fields or []
        self.variants = variants or []

    def flat(self):
        return [a for g in self.attrs for a in g]

    def get(self, name):
        for a in self.flat():
            if a[0] == name:
                return a
        return None

    def rec_only(self):
        """does the derived impl exist for Rec<0> only (container-level `error =`)"""
        return self.get("error") is not None

    def all_fields(self):
        out = list(self.fields)
        for v in self.variants:
            out += v.fields or []
        return out

    def subtypes(self):
        out = []
        a = self.get("from") or self.get("try_from")
        if a:
            out.append(a[1])
        for f in self.all_fields():
            out.append(f.ty)
            for x in f.flat():
                if x[0] in ("from", "try_from"):
                    out.append(x[1])
        return out

    # ---- Rust
    # generics: (param, bounds or None, concrete type)                       a type parameter
    #           ("'a", "lifetime", None)                                    a lifetime parameter (instance: 'static)
    #           ("N", "const usize", 3)                                     a const parameter (instance: the value)
    def inst_name(self):
        """the type at the instance the catalogue uses"""
        def inst(g):
            if g[1] == "lifetime":
                return "'static"
            if isinstance(g[1], str) and g[1].startswith("const "):
                return str(g[2])
            return rust(g[2])
        return self.name + ("<%s>" % ", ".join(inst(g) for g in self.generics) if self.generics else "")

    def self_name(self):
        """the type as written inside its own declaration"""
        return self.name + ("<%s>" % ", ".join(g[0] for g in self.generics) if self.generics else "")

    def decl_generics(self, extra=None):
        if not self.generics:
            return ""
        def decl(g):
            if g[1] == "lifetime":
                return g[0]
            if isinstance(g[1], str) and g[1].startswith("const "):
                return "const %s: %s" % (g[0], g[1][6:])
            return g[0] + (": " + " + ".join(x for x in [g[1], extra] if x) if (g[1] or extra) else "")
        return "<%s>" % ", ".join(decl(g) for g in self.generics)

    def rust_cattr(self, a):
        k = a[0]
        if k == "rename_all": return "rename_all = %s" % a[1]
        if k == "tag": return 'tag = "%s"' % a[1]
        if k == "error": return "error = crate::rec::Rec<%d>" % a[1]
        if k == "deny": return "deny_unknown_fields" if a[1] is None else "deny_unknown_fields = crate::user::duf::<%d>" % a[1]
        if k == "from": return "from(%s%s) = %s_from" % ("&" if a[3] else "", rust(a[1]), self.name)
        if k == "try_from": return "try_from(%s%s) = %s_try_from -> crate::rec::UErr" % ("&" if a[3] else "", rust(a[1]), self.name)
        if k == "validate": return "validate = crate::user::validate::<%d, %s> -> crate::rec::UErr" % (a[1], self.self_name())
        if k == "where_uerr": return "where_predicate = __Deserr_E: deserr::MergeWithError<crate::rec::UErr>"
        if k == "where_rec": return "where_predicate = __Deserr_E: deserr::MergeWithError<crate::rec::Rec<%d>>" % a[1]
        if k in ("unknown", "malformed"): return a[1]
        raise ValueError(a)

    def coq_cattr(self, a):
        k = a[0]
        if k == "rename_all": return "(CARenameAll %s)" % coq_ra(a[1])
        if k == "tag": return "(CATag %s)" % C.cstr(a[1])
        if k == "error": return "(CAError %d)" % a[1]
        if k == "deny": return "(CADeny %s)" % ("None" if a[1] is None else "(Some %d)" % a[1])
        if k == "from": return "(CAFrom %s %d)" % (coq(a[1]), a[2])
        if k == "try_from": return "(CATryFrom %s %d)" % (coq(a[1]), a[2])
        if k == "validate": return "(CAValidate %d)" % a[1]
        if k in ("where_uerr", "where_rec"): return "CAWherePredicate"
        if k == "unknown": return "CAUnknown"
        if k == "malformed": return "CAMalformed"
        raise ValueError(a)

    def rust_fields(self, fields, pub="pub "):
        lines = []
        for f in fields:
            for g in f.attrs:
                lines.append("    #[deserr(%s)]" % ", ".join(rust_fattr(a) for a in g))
            lines.append("    %s%s: %s," % (pub, f.ident, f.decl or rust(f.ty)))
        return "\n".join(lines)

    def out_fields(self, fields, prefix):
        ordered = [f for f in fields if not f.skipped()] + [f for f in fields if f.skipped()]
        return ", ".join('json!(["%s", %s%s.to_out()])' % (f.ident, prefix, f.ident) for f in ordered)

    def rust_src(self, derive=True):
        L = []
        if derive:
            L.append("#[derive(deserr::Deserr)]")
        for g in self.attrs:
            L.append("#[deserr(%s)]" % ", ".join(self.rust_cattr(a) for a in g))
        conv = self.get("from") or self.get("try_from")
        if self.kind == "newtype_from":
            inner = "crate::user::W<%s>" % rust(conv[1])
            L.append("pub struct %s(pub %s);" % (self.name, inner))
            L.append("impl ToOut for %s { fn to_out(&self) -> J { self.0.to_out() } }" % self.name)
        elif self.kind == "struct":
            wh = (" where " + self.where) if self.where else ""
            L.append("pub struct %s%s%s {\n%s\n}" % (self.name, self.decl_generics(), wh, self.rust_fields(self.fields)))
            L.append("impl%s ToOut for %s%s { fn to_out(&self) -> J { json!({\"s\": [%s]}) } }" % (
                self.decl_generics("ToOut"), self.self_name(), wh, self.out_fields(self.fields, "self.")))
        elif self.kind == "tuple_struct":
            L.append("pub struct %s(pub u8, pub bool);" % self.name)
        elif self.kind == "unit_struct":
            L.append("pub struct %s;" % self.name)
        elif self.kind == "union":
            L.append("pub union %s { a: u8, b: u16 }" % self.name)
        elif self.kind == "enum":
            vs = []
            arms = []
            for v in self.variants:
                for g in v.attrs:
                    vs.append("    #[deserr(%s)]" % ", ".join(rust_vattr(a) for a in g))
                if v.unnamed:
                    vs.append("    %s(u8)," % v.ident)
                    arms.append('%s::%s(..) => json!({"v": ["%s", []]}),' % (self.name, v.ident, v.ident))
                elif v.fields is None:
                    vs.append("    %s," % v.ident)
                    arms.append('%s::%s => json!({"v": ["%s", []]}),' % (self.name, v.ident, v.ident))
                else:
                    vs.append("    %s {\n%s\n    }," % (v.ident, self.rust_fields(v.fields, pub="").replace("\n", "\n    ")))
                    names = ", ".join(f.ident for f in v.fields)
                    arms.append('%s::%s { %s } => json!({"v": ["%s", [%s]]}),' % (
                        self.name, v.ident, names, v.ident, self.out_fields(v.fields, "")))
            wh = (" where " + self.where) if self.where else ""
            L.append("pub enum %s%s%s {\n%s\n}" % (self.name, self.decl_generics(), wh, "\n".join(vs)))
            L.append("impl%s ToOut for %s%s { fn to_out(&self) -> J { match self { %s } } }" % (
                self.decl_generics("ToOut"), self.self_name(), wh, " ".join(arms)))
        if conv:
            byref = conv[3]
            argt = ("&" if byref else "") + rust(conv[1])
            if self.kind == "newtype_from":
                if conv[0] == "from":
                    body = "%s(crate::user::%s::<%d, %s>(t))" % (self.name, "conv_ref" if byref else "conv", conv[2], rust(conv[1]))
                    L.append("pub fn %s_from(t: %s) -> %s { %s }" % (self.name, argt, self.name, body))
                else:
                    body = "crate::user::%s::<%d, %s>(t).map(%s)" % ("tconv_ref" if byref else "tconv", conv[2], rust(conv[1]), self.name)
                    L.append("pub fn %s_try_from(t: %s) -> Result<%s, crate::rec::UErr> { %s }" % (self.name, argt, self.name, body))
            else:
                # reject-cases: the function only needs to exist
                if conv[0] == "from":
                    L.append("pub fn %s_from(_t: %s) -> %s { unimplemented!() }" % (self.name, argt, self.name))
                else:
                    L.append("pub fn %s_try_from(_t: %s) -> Result<%s, crate::rec::UErr> { unimplemented!() }" % (self.name, argt, self.name))
        return "\n".join(L) + "\n"

    # ---- Coq
    def coq_fields(self, fields):
        return C.clist(["(mkField %s %s %s)" % (C.cstr(f.ident),
                                                C.clist([C.clist([coq_fattr(a) for a in g]) for g in f.attrs]),
                                                coq(f.ty)) for f in fields])

    def coq(self):
        attrs = C.clist([C.clist([self.coq_cattr(a) for a in g]) for g in self.attrs])
        if self.kind in ("struct",):
            sh = "(SNamed %s)" % self.coq_fields(self.fields)
        elif self.kind == "newtype_from" or self.kind == "tuple_struct":
            sh = "STupleStruct"
        elif self.kind == "unit_struct":
            sh = "SUnitStruct"
        elif self.kind == "union":
            sh = "SUnion"
        else:
            vs = []
            for v in self.variants:
                va = C.clist([C.clist([coq_vattr(a) for a in g]) for g in v.attrs])
                if v.unnamed:
                    vsh = "VSUnnamed"
                elif v.fields is None:
                    vsh = "VSUnit"
                else:
                    vsh = "(VSNamed %s)" % self.coq_fields(v.fields)
                vs.append("(mkVariant %s %s %s)" % (C.cstr(v.ident), va, vsh))
            sh = "(SEnum %s)" % C.clist(vs)
        return "(mkItem %s %s)" % (attrs, sh)


# ---- out (wire JSON from the harness) -> Coq `out`
NAN64, NAN32 = 0x7ff8000000000000, 0x7fc00000


def canon64(bits):
    if (bits >> 52) & 0x7ff == 0x7ff and bits & ((1 << 52) - 1):
        return NAN64
    return bits


def canon32(bits):
    if (bits >> 23) & 0xff == 0xff and bits & ((1 << 23) - 1):
        return NAN32
    return bits


def cvalue_canon(w):
    """like common.cvalue but NaN floats are canonicalised (compared as a class)"""
    if isinstance(w, dict) and "f" in w:
        return "(VFloat %d)" % canon64(int(w["f"], 16))
    if isinstance(w, list):
        return "(VSeq %s)" % C.clist([cvalue_canon(x) for x in w])
    if isinstance(w, dict) and "m" in w:
        return "(VMap %s)" % C.clist(["(%s, %s)" % (C.cstr(k), cvalue_canon(v)) for k, v in w["m"]])
    return C.cvalue(w)


def cout(o):
    if o is True or o is False:
        return "(OBool %s)" % C.cbool(o)
    if isinstance(o, str):
        return "(OStr %s)" % C.cstr(o)
    if isinstance(o, dict):
        if "u" in o: return "OUnit"
        if "i" in o: return "(OInt %s)" % C.cZ(o["i"])
        if "f64" in o: return "(OF64 %d)" % canon64(int(o["f64"], 16))
        if "f32" in o: return "(OF32 %d)" % canon32(int(o["f32"], 16))
        if "c" in o: return "(OChar %s)" % o["c"]
        if "l" in o: return "(OList %s)" % C.clist([cout(x) for x in o["l"]])
        if "t" in o: return "(OTuple %s)" % C.clist([cout(x) for x in o["t"]])
        if "none" in o: return "ONone"
        if "some" in o: return "(OSome %s)" % cout(o["some"])
        if "set" in o: return "(OSet %s)" % C.clist([cout(x) for x in o["set"]])
        if "map" in o: return "(OMap %s)" % C.clist(["(%s, %s)" % (cout(k), cout(v)) for k, v in o["map"]])
        if "ph" in o: return "OPhantom"
        if "j" in o: return "(OJson %s)" % cvalue_canon(o["j"])
        if "s" in o: return "(OStruct %s)" % C.clist(["(%s, %s)" % (C.cstr(k), cout(v)) for k, v in o["s"]])
        if "v" in o: return "(OVariant %s %s)" % (C.cstr(o["v"][0]), C.clist(["(%s, %s)" % (C.cstr(k), cout(v)) for k, v in o["v"][1]]))
        if "fn" in o: return "(OFn %d %s)" % (o["fn"][0], cout(o["fn"][1]))
    raise ValueError(o)


def cvpr(steps):
    s = "Origin"
    for st in steps:
        if isinstance(st, str):
            s = "(Key %s %s)" % (C.cstr(st), s)
        else:
            s = "(Index %s %s)" % (C.cN(st["i"]), s)
    return s


KIND_COQ = {"Null": "KNull", "Boolean": "KBoolean", "Integer": "KInteger", "NegativeInteger": "KNegativeInteger",
            "Float": "KFloat", "String": "KString", "Sequence": "KSequence", "Map": "KMap"}


def ckind(k):
    t = k["k"]
    if t == "ivk":
        return "(IncorrectValueKind %s %s)" % (cvalue_canon(k["actual"]), C.clist([KIND_COQ[x] for x in k["accepted"]]))
    if t == "missing": return "(MissingField %s)" % C.cstr(k["field"])
    if t == "unknownkey": return "(UnknownKey %s %s)" % (C.cstr(k["key"]), C.clist([C.cstr(x) for x in k["accepted"]]))
    if t == "unknownvalue": return "(UnknownValue %s %s)" % (C.cstr(k["value"]), C.clist([C.cstr(x) for x in k["accepted"]]))
    if t == "badlen": return "(BadSequenceLen %s %s)" % (C.clist([cvalue_canon(x) for x in k["actual"]]), C.cN(k["expected"]))
    if t == "unexpected": return "(Unexpected %s)" % C.cstr(k["msg"])
    raise ValueError(k)


def cuarg(a):
    if "o" in a: return "(AOut %s)" % cout(a["o"])
    if "s" in a: return "(AStr %s)" % C.cstr(a["s"])
    if "ss" in a: return "(AStrs %s)" % C.clist([C.cstr(x) for x in a["ss"]])
    if "loc" in a: return "(ALoc %s)" % C.cloc(a["loc"])
    raise ValueError(a)


def ccall(c):
    t = c["c"]
    self_ = C.copt(c.get("self"), C.cN)
    if t == "error":
        return "(CError %d %s %s %s)" % (c["alg"], self_, ckind(c["kind"]), cvpr(c["loc"]))
    if t == "merge":
        return "(CMerge %d %s %d %d %s)" % (c["alg"], self_, c["oalg"], c["other"], cvpr(c["loc"]))
    if t == "mergeu":
        return "(CMergeU %d %s (%d, %s) %s)" % (c["alg"], self_, c["u"]["f"], C.clist([cuarg(a) for a in c["u"]["args"]]), cvpr(c["loc"]))
    if t == "user":
        return "(CUser %d %s)" % (c["f"], C.clist([cuarg(a) for a in c["args"]]))
    raise ValueError(c)


def cres(r):
    if "ok" in r: return "(ROk %s)" % cout(r["ok"])
    if "err" in r: return "(RErr %d)" % r["err"]
    if "panic" in r: return "(RPanic %s)" % C.cstr(r["panic"])
    raise ValueError(r)


def cobs(o):
    return "(%s, %s)" % (cres(o["res"]), C.clist([ccall(c) for c in o["trace"]]))
