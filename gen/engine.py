"""Shared engine of the interpreter-based checks: case generation, harness run, Coq comparison."""
import json
from . import common as C
from . import tys as T
from . import catalogue as K


class Case:
    __slots__ = ("entry", "payload", "src", "script", "default", "skind", "nfaults", "err", "wire_payload")

    def __init__(self, entry, payload, src="ov", script=(), default=True, skind="cont", nfaults=0, err="rec"):
        self.entry, self.payload, self.src = entry, payload, src
        self.script, self.default, self.skind, self.nfaults, self.err = list(script), default, skind, nfaults, err
        self.wire_payload = None      # compact wire form of a very deep payload

    def wire(self):
        return {"mode": "deser", "tid": self.entry.tid, "src": self.src, "err": self.err, "script": self.script,
                "default": self.default, "payload": self.payload if self.wire_payload is None else self.wire_payload}

    def describe(self):
        return {"type": self.entry.rust(), "payload": self.payload, "value_source": self.src,
                "script": self.script, "script_default": self.default, "error_type": self.err}


def make_cases(ctx, H, per_type, entries=None, scripts=True, both_sources=True):
    cases = []
    for e in (entries if entries is not None else H.entries):
        for p, k in K.gen_payloads(e, ctx.rng, per_type):
            if scripts:
                sc, d, kind = K.gen_scripts(ctx.rng)
            else:
                sc, d, kind = [], True, "cont"
            src = "ov"
            if both_sources and K.is_json_doc(p) and ctx.rng.random() < 0.4:
                src = "json"
            cases.append(Case(e, p, src, sc, d, kind, k))
    return cases


def run_cases(H, cases):
    return C.run_harness(H.binary, [c.wire() for c in cases])


def sort_json_members(p):
    """what the payload looks like through serde_json (BTreeMap: members sorted by key)"""
    if isinstance(p, list):
        return [sort_json_members(x) for x in p]
    if isinstance(p, dict) and "m" in p:
        return {"m": sorted([[k, sort_json_members(v)] for k, v in p["m"]], key=lambda kv: kv[0].encode())}
    return p


def case_value(c):
    return sort_json_members(c.payload) if c.src == "json" else c.payload


def ccase(c, o):
    return "(mkDC t_%d %s %s %s %s %s)" % (c.entry.tid, T.cvalue_canon(case_value(c)), C.clist([C.cbool(b) for b in c.script]),
                                           C.cbool(c.default), T.cres(o["res"]), C.clist([T.ccall(x) for x in o["trace"]]))


HEADER = (C.CASE_HEADER % "Kinds Value Prog Scalars Types Deser Derive"
          + "From Deserr.checks Require Import KDeser %s.\n")


def coq_check(ctx, tag, cases, obs, comparators, extra_imports="", shards=None, row=None, typ="dcase"):
    """Runs each comparator (a Coq function dcase -> bool) over all cases; returns one BadList per comparator."""
    row = row or (lambda i: ccase(cases[i], obs[i]))
    n = len(cases)
    shards = shards or max(1, min(C.NPROC, n // 150))
    files = []
    for s in range(shards):
        idx = list(range(s, n, shards))
        tids = {}
        for i in idx:
            for e in case_entries(cases[i]):
                tids[e.tid] = e
        defs = "".join("Definition t_%d : dres ty := Eval vm_compute in compile %s.\n" % (tid, e.coq()) for tid, e in sorted(tids.items()))
        rows = ["(%d, %s)" % (i, row(i)) for i in idx]
        text = (HEADER % extra_imports + defs + C.cbigdef("cases", "N * (%s)" % typ, rows, 400)
                + C.evals(["bad_ids %s cases" % cmp for cmp in comparators]))
        files.append(("%s_%s_%d_%d" % (ctx.prop.lower(), tag, ctx.seed, s), text))
    outs = C.run_coq_files(files)
    tot = [C.BadList() for _ in comparators]
    for name, (rc, out) in outs.items():
        if rc != 0:
            raise C.Broken("coqc failed on %s:\n%s" % (name, out[-3000:]))
        for k, b in enumerate(C.parse_idlists(out, len(comparators))):
            tot[k] = tot[k] + b
    return tot


def cpair(cases, obs, i):
    (a, b), (oa, ob) = cases[i], obs[i]
    return "(%s, %s)" % (ccase(a, oa), ccase(b, ob))


def decide_pairs(ctx, H, tag, pairs, pobs, corr, mons, corr_label, extra_imports="KMon"):
    """like decide() but every case is a pair of runs (relational properties)"""
    bads = coq_check(ctx, tag, pairs, pobs, [corr] + [m for m, _ in mons], extra_imports,
                     row=lambda i: cpair(pairs, pobs, i), typ="dcase * dcase")
    found = False
    for (m, what), bad in zip(mons, bads[1:]):
        ids = sorted(bad, key=lambda i: payload_size(pairs[i][0].payload) + payload_size(pairs[i][1].payload))[:3]
        for i in ids:
            found = True
            ctx.violation("%s-%s-%d" % (tag, m, i), {
                "kind": "monitor %s failed on the implementation: %s" % (m, what),
                "first_run": dict(pairs[i][0].describe(), impl=pobs[i][0]),
                "second_run": dict(pairs[i][1].describe(), impl=pobs[i][1]), "tier": ctx.tier})
    if bads[0] and not found:
        i = sorted(bads[0])[0]
        ctx.violation("%s-corr-%d" % (tag, i), {
            "kind": "correspondence broken (model and implementation disagree) but no monitor fails",
            "theorem_or_correspondence": corr_label,
            "first_run": dict(pairs[i][0].describe(), impl=pobs[i][0]),
            "second_run": dict(pairs[i][1].describe(), impl=pobs[i][1]), "disagreements": bads[0].total}, no_input=True)
    return bads


def case_entries(c):
    if isinstance(c, (tuple, list)):
        return [x.entry for x in c]
    return [c.entry]


def distribution(cases, obs):
    d = {"value_source": {}, "script_kind": {}, "faults": {}, "result": {}, "report_kinds": {}, "calls": 0, "target": {}}
    for c, o in zip(cases, obs):
        d["value_source"][c.src] = d["value_source"].get(c.src, 0) + 1
        d["script_kind"][c.skind] = d["script_kind"].get(c.skind, 0) + 1
        d["faults"][str(c.nfaults)] = d["faults"].get(str(c.nfaults), 0) + 1
        r = next(iter(o["res"]))
        d["result"][r] = d["result"].get(r, 0) + 1
        d["calls"] += len(o["trace"])
        tk = "derived" if "derived" in c.entry.tags else ("container" if "container" in c.entry.tags else "scalar")
        d["target"][tk] = d["target"].get(tk, 0) + 1
        for call in o["trace"]:
            k = call["kind"]["k"] if call["c"] == "error" else call["c"]
            d["report_kinds"][k] = d["report_kinds"].get(k, 0) + 1
    return d


def nontrivial(cases, obs):
    """distinct (type, payload, script) triples whose run calls the error type or returns a non-default value"""
    seen = set()
    for c, o in zip(cases, obs):
        if o["trace"] or "ok" in o["res"]:
            seen.add((c.entry.tid, json.dumps(c.payload, sort_keys=True), tuple(c.script), c.default, c.src))
    return len(seen)


def payload_size(p):
    if isinstance(p, list):
        return 1 + sum(payload_size(x) for x in p)
    if isinstance(p, dict) and "m" in p:
        return 1 + sum(1 + payload_size(v) for _, v in p["m"])
    return 1


def decide(ctx, H, tag, cases, obs, corr, mons, corr_label, extra_imports="KMon"):
    """Evaluate the correspondence comparator and the monitors; record violations.
    A monitor failure is a concrete failing input; a correspondence failure alone is reported
    as no-failing-input-found."""
    bads = coq_check(ctx, tag, cases, obs, [corr] + [m for m, _ in mons], extra_imports)
    found = False
    for (m, what), bad in zip(mons, bads[1:]):
        ids = sorted(bad, key=lambda i: payload_size(cases[i].payload))[:3]
        for i in ids:
            found = True
            d = cases[i].describe()
            d.update({"kind": "monitor %s failed on the implementation: %s" % (m, what), "impl": obs[i],
                      "tier": ctx.tier, "case_index": i})
            ctx.violation("%s-%s-%d" % (tag, m, i), d, site=site_of(cases[i], obs[i]))
    if bads[0] and not found:
        i = sorted(bads[0], key=lambda i: payload_size(cases[i].payload))[0]
        d = cases[i].describe()
        d.update({"kind": "correspondence broken (model and implementation disagree) but no monitor fails",
                  "theorem_or_correspondence": corr_label, "impl": obs[i], "tier": ctx.tier,
                  "disagreements": bads[0].total})
        ctx.violation("%s-corr-%d" % (tag, i), d, no_input=True)
    return bads


def site_of(case, o):
    """coarse call-site class of a failing case, used only to match known findings"""
    t = case.entry.ty
    return t[0]


def replay(ctx, H, mod, path):
    d = json.load(open(path))
    ents = [e for e in H.entries if e.rust() == d["type"]]
    if not ents:
        raise C.Broken("type %s is not in the catalogue of tier %s" % (d["type"], ctx.tier))
    c = Case(ents[0], d["payload"], d.get("value_source", "ov"), d.get("script", []), d.get("script_default", True),
             "replay", 0, d.get("error_type", "rec"))
    return [c]
