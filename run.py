#!/usr/bin/env python3
"""Entry point of every check:  python3 run.py C07 --tier quick   (see MANIFEST.json)."""
import argparse
import importlib
import json
import os
import sys
import traceback

sys.path.insert(0, os.path.dirname(os.path.abspath(__file__)))
from gen import common as C
from gen import catalogue


def generic_replay(ctx, H, path):
    """Replay of a single recorded (type, payload, value source, script) case: the implementation is run
    again on it and judged by the full-observation correspondence and by every trace monitor.
    Replay files of other shapes (pairs of runs, pure-function cases, derive inputs, HTTP requests)
    are replayed by re-running the whole (deterministic) check, which this function signals by False."""
    from gen import engine as E
    try:
        d = json.load(open(path))
    except (OSError, ValueError) as e:
        raise C.Broken("cannot read replay file %s: %s" % (path, e))
    if not (isinstance(d, dict) and "type" in d and "payload" in d):
        return False
    cases = E.replay(ctx, H, None, path)
    obs = E.run_cases(H, cases)
    E.decide(ctx, H, "replay", cases, obs, "corr_full",
             [("mon_c01", "an error value dropped / used twice, or Ok although something was reported"),
              ("mon_c04", "a report that is not true of the payload at its location"),
              ("mon_c12", "deserialize panicked"),
              ("mon_c02", "keep-going run differs from the reference interpreter (a fault dropped, duplicated or hidden)"),
              ("mon_c11", "user functions invoked differ from the reference interpreter")],
             "corr_full (replayed case)", extra_imports="KMon KSpec")
    ctx.coverage.update({"evaluations": 1, "distinct_nontrivial": 1, "rule": "replay of one recorded case: " + path,
                         "samples": [cases[0].describe()], "impl": obs[0]})
    return True


def main():
    ap = argparse.ArgumentParser()
    ap.add_argument("prop")
    ap.add_argument("--tier", default=os.environ.get("VERIF_TIER", "quick"))
    ap.add_argument("--replay", default=None)
    a = ap.parse_args()
    seed = int(os.environ.get("VERIF_SEED", "0") or 0)
    prop = a.prop.upper()
    ctx = C.Ctx(prop, a.tier, seed)
    ctx.replay_file = a.replay
    mod = importlib.import_module("gen.props." + prop.lower())
    try:
        if mod.THEOREMS:
            cov = C.proof_obligations(ctx, prop, mod.THEOREMS, getattr(mod, "ALLOWED_AXIOMS", frozenset()))
            ctx.coverage.update(cov)
        else:
            ok, log = C.build_coq()
            if not ok:
                raise C.Broken("coq build failed:\n" + log[-3000:])
        H = catalogue.build(ctx, mod)
        if a.replay and generic_replay(ctx, H, a.replay):
            pass
        else:
            mod.run(ctx, H)
    except C.ImplPanic as e:
        # a pure helper of the implementation panicked on a generated input: that input is the failing input
        small = {k: (v if len(json.dumps(v)) < 4000 else "<%d bytes>" % len(json.dumps(v))) for k, v in e.case.items()}
        ctx.violation("panic-%s" % e.obs.get("mode"), {"kind": "the implementation panicked (a helper of deserr called by the harness mode '%s')" % e.obs.get("mode"),
                                                      "harness_case": small, "panic_message": e.obs.get("impl_panic")})
    except C.HarnessBuildFailed as e:
        errs = [l for l in e.out.split("\n") if l.startswith("error") or l.strip().startswith("-->")]
        ctx.violation("harness-build", {"kind": "correspondence cannot be established: %s - valid uses of the public API and derive inputs accepted by the "
                                                "unchanged macro - no longer compiles against the repository's current tree" % e.what,
                                        "theorem_or_correspondence": "corr_%s (the implementation side cannot be run)" % prop.lower(),
                                        "rustc_errors": errs[:40], "rustc_output_tail": e.out[-4000:]}, no_input=True)
    except C.Broken as e:
        print("BROKEN CHECK %s: %s" % (prop, e))
        sys.exit(2)
    except Exception:
        traceback.print_exc()
        print("BROKEN CHECK %s (exception)" % prop)
        sys.exit(2)
    rc = ctx.finish("proof")
    print("%s %s tier=%s seed=%d evaluations=%s wall=%.1fs" % (
        prop, "FAILED" if rc else "ok", a.tier, seed, ctx.coverage.get("evaluations"), C.time.time() - ctx.t0))
    sys.exit(rc)


if __name__ == "__main__":
    main()
