#!/usr/bin/env python3
"""Entry point of every check:  python3 run.py C07 --tier quick   (see MANIFEST.json)."""
import argparse
import importlib
import json
import os
import sys
import traceback

sys.path.insert(0, os.path.dirname(os.path.abspath(__file__)))
from gen import common as C
from gen import catalogue


def main():
    ap = argparse.ArgumentParser()
    ap.add_argument("prop")
    ap.add_argument("--tier", default=os.environ.get("VERIF_TIER", "quick"))
    ap.add_argument("--replay", default=None)
    a = ap.parse_args()
    seed = int(os.environ.get("VERIF_SEED", "0") or 0)
    prop = a.prop.upper()
    ctx = C.Ctx(prop, a.tier, seed)
    ctx.replay_file = a.replay
    mod = importlib.import_module("gen.props." + prop.lower())
    try:
        if mod.THEOREMS:
            cov = C.proof_obligations(ctx, prop, mod.THEOREMS, getattr(mod, "ALLOWED_AXIOMS", frozenset()))
            ctx.coverage.update(cov)
        else:
            ok, log = C.build_coq()
            if not ok:
                raise C.Broken("coq build failed:\n" + log[-3000:])
        H = catalogue.build(ctx, mod)
        mod.run(ctx, H)
    except C.Broken as e:
        print("BROKEN CHECK %s: %s" % (prop, e))
        sys.exit(2)
    except Exception:
        traceback.print_exc()
        print("BROKEN CHECK %s (exception)" % prop)
        sys.exit(2)
    rc = ctx.finish("proof")
    print("%s %s tier=%s seed=%d evaluations=%s wall=%.1fs" % (
        prop, "FAILED" if rc else "ok", a.tier, seed, ctx.coverage.get("evaluations"), C.time.time() - ctx.t0))
    sys.exit(rc)


if __name__ == "__main__":
    main()
