//! C20 harness: drives the actix-web and axum extractors of deserr in-process and, on the very
//! same request, the framework's own JSON / query extractor (the oracle).
#[path = "../../harness/src/ov.rs"]
pub mod ov;
#[path = "../../harness/src/out.rs"]
pub mod out;
#[path = "../../harness/src/rec.rs"]
pub mod rec;
#[path = "../../harness/src/user.rs"]
pub mod user;
pub mod generated;

use deserr::actix_web::{AwebJson, AwebQueryParameter};
use deserr::axum::AxumJson;
use deserr::errors::JsonError;
use deserr::Deserr;
use futures::executor::block_on;
use out::ToOut;
use serde_json::{json, Value as J};
use std::io::{BufRead, Write};

/// A user error type with its own HTTP response (status S - 422, or 200 for an "error envelope" answered as a
/// success - and "custom: <message>"): the extractors must hand back exactly this response when deserr rejects the document.
#[derive(Debug)]
pub struct CErr<const S: u16 = 422>(pub JsonError);
impl<const S: u16> std::fmt::Display for CErr<S> {
    fn fmt(&self, f: &mut std::fmt::Formatter<'_>) -> std::fmt::Result {
        write!(f, "custom: {}", self.0)
    }
}
impl<const S: u16> deserr::DeserializeError for CErr<S> {
    fn error<V: deserr::IntoValue>(_self_: Option<Self>, error: deserr::ErrorKind<V>, location: deserr::ValuePointerRef) -> std::ops::ControlFlow<Self, Self> {
        match <JsonError as deserr::DeserializeError>::error::<V>(None, error, location) {
            std::ops::ControlFlow::Break(e) | std::ops::ControlFlow::Continue(e) => std::ops::ControlFlow::Break(CErr(e)),
        }
    }
}
impl<const S: u16> deserr::MergeWithError<CErr<S>> for CErr<S> {
    fn merge(_self_: Option<Self>, other: CErr<S>, _loc: deserr::ValuePointerRef) -> std::ops::ControlFlow<Self, Self> {
        std::ops::ControlFlow::Break(other)
    }
}
impl<const S: u16> deserr::MergeWithError<rec::UErr> for CErr<S> {
    fn merge(_self_: Option<Self>, other: rec::UErr, loc: deserr::ValuePointerRef) -> std::ops::ControlFlow<Self, Self> {
        match <JsonError as deserr::MergeWithError<rec::UErr>>::merge(None, other, loc) {
            std::ops::ControlFlow::Break(e) | std::ops::ControlFlow::Continue(e) => std::ops::ControlFlow::Break(CErr(e)),
        }
    }
}
impl<const S: u16> axum::response::IntoResponse for CErr<S> {
    fn into_response(self) -> axum::response::Response {
        (http::StatusCode::from_u16(S).unwrap(), self.to_string()).into_response()
    }
}
impl<const S: u16> actix_web::ResponseError for CErr<S> {
    fn status_code(&self) -> actix_web::http::StatusCode {
        actix_web::http::StatusCode::from_u16(S).unwrap()
    }
    fn error_response(&self) -> actix_web::HttpResponse<actix_web::body::BoxBody> {
        actix_web::HttpResponseBuilder::new(self.status_code()).content_type("text/plain").body(self.to_string())
    }
}

pub struct Req {
    pub body: Vec<u8>,
    pub content_type: Option<String>,
    pub query: String,
    /// application-level `web::JsonConfig` registered as app data (actix only): the framework's
    /// extractor honours it, so must the deserr one
    pub cfg: Option<String>,
    /// judge the rejection in the harness itself (very large messages)
    pub big: bool,
}

fn actix_parts(r: &Req) -> (actix_web::HttpRequest, actix_web::dev::Payload) {
    let mut t = actix_web::test::TestRequest::post().uri(&format!("/x?{}", r.query));
    if let Some(ct) = &r.content_type {
        t = t.insert_header(("content-type", ct.as_str()));
    }
    match r.cfg.as_deref() {
        Some("limit16") => t = t.app_data(actix_web::web::JsonConfig::default().limit(16)),
        Some("text_plain") => t = t.app_data(actix_web::web::JsonConfig::default().content_type(|m| m.essence_str() == "text/plain")),
        Some("ct_optional") => t = t.app_data(actix_web::web::JsonConfig::default().content_type_required(false)),
        Some("handler409") => {
            t = t.app_data(actix_web::web::JsonConfig::default().error_handler(|err, _req| {
                let body = format!("custom: {}", err);
                actix_web::error::InternalError::from_response(err, actix_web::HttpResponse::Conflict().body(body)).into()
            }))
        }
        _ => {}
    }
    t.set_payload(r.body.clone()).to_http_parts()
}

fn actix_err(e: actix_web::Error) -> J {
    let resp = e.error_response();
    let status = resp.status().as_u16();
    let body = block_on(actix_web::body::to_bytes(resp.into_body())).map(|b| b.to_vec()).unwrap_or_default();
    json!({"rej": {"status": status, "body": String::from_utf8_lossy(&body)}})
}

fn axum_req(r: &Req) -> axum::extract::Request {
    let mut b = http::Request::builder().method("POST").uri("/x");
    if let Some(ct) = &r.content_type {
        b = b.header("content-type", ct.as_str());
    }
    b.body(axum::body::Body::from(r.body.clone())).unwrap()
}

fn axum_resp(resp: axum::response::Response) -> J {
    let status = resp.status().as_u16();
    let body = block_on(axum::body::to_bytes(resp.into_body(), usize::MAX)).map(|b| b.to_vec()).unwrap_or_default();
    json!({"rej": {"status": status, "body": String::from_utf8_lossy(&body)}})
}

fn doc_json(j: &J) -> J {
    json!({"doc": ov::ov_to_wire(&ov::ov_of_json(j))})
}

pub fn run_http<T: Deserr<JsonError> + Deserr<CErr<422>> + Deserr<CErr<200>> + ToOut + 'static>(r: &Req) -> J {
    use actix_web::FromRequest as _;
    use axum::extract::FromRequest as _;
    use axum::response::IntoResponse as _;
    if r.big {
        // very large rejection messages are judged here (Coq parses such literals too slowly): the body of the rejection
        // must be exactly the message of the deserr error obtained by deserializing the same document directly
        let doc: J = match serde_json::from_slice(&r.body) { Ok(d) => d, Err(_) => return json!({"big": "not json"}) };
        let direct = deserr::deserialize::<T, J, JsonError>(doc).map(|_| ()).map_err(|e| e.to_string());
        let (req, mut pl) = actix_parts(r);
        let a = match block_on(AwebJson::<T, JsonError>::from_request(&req, &mut pl)) { Ok(_) => Ok(()), Err(e) => Err(actix_err(e)) };
        let x = match block_on(AxumJson::<T, JsonError>::from_request(axum_req(r), &())) { Ok(_) => Ok(()), Err(e) => Err(axum_resp(e.into_response())) };
        let same = |got: &Result<(), J>| match (&direct, got) {
            (Ok(()), Ok(())) => true,
            (Err(m), Err(j)) => j["rej"]["status"] == json!(400) && j["rej"]["body"].as_str() == Some(m.as_str()),
            _ => false,
        };
        return json!({"big": true, "direct_is_err": direct.is_err(), "msg_len": direct.as_ref().err().map(|m| m.len()).unwrap_or(0),
                      "actix_same": same(&a), "axum_same": same(&x),
                      "actix_body_len": a.as_ref().err().map(|j| j["rej"]["body"].as_str().map(|b| b.len()).unwrap_or(0)).unwrap_or(0),
                      "axum_body_len": x.as_ref().err().map(|j| j["rej"]["body"].as_str().map(|b| b.len()).unwrap_or(0)).unwrap_or(0)});
    }
    // actix JSON: oracle then extractor, on identical requests
    let (req, mut pl) = actix_parts(r);
    let fw_actix = match block_on(actix_web::web::Json::<J>::from_request(&req, &mut pl)) {
        Ok(j) => doc_json(&j.into_inner()),
        Err(e) => actix_err(e),
    };
    let (req, mut pl) = actix_parts(r);
    let ex_actix = match block_on(AwebJson::<T, JsonError>::from_request(&req, &mut pl)) {
        Ok(x) => json!({"ok": x.into_inner().to_out()}),
        Err(e) => actix_err(e),
    };
    // actix query
    let fw_query = match actix_web::web::Query::<J>::from_query(&r.query) {
        Ok(j) => doc_json(&j.into_inner()),
        Err(e) => actix_err(e.into()),
    };
    let ex_query = match AwebQueryParameter::<T, JsonError>::from_query(&r.query) {
        Ok(x) => json!({"ok": x.into_inner().to_out()}),
        Err(e) => actix_err(e),
    };
    let (req, mut pl) = actix_parts(r);
    let ex_query_req = match block_on(AwebQueryParameter::<T, JsonError>::from_request(&req, &mut pl)) {
        Ok(x) => json!({"ok": x.into_inner().to_out()}),
        Err(e) => actix_err(e),
    };
    // axum JSON
    let fw_axum = match block_on(axum::Json::<J>::from_request(axum_req(r), &())) {
        Ok(axum::Json(j)) => doc_json(&j),
        Err(e) => axum_resp(e.into_response()),
    };
    let ex_axum = match block_on(AxumJson::<T, JsonError>::from_request(axum_req(r), &())) {
        Ok(x) => json!({"ok": x.into_inner().to_out()}),
        Err(e) => axum_resp(e.into_response()),
    };
    // the same two JSON extractors with a user error type that has its own response
    let (req, mut pl) = actix_parts(r);
    let ex_actix_c = match block_on(AwebJson::<T, CErr>::from_request(&req, &mut pl)) {
        Ok(x) => json!({"ok": x.into_inner().to_out()}),
        Err(e) => actix_err(e),
    };
    let ex_axum_c = match block_on(AxumJson::<T, CErr>::from_request(axum_req(r), &())) {
        Ok(x) => json!({"ok": x.into_inner().to_out()}),
        Err(e) => axum_resp(e.into_response()),
    };
    // ... and with one that answers its errors with a success status (an error envelope)
    let (req, mut pl) = actix_parts(r);
    let ex_actix_c200 = match block_on(AwebJson::<T, CErr<200>>::from_request(&req, &mut pl)) {
        Ok(x) => json!({"ok": x.into_inner().to_out()}),
        Err(e) => actix_err(e),
    };
    let ex_axum_c200 = match block_on(AxumJson::<T, CErr<200>>::from_request(axum_req(r), &())) {
        Ok(x) => json!({"ok": x.into_inner().to_out()}),
        Err(e) => axum_resp(e.into_response()),
    };
    json!({"fw_actix": fw_actix, "ex_actix": ex_actix, "fw_query": fw_query, "ex_query": ex_query,
           "ex_query_req": ex_query_req, "fw_axum": fw_axum, "ex_axum": ex_axum, "ex_actix_c": ex_actix_c, "ex_axum_c": ex_axum_c, "ex_actix_c200": ex_actix_c200, "ex_axum_c200": ex_axum_c200})
}

fn main() {
    std::panic::set_hook(Box::new(|_| {}));
    let stdin = std::io::stdin();
    let stdout = std::io::stdout();
    let mut out = std::io::BufWriter::new(stdout.lock());
    for line in stdin.lock().lines() {
        let line = line.unwrap();
        if line.trim().is_empty() {
            continue;
        }
        let j: J = serde_json::from_str(&line).expect("case is not json");
        let r = Req {
            body: j["body"].as_str().unwrap().as_bytes().to_vec(),
            content_type: j["content_type"].as_str().map(|s| s.to_string()),
            query: j["query"].as_str().unwrap_or("").to_string(),
            cfg: j["cfg"].as_str().map(|s| s.to_string()),
            big: j["big"].as_bool().unwrap_or(false),
        };
        let tid = j["tid"].as_u64().unwrap() as u32;
        let res = std::panic::catch_unwind(std::panic::AssertUnwindSafe(|| generated::dispatch_http(tid, &r)));
        let res = res.unwrap_or_else(|_| json!({"panic": true}));
        writeln!(out, "{}", res).unwrap();
    }
    out.flush().unwrap();
}
