//! `OV`: an order-preserving second value source. It is literally the model's `value`:
//! members keep their order, duplicate keys are possible, `remove` takes the first match.
use deserr::{IntoValue, Map, Sequence, Value, ValueKind};
use serde_json::{json, Map as JMap, Number, Value as J};

#[derive(Clone, Debug, PartialEq)]
pub enum OV {
    Null,
    Bool(bool),
    Int(u64),
    Neg(i64),
    Float(f64),
    Str(String),
    Seq(Vec<OV>),
    Map(OMap),
}

#[derive(Clone, Debug, PartialEq)]
pub struct OMap(pub Vec<(String, OV)>);

impl Map for OMap {
    type Value = OV;
    type Iter = std::vec::IntoIter<(String, OV)>;
    fn len(&self) -> usize {
        self.0.len()
    }
    fn remove(&mut self, key: &str) -> Option<OV> {
        let i = self.0.iter().position(|(k, _)| k == key)?;
        Some(self.0.remove(i).1)
    }
    fn into_iter(self) -> Self::Iter {
        self.0.into_iter()
    }
}

impl IntoValue for OV {
    type Sequence = Vec<OV>;
    type Map = OMap;
    fn kind(&self) -> ValueKind {
        match self {
            OV::Null => ValueKind::Null,
            OV::Bool(_) => ValueKind::Boolean,
            OV::Int(_) => ValueKind::Integer,
            OV::Neg(_) => ValueKind::NegativeInteger,
            OV::Float(_) => ValueKind::Float,
            OV::Str(_) => ValueKind::String,
            OV::Seq(_) => ValueKind::Sequence,
            OV::Map(_) => ValueKind::Map,
        }
    }
    fn into_value(self) -> Value<Self> {
        match self {
            OV::Null => Value::Null,
            OV::Bool(b) => Value::Boolean(b),
            OV::Int(n) => Value::Integer(n),
            OV::Neg(n) => Value::NegativeInteger(n),
            OV::Float(f) => Value::Float(f),
            OV::Str(s) => Value::String(s),
            OV::Seq(s) => Value::Sequence(s),
            OV::Map(m) => Value::Map(m),
        }
    }
}

/// wire encoding (shared with the Python side):
/// null | bool | "str" | [..] | {"i":"dec"} | {"n":"dec"} | {"f":"hexbits"} | {"m":[[k,v]..]}
pub fn ov_from_wire(j: &J) -> OV {
    match j {
        J::Null => OV::Null,
        J::Bool(b) => OV::Bool(*b),
        J::String(s) => OV::Str(s.clone()),
        J::Array(a) => OV::Seq(a.iter().map(ov_from_wire).collect()),
        J::Object(o) => {
            if let Some(J::Array(d)) = o.get("deep") {
                // [kind, depth, leaf]: a deeply nested value built here (the case line itself must
                // stay within serde_json's own recursion limit)
                let kind = d[0].as_str().unwrap();
                let depth = d[1].as_u64().unwrap();
                let mut v = ov_from_wire(&d[2]);
                for i in 0..depth {
                    if kind == "arr" || (kind == "mix" && i % 2 == 0) {
                        v = OV::Seq(vec![v]);
                    } else {
                        v = OV::Map(OMap(vec![("k".to_string(), v)]));
                    }
                }
                v
            } else if let Some(J::String(s)) = o.get("i") {
                OV::Int(s.parse().expect("u64"))
            } else if let Some(J::String(s)) = o.get("n") {
                OV::Neg(s.parse().expect("i64"))
            } else if let Some(J::String(s)) = o.get("f") {
                OV::Float(f64::from_bits(u64::from_str_radix(s, 16).expect("hex")))
            } else if let Some(J::Array(ms)) = o.get("m") {
                OV::Map(OMap(
                    ms.iter()
                        .map(|kv| (kv[0].as_str().unwrap().to_string(), ov_from_wire(&kv[1])))
                        .collect(),
                ))
            } else {
                panic!("bad wire value {j}")
            }
        }
        J::Number(_) => panic!("bare number on the wire"),
    }
}

pub fn ov_to_wire(v: &OV) -> J {
    match v {
        OV::Null => J::Null,
        OV::Bool(b) => J::Bool(*b),
        OV::Int(n) => json!({"i": n.to_string()}),
        OV::Neg(n) => json!({"n": n.to_string()}),
        OV::Float(f) => json!({"f": format!("{:016x}", f.to_bits())}),
        OV::Str(s) => J::String(s.clone()),
        OV::Seq(s) => J::Array(s.iter().map(ov_to_wire).collect()),
        OV::Map(m) => {
            json!({"m": m.0.iter().map(|(k, v)| json!([k, ov_to_wire(v)])).collect::<Vec<_>>()})
        }
    }
}

/// the same document as a serde_json::Value, when serde_json can hold it with the same classes
pub fn ov_to_json(v: &OV) -> Option<J> {
    Some(match v {
        OV::Null => J::Null,
        OV::Bool(b) => J::Bool(*b),
        OV::Int(n) => J::Number(Number::from(*n)),
        OV::Neg(n) => {
            if *n < 0 {
                J::Number(Number::from(*n))
            } else {
                return None;
            }
        }
        OV::Float(f) => J::Number(Number::from_f64(*f)?),
        OV::Str(s) => J::String(s.clone()),
        OV::Seq(s) => J::Array(s.iter().map(ov_to_json).collect::<Option<Vec<_>>>()?),
        OV::Map(m) => {
            let mut o = JMap::new();
            for (k, v) in &m.0 {
                if o.insert(k.clone(), ov_to_json(v)?).is_some() {
                    return None;
                }
            }
            J::Object(o)
        }
    })
}

/// view any deserr value (consumed) as an OV, through the public traits only
pub fn ov_of_value<V: IntoValue>(v: Value<V>) -> OV {
    match v {
        Value::Null => OV::Null,
        Value::Boolean(b) => OV::Bool(b),
        Value::Integer(n) => OV::Int(n),
        Value::NegativeInteger(n) => OV::Neg(n),
        Value::Float(f) => OV::Float(f),
        Value::String(s) => OV::Str(s),
        Value::Sequence(s) => OV::Seq(ov_of_seq::<V>(s)),
        Value::Map(m) => OV::Map(OMap(
            m.into_iter().map(|(k, v)| (k, ov_of_value(v.into_value()))).collect(),
        )),
    }
}

pub fn ov_of_seq<V: IntoValue>(s: V::Sequence) -> Vec<OV> {
    s.into_iter().map(|v| ov_of_value(v.into_value())).collect()
}

/// serde_json document -> OV with serde_json's own classification (used by C13)
pub fn ov_of_json(j: &J) -> OV {
    ov_of_value(j.clone().into_value())
}
