//! C05: every integer of a range through one integer target type. The outcome of each input is
//! printed generically, the back-quoted decimal of the input is replaced by `{n}` (purely
//! syntactic) and consecutive inputs with the same template are merged into runs; Coq re-expands.
use crate::out::ToOut;
use crate::ov::OV;
use crate::rec::{self, Rec};
use deserr::{deserialize, Deserr};
use serde_json::{json, Value as J};
use std::num::*;

fn outcome<T: Deserr<Rec<0>> + ToOut>(n: i64) -> String {
    rec::reset(vec![], true);
    let input = if n < 0 { OV::Neg(n) } else { OV::Int(n as u64) };
    let wire = crate::ov::ov_to_wire(&input);
    let r = std::panic::catch_unwind(|| deserialize::<T, OV, Rec<0>>(input));
    let trace = rec::take_trace();
    match r {
        Err(_) => "P".to_string(),
        Ok(Ok(v)) => {
            if !trace.is_empty() {
                return "?ok-with-calls".to_string();
            }
            let o = v.to_out();
            if o == json!({"i": n.to_string()}) {
                "o".to_string()
            } else {
                format!("O{}", o)
            }
        }
        Ok(Err(e)) => {
            if trace.len() != 1 || e.id != 0 {
                return format!("?calls{}", trace.len());
            }
            let c = &trace[0];
            if c["c"] != "error" || !c["self"].is_null() || c["loc"] != json!([]) {
                return "?shape".to_string();
            }
            let k = &c["kind"];
            match k["k"].as_str().unwrap() {
                "ivk" => {
                    if k["actual"] != wire {
                        return "?actual".to_string();
                    }
                    let ks: Vec<&str> = k["accepted"].as_array().unwrap().iter().map(|x| x.as_str().unwrap()).collect();
                    format!("k{}", ks.join(","))
                }
                "unexpected" => {
                    let msg = k["msg"].as_str().unwrap();
                    format!("u{}", msg.replace(&format!("`{}`", n), "`{n}`"))
                }
                other => format!("?kind{}", other),
            }
        }
    }
}

fn sweep<T: Deserr<Rec<0>> + ToOut>(lo: i64, hi: i64) -> J {
    let mut runs: Vec<J> = vec![];
    let mut start = lo;
    let mut cur = outcome::<T>(lo);
    for n in (lo + 1)..=hi {
        let o = outcome::<T>(n);
        if o != cur {
            runs.push(json!([start.to_string(), (n - 1).to_string(), cur]));
            start = n;
            cur = o;
        }
    }
    runs.push(json!([start.to_string(), hi.to_string(), cur]));
    json!({ "runs": runs })
}

pub fn int_sweep(ty: &str, lo: i64, hi: i64) -> J {
    match ty {
        "u8" => sweep::<u8>(lo, hi),
        "u16" => sweep::<u16>(lo, hi),
        "u32" => sweep::<u32>(lo, hi),
        "u64" => sweep::<u64>(lo, hi),
        "u128" => sweep::<u128>(lo, hi),
        "usize" => sweep::<usize>(lo, hi),
        "i8" => sweep::<i8>(lo, hi),
        "i16" => sweep::<i16>(lo, hi),
        "i32" => sweep::<i32>(lo, hi),
        "i64" => sweep::<i64>(lo, hi),
        "i128" => sweep::<i128>(lo, hi),
        "isize" => sweep::<isize>(lo, hi),
        "NonZeroU8" => sweep::<NonZeroU8>(lo, hi),
        "NonZeroU16" => sweep::<NonZeroU16>(lo, hi),
        "NonZeroU32" => sweep::<NonZeroU32>(lo, hi),
        "NonZeroU64" => sweep::<NonZeroU64>(lo, hi),
        "NonZeroU128" => sweep::<NonZeroU128>(lo, hi),
        "NonZeroUsize" => sweep::<NonZeroUsize>(lo, hi),
        "NonZeroI8" => sweep::<NonZeroI8>(lo, hi),
        "NonZeroI16" => sweep::<NonZeroI16>(lo, hi),
        "NonZeroI32" => sweep::<NonZeroI32>(lo, hi),
        "NonZeroI64" => sweep::<NonZeroI64>(lo, hi),
        "NonZeroI128" => sweep::<NonZeroI128>(lo, hi),
        "NonZeroIsize" => sweep::<NonZeroIsize>(lo, hi),
        _ => json!({"unknown_type": ty}),
    }
}

/// the same JSON document: `==` on serde_json values identifies -0.0 with 0.0, so the rendered text must agree too
/// (sign of zero, integer vs float spelling of a number)
fn same_doc(a: &J, b: &J) -> bool {
    a == b && serde_json::to_string(a).ok() == serde_json::to_string(b).ok()
}

/// C13: a JSON text through serde_json's parser, then viewed through deserr and converted back
fn kinds_agree(v: &J) -> bool {
    use deserr::IntoValue;
    let k1 = v.kind();
    let k2 = v.clone().into_value().kind();
    if k1 != k2 {
        return false;
    }
    match v {
        J::Array(a) => a.iter().all(kinds_agree),
        J::Object(o) => o.values().all(kinds_agree),
        _ => true,
    }
}

/// a document nested deeper than serde_json's text parser accepts, built programmatically
/// (`serde_json::Value` itself has no depth limit): the same round trips as [json_case]
pub fn json_deep(kind: &str, depth: usize) -> J {
    use deserr::IntoValue;
    let mut j: J = json!(7);
    for i in 0..depth {
        let arr = match kind { "arr" => true, "obj" => false, _ => i % 2 == 0 };
        j = if arr { J::Array(vec![j]) } else { let mut m = serde_json::Map::new(); m.insert("k".to_string(), j); J::Object(m) };
    }
    rec::reset(vec![], true);
    let j1 = j.clone();
    let d1 = std::panic::catch_unwind(move || deserialize::<J, J, Rec<0>>(j1));
    let calls1 = rec::take_trace().len();
    let back: J = J::from(j.clone().into_value());
    let res = json!({
        "deser_same": matches!(&d1, Ok(Ok(v)) if same_doc(v, &j)),
        "panicked": d1.is_err(),
        "calls": calls1,
        "from_same": same_doc(&back, &j),
        "kinds_agree": kinds_agree(&j),
    });
    res
}

pub fn json_case(text: &str) -> J {
    use deserr::IntoValue;
    let j: J = match serde_json::from_str(text) {
        Ok(j) => j,
        Err(e) => return json!({"parse_error": e.to_string()}),
    };
    let view = crate::ov::ov_of_value(j.clone().into_value());
    rec::reset(vec![], true);
    let d1 = std::panic::catch_unwind(|| deserialize::<J, J, Rec<0>>(j.clone()));
    let calls1 = rec::take_trace().len();
    rec::reset(vec![], false);
    let view2 = view.clone();
    let d2 = std::panic::catch_unwind(move || deserialize::<J, OV, Rec<0>>(view2));
    let calls2 = rec::take_trace().len();
    let back: J = J::from(j.clone().into_value());
    json!({
        "view": crate::ov::ov_to_wire(&view),
        "deser_same": matches!(&d1, Ok(Ok(v)) if same_doc(v, &j)),
        "deser_ov_same": matches!(&d2, Ok(Ok(v)) if same_doc(v, &j)),
        "calls": calls1 + calls2,
        "from_same": same_doc(&back, &j),
        "kinds_agree": kinds_agree(&j),
    })
}
