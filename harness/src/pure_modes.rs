//! Modes that exercise the pure helper functions of deserr (pointers, kind phrases, did-you-mean...).
use deserr::ValuePointerRef;
use serde_json::{json, Value as J};

fn with_path<R>(steps: &[J], cur: ValuePointerRef, f: &dyn Fn(ValuePointerRef) -> R) -> R {
    match steps.split_first() {
        None => f(cur),
        Some((J::String(k), rest)) => {
            let n = cur.push_key(k);
            with_path(rest, n, f)
        }
        Some((o, rest)) => {
            let i: usize = o["i"].as_str().unwrap().parse().unwrap();
            let n = cur.push_index(i);
            with_path(rest, n, f)
        }
    }
}

/// Debug rendering of an (unnameable) ValuePointerComponent -> wire step
fn comp_to_wire(dbg: &str) -> J {
    if let Some(r) = dbg.strip_prefix("Index(") {
        json!({"i": r.trim_end_matches(')')})
    } else if let Some(r) = dbg.strip_prefix("Key(") {
        let inner = &r[..r.len() - 1];
        serde_json::from_str::<J>(inner).unwrap_or_else(|_| json!({"undecodable": inner}))
    } else {
        json!({"undecodable": dbg})
    }
}

pub fn handle(mode: &str, j: &J) -> J {
    match mode {
        "ptr" => {
            let steps = j["steps"].as_array().unwrap();
            with_path(steps, ValuePointerRef::Origin, &|p| {
                let owned = p.to_owned();
                json!({
                    "owned": owned.path.iter().map(|c| comp_to_wire(&format!("{:?}", c))).collect::<Vec<_>>(),
                    "origin": p.is_origin(),
                    "first": p.first_field(),
                    "last": p.last_field(),
                })
            })
        }
        _ => json!({"unknown_mode": mode}),
    }
}
