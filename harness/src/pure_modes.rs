//! Modes that exercise the pure helper functions of deserr (pointers, kind phrases, did-you-mean...).
use deserr::errors::helpers::did_you_mean;
use deserr::errors::json::value_kinds_description_json;
use deserr::{ValueKind, ValuePointerRef};
use serde_json::{json, Value as J};

const KINDS: [ValueKind; 8] = [
    ValueKind::Null,
    ValueKind::Boolean,
    ValueKind::Integer,
    ValueKind::NegativeInteger,
    ValueKind::Float,
    ValueKind::String,
    ValueKind::Sequence,
    ValueKind::Map,
];

/// all sequences of length n over the 8 kinds, first element slowest (same order as Kinds.all_seqs)
fn all_seqs(n: usize) -> Vec<Vec<ValueKind>> {
    if n == 0 {
        return vec![vec![]];
    }
    let rest = all_seqs(n - 1);
    let mut out = vec![];
    for k in KINDS {
        for r in &rest {
            let mut v = vec![k];
            v.extend(r.iter().copied());
            out.push(v);
        }
    }
    out
}

fn with_path<R>(steps: &[J], cur: ValuePointerRef, f: &dyn Fn(ValuePointerRef) -> R) -> R {
    match steps.split_first() {
        None => f(cur),
        Some((J::String(k), rest)) => {
            let n = cur.push_key(k);
            with_path(rest, n, f)
        }
        Some((o, rest)) => {
            let i: usize = o["i"].as_str().unwrap().parse().unwrap();
            let n = cur.push_index(i);
            with_path(rest, n, f)
        }
    }
}

/// Debug rendering of an (unnameable) ValuePointerComponent -> wire step
fn comp_to_wire(dbg: &str) -> J {
    if let Some(r) = dbg.strip_prefix("Index(") {
        json!({"i": r.trim_end_matches(')')})
    } else if let Some(r) = dbg.strip_prefix("Key(") {
        let inner = &r[..r.len() - 1];
        serde_json::from_str::<J>(inner).unwrap_or_else(|_| json!({"undecodable": inner}))
    } else {
        json!({"undecodable": dbg})
    }
}

pub fn handle(mode: &str, j: &J) -> J {
    match mode {
        "ptr" => {
            let steps = j["steps"].as_array().unwrap();
            with_path(steps, ValuePointerRef::Origin, &|p| {
                let owned = p.to_owned();
                json!({
                    "owned": owned.path.iter().map(|c| comp_to_wire(&format!("{:?}", c))).collect::<Vec<_>>(),
                    "origin": p.is_origin(),
                    "first": p.first_field(),
                    "last": p.last_field(),
                })
            })
        }
        "kinds_sweep" => {
            // phrase of every sequence of length 0..=maxlen, as a dictionary + one index per sequence
            let maxlen = j["maxlen"].as_u64().unwrap() as usize;
            let mut dict: Vec<String> = vec![];
            let mut idx: Vec<usize> = vec![];
            for n in 0..=maxlen {
                for s in all_seqs(n) {
                    let p = value_kinds_description_json(&s);
                    let i = match dict.iter().position(|d| *d == p) {
                        Some(i) => i,
                        None => {
                            dict.push(p);
                            dict.len() - 1
                        }
                    };
                    idx.push(i);
                }
            }
            json!({"dict": dict, "idx": idx})
        }
        "kinds" => {
            let ks: Vec<ValueKind> =
                j["kinds"].as_array().unwrap().iter().map(|k| KINDS[k.as_u64().unwrap() as usize]).collect();
            json!({"phrase": value_kinds_description_json(&ks)})
        }
        "dym" => {
            let acc: Vec<&str> = j["accepted"].as_array().unwrap().iter().map(|s| s.as_str().unwrap()).collect();
            json!({"dym": did_you_mean(j["received"].as_str().unwrap(), &acc)})
        }
        "dym_sweep" => {
            // every (received, single candidate) pair over the alphabet up to maxlen:
            // one char per pair: '0' = no suggestion, '1' = suggestion naming the candidate, '?' = anything else
            let alpha: Vec<char> = j["alphabet"].as_str().unwrap().chars().collect();
            let maxlen = j["maxlen"].as_u64().unwrap() as usize;
            let words = all_words(&alpha, maxlen);
            let mut bits = String::with_capacity(words.len() * words.len());
            for r in &words {
                for a in &words {
                    let d = did_you_mean(r, &[a.as_str()]);
                    bits.push(if d.is_empty() {
                        '0'
                    } else if d == format!("did you mean `{}`? ", a) {
                        '1'
                    } else {
                        '?'
                    });
                }
            }
            json!({"n": words.len(), "bits": bits})
        }
        "json" => crate::sweep::json_case(j["text"].as_str().unwrap()),
        "json_deep" => crate::sweep::json_deep(j["kind"].as_str().unwrap(), j["depth"].as_u64().unwrap() as usize),
        "ftext" => {
            // text of floats as serde_json::to_string and as Rust's Display print them (oracle for C14)
            let bits: Vec<u64> = j["bits"].as_array().unwrap().iter().map(|b| u64::from_str_radix(b.as_str().unwrap(), 16).unwrap()).collect();
            let js: Vec<String> = bits.iter().map(|b| {
                let f = f64::from_bits(*b);
                serde_json::Number::from_f64(f).map(|n| serde_json::to_string(&n).unwrap()).unwrap_or_else(|| "null".to_string())
            }).collect();
            let ds: Vec<String> = bits.iter().map(|b| format!("{}", f64::from_bits(*b))).collect();
            json!({"json": js, "display": ds})
        }
        "int_sweep" => {
            let lo = j["lo"].as_i64().unwrap();
            let hi = j["hi"].as_i64().unwrap();
            crate::sweep::int_sweep(j["ty"].as_str().unwrap(), lo, hi)
        }
        _ => json!({"unknown_mode": mode}),
    }
}

/// all words of length 0..=maxlen over the alphabet, by length then lexicographic (first char slowest)
fn all_words(alpha: &[char], maxlen: usize) -> Vec<String> {
    let mut out = vec![];
    let mut cur = vec![String::new()];
    out.extend(cur.iter().cloned());
    for _ in 0..maxlen {
        let mut next = vec![];
        for w in &cur {
            for c in alpha {
                let mut x = w.clone();
                x.push(*c);
                next.push(x);
            }
        }
        out.extend(next.iter().cloned());
        cur = next;
    }
    out
}
