//! Hand-written derive inputs whose user functions return the container's OWN error type
//! (`try_from(..) = f -> E` / `validate = f -> E` with E the error type of the impl): the failure
//! must still be handed to the error type (`MergeWithError<E> for E`) at the container's / field's
//! location. Not part of the modelled catalogue: judged by a monitor on the trace alone (C11).
use crate::out::ToOut;
use crate::rec::Rec;
use crate::Case;
use deserr::{take_cf_content, DeserializeError, Deserr, ErrorKind, ValuePointerRef};
use serde_json::{json, Value as J};
use std::convert::Infallible;

fn own_error(msg: &str, loc: ValuePointerRef) -> Rec<0> {
    take_cf_content(Rec::<0>::error::<Infallible>(None, ErrorKind::Unexpected { msg: msg.to_string() }, loc))
}
fn own_error_gen<E: DeserializeError>(msg: &str) -> E {
    take_cf_content(E::error::<Infallible>(None, ErrorKind::Unexpected { msg: msg.to_string() }, ValuePointerRef::Origin))
}

/// container-level try_from, error type fixed by `error =` and named again after `->`
#[derive(Deserr)]
#[deserr(error = Rec<0>, try_from(String) = own_tf -> Rec<0>)]
pub struct OwnTF(pub String);
fn own_tf(s: String) -> Result<OwnTF, Rec<0>> {
    if s.starts_with('!') { Err(own_error("own:tf", ValuePointerRef::Origin)) } else { Ok(OwnTF(s)) }
}
impl ToOut for OwnTF { fn to_out(&self) -> J { json!({"own": self.0}) } }

/// container-level try_from on a generic impl: the function returns the impl's error parameter
#[derive(Deserr)]
#[deserr(try_from(&String) = own_tf_gen::<__Deserr_E> -> __Deserr_E)]
pub struct OwnGen(pub String);
fn own_tf_gen<E: DeserializeError>(s: &String) -> Result<OwnGen, E> {
    if s.starts_with('!') { Err(own_error_gen::<E>("own:gen")) } else { Ok(OwnGen(s.clone())) }
}
impl ToOut for OwnGen { fn to_out(&self) -> J { json!({"own": self.0}) } }

/// validate returning the container's own error type; a field-level try_from doing the same
#[derive(Deserr)]
#[deserr(error = Rec<0>, validate = own_validate -> Rec<0>, rename_all = camelCase)]
pub struct OwnV {
    pub the_count: u8,
    #[deserr(try_from(String) = own_field_tf -> Rec<0>)]
    pub the_name: OwnName,
    #[deserr(default)]
    pub inner: Option<OwnTF>,
}
pub struct OwnName(pub String);
fn own_field_tf(s: String) -> Result<OwnName, Rec<0>> {
    if s.starts_with('!') { Err(own_error("own:field", ValuePointerRef::Origin)) } else { Ok(OwnName(s)) }
}
fn own_validate(v: OwnV, loc: ValuePointerRef) -> Result<OwnV, Rec<0>> {
    if v.the_count == 13 { Err(own_error("own:validate", loc)) } else { Ok(v) }
}
impl ToOut for OwnV {
    fn to_out(&self) -> J { json!({"own_v": [self.the_count, self.the_name.0, self.inner.as_ref().map(|x| x.0.clone())]}) }
}

pub fn dispatch(which: &str, c: &Case) -> J {
    match which {
        "tf" => crate::run_rec::<OwnTF>(c),
        "tf_vec" => crate::run_rec::<Vec<OwnTF>>(c),
        "tf_opt" => crate::run_rec::<Option<OwnTF>>(c),
        "tf_map" => crate::run_rec::<std::collections::BTreeMap<String, OwnTF>>(c),
        "gen" => crate::run_rec::<OwnGen>(c),
        "gen_vec" => crate::run_rec::<Vec<OwnGen>>(c),
        "v" => crate::run_rec::<OwnV>(c),
        "v_vec" => crate::run_rec::<Vec<OwnV>>(c),
        _ => json!({"unknown_own": which}),
    }
}
