//! Correspondence harness: runs the real deserr on cases read from stdin (one JSON object per
//! line) and prints one observation per line. See /verif/DESIGN.md section 3.4.
mod generated;
mod out;
mod ov;
mod own;
mod pure_modes;
mod rec;
mod sweep;
mod user;

use deserr::errors::{JsonError, QueryParamError};
use deserr::{deserialize, Deserr};
use out::ToOut;
use ov::{ov_from_wire, ov_to_json, OV};
use rec::Rec;
use serde_json::{json, Value as J};
use std::io::{BufRead, Write};
use std::panic::{catch_unwind, AssertUnwindSafe};

pub struct Case {
    pub src_json: bool,
    pub err: String,
    pub script: Vec<bool>,
    pub default: bool,
    pub payload: OV,
}

fn panic_msg(p: Box<dyn std::any::Any + Send>) -> String {
    if let Some(s) = p.downcast_ref::<&str>() {
        s.to_string()
    } else if let Some(s) = p.downcast_ref::<String>() {
        s.clone()
    } else {
        "panic".to_string()
    }
}

/// run with the recording error type `Rec<0>`
pub fn run_rec<T: Deserr<Rec<0>> + ToOut>(c: &Case) -> J {
    rec::reset(c.script.clone(), c.default);
    let payload = c.payload.clone();
    let r = catch_unwind(AssertUnwindSafe(|| {
        if c.src_json {
            deserialize::<T, J, Rec<0>>(ov_to_json(&payload).expect("not a json document"))
        } else {
            deserialize::<T, OV, Rec<0>>(payload)
        }
    }));
    let trace = rec::take_trace();
    let res = match r {
        Ok(Ok(v)) => json!({"ok": v.to_out()}),
        Ok(Err(e)) => json!({"err": e.id}),
        Err(p) => json!({"panic": panic_msg(p)}),
    };
    json!({"res": res, "trace": trace})
}

/// run with a built-in message error type
pub fn run_msg<T: Deserr<JsonError> + Deserr<QueryParamError> + ToOut>(c: &Case) -> J {
    rec::reset(vec![], true);
    let payload = c.payload.clone();
    let qp = c.err == "qp";
    let r = catch_unwind(AssertUnwindSafe(|| -> Result<T, String> {
        if qp {
            if c.src_json {
                deserialize::<T, J, QueryParamError>(ov_to_json(&payload).expect("json"))
                    .map_err(|e| e.to_string())
            } else {
                deserialize::<T, OV, QueryParamError>(payload).map_err(|e| e.to_string())
            }
        } else if c.src_json {
            deserialize::<T, J, JsonError>(ov_to_json(&payload).expect("json"))
                .map_err(|e| e.to_string())
        } else {
            deserialize::<T, OV, JsonError>(payload).map_err(|e| e.to_string())
        }
    }));
    let trace = rec::take_trace();
    let res = match r {
        Ok(Ok(v)) => json!({"ok": v.to_out()}),
        Ok(Err(m)) => json!({"msg": m}),
        Err(p) => json!({"panic": panic_msg(p)}),
    };
    json!({"res": res, "trace": trace})
}

pub fn run_any<T>(c: &Case) -> J
where
    T: Deserr<Rec<0>> + Deserr<JsonError> + Deserr<QueryParamError> + ToOut,
{
    if c.err == "rec" {
        run_rec::<T>(c)
    } else {
        run_msg::<T>(c)
    }
}

fn handle(line: &str) -> J {
    let j: J = serde_json::from_str(line).expect("case is not json");
    let mode = j["mode"].as_str().unwrap_or("deser");
    match mode {
        "deser" => {
            let c = Case {
                src_json: j["src"].as_str() == Some("json"),
                err: j["err"].as_str().unwrap_or("rec").to_string(),
                script: j["script"]
                    .as_array()
                    .map(|a| a.iter().map(|b| b.as_bool().unwrap()).collect())
                    .unwrap_or_default(),
                default: j["default"].as_bool().unwrap_or(true),
                payload: ov_from_wire(&j["payload"]),
            };
            match j["own"].as_str() {
                Some(which) => own::dispatch(which, &c),
                None => generated::dispatch(j["tid"].as_u64().unwrap() as u32, &c),
            }
        }
        m => {
            // the pure helpers must not panic either: report a panic as an observation of its own
            match catch_unwind(AssertUnwindSafe(|| pure_modes::handle(m, &j))) {
                Ok(v) => v,
                Err(e) => {
                    let msg = e.downcast_ref::<String>().cloned().or_else(|| e.downcast_ref::<&str>().map(|s| s.to_string())).unwrap_or_default();
                    json!({"impl_panic": msg, "mode": m})
                }
            }
        }
    }
}

fn main() {
    std::panic::set_hook(Box::new(|_| {}));
    let child = std::thread::Builder::new()
        .stack_size(1 << 30)
        .spawn(|| {
            let stdin = std::io::stdin();
            let stdout = std::io::stdout();
            let mut out = std::io::BufWriter::new(stdout.lock());
            for line in stdin.lock().lines() {
                let line = line.unwrap();
                if line.trim().is_empty() {
                    continue;
                }
                let r = handle(&line);
                writeln!(out, "{}", r).unwrap();
            }
            out.flush().unwrap();
        })
        .unwrap();
    child.join().unwrap();
}
