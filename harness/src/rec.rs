//! `Rec<A>`: the free (recording) error algebra. An error value is the id of the call that
//! returned it; the trace holds every call with its arguments, so the error tree can be rebuilt.
//! `Rec` is not `Clone`: Rust's ownership already forbids using an error twice.
use crate::ov::{ov_of_seq, ov_of_value, ov_to_wire};
use deserr::{DeserializeError, ErrorKind, IntoValue, MergeWithError, ValuePointerRef};
use serde_json::{json, Value as J};
use std::cell::RefCell;
use std::ops::ControlFlow;

pub struct State {
    pub trace: Vec<J>,
    pub script: Vec<bool>,
    pub default: bool,
}

thread_local! {
    pub static ST: RefCell<State> = RefCell::new(State { trace: vec![], script: vec![], default: true });
}

pub fn reset(script: Vec<bool>, default: bool) {
    ST.with(|s| {
        let mut s = s.borrow_mut();
        s.trace.clear();
        s.script = script;
        s.default = default;
    })
}

pub fn take_trace() -> Vec<J> {
    ST.with(|s| std::mem::take(&mut s.borrow_mut().trace))
}

/// log one call; returns (its id, the scripted answer for it)
pub fn push_call(call: J) -> (u64, bool) {
    ST.with(|s| {
        let mut s = s.borrow_mut();
        let id = s.trace.len();
        s.trace.push(call);
        let ans = s.script.get(id).copied().unwrap_or(s.default);
        (id as u64, ans)
    })
}

/// the location as a list of steps, root first (walks the borrowed list itself, not `to_owned`)
pub fn loc_json(l: ValuePointerRef) -> J {
    let mut steps = vec![];
    let mut cur = l;
    loop {
        match cur {
            ValuePointerRef::Origin => break,
            ValuePointerRef::Key { key, prev } => {
                steps.push(json!(key));
                cur = *prev;
            }
            ValuePointerRef::Index { index, prev } => {
                steps.push(json!({"i": index.to_string()}));
                cur = *prev;
            }
        }
    }
    steps.reverse();
    J::Array(steps)
}

pub fn kind_json<V: IntoValue>(k: ErrorKind<V>) -> J {
    match k {
        ErrorKind::IncorrectValueKind { actual, accepted } => json!({
            "k": "ivk",
            "actual": ov_to_wire(&ov_of_value(actual)),
            "accepted": accepted.iter().map(|k| k.to_string()).collect::<Vec<_>>(),
        }),
        ErrorKind::MissingField { field } => json!({"k": "missing", "field": field}),
        ErrorKind::UnknownKey { key, accepted } => {
            json!({"k": "unknownkey", "key": key, "accepted": accepted})
        }
        ErrorKind::UnknownValue { value, accepted } => {
            json!({"k": "unknownvalue", "value": value, "accepted": accepted})
        }
        ErrorKind::BadSequenceLen { actual, expected } => json!({
            "k": "badlen",
            "actual": ov_of_seq::<V>(actual).iter().map(ov_to_wire).collect::<Vec<_>>(),
            "expected": expected.to_string(),
        }),
        ErrorKind::Unexpected { msg } => json!({"k": "unexpected", "msg": msg}),
    }
}

/// error raised by the harness's user functions (try_from, validate, missing_field_error, ...)
#[derive(Debug)]
pub struct UErr {
    pub f: u32,
    pub args: J,
}
impl std::fmt::Display for UErr {
    fn fmt(&self, f: &mut std::fmt::Formatter<'_>) -> std::fmt::Result {
        write!(f, "user error {}", self.f)
    }
}
impl std::error::Error for UErr {}

pub struct Rec<const A: u8> {
    pub id: u64,
}

fn answer<const A: u8>(call: J) -> ControlFlow<Rec<A>, Rec<A>> {
    let (id, cont) = push_call(call);
    if cont {
        ControlFlow::Continue(Rec { id })
    } else {
        ControlFlow::Break(Rec { id })
    }
}

impl<const A: u8> DeserializeError for Rec<A> {
    fn error<V: IntoValue>(
        self_: Option<Self>,
        error: ErrorKind<V>,
        location: ValuePointerRef,
    ) -> ControlFlow<Self, Self> {
        answer(json!({"c": "error", "alg": A, "self": self_.map(|e| e.id),
                      "kind": kind_json(error), "loc": loc_json(location)}))
    }
}

impl<const A: u8, const B: u8> MergeWithError<Rec<B>> for Rec<A> {
    fn merge(
        self_: Option<Self>,
        other: Rec<B>,
        merge_location: ValuePointerRef,
    ) -> ControlFlow<Self, Self> {
        answer(json!({"c": "merge", "alg": A, "self": self_.map(|e| e.id),
                      "oalg": B, "other": other.id, "loc": loc_json(merge_location)}))
    }
}

impl<const A: u8> MergeWithError<UErr> for Rec<A> {
    fn merge(
        self_: Option<Self>,
        other: UErr,
        merge_location: ValuePointerRef,
    ) -> ControlFlow<Self, Self> {
        answer(json!({"c": "mergeu", "alg": A, "self": self_.map(|e| e.id),
                      "u": {"f": other.f, "args": other.args}, "loc": loc_json(merge_location)}))
    }
}

/// a user function was invoked (takes a slot in the trace; its scripted answer is unused)
pub fn log_user(f: u32, args: J) {
    push_call(json!({"c": "user", "f": f, "args": args}));
}
