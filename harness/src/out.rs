//! `ToOut`: renders a deserialized value into the model's universal output type `out`.
use crate::ov::{ov_of_json, ov_to_wire};
use serde_json::{json, Value as J};
use std::collections::{BTreeMap, BTreeSet, HashMap, HashSet};
use std::marker::PhantomData;
use std::num::*;

pub trait ToOut {
    fn to_out(&self) -> J;
}

impl ToOut for () {
    fn to_out(&self) -> J {
        json!({"u": 0})
    }
}
impl ToOut for bool {
    fn to_out(&self) -> J {
        J::Bool(*self)
    }
}
macro_rules! int_out {
    ($($t:ty),*) => {$(
        impl ToOut for $t {
            fn to_out(&self) -> J { json!({"i": self.to_string()}) }
        }
    )*};
}
int_out!(u8, u16, u32, u64, u128, usize, i8, i16, i32, i64, i128, isize);
int_out!(NonZeroU8, NonZeroU16, NonZeroU32, NonZeroU64, NonZeroU128, NonZeroUsize);
int_out!(NonZeroI8, NonZeroI16, NonZeroI32, NonZeroI64, NonZeroI128, NonZeroIsize);

impl ToOut for f64 {
    fn to_out(&self) -> J {
        json!({"f64": format!("{:016x}", self.to_bits())})
    }
}
impl ToOut for f32 {
    fn to_out(&self) -> J {
        json!({"f32": format!("{:08x}", self.to_bits())})
    }
}
impl ToOut for char {
    fn to_out(&self) -> J {
        json!({"c": (*self as u32).to_string()})
    }
}
impl ToOut for String {
    fn to_out(&self) -> J {
        J::String(self.clone())
    }
}
impl<T: ToOut> ToOut for Vec<T> {
    fn to_out(&self) -> J {
        json!({"l": self.iter().map(|x| x.to_out()).collect::<Vec<_>>()})
    }
}
impl<T: ToOut, const N: usize> ToOut for [T; N] {
    fn to_out(&self) -> J {
        json!({"l": self.iter().map(|x| x.to_out()).collect::<Vec<_>>()})
    }
}
impl<A: ToOut, B: ToOut> ToOut for (A, B) {
    fn to_out(&self) -> J {
        json!({"t": [self.0.to_out(), self.1.to_out()]})
    }
}
impl<A: ToOut, B: ToOut, C: ToOut> ToOut for (A, B, C) {
    fn to_out(&self) -> J {
        json!({"t": [self.0.to_out(), self.1.to_out(), self.2.to_out()]})
    }
}
impl<T: ToOut> ToOut for Option<T> {
    fn to_out(&self) -> J {
        match self {
            None => json!({"none": 0}),
            Some(x) => json!({"some": x.to_out()}),
        }
    }
}
impl<T: ToOut> ToOut for Box<T> {
    fn to_out(&self) -> J {
        (**self).to_out()
    }
}
impl<T: ToOut> ToOut for HashSet<T> {
    fn to_out(&self) -> J {
        json!({"set": self.iter().map(|x| x.to_out()).collect::<Vec<_>>()})
    }
}
impl<T: ToOut> ToOut for BTreeSet<T> {
    fn to_out(&self) -> J {
        json!({"set": self.iter().map(|x| x.to_out()).collect::<Vec<_>>()})
    }
}
impl<K: ToOut, T: ToOut> ToOut for HashMap<K, T> {
    fn to_out(&self) -> J {
        json!({"map": self.iter().map(|(k, v)| json!([k.to_out(), v.to_out()])).collect::<Vec<_>>()})
    }
}
impl<K: ToOut, T: ToOut> ToOut for BTreeMap<K, T> {
    fn to_out(&self) -> J {
        json!({"map": self.iter().map(|(k, v)| json!([k.to_out(), v.to_out()])).collect::<Vec<_>>()})
    }
}
impl<T: ToOut> ToOut for serde_cs::vec::CS<T> {
    fn to_out(&self) -> J {
        json!({"l": self.0.iter().map(|x| x.to_out()).collect::<Vec<_>>()})
    }
}
impl<T> ToOut for PhantomData<T> {
    fn to_out(&self) -> J {
        json!({"ph": 0})
    }
}
impl ToOut for J {
    fn to_out(&self) -> J {
        json!({"j": ov_to_wire(&ov_of_json(self))})
    }
}
