//! The library of logging user functions (`from`, `try_from`, `map`, `validate`,
//! `missing_field_error`, `deny_unknown_fields = f`). Each has a Gallina twin in Deser.v.
use crate::out::ToOut;
use crate::rec::{loc_json, log_user, UErr};
use deserr::{DeserializeError, Deserr, IntoValue, Value, ValuePointerRef};
use serde_json::{json, Value as J};

/// `W<T>`: a `T` together with the user functions that were applied to it (innermost first).
/// It deserializes exactly like `T` (no function applied yet).
#[derive(Debug, Clone, Default, PartialEq, Eq, Hash, PartialOrd, Ord)]
pub struct W<T> {
    pub inner: T,
    pub fns: Vec<u32>,
}

pub fn w<T>(inner: T) -> W<T> {
    W { inner, fns: vec![] }
}

impl<T: ToOut> ToOut for W<T> {
    fn to_out(&self) -> J {
        let mut o = self.inner.to_out();
        for f in &self.fns {
            o = json!({"fn": [f, o]});
        }
        o
    }
}

impl<E: DeserializeError, T: Deserr<E>> Deserr<E> for W<T> {
    fn deserialize_from_value<V: IntoValue>(
        value: Value<V>,
        location: ValuePointerRef,
    ) -> Result<Self, E> {
        T::deserialize_from_value(value, location).map(w)
    }
}

/// the failure predicate of every fallible user function (twin: `ufail` in Deser.v)
pub fn ufail(o: &J) -> bool {
    match o {
        J::String(s) => s.starts_with('!'),
        J::Object(m) => {
            if let Some(J::String(d)) = m.get("i") {
                let z: i128 = d.parse().unwrap_or(0);
                z.rem_euclid(4) == 3
            } else if let Some(J::Array(l)) = m.get("l") {
                l.len() == 3
            } else if let Some(x) = m.get("some") {
                ufail(x)
            } else if let Some(J::Array(fs)) = m.get("s") {
                fs.iter().any(|f| ufail(&f[1]))
            } else if let Some(J::Array(v)) = m.get("v") {
                v[1].as_array().map(|fs| fs.iter().any(|f| ufail(&f[1]))).unwrap_or(false)
            } else if let Some(J::Array(v)) = m.get("fn") {
                ufail(&v[1])
            } else {
                false
            }
        }
        _ => false,
    }
}

pub fn conv<const F: u32, T: ToOut>(t: T) -> W<T> {
    log_user(F, json!([{"o": t.to_out()}]));
    W { inner: t, fns: vec![F] }
}
pub fn conv_ref<const F: u32, T: ToOut + Clone>(t: &T) -> W<T> {
    conv::<F, T>(t.clone())
}
pub fn tconv<const F: u32, T: ToOut>(t: T) -> Result<W<T>, UErr> {
    let o = t.to_out();
    log_user(F, json!([{"o": o}]));
    if ufail(&o) {
        Err(UErr { f: F, args: json!([{"o": o}]) })
    } else {
        Ok(W { inner: t, fns: vec![F] })
    }
}
pub fn tconv_ref<const F: u32, T: ToOut + Clone>(t: &T) -> Result<W<T>, UErr> {
    tconv::<F, T>(t.clone())
}
/// `map = mapf::<F, T>`: an endomorphism of the declared type `W<T>`
pub fn mapf<const F: u32, T: ToOut>(mut x: W<T>) -> W<T> {
    log_user(F, json!([{"o": x.to_out()}]));
    x.fns.push(F);
    x
}
pub fn validate<const F: u32, S: ToOut>(s: S, loc: ValuePointerRef) -> Result<S, UErr> {
    let o = s.to_out();
    let args = json!([{"o": o}, {"loc": loc_json(loc)}]);
    log_user(F, args.clone());
    if ufail(&o) {
        Err(UErr { f: F, args })
    } else {
        Ok(s)
    }
}
pub fn mfe<const F: u32>(key: &str, loc: ValuePointerRef) -> UErr {
    let args = json!([{"s": key}, {"loc": loc_json(loc)}]);
    log_user(F, args.clone());
    UErr { f: F, args }
}
pub fn duf<const F: u32>(key: &str, accepted: &[&str], loc: ValuePointerRef) -> UErr {
    let args = json!([{"s": key}, {"ss": accepted}, {"loc": loc_json(loc)}]);
    log_user(F, args.clone());
    UErr { f: F, args }
}
