#!/bin/sh
# usage: harmless_eval.sh <name> <patch.diff> : applies a behaviour-preserving patch to a scratch copy of /repo,
# checks it builds and passes the crate's tests, then runs every registered quick check against it.
name=$1; patch=$2
dst=$HOME/.cache/deserr-mut/harmless_$name
mkdir -p $dst && rsync -a --delete --exclude target --exclude .git /repo/ $dst/ || exit 2
(cd $dst && patch -p1 -s -i $patch) || { echo "PATCH DOES NOT APPLY"; exit 2; }
(cd $dst && CARGO_NET_OFFLINE=true cargo test --workspace --offline 2>&1 | grep "test result" | awk '{p+=$4; f+=$6} END {print "crate tests passed=" p " failed=" f}')
for c in C01 C02 C03 C04 C05 C06 C07 C08 C09 C10 C11 C12 C13 C14 C15 C16 C17 C18 C19 C20; do
  VERIF_REPO=$dst python3 /verif/run.py $c --tier quick 2>&1 | grep -E "VIOLATION|BROKEN| ok |FAILED" | head -3
done
