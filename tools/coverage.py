#!/usr/bin/env python3
"""Development aid: how much of /repo's source do the correspondence inputs of the quick tier execute?
Builds the harness with -C instrument-coverage (nightly toolchain, for its llvm-tools), runs the case
generators of several checks through it, and prints per-file line coverage plus the uncovered lines of
the files the model mirrors. Not a registered check; nothing depends on it."""
import glob, importlib, os, subprocess, sys
sys.path.insert(0, os.path.dirname(os.path.dirname(os.path.abspath(__file__))))
from gen import common as C
from gen import catalogue

TGT = os.path.expanduser("~/.cache/cov_target")
PROF = os.path.expanduser("~/.cache/cov_prof")
BIN = os.path.join(TGT, "release", "verif-harness")
TOOLS = glob.glob(os.path.expanduser("~/.rustup/toolchains/nightly-x86_64*/lib/rustlib/*/bin"))[0]


def main():
    props = sys.argv[1:] or ["c01", "c02", "c03", "c06", "c08", "c09", "c10", "c11", "c12", "c14", "c15"]
    os.makedirs(PROF, exist_ok=True)
    for f in glob.glob(os.path.join(PROF, "*.profraw")):
        os.remove(f)
    env = dict(os.environ, RUSTFLAGS="-C instrument-coverage", CARGO_NET_OFFLINE="true")
    for p in props:
        mod = importlib.import_module("gen.props." + p)
        ctx = C.Ctx(p.upper(), "quick", 0)
        ctx.replay_file = None
        H = catalogue.build(ctx, mod)          # writes generated.rs, builds the normal harness
        subprocess.run(["cargo", "+nightly", "build", "--offline", "--release", "--target-dir", TGT], cwd=os.path.join(C.VERIF, "harness"), env=env,
                       stdout=subprocess.DEVNULL, stderr=subprocess.DEVNULL, check=True)
        H.binary = BIN
        C.ENV["LLVM_PROFILE_FILE"] = os.path.join(PROF, p + "-%p-%m.profraw")
        try:
            mod.run(ctx, H)
        except SystemExit:
            pass
        print(p, "evaluations", ctx.coverage.get("evaluations"), "violations", len(ctx.violations))
    subprocess.run([os.path.join(TOOLS, "llvm-profdata"), "merge", "-sparse", "-o", os.path.join(PROF, "all.profdata")] + glob.glob(os.path.join(PROF, "*.profraw")), check=True)
    rep = subprocess.run([os.path.join(TOOLS, "llvm-cov"), "report", BIN, "-instr-profile=" + os.path.join(PROF, "all.profdata"),
                          "--ignore-filename-regex=(registry|rustc|verif/harness)"], stdout=subprocess.PIPE, text=True).stdout
    print(rep)
    for f in ("src/impls.rs", "src/serde_json.rs", "src/value.rs", "src/errors/json.rs", "src/errors/query_params.rs", "src/errors/helpers.rs", "src/lib.rs", "src/serde_cs.rs"):
        out = subprocess.run([os.path.join(TOOLS, "llvm-cov"), "show", BIN, "-instr-profile=" + os.path.join(PROF, "all.profdata"), os.path.join(C.REPO, f),
                              "--show-instantiations=false"], stdout=subprocess.PIPE, text=True).stdout
        import re
        unc = [l for l in out.split("\n") if re.match(r"^ +[0-9]+\| +0\|", l)]
        print("== %s: %d uncovered lines" % (f, len(unc)))
        for l in unc[:25]:
            print("   ", l[:160])


if __name__ == "__main__":
    main()
