#!/usr/bin/env python3
"""Confirm a seeded defect and run the checks against it.
   usage: seed_eval.py <Cxx> <dir with patch.diff demo.rs notes.md> [checks to run, default: the property's own]"""
import json, os, re, shutil, subprocess, sys, time

pid, src = sys.argv[1], sys.argv[2]
checks = sys.argv[3:] or [pid]
HOME = os.path.expanduser("~/.cache/deserr-mut")
mut, clean = os.path.join(HOME, "seed_" + pid), os.path.join(HOME, "clean")
ENV = dict(os.environ, CARGO_NET_OFFLINE="true")
FEAT = os.environ.get("SEED_DEMO_FEATURES", "")


def sh(cmd, cwd=None, env=None, timeout=3600):
    p = subprocess.run(cmd, cwd=cwd, env=env or ENV, shell=isinstance(cmd, str), stdout=subprocess.PIPE, stderr=subprocess.STDOUT, text=True, timeout=timeout)
    return p.returncode, p.stdout


def copy_repo(dst):
    os.makedirs(dst, exist_ok=True)
    sh(["rsync", "-a", "--delete", "--exclude", "target", "--exclude", ".git", "/repo/", dst + "/"])


def test_counts(out):
    p = sum(int(x) for x in re.findall(r"test result: \w+\. (\d+) passed", out))
    f = sum(int(x) for x in re.findall(r"test result: \w+\. \d+ passed; (\d+) failed", out))
    return p, f


meta = {"property": pid, "what_i_ran": []}
copy_repo(mut)
rc, out = sh(["patch", "-p1", "-i", os.path.join(src, "patch.diff")], cwd=mut)
meta["patch_applies"] = rc == 0
if rc != 0:
    print("PATCH DOES NOT APPLY\n" + out); sys.exit(1)
rc, out = sh("cargo build --offline 2>&1 | tail -3", cwd=mut)
meta["builds"] = "error" not in out.lower()
rc, out = sh("cargo test --workspace --offline 2>&1", cwd=mut)
meta["existing_tests_with_patch"] = dict(zip(("passed", "failed"), test_counts(out)))
meta["what_i_ran"].append("cargo build --offline && cargo test --workspace --offline (in a scratch copy of /repo with the patch)")
demo = os.path.join(src, "demo.rs")
if os.path.exists(demo):
    shutil.copy(demo, os.path.join(mut, "tests", "seed_demo.rs"))
    rc1, out1 = sh("cargo test --offline %s --test seed_demo 2>&1 | tail -15" % FEAT, cwd=mut)
    meta["demo_with_patch"] = dict(zip(("passed", "failed"), test_counts(out1)), compiles="could not compile" not in out1)
    os.remove(os.path.join(mut, "tests", "seed_demo.rs"))
    copy_repo(clean)
    shutil.copy(demo, os.path.join(clean, "tests", "seed_demo.rs"))
    rc2, out2 = sh("cargo test --offline %s --test seed_demo 2>&1 | tail -15" % FEAT, cwd=clean)
    meta["demo_without_patch"] = dict(zip(("passed", "failed"), test_counts(out2)), compiles="could not compile" not in out2)
    os.remove(os.path.join(clean, "tests", "seed_demo.rs"))
    meta["what_i_ran"].append("cargo test --offline --test seed_demo with and without the patch")
print(json.dumps(meta, indent=1))
res = {}
for c in checks:
    t0 = time.time()
    rc, out = sh(["python3", "run.py", c], cwd="/verif", env=dict(ENV, VERIF_REPO=mut))
    lines = [l for l in out.split("\n") if l.startswith("VIOLATION") or l.startswith("BROKEN") or " ok " in l or "FAILED" in l]
    res[c] = {"exit": rc, "lines": lines[:6], "wall_s": round(time.time() - t0, 1)}
    print(c, rc, lines[:3])
meta["checks"] = res
meta["what_i_ran"].append("VERIF_REPO=<scratch copy with patch> python3 run.py <check> for: " + " ".join(checks))
dst = os.path.join("/verif/seeded", pid + ("-" + os.path.basename(src.rstrip("/")) if os.path.basename(src.rstrip("/")) != pid else ""))
os.makedirs(dst, exist_ok=True)
for f in ("patch.diff", "demo.rs", "notes.md"):
    if os.path.exists(os.path.join(src, f)):
        shutil.copy(os.path.join(src, f), os.path.join(dst, f))
json.dump(meta, open(os.path.join(dst, "meta.json"), "w"), indent=1)
# restore the harness build to /repo for subsequent runs
sh(["rm", "-rf", "/verif/replays"])
