#!/bin/sh
# Re-checks every compiled property file (and everything it loads) with Coq's independent checker
# and prints the axioms they rely on. Takes about 70 s. Expected: "Axioms: <none>".
cd "$(dirname "$0")/../coq" || exit 2
exec timeout 3000 coqchk -o -silent -Q . Deserr \
  Deserr.Properties.C01 Deserr.Properties.C02 Deserr.Properties.C03 Deserr.Properties.C04 Deserr.Properties.C05 \
  Deserr.Properties.C06 Deserr.Properties.C07 Deserr.Properties.C08 Deserr.Properties.C09 Deserr.Properties.C10 \
  Deserr.Properties.C11 Deserr.Properties.C12 Deserr.Properties.C13 Deserr.Properties.C14 Deserr.Properties.C15 \
  Deserr.Properties.C16 Deserr.Properties.C17 Deserr.Properties.C18 Deserr.Properties.C19 Deserr.Properties.C20
