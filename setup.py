#!/usr/bin/env python3
"""MANIFEST.setup_cmd: build the Coq development and the harness from files on disk only."""
import os
import sys

sys.path.insert(0, os.path.dirname(os.path.abspath(__file__)))
from gen import common as C
from gen import catalogue

ok, log = C.build_coq()
print(log[-2000:])
if not ok:
    sys.exit(1)
ctx = C.Ctx("SETUP", "quick", 0)
catalogue.build(ctx, None)
print("setup ok")
