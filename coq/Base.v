(** Common imports and small utilities shared by the whole model.
    Model files contain executable definitions only; proofs live in proofs/. *)
From Coq Require Export List Bool Arith NArith ZArith String Ascii Lia.
Export ListNotations.

Definition str_eqb (a b : string) : bool := String.eqb a b.

Fixpoint mem_str (s : string) (l : list string) : bool :=
  match l with [] => false | x :: r => if String.eqb s x then true else mem_str s r end.

(** index of the first element satisfying [f] *)
Fixpoint find_index {A} (f : A -> bool) (l : list A) : option nat :=
  match l with
  | [] => None
  | x :: r => if f x then Some 0%nat else option_map S (find_index f r)
  end.

Definition N_of_nat' (n : nat) : N := N.of_nat n.

Fixpoint nth_opt {A} (l : list A) (n : nat) : option A :=
  match l, n with
  | [], _ => None
  | x :: _, O => Some x
  | _ :: r, S n' => nth_opt r n'
  end.

Definition opt_eqb {A} (eqb : A -> A -> bool) (a b : option A) : bool :=
  match a, b with
  | None, None => true
  | Some x, Some y => eqb x y
  | _, _ => false
  end.

Fixpoint list_eqb {A} (eqb : A -> A -> bool) (a b : list A) : bool :=
  match a, b with
  | [], [] => true
  | x :: r, y :: s => eqb x y && list_eqb eqb r s
  | _, _ => false
  end.

(** ids of the entries of [l] on which [f] is false: what the correspondence prints *)
Fixpoint bad_ids {A} (f : A -> bool) (l : list (N * A)) : list N :=
  match l with
  | [] => []
  | (i, x) :: r => if f x then bad_ids f r else i :: bad_ids f r
  end.

(** what a case file prints: the number of failures, then the first 40 failing ids *)
Definition report_ids (l : list N) : list N := N.of_nat (List.length l) :: firstn 40 l.

(** strings with non-printable bytes are shipped as byte lists *)
Fixpoint bs (l : list N) : string :=
  match l with
  | [] => EmptyString
  | b :: r => String (ascii_of_N b) (bs r)
  end.
