(** Executable comparators for C05 (scalars). *)
From Deserr Require Import Base Pointer Kinds Value Prog Utf8 Floats Scalars ScalarSpec Types Deser Derive.
From Deserr.checks Require Import KDeser.
Local Open Scope string_scope.

(** what a scalar deserializer does at the root under any script: Ok without a call, or
    exactly one [error(None, kind, Origin)] whose result is returned *)
Definition scalar_outcome (t : ty) (v : value) : sc_out :=
  match run (fun _ => true) (deser t 0 v Origin) [] with
  | (ROk o, []) => SOk o
  | (RErr 0%N, [CError 0%N None (IncorrectValueKind a acc) Origin]) =>
    if value_eqb a v then SKind acc else SOther
  | (RErr 0%N, [CError 0%N None (Unexpected m) Origin]) => SUnexp m
  | _ => SOther
  end.

(** ** rendering in the harness's template language *)
Fixpoint join_names (l : list vkind) : string :=
  match l with [] => "" | [k] => kind_name k | k :: r => kind_name k ++ "," ++ join_names r end.

Definition render (n : Z) (o : sc_out) : string :=
  match o with
  | SOk (OInt z) => if Z.eqb z n then "o" else "O"
  | SOk _ => "O"
  | SKind acc => "k" ++ join_names acc
  | SUnexp m => "u" ++ m
  | SOther => "?"
  end.

(** replace every "{n}" of a template by the decimal of n *)
Fixpoint instantiate (t : string) (dn : string) : string :=
  match t with
  | String "{" (String "n" (String "}" r)) => dn ++ instantiate r dn
  | String c r => String c (instantiate r dn)
  | EmptyString => EmptyString
  end.

Definition value_of_Z (n : Z) : value := if (n <? 0)%Z then VNeg n else VInt (Z.to_N n).

(** the integers of [lo, lo+len) on which [f n] differs from the instantiated template *)
Fixpoint run_bad (f : Z -> sc_out) (tmpl : string) (n : Z) (len : nat) (acc : list Z) : list Z :=
  match len with
  | O => acc
  | S len' =>
    run_bad f tmpl (n + 1)%Z len'
            (if String.eqb (render n (f n)) (instantiate tmpl (dec_Z n)) then acc else n :: acc)
  end.

Definition runs_bad (f : Z -> sc_out) (runs : list (Z * Z * string)) : list Z :=
  flat_map (fun r => let '(lo, hi, tmpl) := r in run_bad f tmpl lo (Z.to_nat (hi - lo + 1)) []) runs.

Definition sweep_model (d : int_desc) (runs : list (Z * Z * string)) : list N :=
  map Z.abs_N (runs_bad (fun n => scalar_outcome (TInt d) (value_of_Z n)) runs).
Definition sweep_spec (d : int_desc) (runs : list (Z * Z * string)) : list N :=
  map Z.abs_N (runs_bad (fun n => spec_int d (value_of_Z n)) runs).

(** explicit cases on all scalar targets: the spec for non-integer scalars *)
Definition spec_scalar (t : ty) (v : value) : option sc_out :=
  match t with
  | TInt d => Some (spec_int d v)
  | TUnit => Some (spec_unit v)
  | TBool => Some (spec_bool v)
  | TString => Some (spec_string v)
  | TChar => Some (spec_char v)
  | TF64 => Some (match v with
                  | VInt x => SOk (OF64 (f64_bits_of_Z (Z.of_N x)))
                  | VNeg x => SOk (OF64 (f64_bits_of_Z x))
                  | VFloat b => SOk (OF64 (Floats.f64_canon b))
                  | _ => SKind float_accepted end)
  | TF32 => Some (match v with
                  | VInt x => SOk (OF32 (f32_bits_of_Z (Z.of_N x)))
                  | VNeg x => SOk (OF32 (f32_bits_of_Z x))
                  | VFloat b => SOk (OF32 (f32_bits_of_f64_bits b))
                  | _ => SKind float_accepted end)
  | _ => None
  end.

Definition sc_out_eqb (a b : sc_out) : bool :=
  match a, b with
  | SOk x, SOk y => out_eqb x y
  | SKind x, SKind y => list_eqb vkind_eqb x y
  | SUnexp x, SUnexp y => String.eqb x y
  | _, _ => false
  end.

(** the implementation's observation of a scalar case, classified the same way *)
Definition impl_outcome (c : dcase) : sc_out :=
  match dc_res c, dc_trace c with
  | ROk o, [] => SOk o
  | RErr 0%N, [CError 0%N None (IncorrectValueKind a acc) Origin] =>
    if value_eqb a (dc_val c) then SKind acc else SOther
  | RErr 0%N, [CError 0%N None (Unexpected m) Origin] => SUnexp m
  | _, _ => SOther
  end.

Definition mon_c05 (c : dcase) : bool :=
  match dc_ty c with
  | Accept t =>
    match spec_scalar t (dc_val c) with
    | Some s => sc_out_eqb s (impl_outcome c)
    | None => match impl_outcome c with SOther => false | _ => true end   (* floats: judged by corr_full *)
    end
  | _ => false
  end.
