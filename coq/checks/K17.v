(** Executable comparators for C17. *)
From Deserr Require Import Base Kinds.

Definition seqs_upto (n : nat) : list (list vkind) := flat_map all_seqs (seq 0 (S n)).

(** positions (in enumeration order) where [f seq] differs from the implementation's phrase *)
Fixpoint sweep_bad (f : list vkind -> string) (dict : list string)
         (ss : list (list vkind)) (idx : list N) (pos : N) : list N :=
  match ss, idx with
  | s :: ss', i :: idx' =>
    let rest := sweep_bad f dict ss' idx' (N.succ pos) in
    if String.eqb (f s) (nth (N.to_nat i) dict "<none>"%string) then rest else pos :: rest
  | [], [] => []
  | _, _ => [pos]   (* length mismatch: the enumeration orders disagree *)
  end.

Definition c17_sweep_corr (maxlen : nat) dict idx := sweep_bad describe dict (seqs_upto maxlen) idx 0.
Definition c17_sweep_mon (maxlen : nat) dict idx := sweep_bad spec_describe dict (seqs_upto maxlen) idx 0.

Definition c17_corr (c : list N * string) : bool :=
  String.eqb (describe (map kind_of_N (fst c))) (snd c).
Definition c17_mon (c : list N * string) : bool :=
  String.eqb (spec_describe (map kind_of_N (fst c))) (snd c).
