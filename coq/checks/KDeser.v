(** Shared comparators for the properties decided through the interpreter model:
    observation types, equality up to set/map order, the model run of a case. *)
From Deserr Require Import Base Pointer Kinds Value Prog Scalars Types Deser Derive.

Definition script_of (l : list bool) (d : bool) : N -> bool := fun i => nth (N.to_nat i) l d.

(** equality of outputs where sets and maps are unordered *)
Fixpoint out_sim (a b : out) : bool :=
  let fix list_go (x y : list out) : bool :=
      match x, y with
      | [], [] => true
      | u :: x', w :: y' => out_sim u w && list_go x' y'
      | _, _ => false
      end in
  let fix named_go (x y : list (string * out)) : bool :=
      match x, y with
      | [], [] => true
      | (k, u) :: x', (k', w) :: y' => String.eqb k k' && out_sim u w && named_go x' y'
      | _, _ => false
      end in
  match a, b with
  | OList x, OList y => list_go x y
  | OTuple x, OTuple y => list_go x y
  | OSome x, OSome y => out_sim x y
  | OSet x, OSet y =>
    Nat.eqb (List.length x) (List.length y)
    && (fix all (x : list out) : bool :=
          match x with [] => true | u :: x' => existsb (out_sim u) y && all x' end) x
  | OMap x, OMap y =>
    Nat.eqb (List.length x) (List.length y)
    && (fix all (x : list (out * out)) : bool :=
          match x with
          | [] => true
          | (k, u) :: x' => existsb (fun p => out_sim k (fst p) && out_sim u (snd p)) y && all x'
          end) x
  | OStruct x, OStruct y => named_go x y
  | OVariant n x, OVariant m y => String.eqb n m && named_go x y
  | OFn f x, OFn g y => N.eqb f g && out_sim x y
  | _, _ => out_eqb a b
  end.

Definition uarg_sim (a b : uarg) : bool :=
  match a, b with
  | AOut x, AOut y => out_sim x y
  | AStr x, AStr y => String.eqb x y
  | AStrs x, AStrs y => list_eqb String.eqb x y
  | ALoc x, ALoc y => list_eqb step_eqb x y
  | _, _ => false
  end.

Definition ekind_eqb (a b : ekind) : bool :=
  match a, b with
  | IncorrectValueKind v l, IncorrectValueKind v' l' => value_eqb v v' && list_eqb vkind_eqb l l'
  | MissingField f, MissingField f' => String.eqb f f'
  | UnknownKey k l, UnknownKey k' l' => String.eqb k k' && list_eqb String.eqb l l'
  | UnknownValue k l, UnknownValue k' l' => String.eqb k k' && list_eqb String.eqb l l'
  | BadSequenceLen v n, BadSequenceLen v' n' => list_eqb value_eqb v v' && N.eqb n n'
  | Unexpected m, Unexpected m' => String.eqb m m'
  | _, _ => false
  end.

Definition optN_eqb := opt_eqb N.eqb.

Definition call_sim (a b : call) : bool :=
  match a, b with
  | CError g s k l, CError g' s' k' l' => N.eqb g g' && optN_eqb s s' && ekind_eqb k k' && vpr_eqb l l'
  | CMerge g s og o l, CMerge g' s' og' o' l' =>
    N.eqb g g' && optN_eqb s s' && N.eqb og og' && N.eqb o o' && vpr_eqb l l'
  | CMergeU g s (f, args) l, CMergeU g' s' (f', args') l' =>
    N.eqb g g' && optN_eqb s s' && N.eqb f f' && list_eqb uarg_sim args args' && vpr_eqb l l'
  | CUser f args, CUser f' args' => N.eqb f f' && list_eqb uarg_sim args args'
  | _, _ => false
  end.

Definition res_sim (a b : res) : bool :=
  match a, b with
  | ROk x, ROk y => out_sim x y
  | RErr x, RErr y => N.eqb x y
  | RPanic _, RPanic _ => true
  | _, _ => false
  end.

(** one case: compiled target type, payload, script, and what the implementation did *)
Record dcase := mkDC {
  dc_ty : dres ty; dc_val : value; dc_script : list bool; dc_default : bool;
  dc_res : res; dc_trace : list call }.

Definition model_run (c : dcase) : option (res * list call) :=
  match dc_ty c with
  | Accept t => Some (run (script_of (dc_script c) (dc_default c)) (deserialize t (dc_val c)) [])
  | _ => None
  end.

(** full correspondence: same result, same calls in the same order with the same arguments *)
Definition corr_full (c : dcase) : bool :=
  match model_run c with
  | Some (r, tr) => res_sim r (dc_res c) && list_eqb call_sim tr (dc_trace c)
  | None => false
  end.
