(** Executable comparators for C14 (built-in error messages). *)
From Deserr Require Import Base Pointer Kinds Value Prog Scalars Types Deser Derive Messages Monitors.
From Deserr.checks Require Import KDeser KMon.

Fixpoint assoc_text (l : list (N * string)) (b : N) : string :=
  match l with [] => "<no float text>"%string | (k, s) :: r => if N.eqb k b then s else assoc_text r b end.

(** one case: the keep-going recording run (dcase) plus the results of the two message types:
    [None] = Ok, [Some m] = Err with message m; with the float-text oracles *)
Record mcase := mkMC {
  mc_rec : dcase; mc_ok_json : option out; mc_json : option string; mc_qp : option string;
  mc_ftext : list (N * string); mc_dtext : list (N * string) }.

Definition opt_str_eqb := opt_eqb String.eqb.

(** the property on the implementation: each message type fails iff the keep-going recording run
    fails, succeeds with the same value, and its message is the rendering of the FIRST report of
    that run *)
Definition mon_c14 (m : mcase) : bool :=
  let c := mc_rec m in
  let ft := assoc_text (mc_ftext m) in
  let dt := assoc_text (mc_dtext m) in
  match dc_res c with
  | ROk o => match mc_json m, mc_qp m, mc_ok_json m with
             | None, None, Some o' => out_sim o o'
             | _, _, _ => false
             end
  | RErr _ =>
    opt_str_eqb (first_report_msg ft dt false (dc_trace c)) (mc_json m)
    && opt_str_eqb (first_report_msg ft dt true (dc_trace c)) (mc_qp m)
    && match mc_json m with Some _ => true | None => false end
    (* ... and that report is true of the payload: the path resolves to the value it quotes *)
    && (negb (c04_applicable c)
        || match find creates_report (dc_trace c) with
           | Some call => call_true (dc_val c) (dc_trace c) call
           | None => false
           end)
  | RPanic _ => false
  end.

(** the model: run it with an always-Break script, render its first report *)
Definition corr_c14 (m : mcase) : bool :=
  let c := mc_rec m in
  let ft := assoc_text (mc_ftext m) in
  let dt := assoc_text (mc_dtext m) in
  match dc_ty c with
  | Accept t =>
    let (r, tr) := run (fun _ => false) (deserialize t (dc_val c)) [] in
    match r with
    | ROk o => match mc_json m, mc_qp m, mc_ok_json m with
               | None, None, Some o' => out_sim o o'
               | _, _, _ => false
               end
    | RErr _ =>
      opt_str_eqb (first_report_msg ft dt false tr) (mc_json m)
      && opt_str_eqb (first_report_msg ft dt true tr) (mc_qp m)
    | RPanic _ => false
    end
  | _ => false
  end.
