(** Executable comparators for C20. *)
From Deserr Require Import Base Pointer Kinds Value Prog Scalars Types Deser Derive Messages Http.
From Deserr.checks Require Import KDeser K14.

Definition ex_eqb (a b : ex_outcome) : bool :=
  match a, b with
  | Extracted x, Extracted y => out_sim x y
  | Rejected s b, Rejected s' b' => N.eqb s s' && String.eqb b b'
  | _, _ => false
  end.

(** one extractor run: compiled type, what the framework's own extractor said, what the deserr
    extractor did, float-text oracle *)
Record hcase := mkHC { hc_ty : dres ty; hc_fw : fw_outcome; hc_ex : ex_outcome; hc_ftext : list (N * string);
                       hc_custom : option N (* run with the harness's user error type: its own status, "custom: " ++ message *) }.

Definition custom_resp (status : N) (m : string) : N * string := (status, ("custom: " ++ m)%string).

(** the model's prediction equals the extractor's outcome *)
Definition corr_c20 (h : hcase) : bool :=
  match hc_ty h with
  | Accept t =>
    match (match hc_custom h with
           | Some st => extract_with (assoc_text (hc_ftext h)) (assoc_text []) (custom_resp st) t (hc_fw h)
           | None => extract (assoc_text (hc_ftext h)) (assoc_text []) t (hc_fw h)
           end) with
    | Some e => ex_eqb e (hc_ex h)
    | None => false
    end
  | _ => false
  end.

(** the part of the property that needs no model of deserialize: a framework rejection passes
    through unchanged, and a deserr rejection is a 400 *)
Definition mon_c20 (h : hcase) : bool :=
  match hc_fw h, hc_ex h with
  | FwRej s b, Rejected s' b' => N.eqb s s' && String.eqb b b'
  | FwRej _ _, Extracted _ => false
  | FwDoc _, Rejected s _ => N.eqb s (match hc_custom h with Some st => st | None => 400 end)
  | FwDoc _, Extracted _ => true
  end.
