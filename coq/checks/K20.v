(** Executable comparators for C20. *)
From Deserr Require Import Base Pointer Kinds Value Prog Scalars Types Deser Derive Messages Http.
From Deserr.checks Require Import KDeser K14.

Definition ex_eqb (a b : ex_outcome) : bool :=
  match a, b with
  | Extracted x, Extracted y => out_sim x y
  | Rejected s b, Rejected s' b' => N.eqb s s' && String.eqb b b'
  | _, _ => false
  end.

(** one extractor run: compiled type, what the framework's own extractor said, what the deserr
    extractor did, float-text oracle *)
Record hcase := mkHC { hc_ty : dres ty; hc_fw : fw_outcome; hc_ex : ex_outcome; hc_ftext : list (N * string);
                       hc_custom : bool (* run with the harness's user error type: 422, "custom: " ++ message *) }.

Definition custom_resp (m : string) : N * string := (422%N, ("custom: " ++ m)%string).

(** the model's prediction equals the extractor's outcome *)
Definition corr_c20 (h : hcase) : bool :=
  match hc_ty h with
  | Accept t =>
    match (if hc_custom h then extract_with (assoc_text (hc_ftext h)) (assoc_text []) custom_resp t (hc_fw h)
           else extract (assoc_text (hc_ftext h)) (assoc_text []) t (hc_fw h)) with
    | Some e => ex_eqb e (hc_ex h)
    | None => false
    end
  | _ => false
  end.

(** the part of the property that needs no model of deserialize: a framework rejection passes
    through unchanged, and a deserr rejection is a 400 *)
Definition mon_c20 (h : hcase) : bool :=
  match hc_fw h, hc_ex h with
  | FwRej s b, Rejected s' b' => N.eqb s s' && String.eqb b b'
  | FwRej _ _, Extracted _ => false
  | FwDoc _, Rejected s _ => N.eqb s (if hc_custom h then 422 else 400)
  | FwDoc _, Extracted _ => true
  end.
