(** Executable comparators for C13. *)
From Deserr Require Import Base Pointer Kinds Value Prog Deser Json.

(** a JSON text, structurally, with its number literals *)
Inductive jdoc :=
| DNull | DBool (b : bool) | DNum (l : jlit) | DStr (s : string)
| DArr (l : list jdoc) | DObj (l : list (string * jdoc)).

(** what serde_json's parser holds for it: numbers classified, members in a BTreeMap *)
Fixpoint doc_json (d : jdoc) : jvalue :=
  match d with
  | DNull => JNull
  | DBool b => JBool b
  | DNum l => JNumber (classify_literal l)
  | DStr s => JString s
  | DArr l => JArray (map doc_json l)
  | DObj l =>
    JObject ((fix go (l : list (string * jdoc)) (acc : list (string * jvalue)) :=
                match l with
                | [] => acc
                | (k, x) :: r => go r (jobj_insert k (doc_json x) acc)
                end) l [])
  end.

Record jobs := mkJO { jo_view : value; jo_deser_same : bool; jo_deser_ov_same : bool;
                      jo_calls : N; jo_from_same : bool; jo_kinds_agree : bool }.

(** the property judged on the implementation: classification by the literal rule, both
    round trips, kind agreement, not a single call to the error type *)
Definition mon_c13 (c : jdoc * jobs) : bool :=
  let (d, o) := c in
  value_eqb (into_value (doc_json d)) (jo_view o)
  && jo_deser_same o && jo_deser_ov_same o && N.eqb (jo_calls o) 0 && jo_from_same o && jo_kinds_agree o.

(** the model on the same document: view, and both round trips computed by the model *)
Definition corr_c13 (c : jdoc * jobs) : bool :=
  let (d, o) := c in
  let j := doc_json d in
  let v := into_value j in
  value_eqb v (jo_view o)
  && wf_json j
  && value_eqb (into_value (from_value v)) v
  && match run (fun _ => false) (deser_json 0 v Origin) [] with
     | (ROk (OJson v'), []) => value_eqb v' v
     | _ => false
     end.
