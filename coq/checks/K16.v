(** Executable comparators for C16. *)
From Deserr Require Import Base Pointer Kinds Value Scalars Types Derive DeriveSpec.

(** what the compiler said about one derive input: 0 = accepted (no diagnostic),
    1 = rejected by a diagnostic of the derive, 2 = the derive panicked, 3 = only rustc's own errors *)
Definition class_of_model (it : item ity) : N :=
  match compile (IItem it) with Accept _ => 0 | Reject => 1 | Invalid => 3 end%N.

Definition corr_c16 (c : item ity * N) : bool :=
  let (it, impl) := c in N.eqb (class_of_model it) impl.

(** the property on the implementation: what must be rejected is rejected by a diagnostic of the
    derive, and the derive never panics *)
Definition mon_c16 (c : item ity * N) : bool :=
  let (it, impl) := c in
  negb (N.eqb impl 2) && (if rejectable it then N.eqb impl 1 else true).
