(** Executable comparators for C18. *)
From Deserr Require Import Base Utf8 DidYouMean.
Local Open Scope nat_scope.

(** all words of length 0..maxlen over [alpha], by length, first character slowest *)
Fixpoint words_len (alpha : list ascii) (n : nat) : list string :=
  match n with
  | O => [EmptyString]
  | S n' => flat_map (fun w => map (fun c => (w ++ String c EmptyString)%string) alpha) (words_len alpha n')
  end.
Definition words (alpha : list ascii) (maxlen : nat) : list string :=
  flat_map (words_len alpha) (seq 0 (S maxlen)).

(** bit j of the mask of row r: is there a suggestion for (r, [word j]) *)
Fixpoint mask_of (f : string -> bool) (ws : list string) (bit : N) : N :=
  match ws with
  | [] => 0%N
  | w :: r => ((if f w then bit else 0) + mask_of f r (2 * bit))%N
  end.

Definition model_bit (r a : string) : bool :=
  negb (String.eqb (did_you_mean r [a]) "").

(** the property's rule for a single candidate, straight from the budget table *)
Definition spec_bit (r a : string) : bool :=
  let len := String.length r in
  if len <=? 3 then false
  else dl r a <=? (if len <=? 7 then 1 else if len <=? 12 then 2 else if len <=? 17 then 3
                   else if len <=? 24 then 4 else 5).

Definition row_ok (bitf : string -> string -> bool) (ws : list string) (c : N * N) : bool :=
  let (ri, impl_mask) := c in
  N.eqb (mask_of (bitf (nth (N.to_nat ri) ws ""%string)) ws 1) impl_mask.

(** explicit multi-candidate cases *)
Definition c18_corr (c : string * list string * string) : bool :=
  let '(r, acc, out) := c in String.eqb (did_you_mean r acc) out.

Fixpoint first_with (d : nat) (r : string) (acc : list string) : option string :=
  match acc with
  | [] => None
  | a :: rest => if dl r a =? d then Some a else first_with d r rest
  end.
Definition spec_dym (r : string) (acc : list string) : string :=
  match budget (String.length r) with
  | None => ""%string
  | Some t =>
    match acc with
    | [] => ""%string
    | a0 :: rest =>
      let m := fold_left Nat.min (map (dl r) rest) (dl r a0) in
      if t <? m then ""%string else
      match first_with m r acc with
      | Some a => ("did you mean `" ++ a ++ "`? ")%string
      | None => "<impossible>"%string
      end
    end
  end.
Definition c18_mon (c : string * list string * string) : bool :=
  let '(r, acc, out) := c in String.eqb (spec_dym r acc) out.

(** pinpointing a failing pair of the sweep: (row, column, impl bit) *)
Definition pair_ok (bitf : string -> string -> bool) (ws : list string) (c : N * N * bool) : bool :=
  let '(ri, ci, b) := c in
  Bool.eqb (bitf (nth (N.to_nat ri) ws ""%string) (nth (N.to_nat ci) ws ""%string)) b.
