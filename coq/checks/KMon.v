(** Monitors: each property as a decidable predicate on ONE observation of the implementation
    (payload + result + trace). They do not use the interpreter model. *)
From Deserr Require Import Base Pointer Kinds Value Prog Scalars Types Deser Derive Monitors C04Defs.
From Deserr.checks Require Import KDeser.

Definition mon_c01 (c : dcase) : bool := c01_ok (dc_res c) (dc_trace c).

Definition c04_applicable (c : dcase) : bool :=
  nodup_keys (dc_val c)
  && match dc_ty c with Accept t => c04_wf t | _ => false end.

Definition mon_c04 (c : dcase) : bool :=
  negb (c04_applicable c) || forallb (call_true (dc_val c) (dc_trace c)) (dc_trace c).

(** ** per-property projections of the correspondence *)

Definition res_class (r : res) : N := match r with ROk _ => 0 | RErr _ => 1 | RPanic _ => 2 end%N.

(** C01: result class, the ids held by the final error, the calls that create error values
    (which ones, with their self_/other wiring) *)
Definition wiring (c : call) : option (option N * option N) :=
  match c with
  | CError _ s _ _ => Some (s, None)
  | CMerge _ s _ o _ => Some (s, Some o)
  | CMergeU _ s _ _ => Some (s, None)
  | CUser _ _ => None
  end.
Definition wiring_eqb (a b : option (option N * option N)) : bool :=
  opt_eqb (fun x y => optN_eqb (fst x) (fst y) && optN_eqb (snd x) (snd y)) a b.

Definition corr_c01 (c : dcase) : bool :=
  match model_run c with
  | Some (r, tr) =>
    N.eqb (res_class r) (res_class (dc_res c))
    && match r, dc_res c with RErr a, RErr b => N.eqb a b | _, _ => true end
    && list_eqb wiring_eqb (map wiring tr) (map wiring (dc_trace c))
  | None => false
  end.

(** C04: the calls with their kinds, payloads and locations, as a multiset *)
Definition corr_c04 (c : dcase) : bool :=
  match model_run c with
  | Some (_, tr) =>
    Nat.eqb (List.length tr) (List.length (dc_trace c))
    && forallb (fun x => Nat.eqb (List.length (filter (call_sim x) tr))
                                 (List.length (filter (call_sim x) (dc_trace c)))) tr
  | None => false
  end.

(** ** C03 on a pair (keep-going run, scripted run) of the same type and payload *)
Definition leading_trues (l : list bool) : N :=
  N.of_nat (List.length ((fix go (l : list bool) : list bool :=
                            match l with true :: r => true :: go r | _ => [] end) l)).

Definition mon_c03 (p : dcase * dcase) : bool :=
  let (kg, sc) := p in
  let k := leading_trues (dc_script sc) in
  let n := N.of_nat (List.length (dc_trace kg)) in
  (* everything up to and including call k is identical to the keep-going run *)
  list_eqb call_sim (firstn (S (N.to_nat k)) (dc_trace kg)) (firstn (S (N.to_nat k)) (dc_trace sc))
  && (if (n <=? k)%N then res_sim (dc_res kg) (dc_res sc) && Nat.eqb (List.length (dc_trace kg)) (List.length (dc_trace sc)) else true)
  (* after the stop only hand-overs *)
  && (if negb (dc_default sc) && N.eqb (N.of_nat (List.length (dc_script sc))) k
      then c03_tail_ok k (dc_res sc) (dc_trace sc) else true).

Definition corr_c03 (p : dcase * dcase) : bool := corr_full (fst p) && corr_full (snd p).

(** ** C12 *)
Definition mon_c12 (c : dcase) : bool := match dc_res c with RPanic _ => false | _ => true end.
Definition corr_c12 (c : dcase) : bool :=
  match model_run c with
  | Some (r, _) => N.eqb (res_class r) (res_class (dc_res c))
  | None => false
  end.
