(** Monitors that judge the implementation's keep-going observation against the declarative
    specification (Spec.v): C02, C07-C11, C15. *)
From Deserr Require Import Base Pointer Kinds Value Prog Scalars Types Deser Derive Spec Monitors.
From Deserr.checks Require Import KDeser.

Definition fault_sim (a b : fault) : bool :=
  match a, b with
  | FKind k l, FKind k' l' => ekind_eqb k k' && vpr_eqb l l'
  | FUser (f, args) l, FUser (f', args') l' => N.eqb f f' && list_eqb uarg_sim args args' && vpr_eqb l l'
  | _, _ => false
  end.

Definition trace_faults (tr : list call) : list fault :=
  flat_map (fun c => match c with
                     | CError _ _ k l => [FKind k l]
                     | CMergeU _ _ u l => [FUser u l]
                     | _ => []
                     end) tr.
Definition trace_ucalls (tr : list call) : list (N * list uarg) :=
  flat_map (fun c => match c with CUser f args => [(f, args)] | _ => [] end) tr.

Definition count_sim {A} (eqb : A -> A -> bool) (x : A) (l : list A) : nat := List.length (filter (eqb x) l).
Definition multiset_eq {A} (eqb : A -> A -> bool) (a b : list A) : bool :=
  Nat.eqb (List.length a) (List.length b)
  && forallb (fun x => Nat.eqb (count_sim eqb x a) (count_sim eqb x b)) a.

Definition ucall_sim (a b : N * list uarg) : bool := N.eqb (fst a) (fst b) && list_eqb uarg_sim (snd a) (snd b).

Definition keep_going (c : dcase) : bool := dc_default c && forallb (fun b => b) (dc_script c).

Definition spec_of (c : dcase) : option sres :=
  match dc_ty c with Accept t => Some (spec t (dc_val c) Origin) | _ => None end.

(** C02: under an error type that always continues, the result exists iff the specification has
    no fault, it is then the specified value; otherwise the reports received are exactly the
    specified faults (as a multiset: one report per independent fault) *)
Definition mon_c02 (c : dcase) : bool :=
  negb (keep_going c) ||
  match spec_of c with
  | Some s =>
    match dc_res c, s_out s with
    | ROk o, Some o' => out_sim o o' && Nat.eqb (List.length (trace_faults (dc_trace c))) 0
    | RErr _, None => multiset_eq fault_sim (s_faults s) (trace_faults (dc_trace c))
    | _, _ => false
    end
  | None => false
  end.

(** C11: the user functions invoked, with their arguments, in order *)
Definition mon_c11 (c : dcase) : bool :=
  negb (keep_going c) ||
  match spec_of c with
  | Some s => list_eqb ucall_sim (s_ucalls s) (trace_ucalls (dc_trace c))
  | None => false
  end.

(** the interpreter model against the specification on the same input (a tie between the two
    halves of the development, evaluated on every case) *)
Definition model_vs_spec (c : dcase) : bool :=
  match dc_ty c with
  | Accept t =>
    let (r, tr) := run (fun _ => true) (deserialize t (dc_val c)) [] in
    let s := spec t (dc_val c) Origin in
    match r, s_out s with
    | ROk o, Some o' => out_sim o o' && Nat.eqb (List.length (trace_faults tr)) 0
    | RErr _, None => list_eqb fault_sim (s_faults s) (trace_faults tr)
    | _, _ => false
    end
    && list_eqb ucall_sim (s_ucalls s) (trace_ucalls tr)
  | _ => false
  end.
