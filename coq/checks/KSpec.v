(** Monitors that judge the implementation's keep-going observation against the declarative
    specification (Spec.v): C02, C07-C11, C15. *)
From Deserr Require Import Base Pointer Kinds Value Prog Scalars Types Deser Derive Spec Monitors.
From Deserr.checks Require Import KDeser.

Definition fault_sim (a b : fault) : bool :=
  match a, b with
  | FKind k l, FKind k' l' => ekind_eqb k k' && vpr_eqb l l'
  | FUser (f, args) l, FUser (f', args') l' => N.eqb f f' && list_eqb uarg_sim args args' && vpr_eqb l l'
  | _, _ => false
  end.

Definition count_sim {A} (eqb : A -> A -> bool) (x : A) (l : list A) : nat := List.length (filter (eqb x) l).
Definition multiset_eq {A} (eqb : A -> A -> bool) (a b : list A) : bool :=
  Nat.eqb (List.length a) (List.length b)
  && forallb (fun x => Nat.eqb (count_sim eqb x a) (count_sim eqb x b)) a.

Definition ucall_sim (a b : N * list uarg) : bool := N.eqb (fst a) (fst b) && list_eqb uarg_sim (snd a) (snd b).

Definition keep_going (c : dcase) : bool := dc_default c && forallb (fun b => b) (dc_script c).

Definition spec_of (c : dcase) : option sres :=
  match dc_ty c with Accept t => Some (spec t (dc_val c) Origin) | _ => None end.

(** C02: under an error type that always continues, the result exists iff the specification has
    no fault, it is then the specified value; otherwise the reports received are exactly the
    specified faults (as a multiset: one report per independent fault) *)
Definition mon_c02 (c : dcase) : bool :=
  negb (keep_going c) ||
  match spec_of c with
  | Some s =>
    match dc_res c, s_out s with
    | ROk o, Some o' => out_sim o o' && Nat.eqb (List.length (trace_faults (dc_trace c))) 0
    | RErr e, None =>
      (* the final error holds exactly one report per specified fault, and nothing else was reported *)
      multiset_eq fault_sim (s_faults s) (reports_under (dc_trace c) (List.length (dc_trace c)) e)
      && multiset_eq fault_sim (s_faults s) (trace_faults (dc_trace c))
    | _, _ => false
    end
  | None => false
  end.

(** C11: the user functions invoked, with their arguments, in order *)
Definition mon_c11 (c : dcase) : bool :=
  negb (keep_going c) ||
  match spec_of c with
  | Some s => list_eqb ucall_sim (s_ucalls s) (trace_ucalls (dc_trace c))
  | None => false
  end.

(** the interpreter model against the specification on the same input (a tie between the two
    halves of the development, evaluated on every case) *)
Definition model_vs_spec (c : dcase) : bool :=
  match dc_ty c with
  | Accept t =>
    let (r, tr) := run (fun _ => true) (deserialize t (dc_val c)) [] in
    let s := spec t (dc_val c) Origin in
    match r, s_out s with
    | ROk o, Some o' => out_sim o o' && Nat.eqb (List.length (trace_faults tr)) 0
    | RErr _, None => list_eqb fault_sim (s_faults s) (trace_faults tr)
    | _, _ => false
    end
    && list_eqb ucall_sim (s_ucalls s) (trace_ucalls tr)
  | _ => false
  end.

(** ** C06: script-independent structure checks on the top-level container *)
Definition arity_ok (c : dcase) (vs : list value) (n : N) : bool :=
  if N.eqb (N.of_nat (List.length vs)) n then true
  else match dc_res c, dc_trace c with
       | RErr 0%N, [CError 0%N None (BadSequenceLen a m) Origin] => list_eqb value_eqb a vs && N.eqb m n
       | _, _ => false
       end.

Definition mon_c06 (c : dcase) : bool :=
  match dc_ty c with
  | Accept t =>
    match t, dc_val c with
    | TArray n _, VSeq vs => arity_ok c vs n
    | TTuple2 _ _, VSeq vs => arity_ok c vs 2
    | TTuple3 _ _ _, VSeq vs => arity_ok c vs 3
    | TOption _, VNull => match dc_res c, dc_trace c with ROk ONone, [] => true | _, _ => false end
    | TMap kp _ _, VMap ms =>
      if existsb (fun kv => match parse_key kp (fst kv) with inr _ => true | inl _ => false end) ms
      then match dc_res c with RErr _ => true | _ => false end else true
    | TVec _, VSeq vs =>
      match dc_res c with ROk (OList os) => Nat.eqb (List.length os) (List.length vs) | ROk _ => false | _ => true end
    | _, _ => true
    end
  | _ => false
  end.

(** equality of values up to the order of object members (at any depth) *)
Fixpoint value_sim (a b : value) : bool :=
  match a, b with
  | VSeq x, VSeq y =>
    (fix go (x y : list value) : bool :=
       match x, y with
       | [], [] => true
       | u :: x', w :: y' => value_sim u w && go x' y'
       | _, _ => false
       end) x y
  | VMap x, VMap y =>
    Nat.eqb (List.length x) (List.length y)
    && (fix all (x : list (string * value)) : bool :=
          match x with
          | [] => true
          | (k, u) :: x' => existsb (fun p => String.eqb k (fst p) && value_sim u (snd p)) y && all x'
          end) x
  | _, _ => value_eqb a b
  end.

Definition ekind_sim (a b : ekind) : bool :=
  match a, b with
  | IncorrectValueKind v l, IncorrectValueKind v' l' => value_sim v v' && list_eqb vkind_eqb l l'
  | BadSequenceLen v n, BadSequenceLen v' n' => list_eqb value_sim v v' && N.eqb n n'
  | _, _ => ekind_eqb a b
  end.

Definition fault_sim_perm (a b : fault) : bool :=
  match a, b with
  | FKind k l, FKind k' l' => ekind_sim k k' && vpr_eqb l l'
  | _, _ => fault_sim a b
  end.

(** ** C15 / C09 on a pair of runs of the same type (both keep-going) *)
Definition same_outcome_up_to_order (p : dcase * dcase) : bool :=
  let (a, b) := p in
  match dc_res a, dc_res b with
  | ROk x, ROk y => out_sim x y
  | RErr _, RErr _ => true
  | _, _ => false
  end
  && multiset_eq fault_sim_perm (trace_faults (dc_trace a)) (trace_faults (dc_trace b))
  && multiset_eq ucall_sim (trace_ucalls (dc_trace a)) (trace_ucalls (dc_trace b)).

Definition mon_c15 := same_outcome_up_to_order.

(** C09 (ignored): unknown keys without deny_unknown_fields change nothing at all *)
Definition mon_c09_ignored (p : dcase * dcase) : bool :=
  let (a, b) := p in
  res_sim (dc_res a) (dc_res b) && list_eqb call_sim (dc_trace a) (dc_trace b).

Definition corr_pair (p : dcase * dcase) : bool := corr_full (fst p) && corr_full (snd p).

(** the specification itself is insensitive to member order (evaluated on the same pairs) *)
Definition spec_order_insensitive (p : dcase * dcase) : bool :=
  let (a, b) := p in
  match spec_of a, spec_of b with
  | Some sa, Some sb =>
    opt_eqb out_sim (s_out sa) (s_out sb) && multiset_eq fault_sim_perm (s_faults sa) (s_faults sb)
  | _, _ => false
  end.
