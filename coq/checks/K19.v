(** Executable comparators for C19: correspondence (model vs implementation) and monitor
    (the property judged directly on the implementation's observation). *)
From Deserr Require Import Base Pointer.

Record ptr_obs := { po_owned : list step; po_origin : bool;
                    po_first : option string; po_last : option string }.

Definition c19_corr (c : list step * ptr_obs) : bool :=
  let (steps, o) := c in
  let p := build steps in
  list_eqb step_eqb (to_owned p) (po_owned o)
  && Bool.eqb (is_origin p) (po_origin o)
  && opt_eqb String.eqb (first_field p) (po_first o)
  && opt_eqb String.eqb (last_field p) (po_last o).

Definition c19_mon (c : list step * ptr_obs) : bool :=
  let (steps, o) := c in
  list_eqb step_eqb steps (po_owned o)
  && Bool.eqb (match steps with [] => true | _ => false end) (po_origin o)
  && opt_eqb String.eqb (first_key steps) (po_first o)
  && opt_eqb String.eqb (last_key steps) (po_last o).
