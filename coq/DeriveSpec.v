(** Specification side of C16: which derive inputs must be rejected, as the property lists them. *)
From Deserr Require Import Base Pointer Kinds Value Scalars Types Derive.

Definition count_if {A} (f : A -> bool) (l : list A) : nat := List.length (filter f l).

Section Rej.
  Context {T : Type}.

  (** container level *)
  Definition c_is_rename_all (a : cattr T) := match a with CARenameAll _ => true | _ => false end.
  Definition c_is_tag (a : cattr T) := match a with CATag _ => true | _ => false end.
  Definition c_is_error (a : cattr T) := match a with CAError _ => true | _ => false end.
  Definition c_is_deny (a : cattr T) := match a with CADeny _ => true | _ => false end.
  Definition c_is_from (a : cattr T) := match a with CAFrom _ _ => true | _ => false end.
  Definition c_is_try_from (a : cattr T) := match a with CATryFrom _ _ => true | _ => false end.
  Definition c_is_validate (a : cattr T) := match a with CAValidate _ => true | _ => false end.
  Definition c_is_bad (a : cattr T) :=
    match a with CAUnknown | CAMalformed | CARenameAll None => true | _ => false end.

  Definition cattrs_rejectable (gs : list (list (cattr T))) (is_struct : bool) : bool :=
    let flat := List.concat gs in
    existsb (fun g => match g with [] => true | _ => false end) gs     (* #[deserr()] *)
    || existsb c_is_bad flat                                            (* unknown / malformed / invalid value *)
    || Nat.ltb 1 (count_if c_is_rename_all flat) || Nat.ltb 1 (count_if c_is_tag flat)
    || Nat.ltb 1 (count_if c_is_error flat) || Nat.ltb 1 (count_if c_is_deny flat)
    || Nat.ltb 1 (count_if c_is_from flat) || Nat.ltb 1 (count_if c_is_try_from flat)
    || Nat.ltb 1 (count_if c_is_validate flat)                          (* a single-valued attribute twice *)
    || (existsb c_is_from flat && existsb c_is_try_from flat)           (* from together with try_from *)
    || (is_struct && existsb c_is_tag flat)                             (* tag on a struct *)
    || (existsb c_is_try_from flat
        && (existsb c_is_rename_all flat || existsb c_is_tag flat || existsb c_is_deny flat)).

  (** variant level *)
  Definition v_is_rename (a : vattr) := match a with VARename _ => true | _ => false end.
  Definition v_is_rename_all (a : vattr) := match a with VARenameAll _ => true | _ => false end.
  Definition v_is_bad (a : vattr) := match a with VAUnknown | VAMalformed | VARenameAll None => true | _ => false end.
  Definition vattrs_rejectable (gs : list (list vattr)) : bool :=
    let flat := List.concat gs in
    existsb (fun g => match g with [] => true | _ => false end) gs
    || existsb v_is_bad flat
    || Nat.ltb 1 (count_if v_is_rename flat) || Nat.ltb 1 (count_if v_is_rename_all flat).

  (** field level *)
  Definition f_is_rename (a : fattr T) := match a with FARename _ => true | _ => false end.
  Definition f_is_default (a : fattr T) := match a with FADefault _ => true | _ => false end.
  Definition f_is_missing (a : fattr T) := match a with FAMissing _ => true | _ => false end.
  Definition f_is_error (a : fattr T) := match a with FAError _ => true | _ => false end.
  Definition f_is_map (a : fattr T) := match a with FAMap _ => true | _ => false end.
  Definition f_is_from (a : fattr T) := match a with FAFrom _ _ => true | _ => false end.
  Definition f_is_try_from (a : fattr T) := match a with FATryFrom _ _ => true | _ => false end.
  Definition f_is_bad (a : fattr T) := match a with FAUnknown | FAMalformed => true | _ => false end.
  Definition fattrs_rejectable (gs : list (list (fattr T))) : bool :=
    let flat := List.concat gs in
    existsb (fun g => match g with [] => true | _ => false end) gs
    || existsb f_is_bad flat
    || Nat.ltb 1 (count_if f_is_rename flat) || Nat.ltb 1 (count_if f_is_default flat)
    || Nat.ltb 1 (count_if f_is_missing flat) || Nat.ltb 1 (count_if f_is_error flat)
    || Nat.ltb 1 (count_if f_is_map flat) || Nat.ltb 1 (count_if f_is_from flat)
    || Nat.ltb 1 (count_if f_is_try_from flat)
    || (existsb f_is_from flat && existsb f_is_try_from flat).

  Definition fields_rejectable (fs : list (field T)) : bool :=
    existsb (fun f => fattrs_rejectable (fd_attrs f)) fs.

  Definition variant_rejectable (v : variant T) : bool :=
    vattrs_rejectable (vr_attrs v)
    || match vr_shape v with
       | VSUnit => false
       | VSUnnamed => true                               (* unnamed associated data *)
       | VSNamed fs => fields_rejectable fs
       end.

  Definition has_data (v : variant T) : bool := match vr_shape v with VSUnit => false | _ => true end.

  (** the body of the item is looked at only when no container-level from / try_from replaces it *)
  Definition body_rejectable (it : item T) : bool :=
    match it_shape it with
    | SNamed fs => fields_rejectable fs
    | STupleStruct | SUnitStruct | SUnion => true         (* unsupported shapes *)
    | SEnum vs =>
      existsb variant_rejectable vs
      || (existsb has_data vs && negb (existsb c_is_tag (List.concat (it_attrs it))))   (* data-carrying enum without tag *)
    end.

  Definition uses_container_conversion (it : item T) : bool :=
    existsb (fun a => c_is_from a || c_is_try_from a) (List.concat (it_attrs it)).

  Definition rejectable (it : item T) : bool :=
    cattrs_rejectable (it_attrs it) (is_struct_shape (it_shape it))
    || (negb (uses_container_conversion it) && body_rejectable it).
End Rej.
