(** Scalar impls of src/impls.rs:62-469: (), bool, the four integer macros and their 24
    instantiations, f32/f64, char, String. Also [FromStr] of the key / CS element types. *)
From Coq Require Import DecimalString.
From Deserr Require Import Base Pointer Kinds Value Prog Utf8 Fround.
Local Open Scope string_scope.

Inductive intw := W8 | W16 | W32 | W64 | W128 | WSize.
Definition bits_of_w (w : intw) : Z :=
  match w with W8 => 8 | W16 => 16 | W32 => 32 | W64 => 64 | W128 => 128 | WSize => 64 end.
Record int_desc := { i_signed : bool; i_width : intw; i_nonzero : bool }.

Definition imax (d : int_desc) : Z :=
  if i_signed d then 2 ^ (bits_of_w (i_width d) - 1) - 1 else 2 ^ bits_of_w (i_width d) - 1.
Definition imin (d : int_desc) : Z :=
  if i_signed d then - 2 ^ (bits_of_w (i_width d) - 1) else 0.

Definition dec_N (n : N) : string := NilZero.string_of_uint (N.to_uint n).
Definition dec_Z (z : Z) : string :=
  match z with
  | Z0 => "0"
  | Zpos p => dec_N (Npos p)
  | Zneg p => "-" ++ dec_N (Npos p)
  end.

Definition msg_too_large (x : Z) (d : int_desc) : string :=
  "value: `" ++ dec_Z x ++ "` is too large to be deserialized, maximum value authorized is `"
  ++ dec_Z (imax d) ++ "`".
Definition msg_too_small (x : Z) (d : int_desc) : string :=
  "value: `" ++ dec_Z x ++ "` is too small to be deserialized, minimum value authorized is `"
  ++ dec_Z (imin d) ++ "`".
Definition msg_zero (d : int_desc) : string :=
  if i_signed d then
    "a non-zero integer value higher than `" ++ dec_Z (imin d) ++ "` was expected, but found a zero"
  else
    "a non-zero integer value lower than `" ++ dec_Z (imax d) ++ "` was expected, but found a zero".

Definition int_accepted (d : int_desc) : list vkind :=
  if i_signed d then [KInteger; KNegativeInteger] else [KInteger].

(** the four integer macros of impls.rs, merged: which one applies is decided by [d] *)
Definition deser_int (a : N) (d : int_desc) (v : value) (l : vpr) : prog res :=
  match v with
  | VInt x =>
    if i_nonzero d && N.eqb x 0 then fail_with a (Unexpected (msg_zero d)) l
    else if (Z.of_N x <=? imax d)%Z then Ret (ROk (OInt (Z.of_N x)))
    else fail_with a (Unexpected (msg_too_large (Z.of_N x) d)) l
  | VNeg x =>
    if i_signed d then
      if i_nonzero d && Z.eqb x 0 then fail_with a (Unexpected (msg_zero d)) l
      else if (imin d <=? x)%Z && (x <=? imax d)%Z then Ret (ROk (OInt x))
      else fail_with a (Unexpected (msg_too_small x d)) l
    else fail_with a (IncorrectValueKind v (int_accepted d)) l
  | _ => fail_with a (IncorrectValueKind v (int_accepted d)) l
  end.

Definition float_accepted : list vkind := [KFloat; KInteger; KNegativeInteger].

Definition deser_f64 (a : N) (v : value) (l : vpr) : prog res :=
  match v with
  | VInt x => Ret (ROk (OF64 (f64_of_Z (Z.of_N x))))
  | VNeg x => Ret (ROk (OF64 (f64_of_Z x)))
  | VFloat b => Ret (ROk (OF64 (f64_canon b)))
  | _ => fail_with a (IncorrectValueKind v float_accepted) l
  end.

Definition deser_f32 (a : N) (v : value) (l : vpr) : prog res :=
  match v with
  | VInt x => Ret (ROk (OF32 (f32_of_Z (Z.of_N x))))
  | VNeg x => Ret (ROk (OF32 (f32_of_Z x)))
  | VFloat b => Ret (ROk (OF32 (f32_of_f64 b)))
  | _ => fail_with a (IncorrectValueKind v float_accepted) l
  end.

Definition deser_unit (a : N) (v : value) (l : vpr) : prog res :=
  match v with
  | VNull => Ret (ROk OUnit)
  | _ => fail_with a (IncorrectValueKind v [KNull]) l
  end.

Definition deser_bool (a : N) (v : value) (l : vpr) : prog res :=
  match v with
  | VBool b => Ret (ROk (OBool b))
  | _ => fail_with a (IncorrectValueKind v [KBoolean]) l
  end.

Definition deser_string (a : N) (v : value) (l : vpr) : prog res :=
  match v with
  | VStr s => Ret (ROk (OStr s))
  | _ => fail_with a (IncorrectValueKind v [KString]) l
  end.

Definition msg_char_many (n : nat) (s : string) : string :=
  "expected a string of one character, but found the following string of "
  ++ dec_N (N.of_nat n) ++ " characters: `" ++ s ++ "`".
Definition msg_char_empty : string := "expected a string of one character, but found an empty string".

Definition deser_char (a : N) (v : value) (l : vpr) : prog res :=
  match v with
  | VStr s =>
    match chars s with
    | [] => fail_with a (Unexpected msg_char_empty) l
    | [c] => Ret (ROk (OChar c))
    | cs => fail_with a (Unexpected (msg_char_many (List.length cs) s)) l
    end
  | _ => fail_with a (IncorrectValueKind v [KString]) l
  end.

(** ** [FromStr] of map keys and comma-separated elements *)
Inductive keyparser := KPString | KPInt (d : int_desc) | KPBool.
Inductive parse_err := PEmpty | PInvalidDigit | PPosOverflow | PNegOverflow | PZero | PBool.

Definition digit_of (b : N) : option Z :=
  if (48 <=? b)%N && (b <=? 57)%N then Some (Z.of_N (b - 48)) else None.

(** core::num::from_str_radix(10): left to right; at each character an invalid digit is
    reported before an overflow *)
Fixpoint parse_digits (positive : bool) (d : int_desc) (l : list N) (acc : Z) : Z + parse_err :=
  match l with
  | [] => inl acc
  | b :: r =>
    match digit_of b with
    | None => inr PInvalidDigit
    | Some x =>
      let acc' := (if positive then acc * 10 + x else acc * 10 - x)%Z in
      if positive then (if (acc' <=? imax d)%Z then parse_digits positive d r acc' else inr PPosOverflow)
      else (if (imin d <=? acc')%Z then parse_digits positive d r acc' else inr PNegOverflow)
    end
  end.

Definition parse_int (d : int_desc) (s : string) : Z + parse_err :=
  let r :=
      match bytes_of s with
      | [] => inr PEmpty
      | [43%N] => inr PInvalidDigit
      | [45%N] => inr PInvalidDigit
      | 43%N :: rest => parse_digits true d rest 0
      | 45%N :: rest => if i_signed d then parse_digits false d rest 0 else inr PInvalidDigit
      | l => parse_digits true d l 0
      end in
  match r with
  | inl z => if i_nonzero d && Z.eqb z 0 then inr PZero else inl z
  | e => e
  end.

Definition parse_err_msg (e : parse_err) : string :=
  match e with
  | PEmpty => "cannot parse integer from empty string"
  | PInvalidDigit => "invalid digit found in string"
  | PPosOverflow => "number too large to fit in target type"
  | PNegOverflow => "number too small to fit in target type"
  | PZero => "number would be zero for non-zero type"
  | PBool => "provided string was not `true` or `false`"
  end.

Definition parse_key (kp : keyparser) (s : string) : out + parse_err :=
  match kp with
  | KPString => inl (OStr s)
  | KPInt d => match parse_int d s with inl z => inl (OInt z) | inr e => inr e end
  | KPBool => if String.eqb s "true" then inl (OBool true)
              else if String.eqb s "false" then inl (OBool false) else inr PBool
  end.

(** [str::split(',')] *)
Fixpoint split_comma (s : string) (cur : string) : list string :=
  match s with
  | EmptyString => [cur]
  | String c r =>
    if Ascii.eqb c ","%char then cur :: split_comma r EmptyString
    else split_comma r (cur ++ String c EmptyString)
  end.

(** serde-cs [CS::from_str]: split, drop empties, parse in order, first failure is the error *)
Fixpoint parse_all (kp : keyparser) (l : list string) : list out + parse_err :=
  match l with
  | [] => inl []
  | x :: r =>
    match parse_key kp x with
    | inr e => inr e
    | inl o => match parse_all kp r with inl os => inl (o :: os) | inr e => inr e end
    end
  end.
Definition parse_cs (kp : keyparser) (s : string) : list out + parse_err :=
  parse_all kp (filter (fun x => negb (String.eqb x "")) (split_comma s "")).

Definition deser_cs (a : N) (kp : keyparser) (v : value) (l : vpr) : prog res :=
  match v with
  | VStr s =>
    match parse_cs kp s with
    | inl os => Ret (ROk (OList os))
    | inr e => fail_with a (Unexpected (parse_err_msg e)) l
    end
  | _ => fail_with a (IncorrectValueKind v [KString]) l
  end.
