(** Model of the two built-in error types: the message of [JsonError] (src/errors/json.rs:33-47,
    130-237) and of [QueryParamError] (src/errors/query_params.rs:28-170), and of
    [serde_json::to_string] on the values they quote. The text of a float is not modelled: it is
    an oracle [ftext] supplied with each case (produced by serde_json / Rust's Display). *)
From Deserr Require Import Base Pointer Kinds Value Prog Utf8 Scalars DidYouMean Deser Json Monitors.
Local Open Scope string_scope.

Definition creates_report (c : call) : bool :=
  match c with CError _ _ _ _ | CMergeU _ _ _ _ => true | _ => false end.

(** ** JSON text *)
Definition hex_digit (n : N) : ascii :=
  ascii_of_N (if (n <? 10)%N then 48 + n else 87 + n).

Definition escape_byte (b : ascii) : string :=
  let n := N_of_ascii b in
  if N.eqb n 34 then "\"""
  else if N.eqb n 92 then "\\"
  else if (32 <=? n)%N then String b EmptyString
  else if N.eqb n 8 then "\b"
  else if N.eqb n 9 then "\t"
  else if N.eqb n 10 then "\n"
  else if N.eqb n 12 then "\f"
  else if N.eqb n 13 then "\r"
  else "\u00" ++ String (hex_digit (n / 16)) (String (hex_digit (n mod 16)) EmptyString).

Fixpoint escape_str (s : string) : string :=
  match s with EmptyString => EmptyString | String c r => escape_byte c ++ escape_str r end.
Definition json_string (s : string) : string := """" ++ escape_str s ++ """".

Fixpoint join_with (sep : string) (l : list string) : string :=
  match l with [] => "" | [x] => x | x :: r => x ++ sep ++ join_with sep r end.

Section Text.
  (** text of a finite float, keyed by its bit pattern *)
  Variable ftext : N -> string.

  Definition jnum_text (n : jnum) : string :=
    match n with PosInt x => dec_N x | NegInt z => dec_Z z | JFloat b => ftext b end.

  Fixpoint json_text (j : jvalue) : string :=
    match j with
    | JNull => "null"
    | JBool b => if b then "true" else "false"
    | JNumber n => jnum_text n
    | JString s => json_string s
    | JArray l => "[" ++ join_with "," (map json_text l) ++ "]"
    | JObject l => "{" ++ join_with "," (map (fun kv => json_string (fst kv) ++ ":" ++ json_text (snd kv)) l) ++ "}"
    end.

  (** [value_description_with_kind_json(&JValue::from(actual))] *)
  Definition value_description_json (v : value) : string :=
    let j := from_value v in
    match kind_json j with
    | KNull => "null"
    | k => describe [k] ++ ": `" ++ json_text j ++ "`"
    end.

  Fixpoint path_json (l : vpr) : string :=
    match l with
    | Origin => ""
    | Key k prev => path_json prev ++ "." ++ k
    | Index i prev => path_json prev ++ "[" ++ dec_N i ++ "]"
    end.
  Definition location_json (l : vpr) (article : string) : string :=
    match l with Origin => "" | _ => article ++ " `" ++ path_json l ++ "`" end.

  Definition expected_one_of (accepted : list string) : string :=
    "expected one of " ++ join_with ", " (map (fun a => "`" ++ a ++ "`") accepted).

  Definition json_msg (k : ekind) (l : vpr) : string :=
    match k with
    | IncorrectValueKind actual accepted =>
      "Invalid value type" ++ location_json l " at" ++ ": expected " ++ describe accepted
      ++ ", but found " ++ value_description_json actual
    | MissingField f => "Missing field `" ++ f ++ "`" ++ location_json l " inside"
    | UnknownKey key accepted =>
      "Unknown field `" ++ key ++ "`" ++ location_json l " inside" ++ ": "
      ++ did_you_mean key accepted ++ expected_one_of accepted
    | UnknownValue v accepted =>
      "Unknown value `" ++ v ++ "`" ++ location_json l " at" ++ ": "
      ++ did_you_mean v accepted ++ expected_one_of accepted
    | BadSequenceLen actual expected =>
      "Invalid array len" ++ location_json l " at" ++ ". Received " ++ dec_N (N.of_nat (List.length actual))
      ++ " elements instead of " ++ dec_N expected ++ ": `" ++ json_text (from_value (VSeq actual)) ++ "`"
    | Unexpected msg => "Invalid value" ++ location_json l " at" ++ ": " ++ msg
    end.

  (** ** query parameters *)
  Fixpoint path_qp (l : vpr) : string :=
    match l with
    | Origin => ""
    | Key k prev => match prev with Origin => k | _ => path_qp prev ++ "." ++ k end
    | Index i prev => path_qp prev ++ "[" ++ dec_N i ++ "]"
    end.
  Definition location_qp (l : vpr) (article : string) : string :=
    match l with Origin => "" | _ => article ++ " `" ++ path_qp l ++ "`" end.

  (** Rust's [Display] for the scalar payloads; [dtext]: Display text of a float (oracle) *)
  Variable dtext : N -> string.
  Definition value_description_qp (v : value) : string :=
    match v with
    | VNull => "null"
    | VBool b => "a boolean: `" ++ (if b then "true" else "false") ++ "`"
    | VInt x => "an integer: `" ++ dec_N x ++ "`"
    | VNeg z => "an integer: `" ++ dec_Z z ++ "`"
    | VFloat b => "a number: `" ++ dtext b ++ "`"
    | VStr s => "a string: `" ++ s ++ "`"
    | VSeq _ => "multiple values"
    | VMap _ => "multiple parameters"
    end.

  Definition qp_msg (k : ekind) (l : vpr) : string :=
    match k with
    | IncorrectValueKind actual _ =>
      "Invalid value type" ++ location_qp l " for parameter" ++ ": expected a string, but found "
      ++ value_description_qp actual
    | MissingField f => "Missing parameter `" ++ f ++ "`" ++ location_qp l " inside"
    | UnknownKey key accepted =>
      "Unknown parameter `" ++ key ++ "`" ++ location_qp l " inside" ++ ": "
      ++ did_you_mean key accepted ++ expected_one_of accepted
    | UnknownValue v accepted =>
      "Unknown value `" ++ v ++ "`" ++ location_qp l " for parameter" ++ ": "
      ++ did_you_mean v accepted ++ expected_one_of accepted
    | BadSequenceLen actual expected =>
      "Invalid array len" ++ location_qp l " for parameter" ++ ". Received " ++ dec_N (N.of_nat (List.length actual))
      ++ " elements instead of " ++ dec_N expected ++ ": `" ++ json_text (from_value (VSeq actual)) ++ "`"
    | Unexpected msg => "Invalid value" ++ location_qp l " in parameter" ++ ": " ++ msg
    end.

  (** [MergeWithError<E: std::error::Error>]: a user error becomes an Unexpected report holding
      its Display text (the harness's UErr prints "user error F") *)
  Definition uerr_text (u : uerr) : string := "user error " ++ dec_N (fst u).

  (** the message of the first report of a trace (the always-Break error types return it) *)
  Definition first_report_msg (qp : bool) (tr : list call) : option string :=
    match find creates tr with
    | Some (CError _ _ k l) => Some (if qp then qp_msg k l else json_msg k l)
    | Some (CMergeU _ _ u l) =>
      Some (if qp then qp_msg (Unexpected (uerr_text u)) l else json_msg (Unexpected (uerr_text u)) l)
    | _ => None
    end.
End Text.
