(** UTF-8 views of Coq byte strings: Rust [str::chars] (scalar values) and [str::len] (bytes). *)
From Deserr Require Import Base.

Fixpoint bytes_of (s : string) : list N :=
  match s with
  | EmptyString => []
  | String a r => N_of_ascii a :: bytes_of r
  end.

Definition is_cont (b : N) : bool := (128 <=? b)%N && (b <? 192)%N.

(** decoding of well-formed UTF-8 (Rust strings always are): a leading byte and its
    continuation bytes are folded into one scalar value *)
Fixpoint decode_go (l : list N) (cur : option N) : list N :=
  match l with
  | [] => match cur with Some c => [c] | None => [] end
  | b :: r =>
    if is_cont b then
      decode_go r (match cur with Some c => Some (c * 64 + (b - 128)) | None => Some (b - 128) end)%N
    else
      let start := (if b <? 128 then b else if b <? 224 then b - 192 else if b <? 240 then b - 224 else b - 240)%N in
      match cur with
      | Some c => c :: decode_go r (Some start)
      | None => decode_go r (Some start)
      end
  end.

Definition chars (s : string) : list N := decode_go (bytes_of s) None.
Definition byte_len (s : string) : nat := String.length s.
