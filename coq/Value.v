(** Model of [Value<V>] (src/value.rs:153-184), of the universal output type, of [ErrorKind]
    (src/lib.rs:167-190) and of the calls made to the error type. *)
From Deserr Require Import Base Pointer Kinds.

Inductive value :=
| VNull
| VBool (b : bool)
| VInt (n : N)              (* Value::Integer(u64) *)
| VNeg (z : Z)              (* Value::NegativeInteger(i64) *)
| VFloat (bits : N)         (* Value::Float(f64), IEEE-754 bit pattern *)
| VStr (s : string)
| VSeq (l : list value)
| VMap (l : list (string * value)).

Definition kind_of (v : value) : vkind :=
  match v with
  | VNull => KNull | VBool _ => KBoolean | VInt _ => KInteger | VNeg _ => KNegativeInteger
  | VFloat _ => KFloat | VStr _ => KString | VSeq _ => KSequence | VMap _ => KMap
  end.

Fixpoint value_eqb (a b : value) : bool :=
  match a, b with
  | VNull, VNull => true
  | VBool x, VBool y => Bool.eqb x y
  | VInt x, VInt y => N.eqb x y
  | VNeg x, VNeg y => Z.eqb x y
  | VFloat x, VFloat y => N.eqb x y
  | VStr x, VStr y => String.eqb x y
  | VSeq x, VSeq y =>
    (fix go (x y : list value) : bool :=
       match x, y with
       | [], [] => true
       | u :: x', w :: y' => value_eqb u w && go x' y'
       | _, _ => false
       end) x y
  | VMap x, VMap y =>
    (fix go (x y : list (string * value)) : bool :=
       match x, y with
       | [], [] => true
       | (k, u) :: x', (k', w) :: y' => String.eqb k k' && value_eqb u w && go x' y'
       | _, _ => false
       end) x y
  | _, _ => false
  end.

(** the well-formedness guaranteed by the integer types of [Value] *)
Fixpoint wf_value (v : value) : bool :=
  match v with
  | VInt n => (n <? 2 ^ 64)%N
  | VNeg z => (- 2 ^ 63 <=? z)%Z && (z <? 2 ^ 63)%Z
  | VFloat b => (b <? 2 ^ 64)%N
  | VSeq l => forallb wf_value l
  | VMap l => forallb (fun kv => wf_value (snd kv)) l
  | _ => true
  end.

(** universal rendering of deserialized Rust values *)
Inductive out :=
| OUnit
| OBool (b : bool)
| OInt (z : Z)
| OF64 (bits : N)
| OF32 (bits : N)
| OChar (c : N)
| OStr (s : string)
| OList (l : list out)
| OTuple (l : list out)
| ONone
| OSome (o : out)
| OSet (l : list out)
| OMap (l : list (out * out))
| OPhantom
| OJson (v : value)
| OStruct (l : list (string * out))
| OVariant (name : string) (l : list (string * out))
| OFn (f : N) (o : out).

Fixpoint out_eqb (a b : out) : bool :=
  let fix list_go (x y : list out) : bool :=
      match x, y with
      | [], [] => true
      | u :: x', w :: y' => out_eqb u w && list_go x' y'
      | _, _ => false
      end in
  let fix named_go (x y : list (string * out)) : bool :=
      match x, y with
      | [], [] => true
      | (k, u) :: x', (k', w) :: y' => String.eqb k k' && out_eqb u w && named_go x' y'
      | _, _ => false
      end in
  match a, b with
  | OUnit, OUnit => true
  | OBool x, OBool y => Bool.eqb x y
  | OInt x, OInt y => Z.eqb x y
  | OF64 x, OF64 y => N.eqb x y
  | OF32 x, OF32 y => N.eqb x y
  | OChar x, OChar y => N.eqb x y
  | OStr x, OStr y => String.eqb x y
  | OList x, OList y => list_go x y
  | OTuple x, OTuple y => list_go x y
  | ONone, ONone => true
  | OSome x, OSome y => out_eqb x y
  | OSet x, OSet y => list_go x y
  | OMap x, OMap y =>
    (fix go (x y : list (out * out)) : bool :=
       match x, y with
       | [], [] => true
       | (k, u) :: x', (k', w) :: y' => out_eqb k k' && out_eqb u w && go x' y'
       | _, _ => false
       end) x y
  | OPhantom, OPhantom => true
  | OJson x, OJson y => value_eqb x y
  | OStruct x, OStruct y => named_go x y
  | OVariant n x, OVariant m y => String.eqb n m && named_go x y
  | OFn f x, OFn g y => N.eqb f g && out_eqb x y
  | _, _ => false
  end.

(** [ErrorKind] *)
Inductive ekind :=
| IncorrectValueKind (actual : value) (accepted : list vkind)
| MissingField (field : string)
| UnknownKey (key : string) (accepted : list string)
| UnknownValue (val : string) (accepted : list string)
| BadSequenceLen (actual : list value) (expected : N)
| Unexpected (msg : string).

(** arguments seen by the user functions of the harness library *)
Inductive uarg := AOut (o : out) | AStr (s : string) | AStrs (l : list string) | ALoc (l : list step).
Definition uerr : Type := N * list uarg.

(** One call made during [deserialize]. An error value is identified with the index of the
    call that returned it, so [self_]/[other] are indices of earlier calls. *)
Inductive call :=
| CError (alg : N) (self_ : option N) (k : ekind) (l : vpr)                 (* E::error *)
| CMerge (alg : N) (self_ : option N) (oalg : N) (other : N) (l : vpr)      (* MergeWithError<E'>::merge *)
| CMergeU (alg : N) (self_ : option N) (u : uerr) (l : vpr)                 (* MergeWithError<UserErr>::merge *)
| CUser (fn : N) (args : list uarg).                                        (* a user function ran *)

Inductive res := ROk (o : out) | RErr (e : N) | RPanic (site : string).
