(** Model of the HTTP extractors (src/actix_web/serde_json.rs, src/actix_web/query_parameters.rs,
    src/axum/serde_json.rs): what the framework's own extractor yields is an INPUT (the oracle);
    the deserr extractor adds exactly [deserr::deserialize::<T, _, JsonError>] on top. *)
From Deserr Require Import Base Pointer Kinds Value Prog Scalars Types Deser Messages.

Inductive fw_outcome := FwRej (status : N) (body : string) | FwDoc (v : value).
Inductive ex_outcome := Extracted (o : out) | Rejected (status : N) (body : string).

Section Http.
  Variable ftext : N -> string.
  Variable dtext : N -> string.

  (** JsonError always answers Break and passes errors through unchanged: its result is the
      rendering of the first report; as a response it is 400 with the message as body *)
  Definition deserialize_json_error (t : ty) (v : value) : option (out + string) :=
    let (r, tr) := run (fun _ => false) (deserialize t v) [] in
    match r with
    | ROk o => Some (inl o)
    | RErr _ => option_map inr (first_report_msg ftext dtext false tr)
    | RPanic _ => None
    end.

  Definition extract (t : ty) (fw : fw_outcome) : option ex_outcome :=
    match fw with
    | FwRej s b => Some (Rejected s b)
    | FwDoc v =>
      match deserialize_json_error t v with
      | Some (inl o) => Some (Extracted o)
      | Some (inr m) => Some (Rejected 400 m)
      | None => None
      end
    end.

  (** the same extractor instantiated with a user error type that renders the (same, first) report
      as the response [resp m]: the rejection is exactly the error's own response *)
  Definition extract_with (resp : string -> N * string) (t : ty) (fw : fw_outcome) : option ex_outcome :=
    match fw with
    | FwRej s b => Some (Rejected s b)
    | FwDoc v =>
      match deserialize_json_error t v with
      | Some (inl o) => Some (Extracted o)
      | Some (inr m) => Some (Rejected (fst (resp m)) (snd (resp m)))
      | None => None
      end
    end.
End Http.
