(** IEEE-754 conversions performed by the float impls ([x as f64], [x as f32]), via Flocq.
    Bit patterns are [N]; every NaN is mapped to one canonical quiet NaN (compared as a class). *)
From Coq Require Import ZArith NArith.
From Flocq Require Import Core BinarySingleNaN Binary Bits.

Definition nan64_bits : N := 9221120237041090560%N.   (* 0x7ff8000000000000 *)
Definition nan32_bits : N := 2143289344%N.            (* 0x7fc00000 *)

Definition b64_of_Z (z : Z) : binary64 :=
  binary_normalize 53 1024 (eq_refl _) (eq_refl _) BinarySingleNaN.mode_NE z 0 false.
Definition b32_of_Z (z : Z) : binary32 :=
  binary_normalize 24 128 (eq_refl _) (eq_refl _) BinarySingleNaN.mode_NE z 0 false.

Definition bits_of_64 (x : binary64) : N :=
  if Binary.is_nan _ _ x then nan64_bits else Z.to_N (bits_of_b64 x).
Definition bits_of_32 (x : binary32) : N :=
  if Binary.is_nan _ _ x then nan32_bits else Z.to_N (bits_of_b32 x).

Definition b32_of_b64 (x : binary64) : binary32 :=
  match x with
  | B754_zero _ _ s => B754_zero _ _ s
  | B754_infinity _ _ s => B754_infinity _ _ s
  | B754_nan _ _ _ _ _ => b32_of_bits (Z.of_N nan32_bits)
  | B754_finite _ _ s m e _ =>
    binary_normalize 24 128 (eq_refl _) (eq_refl _) BinarySingleNaN.mode_NE (cond_Zopp s (Zpos m)) e s
  end.

(** [u64 as f64], [i64 as f64], [u64 as f32], [i64 as f32], [f64 as f32], on bit patterns *)
Definition f64_bits_of_Z (z : Z) : N := bits_of_64 (b64_of_Z z).
Definition f32_bits_of_Z (z : Z) : N := bits_of_32 (b32_of_Z z).
Definition f32_bits_of_f64_bits (b : N) : N := bits_of_32 (b32_of_b64 (b64_of_bits (Z.of_N b))).
Definition f64_canon (b : N) : N := bits_of_64 (b64_of_bits (Z.of_N b)).
