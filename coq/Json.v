(** Model of the serde_json bridge (src/serde_json.rs:9-69, 149-171): how a serde_json::Value
    is viewed as a deserr [Value], its kind without consuming it, and the way back. *)
From Deserr Require Import Base Pointer Kinds Value Prog Deser.

(** serde_json::Number without the arbitrary_precision feature *)
Inductive jnum := PosInt (n : N) | NegInt (z : Z) | JFloat (bits : N).

Inductive jvalue :=
| JNull | JBool (b : bool) | JNumber (n : jnum) | JString (s : string)
| JArray (l : list jvalue)
| JObject (l : list (string * jvalue)).      (* a BTreeMap: members sorted by key *)

(** [IntoValue::into_value]: as_u64, then as_i64, then as_f64 *)
Definition num_into_value (n : jnum) : value :=
  match n with
  | PosInt x => VInt x
  | NegInt z => VNeg z
  | JFloat b => VFloat b
  end.

Fixpoint into_value (j : jvalue) : value :=
  match j with
  | JNull => VNull
  | JBool b => VBool b
  | JNumber n => num_into_value n
  | JString s => VStr s
  | JArray l => VSeq (map into_value l)
  | JObject l => VMap (map (fun kv => (fst kv, into_value (snd kv))) l)
  end.

(** [IntoValue::kind]: is_u64, then is_i64, then is_f64 *)
Definition kind_json (j : jvalue) : vkind :=
  match j with
  | JNull => KNull
  | JBool _ => KBoolean
  | JNumber (PosInt _) => KInteger
  | JNumber (NegInt _) => KNegativeInteger
  | JNumber (JFloat _) => KFloat
  | JString _ => KString
  | JArray _ => KSequence
  | JObject _ => KMap
  end.

(** the way back from a view to a document: [Number::from(u64)], [Number::from(i64)] (a
    non-negative i64 becomes a PosInt), [Number::from_f64] *)
Definition jnum_of_neg (z : Z) : jnum := if (z <? 0)%Z then NegInt z else PosInt (Z.to_N z).

Fixpoint jobj_insert (k : string) (v : jvalue) (l : list (string * jvalue)) : list (string * jvalue) :=
  match l with
  | [] => [(k, v)]
  | (k', v') :: r =>
    match String.compare k k' with
    | Eq => (k, v) :: r
    | Lt => (k, v) :: (k', v') :: r
    | Gt => (k', v') :: jobj_insert k v r
    end
  end.

(** [impl From<Value<V>> for JValue]: a float that JSON cannot hold becomes null *)
Fixpoint from_value (v : value) : jvalue :=
  match v with
  | VNull => JNull
  | VBool b => JBool b
  | VInt n => JNumber (PosInt n)
  | VNeg z => JNumber (jnum_of_neg z)
  | VFloat f => if float_is_finite f then JNumber (JFloat f) else JNull
  | VStr s => JString s
  | VSeq l => JArray (map from_value l)
  | VMap ms =>
    JObject ((fix go (ms : list (string * value)) (acc : list (string * jvalue)) :=
                match ms with
                | [] => acc
                | (k, x) :: r => go r (jobj_insert k (from_value x) acc)
                end) ms [])
  end.

(** what serde_json can hold: u64 / negative i64 / finite f64, keys strictly sorted *)
Fixpoint sorted_keys {A} (l : list (string * A)) : bool :=
  match l with
  | [] => true
  | (k, _) :: r =>
    match r with
    | [] => true
    | (k', _) :: _ => match String.compare k k' with Lt => sorted_keys r | _ => false end
    end
  end.

Fixpoint wf_json (j : jvalue) : bool :=
  match j with
  | JNumber (PosInt n) => (n <? 2 ^ 64)%N
  | JNumber (NegInt z) => (- 2 ^ 63 <=? z)%Z && (z <? 0)%Z
  | JNumber (JFloat b) => (b <? 2 ^ 64)%N && float_is_finite b
  | JArray l => forallb wf_json l
  | JObject l => sorted_keys l && forallb (fun kv => wf_json (snd kv)) l
  | _ => true
  end.

(** the document held by the output of [Deserr for JValue] (the interpreter renders it as its view) *)
Definition json_of_out (o : out) : jvalue := match o with OJson v => from_value v | _ => JNull end.

(** ** number literals as serde_json's parser classifies them (specified, tied by correspondence) *)
Inductive jlit :=
| LInt (neg : bool) (digits : N) (fbits : N)   (* integer literal; fbits: its f64 value (oracle) *)
| LFloat (bits : N).                           (* literal with a fraction or an exponent (oracle bits) *)

Definition classify_literal (l : jlit) : jnum :=
  match l with
  | LInt false d fb => if (d <? 2 ^ 64)%N then PosInt d else JFloat fb
  | LInt true d fb => if (0 <? d)%N && (d <=? 2 ^ 63)%N then NegInt (- Z.of_N d) else JFloat fb
  | LFloat b => JFloat b
  end.
