(** The properties as decidable predicates on one observation (payload, result, trace).
    The same predicates are proved of the model (Properties/) and evaluated on the
    implementation's observations (checks/KMon.v). They do not mention the interpreter. *)
From Deserr Require Import Base Pointer Kinds Value Prog Scalars Types.

Definition isSome {A} (o : option A) : bool := match o with Some _ => true | None => false end.

(** ** C01: linearity of the error values *)

(** does call number [i] create an error value *)
Definition creates (c : call) : bool := match c with CUser _ _ => false | _ => true end.

Fixpoint created_ids (tr : list call) (i : N) : list N :=
  match tr with
  | [] => []
  | c :: r => if creates c then i :: created_ids r (N.succ i) else created_ids r (N.succ i)
  end.

Definition call_uses (c : call) : list N :=
  match c with
  | CError _ s _ _ => match s with Some x => [x] | None => [] end
  | CMerge _ s _ o _ => (match s with Some x => [x] | None => [] end) ++ [o]
  | CMergeU _ s _ _ => match s with Some x => [x] | None => [] end
  | CUser _ _ => []
  end.

Definition count_N (x : N) (l : list N) : nat := List.length (filter (N.eqb x) l).

(** every use refers to an earlier call that created an error *)
Fixpoint uses_earlier (tr : list call) (i : N) (created : list N) : bool :=
  match tr with
  | [] => true
  | c :: r =>
    forallb (fun u => (u <? i)%N && existsb (N.eqb u) created) (call_uses c)
    && uses_earlier r (N.succ i) created
  end.

(** the multiset [final :: uses] equals the set of created ids: each error value is consumed
    exactly once, by a later call or by being returned *)
Definition linear (tr : list call) (final : list N) : bool :=
  let created := created_ids tr 0 in
  let consumed := (final ++ flat_map call_uses tr)%list in
  Nat.eqb (List.length consumed) (List.length created)
  && forallb (fun x => Nat.eqb (count_N x consumed) 1) created
  && uses_earlier tr 0 created.

Definition c01_ok (r : res) (tr : list call) : bool :=
  match r with
  | ROk _ => forallb (fun c => negb (creates c)) tr
  | RErr e => linear tr [e]
  | RPanic _ => true
  end.

(** ** C04: every report is true of the payload at its location *)

Fixpoint lookup_key (k : string) (ms : list (string * value)) : option value :=
  match ms with
  | [] => None
  | (k', v) :: r => if String.eqb k' k then Some v else lookup_key k r
  end.

Fixpoint resolve (v : value) (path : list step) : option value :=
  match path with
  | [] => Some v
  | SKey k :: r =>
    match v with VMap ms => match lookup_key k ms with Some x => resolve x r | None => None end
    | _ => None end
  | SIndex i :: r =>
    match v with VSeq l => match nth_opt l (N.to_nat i) with Some x => resolve x r | None => None end
    | _ => None end
  end.

Fixpoint nodup_keys (v : value) : bool :=
  match v with
  | VSeq l => forallb nodup_keys l
  | VMap ms =>
    (fix go (ms : list (string * value)) (seen : list string) : bool :=
       match ms with
       | [] => true
       | (k, x) :: r => negb (mem_str k seen) && nodup_keys x && go r (k :: seen)
       end) ms []
  | _ => true
  end.

Definition kind_true (root : value) (k : ekind) (l : vpr) : bool :=
  match resolve root (to_owned l) with
  | None => false
  | Some sub =>
    match k with
    | IncorrectValueKind a acc => value_eqb a sub && negb (existsb (vkind_eqb (kind_of sub)) acc)
    | BadSequenceLen a n =>
      match sub with VSeq vs => list_eqb value_eqb a vs && negb (N.eqb (N.of_nat (List.length vs)) n) | _ => false end
    | MissingField f =>
      match sub with VMap ms => match lookup_key f ms with None => true | Some _ => false end | _ => false end
    | UnknownKey key acc =>
      match sub with VMap ms => match lookup_key key ms with Some _ => negb (mem_str key acc) | None => false end
      | _ => false end
    | UnknownValue s acc =>
      match sub with VStr s' => String.eqb s s' && negb (mem_str s acc) | _ => false end
    | Unexpected _ => true
    end
  end.

(** locations of all calls in the error tree rooted at call [id] ([fuel] bounds the descent) *)
Fixpoint locs_under (tr : list call) (fuel : nat) (id : N) : list vpr :=
  match fuel with
  | O => []
  | S f =>
    match nth_opt tr (N.to_nat id) with
    | Some (CError _ s _ l) => l :: match s with Some x => locs_under tr f x | None => [] end
    | Some (CMerge _ s _ o l) =>
      (l :: locs_under tr f o ++ match s with Some x => locs_under tr f x | None => [] end)%list
    | Some (CMergeU _ s _ l) => l :: match s with Some x => locs_under tr f x | None => [] end
    | _ => []
    end
  end.

Definition call_true (root : value) (tr : list call) (c : call) : bool :=
  match c with
  | CError _ _ k l => kind_true root k l
  | CMerge _ _ _ o l =>
    isSome (resolve root (to_owned l))
    && forallb (fun l' => anc l l') (locs_under tr (List.length tr) o)
  | CMergeU _ _ _ l => isSome (resolve root (to_owned l))
  | CUser _ args =>
    forallb (fun a => match a with ALoc p => isSome (resolve root p) | _ => true end) args
  end.

(** hypotheses of C04: unique keys per object; no variant field whose key is the enum's tag *)
Fixpoint tag_clash_free (t : ty) : bool :=
  let fields_ok := fix go (fs : list (cfield ty)) : bool :=
                     match fs with [] => true | f :: r => tag_clash_free (cf_ty f) && go r end in
  match t with
  | TVec t' | TArray _ t' | THashSet t' | TBTreeSet t' | TMap _ _ t' | TOption t' | TBox t' => tag_clash_free t'
  | TTuple2 a b => tag_clash_free a && tag_clash_free b
  | TTuple3 a b c => tag_clash_free a && tag_clash_free b && tag_clash_free c
  | TStruct s _ => fields_ok (cs_fields s)
  | TEnumTagged tag vs _ =>
    (fix gov (vs : list (cvariant ty)) : bool :=
       match vs with
       | [] => true
       | v :: r =>
         match cv_data v with
         | VDUnit => true
         | VDNamed s =>
           fields_ok (cs_fields s)
           && (fix nokey (fs : list (cfield ty)) : bool :=
                 match fs with [] => true | f :: r' => negb (String.eqb (cf_key f) tag) && nokey r' end)
                (cs_fields s)
         end && gov r
       end) vs
  | TFrom i _ _ | TTryFrom i _ _ => tag_clash_free i
  | _ => true
  end.


(** ** C03: a stop answer ends the work *)

(** index of the first call at or after position [k] that creates an error value *)
Fixpoint first_creating_from (tr : list call) (i k : N) : option N :=
  match tr with
  | [] => None
  | c :: r => if (k <=? i)%N && creates c then Some i else first_creating_from r (N.succ i) k
  end.

(** from position [j] on, every call hands the error of the previous call over to an enclosing
    container: [merge(_, other = previous call, _)] *)
Fixpoint handovers_from (tr : list call) (i j : N) : bool :=
  match tr with
  | [] => true
  | c :: r =>
    (if (j <? i)%N then match c with CMerge _ _ _ o _ => N.eqb o (N.pred i) | _ => false end else true)
    && handovers_from r (N.succ i) j
  end.

(** the scripted run, whose answers are all Break from call [k] on: once a report (or a merge)
    at position j >= k has been answered, only hand-overs follow and the last one is returned *)
Definition c03_tail_ok (k : N) (r : res) (tr : list call) : bool :=
  match first_creating_from tr 0 k with
  | None => true            (* no decision was taken at or after k: nothing to check *)
  | Some j =>
    handovers_from tr 0 j
    && match r with RErr e => N.eqb e (N.pred (N.of_nat (List.length tr))) | _ => false end
  end.
