(** C04: well-formedness hypotheses on target types and the per-call truth predicate. *)
From Deserr Require Import Base Pointer Kinds Value Prog Scalars Types Monitors.

Fixpoint nodup_strs (l : list string) : bool :=
  match l with [] => true | x :: r => negb (mem_str x r) && nodup_strs r end.

(** hypotheses of C04 on the target type: within every derived struct / variant the effective
    keys are distinct, and no field key of a variant equals the enum's tag *)
Fixpoint c04_wf (t : ty) : bool :=
  let fields_ok := fix go (fs : list (cfield ty)) : bool :=
                     match fs with [] => true | f :: r => c04_wf (cf_ty f) && go r end in
  match t with
  | TVec t' | TArray _ t' | THashSet t' | TBTreeSet t' | TMap _ _ t' | TOption t' | TBox t' => c04_wf t'
  | TTuple2 a b => c04_wf a && c04_wf b
  | TTuple3 a b c => c04_wf a && c04_wf b && c04_wf c
  | TStruct s _ => nodup_strs (map cf_key (cs_fields s)) && fields_ok (cs_fields s)
  | TEnumTagged tag vs _ =>
    (fix gov (vs : list (cvariant ty)) : bool :=
       match vs with
       | [] => true
       | v :: r =>
         match cv_data v with
         | VDUnit => true
         | VDNamed s =>
           nodup_strs (map cf_key (cs_fields s)) && negb (mem_str tag (map cf_key (cs_fields s)))
           && fields_ok (cs_fields s)
         end && gov r
       end) vs
  | TFrom i _ _ | TTryFrom i _ _ => c04_wf i
  | _ => true
  end.

(** what a single call says is true of the payload [root] (the hand-over location being an
    ancestor of what is handed over is judged on whole traces: Monitors.call_true) *)
Definition call_ok (root : value) (c : call) : Prop :=
  match c with
  | CError _ _ k l => kind_true root k l = true
  | CMerge _ _ _ _ l => isSome (resolve root (to_owned l)) = true
  | CMergeU _ _ _ l => isSome (resolve root (to_owned l)) = true
  | CUser _ args =>
    forallb (fun a => match a with ALoc p => isSome (resolve root p) | _ => true end) args = true
  end.

Definition resolves (root : value) (l : vpr) (v : value) : Prop := resolve root (to_owned l) = Some v.
