(** What [deserialize] does, as a tree of questions put to the error type (free monad), and
    the execution of such a tree against a script of Continue/Break answers. *)
From Deserr Require Import Base Pointer Kinds Value.

(** [Op c k]: make call [c]; it is given the index of the call (= the identity of the error it
    returns) and the answer ([true] = Continue, [false] = Break). *)
Inductive prog (X : Type) : Type :=
| Ret (x : X)
| Op (c : call) (k : N -> bool -> prog X).
Arguments Ret {X} x.
Arguments Op {X} c k.

Fixpoint bind {X Y} (p : prog X) (f : X -> prog Y) : prog Y :=
  match p with
  | Ret x => f x
  | Op c k => Op c (fun i a => bind (k i a) f)
  end.

(** the state is the trace of calls so far; call number [i] is answered by [script i] *)
Fixpoint run {X} (script : N -> bool) (p : prog X) (s : list call) : X * list call :=
  match p with
  | Ret x => (x, s)
  | Op c k => let i := N.of_nat (List.length s) in run script (k i (script i)) (s ++ [c])
  end.

(** a user function ran: takes a slot in the trace, its answer is not used *)
Definition user_call (fn : N) (args : list uarg) {X} (k : prog X) : prog X :=
  Op (CUser fn args) (fun _ _ => k).

(** [take_cf_content(E::error(None, kind, loc))]: the answer is ignored *)
Definition fail_with (alg : N) (k : ekind) (l : vpr) : prog res :=
  Op (CError alg None k l) (fun i _ => Ret (RErr i)).
