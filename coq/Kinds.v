(** Model of [ValueKind] (src/value.rs:119-151) and of [value_kinds_description_json]
    (src/errors/json.rs:50-127). *)
From Deserr Require Import Base.
Local Open Scope string_scope.

Inductive vkind := KNull | KBoolean | KInteger | KNegativeInteger | KFloat | KString | KSequence | KMap.

Definition all_kinds : list vkind :=
  [KNull; KBoolean; KInteger; KNegativeInteger; KFloat; KString; KSequence; KMap].

(** [order] of json.rs: the rank used to sort the kinds *)
Definition order (k : vkind) : nat :=
  match k with
  | KNull => 0 | KBoolean => 1 | KInteger => 2 | KNegativeInteger => 3
  | KFloat => 4 | KString => 5 | KSequence => 6 | KMap => 7
  end.

Definition vkind_eqb (a b : vkind) : bool := Nat.eqb (order a) (order b).

(** [Display for ValueKind] *)
Definition kind_name (k : vkind) : string :=
  match k with
  | KNull => "Null" | KBoolean => "Boolean" | KInteger => "Integer"
  | KNegativeInteger => "NegativeInteger" | KFloat => "Float" | KString => "String"
  | KSequence => "Sequence" | KMap => "Map"
  end.

Definition single_description (k : vkind) : string :=
  match k with
  | KNull => "null"
  | KBoolean => "a boolean"
  | KInteger => "a positive integer"
  | KNegativeInteger => "a negative integer"
  | KFloat => "a number"
  | KString => "a string"
  | KSequence => "an array"
  | KMap => "an object"
  end.

(** [kinds.sort_by_key(order)]: a stable sort; modelled as insertion sort (the result of a
    stable sort is unique) *)
Fixpoint insert_kind (k : vkind) (l : list vkind) : list vkind :=
  match l with
  | [] => [k]
  | x :: r => if Nat.ltb (order k) (order x) then k :: x :: r else x :: insert_kind k r
  end.
Fixpoint sort_kinds (l : list vkind) : list vkind :=
  match l with
  | [] => []
  | x :: r => insert_kind x (sort_kinds r)
  end.

(** [Vec::dedup]: removes consecutive repeated elements *)
Fixpoint dedup_kinds (l : list vkind) : list vkind :=
  match l with
  | [] => []
  | x :: r =>
    match r with
    | [] => [x]
    | y :: _ => if vkind_eqb x y then dedup_kinds r else x :: dedup_kinds r
    end
  end.

Definition canon (l : list vkind) : list vkind := dedup_kinds (sort_kinds l).

(** [description_rec]: the slice patterns of json.rs, in source order *)
Fixpoint description_rec (kinds : list vkind) (count : nat) (message : string) : string :=
  let finish (part : string) :=
      match count with
      | 0 => message ++ part
      | 1 => message ++ " or " ++ part
      | _ => message ++ ", or " ++ part
      end in
  let continue_ (part : string) (rest : list vkind) :=
      description_rec rest (S count)
        (match count with 0 => message ++ part | _ => message ++ ", " ++ part end) in
  let step (part : string) (rest : list vkind) :=
      match rest with [] => finish part | _ :: _ => continue_ part rest end in
  match kinds with
  | [] => finish ""
  | KInteger :: KFloat :: rest => step "a number" rest
  | KNegativeInteger :: KFloat :: rest => step "a number" rest
  | KInteger :: KNegativeInteger :: KFloat :: rest => step "a number" rest
  | KInteger :: KNegativeInteger :: rest => step "an integer" rest
  | a :: rest => step (single_description a) rest
  end.

Definition describe (kinds : list vkind) : string :=
  match canon kinds with
  | [] => "a different value"
  | ks => description_rec ks 0 ""
  end.

(** ** Specification side: the rule stated by the property, from set membership only *)

Definition has (k : vkind) (l : list vkind) : bool := existsb (vkind_eqb k) l.

Definition phrases_of (l : list vkind) : list string :=
  (if has KNull l then ["null"] else [])
  ++ (if has KBoolean l then ["a boolean"] else [])
  ++ (if has KFloat l then ["a number"]
      else if has KInteger l && has KNegativeInteger l then ["an integer"]
      else (if has KInteger l then ["a positive integer"] else [])
           ++ (if has KNegativeInteger l then ["a negative integer"] else []))
  ++ (if has KString l then ["a string"] else [])
  ++ (if has KSequence l then ["an array"] else [])
  ++ (if has KMap l then ["an object"] else []).

(** "a", "a or b", "a, b, or c" *)
Fixpoint join_tail (l : list string) : string :=
  match l with
  | [] => ""
  | [x] => ", or " ++ x
  | x :: r => ", " ++ x ++ join_tail r
  end.
Definition join_phrases (l : list string) : string :=
  match l with
  | [] => "a different value"
  | [a] => a
  | [a; b] => a ++ " or " ++ b
  | a :: r => a ++ join_tail r
  end.

Definition spec_describe (l : list vkind) : string := join_phrases (phrases_of l).

(** enumeration used by the exhaustive correspondence: all sequences of length n, first
    element slowest *)
Fixpoint all_seqs (n : nat) : list (list vkind) :=
  match n with
  | O => [[]]
  | S n' => flat_map (fun k => map (cons k) (all_seqs n')) all_kinds
  end.

Definition kind_of_N (n : N) : vkind :=
  match n with
  | 0%N => KNull | 1%N => KBoolean | 2%N => KInteger | 3%N => KNegativeInteger
  | 4%N => KFloat | 5%N => KString | 6%N => KSequence | _ => KMap
  end.
