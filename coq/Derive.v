(** Model of the derive macro's front end: attribute parsing and merging
    (derive/src/attribute_parser.rs), shape checks and the construction of the vectors of
    [NamedFieldsInfo] (derive/src/parse_type.rs), and the dispatch of derive/src/lib.rs.
    [compile] turns a source-level type into the [ty] that the interpreter runs. *)
From Deserr Require Import Base Pointer Kinds Value Scalars Types.
Local Open Scope string_scope.

Inductive rename_all := RACamel | RALower.

(** one item inside a [#[deserr(...)]] attribute on a container *)
Inductive cattr (T : Type) :=
| CARenameAll (r : option rename_all)        (* None: a value other than camelCase / lowercase *)
| CATag (s : string)
| CAError (alg : N)
| CADeny (f : option N)
| CAFrom (t : T) (fn : N)
| CATryFrom (t : T) (fn : N)
| CAValidate (fn : N)
| CAGenericParam
| CAWherePredicate
| CAUnknown                                   (* an identifier that is no container attribute *)
| CAMalformed.                                (* missing `=`, missing value, trailing tokens *)
Arguments CARenameAll {T}. Arguments CATag {T}. Arguments CAError {T}. Arguments CADeny {T}.
Arguments CAFrom {T}. Arguments CATryFrom {T}. Arguments CAValidate {T}.
Arguments CAGenericParam {T}. Arguments CAWherePredicate {T}. Arguments CAUnknown {T}.
Arguments CAMalformed {T}.

Inductive vattr :=
| VARename (s : string) | VARenameAll (r : option rename_all) | VAUnknown | VAMalformed.

Inductive fattr (T : Type) :=
| FARename (s : string)
| FADefault (e : option out)                  (* None: the Default trait; Some: `default = expr` *)
| FAMissing (fn : N)
| FANeedsPredicate
| FAError (alg : N)
| FAMap (fn : N)
| FAFrom (t : T) (fn : N)
| FATryFrom (t : T) (fn : N)
| FASkip
| FAUnknown
| FAMalformed.
Arguments FARename {T}. Arguments FADefault {T}. Arguments FAMissing {T}.
Arguments FANeedsPredicate {T}. Arguments FAError {T}. Arguments FAMap {T}. Arguments FAFrom {T}.
Arguments FATryFrom {T}. Arguments FASkip {T}. Arguments FAUnknown {T}. Arguments FAMalformed {T}.

(** a list of [#[deserr(..)]] attributes, each a list of items *)
Record field (T : Type) := mkField { fd_ident : string; fd_attrs : list (list (fattr T)); fd_ty : T }.
Arguments mkField {T}. Arguments fd_ident {T}. Arguments fd_attrs {T}. Arguments fd_ty {T}.

Inductive vshape (T : Type) := VSUnit | VSNamed (fs : list (field T)) | VSUnnamed.
Arguments VSUnit {T}. Arguments VSNamed {T}. Arguments VSUnnamed {T}.
Record variant (T : Type) := mkVariant { vr_ident : string; vr_attrs : list (list vattr); vr_shape : vshape T }.
Arguments mkVariant {T}. Arguments vr_ident {T}. Arguments vr_attrs {T}. Arguments vr_shape {T}.

Inductive shape (T : Type) :=
| SNamed (fs : list (field T)) | STupleStruct | SUnitStruct | SEnum (vs : list (variant T)) | SUnion.
Arguments SNamed {T}. Arguments STupleStruct {T}. Arguments SUnitStruct {T}. Arguments SEnum {T}.
Arguments SUnion {T}.

Record item (T : Type) := mkItem { it_attrs : list (list (cattr T)); it_shape : shape T }.
Arguments mkItem {T}. Arguments it_attrs {T}. Arguments it_shape {T}.

(** source-level types *)
Inductive ity :=
| IUnit | IBool | IInt (d : int_desc) | IF32 | IF64 | IChar | IString | IPhantom | IJson
| IVec (t : ity) | IArray (n : N) (t : ity) | ITuple2 (a b : ity) | ITuple3 (a b c : ity)
| IHashSet (t : ity) | IBTreeSet (t : ity) | IMap (kp : keyparser) (key_ty_name : string) (t : ity)
| IOption (t : ity) | IBox (t : ity) | ICS (ep : keyparser)
| IW (t : ity)                  (* the harness wrapper W<T>: deserializes like T, remembers the functions applied to it *)
| IItem (it : item ity).        (* a type with #[derive(Deserr)] *)

(** ** outcome of the macro *)
Inductive dres (A : Type) :=
| Accept (x : A)
| Reject            (* a diagnostic issued by the derive *)
| Invalid.          (* outside the modelled domain: rustc itself rejects the item or its expansion *)
Arguments Accept {A}. Arguments Reject {A}. Arguments Invalid {A}.

Definition dbind {A B} (r : dres A) (f : A -> dres B) : dres B :=
  match r with Accept x => f x | Reject => Reject | Invalid => Invalid end.

(** ** merged attributes. A span field of the code is [Some] exactly when its value is. *)
Record cattrs (T : Type) := mkCA {
  ca_rename_all : option rename_all; ca_err : option N; ca_tag : option string;
  ca_deny : option (option N); ca_from : option (T * N); ca_try_from : option (T * N);
  ca_validate : option N }.
Arguments mkCA {T}. Arguments ca_rename_all {T}. Arguments ca_err {T}. Arguments ca_tag {T}.
Arguments ca_deny {T}. Arguments ca_from {T}. Arguments ca_try_from {T}. Arguments ca_validate {T}.
Definition ca_default {T} : cattrs T := mkCA None None None None None None None.

Definition is_some {A} (o : option A) : bool := match o with Some _ => true | None => false end.

(** [if let Some(x) = other.f { if self.f is set { error } ; self.f = Some(x) }] *)
Definition merge1 {A} (self other : option A) : option (option A) :=
  match other with
  | None => Some self
  | Some x => if is_some self then None else Some (Some x)
  end.

(** [ContainerAttributesInfo::merge] *)
Definition merge_cattrs {T} (self other : cattrs T) : option (cattrs T) :=
  match merge1 (ca_rename_all self) (ca_rename_all other) with None => None | Some ra =>
  match merge1 (ca_err self) (ca_err other) with None => None | Some er =>
  match merge1 (ca_tag self) (ca_tag other) with None => None | Some tg =>
  match merge1 (ca_deny self) (ca_deny other) with None => None | Some dn =>
  match (match ca_from other with
         | None => Some (ca_from self)
         | Some x => if is_some (ca_from self) || is_some (ca_try_from self) then None else Some (Some x)
         end) with None => None | Some fr =>
  match (match ca_try_from other with
         | None => Some (ca_try_from self)
         | Some x => if is_some (ca_try_from self) || is_some fr then None else Some (Some x)
         end) with None => None | Some tf =>
  match merge1 (ca_validate self) (ca_validate other) with None => None | Some vl =>
  Some (mkCA ra er tg dn fr tf vl)
  end end end end end end end.

(** one item of an attribute, as the [other] it produces *)
Definition single_cattr {T} (a : cattr T) : option (cattrs T) :=
  match a with
  | CARenameAll (Some r) => Some (mkCA (Some r) None None None None None None)
  | CARenameAll None => None
  | CATag s => Some (mkCA None None (Some s) None None None None)
  | CAError e => Some (mkCA None (Some e) None None None None None)
  | CADeny f => Some (mkCA None None None (Some f) None None None)
  | CAFrom t fn => Some (mkCA None None None None (Some (t, fn)) None None)
  | CATryFrom t fn => Some (mkCA None None None None None (Some (t, fn)) None)
  | CAValidate fn => Some (mkCA None None None None None None (Some fn))
  | CAGenericParam | CAWherePredicate => Some ca_default
  | CAUnknown | CAMalformed => None
  end.

(** [impl Parse for ContainerAttributesInfo]: an empty attribute has no identifier to parse *)
Definition parse_cgroup {T} (g : list (cattr T)) : option (cattrs T) :=
  match g with
  | [] => None
  | _ => fold_left (fun acc a => match acc with
                                 | None => None
                                 | Some this => match single_cattr a with
                                                | None => None
                                                | Some o => merge_cattrs this o
                                                end
                                 end) g (Some ca_default)
  end.

(** [read_deserr_container_attributes] *)
Definition read_cattrs {T} (gs : list (list (cattr T))) : option (cattrs T) :=
  fold_left (fun acc g => match acc with
                          | None => None
                          | Some this => match parse_cgroup g with
                                         | None => None
                                         | Some o => merge_cattrs this o
                                         end
                          end) gs (Some ca_default).

(** [validate_container_attributes] *)
Definition validate_cattrs {T} (a : cattrs T) (is_struct : bool) : bool :=
  negb (is_some (ca_try_from a)
        && (is_some (ca_rename_all a) || is_some (ca_tag a) || is_some (ca_deny a)))
  && negb (is_struct && is_some (ca_tag a)).

(** variants *)
Record vattrs := mkVA { va_rename : option string; va_rename_all : option rename_all }.
Definition va_default := mkVA None None.
Definition merge_vattrs (self other : vattrs) : option vattrs :=
  match merge1 (va_rename_all self) (va_rename_all other) with None => None | Some ra =>
  match merge1 (va_rename self) (va_rename other) with None => None | Some rn =>
  Some (mkVA rn ra) end end.
Definition single_vattr (a : vattr) : option vattrs :=
  match a with
  | VARename s => Some (mkVA (Some s) None)
  | VARenameAll (Some r) => Some (mkVA None (Some r))
  | VARenameAll None | VAUnknown | VAMalformed => None
  end.
Definition parse_vgroup (g : list vattr) : option vattrs :=
  match g with
  | [] => None
  | _ => fold_left (fun acc a => match acc with
                                 | None => None
                                 | Some this => match single_vattr a with
                                                | None => None
                                                | Some o => merge_vattrs this o
                                                end
                                 end) g (Some va_default)
  end.
Definition read_vattrs (gs : list (list vattr)) : option vattrs :=
  fold_left (fun acc g => match acc with
                          | None => None
                          | Some this => match parse_vgroup g with
                                         | None => None
                                         | Some o => merge_vattrs this o
                                         end
                          end) gs (Some va_default).

(** fields *)
Record fattrs (T : Type) := mkFA {
  fa_rename : option string; fa_default : option (option out); fa_missing : option N;
  fa_error : option N; fa_map : option N; fa_from : option (T * N); fa_try_from : option (T * N);
  fa_needs_predicate : bool; fa_skipped : bool }.
Arguments mkFA {T}. Arguments fa_rename {T}. Arguments fa_default {T}. Arguments fa_missing {T}.
Arguments fa_error {T}. Arguments fa_map {T}. Arguments fa_from {T}. Arguments fa_try_from {T}.
Arguments fa_needs_predicate {T}. Arguments fa_skipped {T}.
Definition fa_empty {T} : fattrs T := mkFA None None None None None None None false false.

(** [FieldAttributesInfo::merge] *)
Definition merge_fattrs {T} (self other : fattrs T) : option (fattrs T) :=
  match merge1 (fa_rename self) (fa_rename other) with None => None | Some rn =>
  match merge1 (fa_default self) (fa_default other) with None => None | Some df =>
  match merge1 (fa_missing self) (fa_missing other) with None => None | Some ms =>
  match merge1 (fa_error self) (fa_error other) with None => None | Some er =>
  match merge1 (fa_map self) (fa_map other) with None => None | Some mp =>
  match (match fa_from other with
         | None => Some (fa_from self)
         | Some x => if is_some (fa_from self) || is_some (fa_try_from self) then None else Some (Some x)
         end) with None => None | Some fr =>
  match (match fa_try_from other with
         | None => Some (fa_try_from self)
         | Some x => if is_some (fa_try_from self) || is_some fr then None else Some (Some x)
         end) with None => None | Some tf =>
  Some (mkFA rn df ms er mp fr tf (fa_needs_predicate self || fa_needs_predicate other)
             (fa_skipped self || fa_skipped other))
  end end end end end end end.

Definition single_fattr {T} (a : fattr T) : option (fattrs T) :=
  match a with
  | FARename s => Some (mkFA (Some s) None None None None None None false false)
  | FADefault e => Some (mkFA None (Some e) None None None None None false false)
  | FAMissing fn => Some (mkFA None None (Some fn) None None None None false false)
  | FANeedsPredicate => Some (mkFA None None None None None None None true false)
  | FAError e => Some (mkFA None None None (Some e) None None None false false)
  | FAMap fn => Some (mkFA None None None None (Some fn) None None false false)
  | FAFrom t fn => Some (mkFA None None None None None (Some (t, fn)) None false false)
  | FATryFrom t fn => Some (mkFA None None None None None None (Some (t, fn)) false false)
  | FASkip => Some (mkFA None None None None None None None false true)
  | FAUnknown | FAMalformed => None
  end.
Definition parse_fgroup {T} (g : list (fattr T)) : option (fattrs T) :=
  match g with
  | [] => None
  | _ => fold_left (fun acc a => match acc with
                                 | None => None
                                 | Some this => match single_fattr a with
                                                | None => None
                                                | Some o => merge_fattrs this o
                                                end
                                 end) g (Some fa_empty)
  end.
Definition read_fattrs {T} (gs : list (list (fattr T))) : option (fattrs T) :=
  fold_left (fun acc g => match acc with
                          | None => None
                          | Some this => match parse_fgroup g with
                                         | None => None
                                         | Some o => merge_fattrs this o
                                         end
                          end) gs (Some fa_empty).

(** ** [key_name_for_ident]: rename, else rename_all, else the identifier *)

Definition is_lower (c : ascii) : bool := let n := N_of_ascii c in (97 <=? n)%N && (n <=? 122)%N.
Definition is_upper (c : ascii) : bool := let n := N_of_ascii c in (65 <=? n)%N && (n <=? 90)%N.
Definition is_digit (c : ascii) : bool := let n := N_of_ascii c in (48 <=? n)%N && (n <=? 57)%N.
Definition to_lower (c : ascii) : ascii := if is_upper c then ascii_of_N (N_of_ascii c + 32) else c.
Definition to_upper (c : ascii) : ascii := if is_lower c then ascii_of_N (N_of_ascii c - 32) else c.
Definition is_delim (c : ascii) : bool :=
  Ascii.eqb c "_"%char || Ascii.eqb c "-"%char || Ascii.eqb c " "%char.

Fixpoint str_map (f : ascii -> ascii) (s : string) : string :=
  match s with EmptyString => EmptyString | String c r => String (f c) (str_map f r) end.

(** [str::to_lowercase] on UTF-8 bytes: ASCII, and the two-byte letters of Latin-1 Supplement
    (U+00C0-U+00DE except U+00D7), the Greek capitals except sigma (U+0391-U+03A9; the lowercase
    of sigma depends on its position) and Cyrillic (U+0400-U+042F); every other byte sequence is
    copied (the generators use no other cased letters in identifiers - a restriction of the
    model, see DESIGN.md 8) *)
Definition lower2 (n1 n2 : N) : option (N * N) :=
  if (n1 =? 195)%N && (128 <=? n2)%N && (n2 <=? 158)%N && negb (n2 =? 151)%N then Some (195, n2 + 32)%N
  else if (n1 =? 206)%N && (145 <=? n2)%N && (n2 <=? 159)%N then Some (206, n2 + 32)%N
  else if (n1 =? 206)%N && (160 <=? n2)%N && (n2 <=? 169)%N && negb (n2 =? 162)%N && negb (n2 =? 163)%N then Some (207, n2 - 32)%N
  else if (n1 =? 208)%N && (128 <=? n2)%N && (n2 <=? 143)%N then Some (209, n2 + 16)%N
  else if (n1 =? 208)%N && (144 <=? n2)%N && (n2 <=? 159)%N then Some (208, n2 + 32)%N
  else if (n1 =? 208)%N && (160 <=? n2)%N && (n2 <=? 175)%N then Some (209, n2 - 32)%N
  else None.

Fixpoint lowercase (s : string) : string :=
  match s with
  | EmptyString => EmptyString
  | String c1 r1 =>
    match r1 with
    | String c2 r2 =>
      match lower2 (N_of_ascii c1) (N_of_ascii c2) with
      | Some (m1, m2) => String (ascii_of_N m1) (String (ascii_of_N m2) (lowercase r2))
      | None => String (to_lower c1) (lowercase r1)
      end
    | EmptyString => String (to_lower c1) EmptyString
    end
  end.

(** convert_case 0.6, [Boundary::defaults()]: is there a word boundary just before [d]
    ([c] precedes it, [e] follows) *)
Definition boundary_before (c d : ascii) (e : option ascii) : bool :=
  (is_lower c && is_upper d) || (is_upper c && is_digit d) || (is_digit c && is_upper d)
  || (is_digit c && is_lower d) || (is_lower c && is_digit d)
  || (is_upper c && is_upper d && match e with Some x => is_lower x | None => false end).

(** [segmentation::split]: words (possibly empty) in order; [prev] is the previous character *)
Fixpoint split_words (s : string) (prev : option ascii) (cur : string) : list string :=
  match s with
  | EmptyString => [cur]
  | String d r =>
    if is_delim d then cur :: split_words r (Some d) EmptyString
    else
      let nxt := match r with String e _ => Some e | EmptyString => None end in
      match prev with
      | Some c =>
        if boundary_before c d nxt then cur :: split_words r (Some d) (String d EmptyString)
        else split_words r (Some d) (cur ++ String d EmptyString)
      | None => split_words r (Some d) (cur ++ String d EmptyString)
      end
  end.

Definition capitalize (w : string) : string :=
  match w with EmptyString => EmptyString | String c r => String (to_upper c) (lowercase r) end.

Definition camel_case (s : string) : string :=
  match filter (fun w => negb (String.eqb w "")) (split_words s None EmptyString) with
  | [] => ""
  | w :: ws => String.concat "" (lowercase w :: map capitalize ws)
  end.

(** the identifier itself, without the raw-identifier escape: [r#type] is the identifier [type]
    ([syn::ext::IdentExt::unraw]) *)
Definition unraw (ident : string) : string :=
  match ident with
  | String "r" (String "#" rest) => match rest with EmptyString => ident | _ => rest end
  | _ => ident
  end.

Definition key_name_for_ident (ident0 : string) (ra : option rename_all) (rename : option string) : string :=
  let ident := unraw ident0 in
  match rename with
  | Some name => name
  | None => match ra with
            | Some RACamel => camel_case ident
            | Some RALower => lowercase ident
            | None => ident
            end
  end.

(** ** [NamedFieldsInfo::parse] on fields whose types are already compiled.
    A type position carries the compiled type and the [Default::default()] of the declared type. *)

Definition tpos : Type := dres ty * option out.

(** [fields_extra.sort_by_key(|x| x.1.skipped)]: a stable sort on a boolean key *)
Definition stable_sort_skipped {A} (skipped : A -> bool) (l : list A) : list A :=
  filter (fun x => negb (skipped x)) l ++ filter skipped l.

Record vectors := mkVec {
  v_names : list string; v_tys : list ty; v_defaults : list fdefault; v_maps : list (option N);
  v_keys : list string; v_errs : list (option N); v_froms : list ffrom; v_missing : list (option N) }.

Definition field_default (fa : fattrs tpos) (declared : tpos) : dres fdefault :=
  match fa_default fa with
  | Some None => match snd declared with Some o => Accept (FDValue o) | None => Invalid end
  | Some (Some e) => Accept (FDValue e)
  | None =>
    if fa_skipped fa then match snd declared with Some o => Accept (FDValue o) | None => Invalid end
    else Accept FDMissing
  end.

Definition field_ty (fa : fattrs tpos) (declared : tpos) : dres ty :=
  match fa_try_from fa, fa_from fa with
  | Some (t, _), _ => fst t
  | None, Some (t, _) => fst t
  | None, None => fst declared
  end.

Definition field_from (fa : fattrs tpos) : ffrom :=
  match fa_try_from fa, fa_from fa with
  | Some (_, fn), _ => FFTry fn
  | None, Some (_, fn) => FFFrom fn
  | None, None => FFNone
  end.

(** sequence the results of a list *)
Fixpoint dall {A} (l : list (dres A)) : dres (list A) :=
  match l with
  | [] => Accept []
  | x :: r => dbind x (fun a => dbind (dall r) (fun b => Accept (a :: b)))
  end.

Definition named_vectors (fs : list (field tpos)) (ra : option rename_all) : dres vectors :=
  dbind (dall (map (fun f => match read_fattrs (fd_attrs f) with
                             | Some fa => Accept (f, fa)
                             | None => Reject
                             end) fs)) (fun extra =>
  let sorted := stable_sort_skipped (fun x => fa_skipped (snd x)) extra in
  let kept := filter (fun x => negb (fa_skipped (snd x))) sorted in
  dbind (dall (map (fun x => field_ty (snd x) (fd_ty (fst x))) sorted)) (fun tys =>
  dbind (dall (map (fun x => field_default (snd x) (fd_ty (fst x))) sorted)) (fun defaults =>
  Accept (mkVec
    (map (fun x => fd_ident (fst x)) sorted)
    tys
    defaults
    (map (fun x => fa_map (snd x)) sorted)
    (map (fun x => key_name_for_ident (fd_ident (fst x)) ra (fa_rename (snd x))) kept)
    (map (fun x => fa_error (snd x)) kept)
    (map (fun x => field_from (snd x)) kept)
    (map (fun x => fa_missing (snd x)) kept))))).

(** what [quote!]'s [#( ... )*] does with several vectors: stops at the shortest *)
Fixpoint zip_fields (names : list string) (keys : list string) (tys : list ty)
         (errs : list (option N)) (froms : list ffrom) (defaults : list fdefault)
         (maps : list (option N)) (missing : list (option N)) : list (cfield ty) :=
  match names, keys, tys, errs, froms, defaults, maps, missing with
  | n :: names', k :: keys', t :: tys', e :: errs', f :: froms', d :: defaults', m :: maps', mi :: missing' =>
    mkCF n k t e f d m mi :: zip_fields names' keys' tys' errs' froms' defaults' maps' missing'
  | _, _, _, _, _, _, _, _ => []
  end.

(** the skipped fields are the remaining entries of field_names / field_defaults / field_maps;
    a skipped field always has an initial value (its default), else rustc rejects the expansion *)
Fixpoint zip_skipped (names : list string) (defaults : list fdefault) (maps : list (option N))
  : option (list sfield) :=
  match names, defaults, maps with
  | n :: names', FDValue o :: defaults', m :: maps' =>
    match zip_skipped names' defaults' maps' with
    | Some r => Some (mkSF n o m :: r)
    | None => None
    end
  | _ :: _, FDMissing :: _, _ :: _ => None
  | _, _, _ => Some []
  end.

Definition deny_of (d : option (option N)) : deny :=
  match d with None => DenyNo | Some None => DenyDefault | Some (Some fn) => DenyFn fn end.

(** the struct body generated from the vectors: key arms pair the first [length keys] entries *)
Definition cstruct_of (v : vectors) (d : option (option N)) : dres (cstruct ty) :=
  let n := List.length (v_keys v) in
  match zip_skipped (skipn n (v_names v)) (skipn n (v_defaults v)) (skipn n (v_maps v)) with
  | Some sk =>
    Accept (mkCS (zip_fields (v_names v) (v_keys v) (v_tys v) (v_errs v) (v_froms v) (v_defaults v)
                             (v_maps v) (v_missing v)) sk (deny_of d))
  | None => Invalid
  end.

Definition named_struct (fs : list (field tpos)) (ra : option rename_all) (d : option (option N))
  : dres (cstruct ty) :=
  dbind (named_vectors fs ra) (fun v => cstruct_of v d).

(** ** [DerivedTypeInfo::parse] + [derive_deserialize] *)

Definition is_struct_shape {T} (s : shape T) : bool :=
  match s with SNamed _ | STupleStruct | SUnitStruct => true | _ => false end.

Definition expand_variant (ca : cattrs tpos) (v : variant tpos) : dres (cvariant ty) :=
  match read_vattrs (vr_attrs v) with
  | None => Reject
  | Some va =>
    let key := key_name_for_ident (vr_ident v) (ca_rename_all ca) (va_rename va) in
    match vr_shape v with
    | VSUnit => Accept (mkCV (vr_ident v) key VDUnit)
    | VSUnnamed => Reject
    | VSNamed fs =>
      (* merge_variant: the variant's own rename_all replaces the container's *)
      dbind (named_struct fs (va_rename_all va) (ca_deny ca))
            (fun s => Accept (mkCV (vr_ident v) key (VDNamed s)))
    end
  end.

Definition all_unit (vs : list (cvariant ty)) : bool :=
  forallb (fun v => match cv_data v with VDUnit => true | _ => false end) vs.

Definition expand (it : item tpos) : dres ty :=
  match read_cattrs (it_attrs it) with
  | None => Reject
  | Some ca =>
    if negb (validate_cattrs ca (is_struct_shape (it_shape it))) then Reject else
    match ca_try_from ca, ca_from ca with
    | Some (t, fn), _ => dbind (fst t) (fun inter => Accept (TTryFrom inter fn (ca_validate ca)))
    | None, Some (t, fn) => dbind (fst t) (fun inter => Accept (TFrom inter fn (ca_validate ca)))
    | None, None =>
      match it_shape it with
      | SNamed fs =>
        dbind (named_struct fs (ca_rename_all ca) (ca_deny ca))
              (fun s => Accept (TStruct s (ca_validate ca)))
      | STupleStruct | SUnitStruct | SUnion => Reject
      | SEnum vs =>
        dbind (dall (map (expand_variant ca) vs)) (fun cvs =>
          match ca_tag ca with
          | Some tag => Accept (TEnumTagged tag cvs (ca_validate ca))
          | None =>
            if all_unit cvs
            then Accept (TEnumUnit (map (fun v => (cv_ident v, cv_key v)) cvs) (ca_validate ca))
            else Reject
          end)
      end
    end
  end.

(** ** mapping over the type positions of an item *)
Definition cattr_map {A B} (f : A -> B) (a : cattr A) : cattr B :=
  match a with
  | CARenameAll r => CARenameAll r | CATag s => CATag s | CAError e => CAError e
  | CADeny d => CADeny d | CAFrom t fn => CAFrom (f t) fn | CATryFrom t fn => CATryFrom (f t) fn
  | CAValidate fn => CAValidate fn | CAGenericParam => CAGenericParam
  | CAWherePredicate => CAWherePredicate | CAUnknown => CAUnknown | CAMalformed => CAMalformed
  end.
Definition fattr_map {A B} (f : A -> B) (a : fattr A) : fattr B :=
  match a with
  | FARename s => FARename s | FADefault e => FADefault e | FAMissing fn => FAMissing fn
  | FANeedsPredicate => FANeedsPredicate | FAError e => FAError e | FAMap fn => FAMap fn
  | FAFrom t fn => FAFrom (f t) fn | FATryFrom t fn => FATryFrom (f t) fn | FASkip => FASkip
  | FAUnknown => FAUnknown | FAMalformed => FAMalformed
  end.
Definition field_map {A B} (f : A -> B) (x : field A) : field B :=
  match x with
  | mkField ident attrs t => mkField ident (map (map (fattr_map f)) attrs) (f t)
  end.
Definition variant_map {A B} (f : A -> B) (x : variant A) : variant B :=
  match x with
  | mkVariant ident attrs sh =>
    mkVariant ident attrs
              (match sh with
               | VSUnit => VSUnit | VSUnnamed => VSUnnamed
               | VSNamed fs => VSNamed (map (field_map f) fs)
               end)
  end.
Definition item_map {A B} (f : A -> B) (x : item A) : item B :=
  match x with
  | mkItem attrs sh =>
    mkItem (map (map (cattr_map f)) attrs)
           (match sh with
            | SNamed fs => SNamed (map (field_map f) fs)
            | STupleStruct => STupleStruct | SUnitStruct => SUnitStruct | SUnion => SUnion
            | SEnum vs => SEnum (map (variant_map f) vs)
            end)
  end.

(** [Default::default()] of a declared type, where the harness types implement Default *)
Fixpoint default_of (t : ity) : option out :=
  match t with
  | IUnit => Some OUnit
  | IBool => Some (OBool false)
  | IInt d => if i_nonzero d then None else Some (OInt 0)
  | IF32 => Some (OF32 0)
  | IF64 => Some (OF64 0)
  | IChar => Some (OChar 0)
  | IString => Some (OStr "")
  | IPhantom => Some OPhantom
  | IJson => Some (OJson VNull)
  | IVec _ => Some (OList [])
  | IArray _ _ => None
  | ITuple2 a b => match default_of a, default_of b with
                   | Some x, Some y => Some (OTuple [x; y]) | _, _ => None end
  | ITuple3 a b c => match default_of a, default_of b, default_of c with
                     | Some x, Some y, Some z => Some (OTuple [x; y; z]) | _, _, _ => None end
  | IHashSet _ | IBTreeSet _ => Some (OSet [])
  | IMap _ _ _ => Some (OMap [])
  | IOption _ => Some ONone
  | IBox t' => default_of t'
  | ICS _ => Some (OList [])
  | IW t' => default_of t'
  | IItem _ => None
  end.

Fixpoint compile (t : ity) : dres ty :=
  match t with
  | IUnit => Accept TUnit | IBool => Accept TBool | IInt d => Accept (TInt d)
  | IF32 => Accept TF32 | IF64 => Accept TF64 | IChar => Accept TChar | IString => Accept TString
  | IPhantom => Accept TPhantom | IJson => Accept TJson
  | IVec t' => dbind (compile t') (fun x => Accept (TVec x))
  | IArray n t' => dbind (compile t') (fun x => Accept (TArray n x))
  | ITuple2 a b => dbind (compile a) (fun x => dbind (compile b) (fun y => Accept (TTuple2 x y)))
  | ITuple3 a b c =>
    dbind (compile a) (fun x => dbind (compile b) (fun y => dbind (compile c) (fun z =>
      Accept (TTuple3 x y z))))
  | IHashSet t' => dbind (compile t') (fun x => Accept (THashSet x))
  | IBTreeSet t' => dbind (compile t') (fun x => Accept (TBTreeSet x))
  | IMap kp n t' => dbind (compile t') (fun x => Accept (TMap kp n x))
  | IOption t' => dbind (compile t') (fun x => Accept (TOption x))
  | IBox t' => dbind (compile t') (fun x => Accept (TBox x))
  | ICS ep => Accept (TCS ep)
  | IW t' => compile t'
  | IItem it => expand (item_map (fun x => (compile x, default_of x)) it)
  end.
