(** Specification side of C05: when a scalar target accepts a value, as the property states it. *)
From Deserr Require Import Base Pointer Kinds Value Prog Utf8 Scalars.
Local Open Scope string_scope.

Inductive sc_out := SOk (o : out) | SKind (accepted : list vkind) | SUnexp (msg : string) | SOther.

(** ** the specification of the integer targets, as the property states it *)
Definition admissible (d : int_desc) (v : value) : bool :=
  match v with VInt _ => true | VNeg _ => i_signed d | _ => false end.
Definition num (v : value) : Z := match v with VInt n => Z.of_N n | VNeg z => z | _ => 0%Z end.
Definition in_domain (d : int_desc) (z : Z) : bool :=
  (imin d <=? z)%Z && (z <=? imax d)%Z && negb (i_nonzero d && Z.eqb z 0).

(** the domain error: a zero for a non-zero type, else the received number with the violated bound *)
Definition domain_msg (d : int_desc) (v : value) : string :=
  if i_nonzero d && Z.eqb (num v) 0 then msg_zero d
  else match v with VNeg _ => msg_too_small (num v) d | _ => msg_too_large (num v) d end.

Definition spec_int (d : int_desc) (v : value) : sc_out :=
  if admissible d v then
    if in_domain d (num v) then SOk (OInt (num v)) else SUnexp (domain_msg d v)
  else SKind (int_accepted d).

(** the outcome of a run, in the same vocabulary: the state is untouched on success; on failure
    exactly one call [error(None, kind, l)] is appended and its result is returned *)
Definition outcome_run (a : N) (v : value) (l : vpr) (s : list call) (o : sc_out) : res * list call :=
  match o with
  | SOk x => (ROk x, s)
  | SKind acc => (RErr (N.of_nat (List.length s)), (s ++ [CError a None (IncorrectValueKind v acc) l])%list)
  | SUnexp m => (RErr (N.of_nat (List.length s)), (s ++ [CError a None (Unexpected m) l])%list)
  | SOther => (RPanic "", s)
  end.



(** non-integer scalars *)
Definition spec_unit (v : value) : sc_out := match v with VNull => SOk OUnit | _ => SKind [KNull] end.
Definition spec_bool (v : value) : sc_out := match v with VBool b => SOk (OBool b) | _ => SKind [KBoolean] end.
Definition spec_string (v : value) : sc_out := match v with VStr s => SOk (OStr s) | _ => SKind [KString] end.
(** char: exactly one scalar value; otherwise the message carries the string and its length *)
Definition spec_char (v : value) : sc_out :=
  match v with
  | VStr s =>
    match chars s with
    | [c] => SOk (OChar c)
    | [] => SUnexp msg_char_empty
    | cs => SUnexp (msg_char_many (List.length cs) s)
    end
  | _ => SKind [KString]
  end.
