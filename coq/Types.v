(** Target types after the derive macro has processed the attributes: what the generated
    [deserialize_from_value] depends on. Produced from source-level items by Derive.compile. *)
From Deserr Require Import Base Pointer Kinds Value Scalars.

(** field-level [from] / [try_from] *)
Inductive ffrom := FFNone | FFFrom (fn : N) | FFTry (fn : N).
(** [field_defaults]: FieldState::Missing or FieldState::Some(default) *)
Inductive fdefault := FDMissing | FDValue (o : out).
Inductive deny := DenyNo | DenyDefault | DenyFn (fn : N).

(** a non-skipped field: one position of the zipped vectors key_names / field_names /
    field_tys / field_errs / field_from_fns / missing_field_errors / field_defaults / field_maps *)
Record cfield (T : Type) := mkCF {
  cf_name : string;          (* identifier *)
  cf_key : string;           (* effective key *)
  cf_ty : T;                 (* type deserialized from the payload (the from-type if any) *)
  cf_alg : option N;         (* field-level error type, None = the container's *)
  cf_from : ffrom;
  cf_default : fdefault;
  cf_map : option N;
  cf_missing : option N      (* missing_field_error function *)
}.
Arguments mkCF {T}. Arguments cf_name {T}. Arguments cf_key {T}. Arguments cf_ty {T}.
Arguments cf_alg {T}. Arguments cf_from {T}. Arguments cf_default {T}. Arguments cf_map {T}.
Arguments cf_missing {T}.

(** a skipped field: only its default and [map] survive *)
Record sfield := mkSF { sf_name : string; sf_default : out; sf_map : option N }.

Record cstruct (T : Type) := mkCS {
  cs_fields : list (cfield T);
  cs_skipped : list sfield;
  cs_deny : deny
}.
Arguments mkCS {T}. Arguments cs_fields {T}. Arguments cs_skipped {T}. Arguments cs_deny {T}.

Inductive vdata (T : Type) := VDUnit | VDNamed (s : cstruct T).
Arguments VDUnit {T}. Arguments VDNamed {T}.
Record cvariant (T : Type) := mkCV { cv_ident : string; cv_key : string; cv_data : vdata T }.
Arguments mkCV {T}. Arguments cv_ident {T}. Arguments cv_key {T}. Arguments cv_data {T}.

Inductive ty :=
| TUnit | TBool | TInt (d : int_desc) | TF32 | TF64 | TChar | TString | TPhantom | TJson
| TVec (t : ty)
| TArray (n : N) (t : ty)
| TTuple2 (a b : ty)
| TTuple3 (a b c : ty)
| THashSet (t : ty)
| TBTreeSet (t : ty)
| TMap (kp : keyparser) (key_ty_name : string) (t : ty)       (* HashMap / BTreeMap *)
| TOption (t : ty)
| TBox (t : ty)
| TCS (ep : keyparser)
| TStruct (s : cstruct ty) (validate : option N)
| TEnumTagged (tag : string) (vs : list (cvariant ty)) (validate : option N)
| TEnumUnit (vs : list (string * string)) (validate : option N)   (* (ident, key) *)
| TFrom (inter : ty) (fn : N) (validate : option N)
| TTryFrom (inter : ty) (fn : N) (validate : option N).
