(** Declarative keep-going specification: the reference interpreter of the documented
    semantics. No error accumulator, no Continue/Break answers, no early exit: a value either
    has a result, or the list of its independent faults. Only a STRUCTURAL fault (wrong kind of
    container, wrong arity, absent / non-string / unknown tag, failed intermediate of a
    container-level from/try_from) hides what is below it. *)
From Deserr Require Import Base Pointer Kinds Value Prog Utf8 Scalars ScalarSpec Types Deser.
Local Open Scope string_scope.

Inductive fault :=
| FKind (k : ekind) (l : vpr)          (* a report through E::error *)
| FUser (u : uerr) (l : vpr).          (* an error returned by a user function, handed to E::merge *)

Record sres := mkS {
  s_out : option out;                  (* Some iff there is no fault *)
  s_faults : list fault;
  s_ucalls : list (N * list uarg)      (* user functions invoked, in order *)
}.

Definition s_ok (o : out) : sres := mkS (Some o) [] [].
Definition s_fault (f : fault) : sres := mkS None [f] [].
Definition s_kind (v : value) (acc : list vkind) (l : vpr) : sres :=
  s_fault (FKind (IncorrectValueKind v acc) l).

Definition of_sc (v : value) (l : vpr) (o : sc_out) : sres :=
  match o with
  | SOk x => s_ok x
  | SKind acc => s_kind v acc l
  | SUnexp m => s_fault (FKind (Unexpected m) l)
  | SOther => mkS None [] []
  end.

(** children of a container: all are examined; the result exists iff all have one *)
Fixpoint all_some {A} (l : list (option A)) : option (list A) :=
  match l with
  | [] => Some []
  | Some x :: r => match all_some r with Some xs => Some (x :: xs) | None => None end
  | None :: _ => None
  end.

Definition s_collect (children : list sres) (mk : list out -> out) : sres :=
  let faults := flat_map s_faults children in
  mkS (match faults with
       | [] => option_map mk (all_some (map s_out children))
       | _ => None
       end)
      faults (flat_map s_ucalls children).

Fixpoint indexed {A} (l : list A) (i : N) : list (N * A) :=
  match l with [] => [] | x :: r => (i, x) :: indexed r (N.succ i) end.

Definition s_seq (el : value -> vpr -> sres) (vs : list value) (l : vpr) (mk : list out -> out) : sres :=
  s_collect (map (fun iv => el (snd iv) (Index (fst iv) l)) (indexed vs 0)) mk.

(** maps: a member whose key does not parse is one fault at the map's own location *)
Definition s_map (el : value -> vpr -> sres) (kp : keyparser) (tyname : string)
           (ms : list (string * value)) (l : vpr) : sres :=
  let per := map (fun kv =>
                    match parse_key kp (fst kv) with
                    | inl ko => (Some ko, el (snd kv) (Key (fst kv) l))
                    | inr _ => (None, s_fault (FKind (Unexpected (key_msg (fst kv) tyname)) l))
                    end) ms in
  let faults := flat_map (fun p => s_faults (snd p)) per in
  mkS (match faults with
       | [] =>
         option_map OMap
           (fold_left (fun acc p =>
                         match acc, fst p, s_out (snd p) with
                         | Some m, Some ko, Some o => Some (map_insert ko o m)
                         | _, _, _ => None
                         end) per (Some []))
       | _ => None
       end)
      faults (flat_map (fun p => s_ucalls (snd p)) per).

(** serde_json::Value as a target: only a float that JSON cannot hold is a fault *)
Fixpoint s_json (v : value) (l : vpr) : sres :=
  match v with
  | VFloat f =>
    if float_is_finite f then s_ok (OJson v)
    else s_fault (FKind (Unexpected ("the float " ++ float_display_nonfinite f ++ " is not representable in JSON")) l)
  | VNeg x => s_ok (OJson (if (x <? 0)%Z then VNeg x else VInt (Z.to_N x)))
  | VSeq vs =>
    s_collect ((fix go (vs : list value) (i : N) : list sres :=
                  match vs with
                  | [] => []
                  | x :: r => s_json x (Index i l) :: go r (N.succ i)
                  end) vs 0%N)
              (fun os => OJson (VSeq (map unjson os)))
  | VMap ms =>
    s_collect ((fix go (ms : list (string * value)) : list sres :=
                  match ms with
                  | [] => []
                  | (k, x) :: r => s_json x (Key k l) :: go r
                  end) ms)
              (fun os => OJson (VMap (fold_left (fun m ko => jmap_insert (fst ko) (unjson (snd ko)) m)
                                                (combine (map fst ms) os) [])))
  | _ => s_ok (OJson v)
  end.

(** ** derived structs *)
Record spfield := mkSP {
  sp_name : string; sp_key : string; sp_run : value -> vpr -> sres;
  sp_from : ffrom; sp_default : fdefault; sp_map : option N; sp_missing : option N }.

(** what one payload member contributes: (field index and value if it fills a field, its result) *)
Definition s_member (fs : list spfield) (d : deny) (l : vpr) (kv : string * value)
  : option nat * sres :=
  let (k, v) := kv in
  match (fix find (fs : list spfield) (i : nat) : option (nat * spfield) :=
           match fs with
           | [] => None
           | f :: r => if String.eqb (sp_key f) k then Some (i, f) else find r (S i)
           end) fs 0%nat with
  | Some (i, f) =>
    let r := sp_run f v (Key k l) in
    (Some i,
     match s_out r with
     | None => r
     | Some x =>
       match sp_from f with
       | FFNone => r
       | FFFrom fn => mkS (Some (OFn fn x)) [] (s_ucalls r ++ [(fn, [AOut x])])
       | FFTry fn =>
         if ufail x then mkS None [FUser (fn, [AOut x]) (Key k l)] (s_ucalls r ++ [(fn, [AOut x])])
         else mkS (Some (OFn fn x)) [] (s_ucalls r ++ [(fn, [AOut x])])
       end
     end)
  | None =>
    (None,
     match d with
     | DenyNo => mkS None [] []
     | DenyDefault => s_fault (FKind (UnknownKey k (map sp_key fs)) l)
     | DenyFn fn =>
       let args := [AStr k; AStrs (map sp_key fs); ALoc (to_owned l)] in
       mkS None [FUser (fn, args) l] [(fn, args)]
     end)
  end.

(** the value a field ends with: the last member that fills it, else its default *)
Definition s_field_value (i : nat) (f : spfield) (members : list (option nat * sres)) : option (option out) :=
  match filter (fun m => match fst m with Some j => Nat.eqb i j | None => false end) members with
  | [] => match sp_default f with FDValue o => Some (Some o) | FDMissing => None end
  | hits => Some (s_out (snd (last hits (None, mkS None [] []))))
  end.

Fixpoint indexed_nat_from {A} (l : list A) (i : nat) : list (nat * A) :=
  match l with [] => [] | x :: r => (i, x) :: indexed_nat_from r (S i) end.
Definition indexed_nat {A} (l : list A) : list (nat * A) := indexed_nat_from l 0.

Definition s_fields (fs : list spfield) (sk : list sfield) (d : deny)
           (mk : list (string * out) -> out) (ms : list (string * value)) (l : vpr) : sres :=
  let members := map (s_member fs d l) ms in
  let vals := map (fun p => s_field_value (fst p) (snd p) members) (indexed_nat fs) in
  let missing :=
      flat_map (fun p =>
                  match snd p with
                  | None =>
                    match sp_missing (fst p) with
                    | None => [(FKind (MissingField (sp_key (fst p))) l, [])]
                    | Some fn =>
                      let args := [AStr (sp_key (fst p)); ALoc (to_owned l)] in
                      [(FUser (fn, args) l, [(fn, args)])]
                    end
                  | Some _ => []
                  end) (combine fs vals) in
  let faults := (flat_map (fun m => s_faults (snd m)) members ++ map fst missing)%list in
  let ucalls := (flat_map (fun m => s_ucalls (snd m)) members ++ flat_map snd missing)%list in
  match faults with
  | [] =>
    (* every field has a value; [map] functions run in field order, skipped fields last *)
    let items :=
        (map (fun p => (sp_name (fst p), match snd p with Some (Some o) => Some o | _ => None end, sp_map (fst p)))
             (combine fs vals)
         ++ map (fun s => (sf_name s, Some (sf_default s), sf_map s)) sk)%list in
    let outs := map (fun it => match it with
                               | (n, Some o, Some fn) => (n, Some (OFn fn o), [(fn, [AOut o])])
                               | (n, Some o, None) => (n, Some o, [])
                               | (n, None, _) => (n, None, [])
                               end) items in
    mkS (option_map (fun os => mk (combine (map (fun x => fst (fst x)) outs) os))
                    (all_some (map (fun x => snd (fst x)) outs)))
        [] (ucalls ++ flat_map snd outs)
  | _ => mkS None faults ucalls
  end.

(** the [validate] tail: runs once when the value exists *)
Definition s_validate (val : option N) (l : vpr) (r : sres) : sres :=
  match val, s_out r with
  | Some fn, Some o =>
    let args := [AOut o; ALoc (to_owned l)] in
    if ufail o then mkS None [FUser (fn, args) l] (s_ucalls r ++ [(fn, args)])
    else mkS (Some o) [] (s_ucalls r ++ [(fn, args)])
  | _, _ => r
  end.

Record spvariant := mkSV { sv_ident : string; sv_key : string;
                           sv_data : option (list spfield * list sfield * deny) }.

Definition s_tagged (tag : string) (vs : list spvariant) (v : value) (l : vpr) : sres :=
  match v with
  | VMap ms =>
    match remove_first tag ms with
    | None => s_fault (FKind (MissingField tag) l)
    | Some (VStr s, rest) =>
      match find (fun sv => String.eqb (sv_key sv) s) vs with
      | Some sv =>
        match sv_data sv with
        | None => s_ok (OVariant (sv_ident sv) [])
        | Some (fs, sk, d) => s_fields fs sk d (OVariant (sv_ident sv)) rest l
        end
      | None => s_fault (FKind (Unexpected "Incorrect tag value") l)
      end
    | Some (tv, _) => s_kind tv [KString] (Key tag l)
    end
  | _ => s_kind v [KMap] l
  end.

Definition s_unit_enum (vs : list (string * string)) (v : value) (l : vpr) : sres :=
  match v with
  | VStr s =>
    match find (fun p => String.eqb (snd p) s) vs with
    | Some (ident, _) => s_ok (OVariant ident [])
    | None => s_fault (FKind (UnknownValue s (map snd vs)) l)
    end
  | _ => s_kind v [KString] l
  end.

Definition spec_f64 (v : value) : sc_out :=
  match v with
  | VInt x => SOk (OF64 (Fround.f64_of_Z (Z.of_N x)))
  | VNeg x => SOk (OF64 (Fround.f64_of_Z x))
  | VFloat b => SOk (OF64 (Fround.f64_canon b))
  | _ => SKind float_accepted
  end.
Definition spec_f32 (v : value) : sc_out :=
  match v with
  | VInt x => SOk (OF32 (Fround.f32_of_Z (Z.of_N x)))
  | VNeg x => SOk (OF32 (Fround.f32_of_Z x))
  | VFloat b => SOk (OF32 (Fround.f32_of_f64 b))
  | _ => SKind float_accepted
  end.

Fixpoint spec (t : ty) (v : value) (l : vpr) {struct t} : sres :=
  let mk_fields := fun fs : list (cfield ty) =>
      map (fun f => mkSP (cf_name f) (cf_key f) (spec (cf_ty f)) (cf_from f) (cf_default f)
                         (cf_map f) (cf_missing f)) fs in
  match t with
  | TUnit => of_sc v l (spec_unit v)
  | TBool => of_sc v l (spec_bool v)
  | TInt d => of_sc v l (spec_int d v)
  | TF32 => of_sc v l (spec_f32 v)
  | TF64 => of_sc v l (spec_f64 v)
  | TChar => of_sc v l (spec_char v)
  | TString => of_sc v l (spec_string v)
  | TPhantom => s_ok OPhantom
  | TJson => s_json v l
  | TVec t' => match v with VSeq vs => s_seq (spec t') vs l OList | _ => s_kind v [KSequence] l end
  | THashSet t' | TBTreeSet t' =>
    match v with
    | VSeq vs => s_seq (spec t') vs l (fun os => OSet (dedup_outs os []))
    | _ => s_kind v [KSequence] l
    end
  | TArray n t' =>
    match v with
    | VSeq vs =>
      if N.eqb (N.of_nat (List.length vs)) n then s_seq (spec t') vs l OList
      else s_fault (FKind (BadSequenceLen vs n) l)
    | _ => s_kind v [KSequence] l
    end
  | TTuple2 ta tb =>
    match v with
    | VSeq [x; y] => s_collect [spec ta x (Index 0 l); spec tb y (Index 1 l)] OTuple
    | VSeq vs => s_fault (FKind (BadSequenceLen vs 2) l)
    | _ => s_kind v [KSequence] l
    end
  | TTuple3 ta tb tc =>
    match v with
    | VSeq [x; y; z] => s_collect [spec ta x (Index 0 l); spec tb y (Index 1 l); spec tc z (Index 2 l)] OTuple
    | VSeq vs => s_fault (FKind (BadSequenceLen vs 3) l)
    | _ => s_kind v [KSequence] l
    end
  | TMap kp tyname t' =>
    match v with VMap ms => s_map (spec t') kp tyname ms l | _ => s_kind v [KMap] l end
  | TOption t' =>
    match v with
    | VNull => s_ok ONone
    | _ => let r := spec t' v l in mkS (option_map OSome (s_out r)) (s_faults r) (s_ucalls r)
    end
  | TBox t' => spec t' v l
  | TCS ep =>
    match v with
    | VStr s => match parse_cs ep s with
                | inl os => s_ok (OList os)
                | inr e => s_fault (FKind (Unexpected (parse_err_msg e)) l)
                end
    | _ => s_kind v [KString] l
    end
  | TStruct s val =>
    s_validate val l
      (match v with
       | VMap ms => s_fields (mk_fields (cs_fields s)) (cs_skipped s) (cs_deny s) OStruct ms l
       | _ => s_kind v [KMap] l
       end)
  | TEnumTagged tag vs val =>
    s_validate val l
      (s_tagged tag
         (map (fun cv => mkSV (cv_ident cv) (cv_key cv)
                              (match cv_data cv with
                               | VDUnit => None
                               | VDNamed s => Some (mk_fields (cs_fields s), cs_skipped s, cs_deny s)
                               end)) vs) v l)
  | TEnumUnit vs val => s_validate val l (s_unit_enum vs v l)
  | TFrom inter fn val =>
    let r := spec inter v l in
    match s_out r with
    | Some o => s_validate val l (mkS (Some (OFn fn o)) [] (s_ucalls r ++ [(fn, [AOut o])]))
    | None => r
    end
  | TTryFrom inter fn val =>
    let r := spec inter v l in
    match s_out r with
    | Some o =>
      if ufail o then mkS None [FUser (fn, [AOut o]) l] (s_ucalls r ++ [(fn, [AOut o])])
      else s_validate val l (mkS (Some (OFn fn o)) [] (s_ucalls r ++ [(fn, [AOut o])]))
    | None => r
    end
  end.

(** the documented outcome of [deserialize] under an error type that always continues *)
Definition okval (t : ty) (v : value) : option out := s_out (spec t v Origin).
Definition faults (t : ty) (v : value) (l : vpr) : list fault := s_faults (spec t v l).

(** the reports and the user-function invocations found in a trace *)
Definition trace_faults (tr : list call) : list fault :=
  flat_map (fun c => match c with
                     | CError _ _ k l => [FKind k l]
                     | CMergeU _ _ u l => [FUser u l]
                     | _ => []
                     end) tr.
Definition trace_ucalls (tr : list call) : list (N * list uarg) :=
  flat_map (fun c => match c with CUser f args => [(f, args)] | _ => [] end) tr.

(** the reports held by the error value returned by call [id]: what the final error is built from *)
Definition own_report (c : call) : list fault :=
  match c with CError _ _ k l => [FKind k l] | CMergeU _ _ u l => [FUser u l] | _ => [] end.

Fixpoint reports_under (tr : list call) (fuel : nat) (id : N) : list fault :=
  match fuel with
  | O => []
  | S f =>
    let self_of s := match s with Some x => reports_under tr f x | None => [] end in
    match nth_opt tr (N.to_nat id) with
    | Some (CError _ s k l) => FKind k l :: self_of s
    | Some (CMerge _ s _ o _) => (reports_under tr f o ++ self_of s)%list
    | Some (CMergeU _ s u l) => FUser u l :: self_of s
    | _ => []
    end
  end.

