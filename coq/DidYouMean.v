(** Model of [did_you_mean] (src/errors/helpers.rs) and of the Damerau-Levenshtein distance
    it obtains from the [strsim] crate (a dependency: modelled, tied by correspondence). *)
From Deserr Require Import Base Utf8.
Local Open Scope string_scope.
Local Open Scope nat_scope.

(** the typo budget for a received string of [len] bytes; [None] = no suggestion at all *)
Definition budget (len : nat) : option nat :=
  if len <=? 3 then None
  else if len <=? 7 then Some 1
  else if len <=? 12 then Some 2
  else if len <=? 17 then Some 3
  else if len <=? 24 then Some 4
  else Some 5.

(** [Iterator::min_by]: the first of the minimal elements *)
Fixpoint min_by (l : list (string * nat)) : option (string * nat) :=
  match l with
  | [] => None
  | x :: r =>
    match min_by r with
    | None => Some x
    | Some y => if snd y <? snd x then Some y else Some x
    end
  end.

Section Dym.
  Variable dist : string -> string -> nat.

  Definition candidates (received : string) (t : nat) (accepted : list string) : list (string * nat) :=
    filter (fun p => snd p <=? t) (map (fun a => (a, dist received a)) accepted).

  Definition dym (received : string) (accepted : list string) : string :=
    match budget (String.length received) with
    | None => ""
    | Some t =>
      match min_by (candidates received t accepted) with
      | None => ""
      | Some (a, _) => "did you mean `" ++ a ++ "`? "
      end
    end.
End Dym.

(** ** Damerau-Levenshtein distance (unrestricted, Lowrance-Wagner recurrence) over scalar values *)

Fixpoint assoc_nat (k : N) (l : list (N * nat)) : nat :=
  match l with
  | [] => 0
  | (k', v) :: r => if N.eqb k k' then v else assoc_nat k r
  end.

Definition min4 (a b c d : nat) : nat := Nat.min (Nat.min a b) (Nat.min c d).

(** one row of the matrix. Rows are stored with column -1 first, so column j is at position j+1.
    [rows]: previous rows, most recent (row i-1) first, down to row -1.
    [cur_rev]: cells of row i computed so far, reversed (head = column j-1). *)
Fixpoint fill_row (ai : N) (i : nat) (b : list N) (j : nat) (rows : list (list nat))
         (da : list (N * nat)) (cur_rev : list nat) (db : nat) : list nat :=
  match b with
  | [] => rev cur_rev
  | bj :: b' =>
    let prev := hd [] rows in
    let k := assoc_nat bj da in
    let l := db in
    let same := N.eqb ai bj in
    let cost := if same then 0 else 1 in
    let sub := nth j prev 0 + cost in
    let ins := hd 0 cur_rev + 1 in
    let del := nth (S j) prev 0 + 1 in
    let tr := nth l (nth (i - k) rows []) 0 + (i - k - 1) + 1 + (j - l - 1) in
    fill_row ai i b' (S j) rows da (min4 sub ins del tr :: cur_rev) (if same then j else db)
  end.

Fixpoint dl_rows (a : list N) (i : nat) (b : list N) (maxd : nat) (rows : list (list nat))
         (da : list (N * nat)) : list (list nat) :=
  match a with
  | [] => rows
  | ai :: a' =>
    let row := fill_row ai i b 1 rows da [i; maxd] 0 in
    dl_rows a' (S i) b maxd (row :: rows) ((ai, i) :: da)
  end.

Definition dl_chars (a b : list N) : nat :=
  let la := List.length a in
  let lb := List.length b in
  let maxd := la + lb in
  let row_m1 := repeat maxd (lb + 2) in
  let row_0 := maxd :: seq 0 (S lb) in
  let rows := dl_rows a 1 b maxd [row_0; row_m1] [] in
  last (hd [] rows) 0.

Definition dl (a b : string) : nat := dl_chars (chars a) (chars b).

Definition did_you_mean := dym dl.
