(** Model of [ValuePointerRef] / [ValuePointer] (src/value.rs:25-117). *)
From Deserr Require Import Base.

Inductive step := SKey (k : string) | SIndex (i : N).

(** [ValuePointerRef]: a linked list growing towards the leaf; [prev] is the parent. *)
Inductive vpr := Origin | Key (k : string) (prev : vpr) | Index (i : N) (prev : vpr).

Definition push_key (p : vpr) (k : string) : vpr := Key k p.
Definition push_index (p : vpr) (i : N) : vpr := Index i p.
Definition push (p : vpr) (s : step) : vpr :=
  match s with SKey k => push_key p k | SIndex i => push_index p i end.

(** a location built from the root by a sequence of pushes *)
Definition build (steps : list step) : vpr := fold_left push steps Origin.

Definition is_origin (p : vpr) : bool := match p with Origin => true | _ => false end.

Fixpoint last_field (p : vpr) : option string :=
  match p with
  | Origin => None
  | Key k _ => Some k
  | Index _ prev => last_field prev
  end.

Fixpoint first_field (p : vpr) : option string :=
  match p with
  | Origin => None
  | Key k prev => match first_field prev with Some x => Some x | None => Some k end
  | Index _ prev => first_field prev
  end.

(** [to_owned]: the loop walks back to the origin pushing components, then reverses. *)
Fixpoint walk_back (p : vpr) : list step :=
  match p with
  | Origin => []
  | Key k prev => SKey k :: walk_back prev
  | Index i prev => SIndex i :: walk_back prev
  end.
Definition to_owned (p : vpr) : list step := rev (walk_back p).

Definition step_eqb (a b : step) : bool :=
  match a, b with
  | SKey x, SKey y => String.eqb x y
  | SIndex i, SIndex j => N.eqb i j
  | _, _ => false
  end.

Definition is_key (s : step) : option string := match s with SKey k => Some k | _ => None end.

(** specification side: first / last key step of a path *)
Fixpoint first_key (l : list step) : option string :=
  match l with
  | [] => None
  | SKey k :: _ => Some k
  | SIndex _ :: r => first_key r
  end.
Definition last_key (l : list step) : option string := first_key (rev l).

Fixpoint vpr_eqb (a b : vpr) : bool :=
  match a, b with
  | Origin, Origin => true
  | Key k p, Key k' p' => String.eqb k k' && vpr_eqb p p'
  | Index i p, Index i' p' => N.eqb i i' && vpr_eqb p p'
  | _, _ => false
  end.

(** [anc a b]: location [a] is an ancestor-or-self of [b] (a prefix of its path) *)
Fixpoint is_prefix (a b : list step) : bool :=
  match a, b with
  | [], _ => true
  | x :: r, y :: s => step_eqb x y && is_prefix r s
  | _ :: _, [] => false
  end.
Definition anc (a b : vpr) : bool := is_prefix (to_owned a) (to_owned b).
