(** IEEE-754 round-to-nearest-even conversions in plain integer arithmetic (no real numbers,
    no axioms): [u64/i64 as f64], [u64/i64 as f32], [f64 as f32] on bit patterns.
    Checked against Flocq's [binary_normalize] on every run (checks/K05.v). *)
From Coq Require Import ZArith NArith Bool.
Local Open Scope N_scope.
Local Open Scope bool_scope.

Definition nan64 : N := 9221120237041090560.   (* 0x7ff8000000000000 *)
Definition nan32 : N := 2143289344.            (* 0x7fc00000 *)

(** m / 2^shift rounded to nearest, ties to even *)
Definition round_even (m shift : N) : N :=
  if shift =? 0 then m else
  let q := N.shiftr m shift in
  let r := m - N.shiftl q shift in
  let half := N.shiftl 1 (shift - 1) in
  if half <? r then q + 1
  else if (r =? half) && N.odd q then q + 1
  else q.

(** the bit pattern of the value [m * 2^e] (m > 0) rounded into the format with [prec] bits of
    precision (hidden bit included) and [ebits] exponent bits; overflow gives infinity *)
Definition encode (prec ebits : N) (sign : bool) (m : N) (e : Z) : N :=
  let bias := Z.of_N (N.shiftl 1 (ebits - 1) - 1) in
  let emin := (1 - bias)%Z in
  let k := N.size m in
  let E := (e + Z.of_N k - 1)%Z in
  let signbit := if sign then N.shiftl 1 (prec - 1 + ebits) else 0 in
  let maxexp := N.shiftl 1 ebits - 1 in
  let body :=
      if (emin <=? E)%Z then
        (* normal: keep prec bits *)
        let mant := if prec <? k then round_even m (k - prec) else N.shiftl m (prec - k) in
        N.shiftl (Z.to_N (E + bias)) (prec - 1) + (mant - N.shiftl 1 (prec - 1))
      else
        (* subnormal: unit is 2^(emin - prec + 1) *)
        let shift := (emin - Z.of_N prec + 1 - e)%Z in
        round_even m (Z.to_N shift) in
  let inf := N.shiftl maxexp (prec - 1) in
  signbit + (if inf <=? body then inf else body).

Definition f64_of_Z (z : Z) : N :=
  match z with
  | Z0 => 0
  | Zpos p => encode 53 11 false (Npos p) 0
  | Zneg p => encode 53 11 true (Npos p) 0
  end.
Definition f32_of_Z (z : Z) : N :=
  match z with
  | Z0 => 0
  | Zpos p => encode 24 8 false (Npos p) 0
  | Zneg p => encode 24 8 true (Npos p) 0
  end.

Definition f32_of_f64 (b : N) : N :=
  let sign := N.testbit b 63 in
  let ef := N.land (N.shiftr b 52) 2047 in
  let mf := N.land b 4503599627370495 in
  let signbit := if sign then 2147483648 else 0 in
  if ef =? 2047 then (if mf =? 0 then signbit + 2139095040 else nan32)
  else if ef =? 0 then (if mf =? 0 then signbit else encode 24 8 sign mf (-1074))
  else encode 24 8 sign (mf + 4503599627370496) (Z.of_N ef - 1075).

(** identity on f64 except that every NaN becomes the canonical one *)
Definition f64_canon (b : N) : N :=
  if (N.land (N.shiftr b 52) 2047 =? 2047) && negb (N.land b 4503599627370495 =? 0) then nan64 else b.
