(** C07 - derived fields are read from exactly their effective key. *)
From Deserr Require Import Base Pointer Kinds Value Scalars Types Prog Deser Derive Spec Monitors.
From Deserr.proofs Require Import DeriveProofs RefineFields FieldsSpec.
Local Open Scope string_scope.

(** The match arms generated for a struct (or a struct-like variant) are, position by position,
    the NON-SKIPPED fields in DECLARATION order, each with its identifier, its effective key
    ([key_name_for_ident]: rename, else the applicable rename_all, else the identifier), its own
    type / error type / conversion / default / map / missing-field function. This holds for every
    field list in any declaration order and attribute mix: the stable sort that moves skipped
    fields last and the positional zip of the vectors ([quote!]'s `#( ... )*`) never pair a key
    with another field's data. *)
Theorem c07_pairing : forall fs ra v,
  named_vectors fs ra = Accept v ->
  exists extra,
    Forall2 (fun f x => fst x = f /\ read_fattrs (fd_attrs f) = Some (snd x)) fs extra
    /\ Forall2 (field_of ra)
               (filter (fun x => negb (fa_skipped (snd x))) extra)
               (zip_fields (v_names v) (v_keys v) (v_tys v) (v_errs v) (v_froms v) (v_defaults v)
                           (v_maps v) (v_missing v)).
Proof. exact named_vectors_pairing. Qed.

(** On an enum the container's rename_all renames the variant only; the fields of a variant are
    renamed by that variant's own rename_all (none if it has none). *)
Theorem c07_variant_scope : forall ca v cv,
  expand_variant ca v = Accept cv ->
  exists va, read_vattrs (vr_attrs v) = Some va
    /\ cv_key cv = key_name_for_ident (vr_ident v) (ca_rename_all ca) (va_rename va)
    /\ match vr_shape v with
       | VSNamed fs => exists s, cv_data cv = VDNamed s /\ named_struct fs (va_rename_all va) (ca_deny ca) = Accept s
       | VSUnit => cv_data cv = VDUnit
       | VSUnnamed => False
       end.
Proof. exact expand_variant_scope. Qed.

(** the effective key: rename wins, then rename_all, then the identifier - the identifier itself,
    i.e. without the raw-identifier escape: the field [r#type] is keyed [type] *)
Theorem c07_effective_key : forall ident ra name,
  key_name_for_ident ident ra (Some name) = name
  /\ key_name_for_ident ident None None = unraw ident
  /\ key_name_for_ident ident (Some RALower) None = lowercase (unraw ident)
  /\ key_name_for_ident ident (Some RACamel) None = camel_case (unraw ident).
Proof. intros. repeat split. Qed.

Example c07_unraw : unraw "r#type" = "type" /\ unraw "type" = "type" /\ unraw "r#" = "r#" /\ unraw "r" = "r"
                     /\ key_name_for_ident "r#type" None None = "type" /\ key_name_for_ident "r#my_loop" (Some RACamel) None = "myLoop".
Proof. vm_compute. repeat split. Qed.

Example c07_camel_examples :
  camel_case "my_field" = "myField" /\ camel_case "http_url2" = "httpUrl2" /\ camel_case "_lead" = "lead"
  /\ camel_case "a__b" = "aB" /\ camel_case "xY" = "xY" /\ camel_case "HTTPServer" = "httpServer"
  /\ camel_case "X2y" = "x2Y" /\ lowercase "MyField_X" = "myfield_x".
Proof. vm_compute. repeat split. Qed.

(* a skipped field in the middle: the keys still belong to the right fields *)
Example c07_skipped_in_the_middle :
  let f n attrs := mkField n attrs (Accept TBool, Some (OBool false)) in
  match named_vectors [f "first_one" []; f "skipped" [[FASkip]]; f "last" [[FARename "L"]]] (Some RACamel) with
  | Accept v => (v_names v, v_keys v) = (["first_one"; "last"; "skipped"], ["firstOne"; "L"])
  | _ => False
  end.
Proof. vm_compute. reflexivity. Qed.

(** At the level of the specification (which the interpreter refines, C02): with distinct
    effective keys and distinct payload keys, the value a field ends with is the result of the one
    member carrying exactly its effective key - whatever the other members are - and its default
    when no member carries that key. *)
Theorem c07_field_filled_from_own_key : forall fs d l i f ms,
  NoDup (map sp_key fs) -> NoDup (map fst ms) -> nth_error fs i = Some f ->
  s_field_value i f (map (s_member fs d l) ms)
  = match lookup_key (sp_key f) ms with
    | Some v => Some (s_out (snd (s_member fs d l (sp_key f, v))))
    | None => match sp_default f with FDValue o => Some (Some o) | FDMissing => None end
    end.
Proof. exact field_filled_from_own_key. Qed.

(** ... and that member is read with the specification of the field's own type, at the location of
    its key, followed by the field's own conversion *)
Theorem c07_own_member_result : forall fs d l i f v,
  NoDup (map sp_key fs) -> nth_error fs i = Some f ->
  s_member fs d l (sp_key f, v)
  = (Some i,
     let r := sp_run f v (Key (sp_key f) l) in
     match s_out r with
     | None => r
     | Some x =>
       match sp_from f with
       | FFNone => r
       | FFFrom fn => mkS (Some (OFn fn x)) [] (s_ucalls r ++ [(fn, [AOut x])])
       | FFTry fn =>
         if ufail x then mkS None [FUser (fn, [AOut x]) (Key (sp_key f) l)] (s_ucalls r ++ [(fn, [AOut x])])
         else mkS (Some (OFn fn x)) [] (s_ucalls r ++ [(fn, [AOut x])])
       end
     end).
Proof. exact own_member_result. Qed.

Check c07_field_filled_from_own_key : forall fs d l i f ms,
  NoDup (map sp_key fs) -> NoDup (map fst ms) -> nth_error fs i = Some f ->
  s_field_value i f (map (s_member fs d l) ms)
  = match lookup_key (sp_key f) ms with
    | Some v => Some (s_out (snd (s_member fs d l (sp_key f, v))))
    | None => match sp_default f with FDValue o => Some (Some o) | FDMissing => None end
    end.
Check c07_own_member_result : forall fs d l i f v,
  NoDup (map sp_key fs) -> nth_error fs i = Some f ->
  s_member fs d l (sp_key f, v)
  = (Some i,
     let r := sp_run f v (Key (sp_key f) l) in
     match s_out r with
     | None => r
     | Some x =>
       match sp_from f with
       | FFNone => r
       | FFFrom fn => mkS (Some (OFn fn x)) [] (s_ucalls r ++ [(fn, [AOut x])])
       | FFTry fn =>
         if ufail x then mkS None [FUser (fn, [AOut x]) (Key (sp_key f) l)] (s_ucalls r ++ [(fn, [AOut x])])
         else mkS (Some (OFn fn x)) [] (s_ucalls r ++ [(fn, [AOut x])])
       end
     end).

Check c07_pairing : forall fs ra v,
  named_vectors fs ra = Accept v ->
  exists extra,
    Forall2 (fun f x => fst x = f /\ read_fattrs (fd_attrs f) = Some (snd x)) fs extra
    /\ Forall2 (field_of ra)
               (filter (fun x => negb (fa_skipped (snd x))) extra)
               (zip_fields (v_names v) (v_keys v) (v_tys v) (v_errs v) (v_froms v) (v_defaults v)
                           (v_maps v) (v_missing v)).
Check c07_variant_scope : forall ca v cv,
  expand_variant ca v = Accept cv ->
  exists va, read_vattrs (vr_attrs v) = Some va
    /\ cv_key cv = key_name_for_ident (vr_ident v) (ca_rename_all ca) (va_rename va)
    /\ match vr_shape v with
       | VSNamed fs => exists s, cv_data cv = VDNamed s /\ named_struct fs (va_rename_all va) (ca_deny ca) = Accept s
       | VSUnit => cv_data cv = VDUnit
       | VSUnnamed => False
       end.
Check c07_effective_key : forall ident ra name,
  key_name_for_ident ident ra (Some name) = name
  /\ key_name_for_ident ident None None = unraw ident
  /\ key_name_for_ident ident (Some RALower) None = lowercase (unraw ident)
  /\ key_name_for_ident ident (Some RACamel) None = camel_case (unraw ident).
Print Assumptions c07_pairing.
Print Assumptions c07_variant_scope.
Print Assumptions c07_effective_key.
Print Assumptions c07_field_filled_from_own_key.
Print Assumptions c07_own_member_result.

(** Without the hypothesis of distinct effective keys (the derive accepts two fields claiming one
    key): a member can only fill a field whose effective key is exactly the member's key - "from no
    other entry" - and it fills the first field declared with that key; a member whose key some
    field claims does fill a field. *)
Theorem c07_member_fills_first_claimant : forall fs d l k v i,
  fst (s_member fs d l (k, v)) = Some i ->
  exists f, nth_error fs i = Some f /\ sp_key f = k
            /\ forall j g, (j < i)%nat -> nth_error fs j = Some g -> sp_key g <> k.
Proof. exact member_fills_first_claimant. Qed.

Theorem c07_claimed_key_fills : forall fs d l k v f,
  In f fs -> sp_key f = k -> exists i, fst (s_member fs d l (k, v)) = Some i.
Proof. exact member_with_claimed_key_fills. Qed.

Check c07_member_fills_first_claimant : forall fs d l k v i,
  fst (s_member fs d l (k, v)) = Some i ->
  exists f, nth_error fs i = Some f /\ sp_key f = k
            /\ forall j g, (j < i)%nat -> nth_error fs j = Some g -> sp_key g <> k.
Check c07_claimed_key_fills : forall fs d l k v f,
  In f fs -> sp_key f = k -> exists i, fst (s_member fs d l (k, v)) = Some i.
Print Assumptions c07_member_fills_first_claimant.
Print Assumptions c07_claimed_key_fills.
