(** C01 - no reported error is ever lost: Ok only when nothing was reported. *)
From Coq Require Import Permutation.
From Deserr Require Import Base Pointer Kinds Value Prog Utf8 Scalars Types Deser Monitors.
From Deserr.proofs Require Import LinProofs C01Proofs.

(** For every target type (std scalars and containers, serde_json::Value, derived structs and
    enums with any attribute combination), every payload, every location, every script of
    Continue/Break answers and every starting state:

    Ok  =>  the calls made during the run ([ext]) contain no call to the error type at all
            ([any_creates ext = false]: only user-function invocations may appear). *)
Theorem c01_ok_silent : forall t a v l script s o s',
  run script (deser t a v l) s = (ROk o, s') ->
  exists ext, s' = s ++ ext /\ any_creates ext = false.
Proof. exact deser_ok_silent. Qed.

(** Err e  =>  [e] plus all error values consumed by the calls of the run (as [self_] or [other])
    is a permutation of the error values created by those calls: every report and every merge
    result ends up in the returned error exactly once - none dropped, none counted twice. *)
Theorem c01_linear : forall t a v l script s e s',
  run script (deser t a v l) s = (RErr e, s') ->
  exists ext, s' = s ++ ext
    /\ Permutation (e :: flat_map call_uses ext) (created_ids ext (N.of_nat (List.length s)))
    /\ (e < N.of_nat (List.length s'))%N.
Proof. exact deser_err_linear. Qed.

Theorem c01_each_exactly_once : forall t a v l script s e s',
  run script (deser t a v l) s = (RErr e, s') ->
  exists ext, s' = s ++ ext /\
    forall x, In x (created_ids ext (N.of_nat (List.length s))) ->
              count_N x (e :: flat_map call_uses ext) = 1%nat.
Proof. exact deser_err_each_once. Qed.

(* non-vacuity: a three-fault payload under a mixed script through a struct with a Vec field *)
Example c01_example :
  let u8 := TInt {| i_signed := false; i_width := W8; i_nonzero := false |} in
  let t := TStruct (mkCS [mkCF "a" "a" (TVec u8) None FFNone FDMissing None None;
                          mkCF "b" "b" TBool None FFNone FDMissing None None] [] DenyDefault) None in
  let v := VMap [("a", VSeq [VInt 1; VInt 1000; VStr "x"]); ("zzz", VNull)]%string in
  let r := run (fun i => negb (N.eqb i 7)) (deser t 0 v Origin) [] in
  c01_ok (fst r) (snd r) = true /\ List.length (snd r) = 7%nat /\ fst r = RErr 6.
Proof. vm_compute. repeat split. Qed.

Check c01_ok_silent : forall t a v l script s o s',
  run script (deser t a v l) s = (ROk o, s') -> exists ext, s' = s ++ ext /\ any_creates ext = false.
Check c01_linear : forall t a v l script s e s',
  run script (deser t a v l) s = (RErr e, s') ->
  exists ext, s' = s ++ ext
    /\ Permutation (e :: flat_map call_uses ext) (created_ids ext (N.of_nat (List.length s)))
    /\ (e < N.of_nat (List.length s'))%N.
Check c01_each_exactly_once : forall t a v l script s e s',
  run script (deser t a v l) s = (RErr e, s') ->
  exists ext, s' = s ++ ext /\
    forall x, In x (created_ids ext (N.of_nat (List.length s))) -> count_N x (e :: flat_map call_uses ext) = 1%nat.
Print Assumptions c01_ok_silent.
Print Assumptions c01_linear.
Print Assumptions c01_each_exactly_once.
