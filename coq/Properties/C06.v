(** C06 - containers keep structure: order, arity, None-iff-null, set and map semantics. *)
From Deserr Require Import Base Pointer Kinds Value Prog Utf8 Scalars Types Deser Spec Monitors.
From Deserr.proofs Require Import MiscProofs RefineBase RefineLoops RefineStruct SortedIns C06More CSProofs.

(** arrays and tuples require exactly their arity; otherwise the whole offending sequence is
    reported once with the expected length, from any state, under any script *)
Theorem c06_array_arity : forall script a n t vs l s,
  N.of_nat (List.length vs) <> n ->
  run script (deser (TArray n t) a (VSeq vs) l) s
  = (RErr (N.of_nat (List.length s)), s ++ [CError a None (BadSequenceLen vs n) l]).
Proof. exact array_bad_len. Qed.
Theorem c06_tuple2_arity : forall script a ta tb vs l s,
  List.length vs <> 2%nat ->
  run script (deser (TTuple2 ta tb) a (VSeq vs) l) s
  = (RErr (N.of_nat (List.length s)), s ++ [CError a None (BadSequenceLen vs 2) l]).
Proof. exact tuple2_bad_len. Qed.
Theorem c06_tuple3_arity : forall script a ta tb tc vs l s,
  List.length vs <> 3%nat ->
  run script (deser (TTuple3 ta tb tc) a (VSeq vs) l) s
  = (RErr (N.of_nat (List.length s)), s ++ [CError a None (BadSequenceLen vs 3) l]).
Proof. exact tuple3_bad_len. Qed.

(** Option: None exactly for null, otherwise its content's result wrapped in Some *)
Theorem c06_option_null : forall script a t l s, run script (deser (TOption t) a VNull l) s = (ROk ONone, s).
Proof. exact option_null. Qed.
Theorem c06_option_some : forall a t v l, v <> VNull -> deser (TOption t) a v l = map_ok (deser t a v l) OSome.
Proof. exact option_some. Qed.
Theorem c06_box : forall a t v l, deser (TBox t) a v l = deser t a v l.
Proof. exact box_transparent. Qed.

(** Vec: a successful result has one output per payload element, in payload order, output i
    being the Ok result of element i deserialized at index i: nothing dropped, duplicated or
    reordered (any script, any state) *)
Theorem c06_vec_elements : forall script a t vs l s os s',
  run script (deser (TVec t) a (VSeq vs) l) s = (ROk (OList os), s') ->
  Forall2 (elem_ok script (deser t a) l) (indexed_from vs 0) os.
Proof. exact vec_elements. Qed.
Theorem c06_vec_length : forall script a t vs l s os s',
  run script (deser (TVec t) a (VSeq vs) l) s = (ROk (OList os), s') -> List.length os = List.length vs.
Proof. exact vec_same_length. Qed.

(** maps: a member whose key cannot be parsed makes the call fail, whatever the error type answers *)
Theorem c06_map_bad_key_fails : forall script a kp n t ms l s k v e,
  In (k, v) ms -> parse_key kp k = inr e ->
  is_err (fst (run script (deser (TMap kp n t) a (VMap ms) l) s)).
Proof. exact map_bad_key_fails. Qed.

(** Sets and maps as values (keep-going error type; through the refinement theorem of C02):
    a successful HashSet/BTreeSet is the de-duplication of its element values, a successful map is
    the fold of [map_insert] over its members in payload order. *)
Theorem c06_set_value : forall t a vs l s o s',
  run (fun _ => true) (deser (THashSet t) a (VSeq vs) l) s = (ROk o, s') ->
  exists os, all_some (map (fun iv => s_out (spec t (snd iv) (Index (fst iv) l))) (indexed vs 0)) = Some os
             /\ o = OSet (dedup_outs os []).
Proof.
  intros t a vs l s o s' Hrun. destruct (deser_refines_spec (THashSet t) a (VSeq vs) l s) as (r & ext & Hr & _ & _ & Hm).
  rewrite Hrun in Hr. inversion Hr; subst r. destruct Hm as [Ho Hf]. cbn [spec] in Ho, Hf.
  unfold s_seq, s_collect in Ho, Hf. cbn [s_out s_faults] in Ho, Hf. rewrite Hf in Ho. rewrite map_map in Ho.
  destruct (all_some (map (fun x => s_out (spec t (snd x) (Index (fst x) l))) (indexed vs 0))) as [os|]; [|discriminate].
  exists os. split; [reflexivity|]. inversion Ho. reflexivity.
Qed.

Theorem c06_map_value : forall kp n t a ms l s o s',
  run (fun _ => true) (deser (TMap kp n t) a (VMap ms) l) s = (ROk o, s') ->
  exists m, map_fold (map (map_member_spec (spec t) kp n l) ms) [] = Some m /\ o = OMap m.
Proof.
  intros kp n t a ms l s o s' Hrun. destruct (deser_refines_spec (TMap kp n t) a (VMap ms) l s) as (r & ext & Hr & _ & _ & Hm).
  rewrite Hrun in Hr. inversion Hr; subst r. destruct Hm as [Ho Hf]. cbn [spec] in Ho, Hf.
  unfold s_map in Ho, Hf. cbn [s_out s_faults] in Ho, Hf. rewrite Hf in Ho.
  change (map (fun kv : string * value =>
                 match parse_key kp (fst kv) with
                 | inl ko => (Some ko, spec t (snd kv) (Key (fst kv) l))
                 | inr _ => (None, s_fault (FKind (Unexpected (key_msg (fst kv) n)) l))
                 end) ms) with (map (map_member_spec (spec t) kp n l) ms) in Ho.
  fold (map_fold (map (map_member_spec (spec t) kp n l) ms) []) in Ho.
  destruct (map_fold (map (map_member_spec (spec t) kp n l) ms) []) as [m|]; [|discriminate].
  exists m. split; [reflexivity|]. inversion Ho. reflexivity.
Qed.

(** what de-duplication keeps: only elements of the list, none equal to one kept before it, and
    every element of the list is kept or equals a kept one *)
Theorem c06_set_members : forall l y, In y (dedup_outs l []) -> In y l.
Proof. intros l y. apply dedup_in. Qed.
Theorem c06_set_distinct : forall l, later_distinct (dedup_outs l []).
Proof. intros l. apply dedup_distinct. Qed.
Theorem c06_set_covers : forall l x, In x l ->
  In x (dedup_outs l []) \/ exists y, In y (dedup_outs l []) /\ out_eqb x y = true.
Proof.
  intros l x H. destruct (dedup_covers l [] x H) as [Hin|(y & [[]|Hy] & E)]; [left; exact Hin|right; exists y; split; assumption].
Qed.

(** [map_insert] is a finite-map update: the inserted key is bound to the new value (so the last
    member with a given parsed key wins), every other key keeps its binding *)
Theorem c06_map_insert_same : forall k v m, key_cmp k k = Eq -> ssorted out out key_cmp m -> map_lookup k (map_insert k v m) = Some v.
Proof. exact map_lookup_insert_same. Qed.
Theorem c06_map_insert_other : forall k v k' m,
  key_cmp k' k <> Eq -> ssorted out out key_cmp m -> map_lookup k' (map_insert k v m) = map_lookup k' m.
Proof. exact map_lookup_insert_other. Qed.

Check c06_set_value : forall t a vs l s o s',
  run (fun _ => true) (deser (THashSet t) a (VSeq vs) l) s = (ROk o, s') ->
  exists os, all_some (map (fun iv => s_out (spec t (snd iv) (Index (fst iv) l))) (indexed vs 0)) = Some os
             /\ o = OSet (dedup_outs os []).
Check c06_map_value : forall kp n t a ms l s o s',
  run (fun _ => true) (deser (TMap kp n t) a (VMap ms) l) s = (ROk o, s') ->
  exists m, map_fold (map (map_member_spec (spec t) kp n l) ms) [] = Some m /\ o = OMap m.
Check c06_set_members : forall l y, In y (dedup_outs l []) -> In y l.
Check c06_set_distinct : forall l, later_distinct (dedup_outs l []).
Check c06_set_covers : forall l x, In x l ->
  In x (dedup_outs l []) \/ exists y, In y (dedup_outs l []) /\ out_eqb x y = true.
Check c06_map_insert_same : forall k v m, key_cmp k k = Eq -> ssorted out out key_cmp m -> map_lookup k (map_insert k v m) = Some v.
Check c06_map_insert_other : forall k v k' m,
  key_cmp k' k <> Eq -> ssorted out out key_cmp m -> map_lookup k' (map_insert k v m) = map_lookup k' m.

Check c06_array_arity : forall script a n t vs l s,
  N.of_nat (List.length vs) <> n ->
  run script (deser (TArray n t) a (VSeq vs) l) s
  = (RErr (N.of_nat (List.length s)), s ++ [CError a None (BadSequenceLen vs n) l]).
Check c06_tuple2_arity : forall script a ta tb vs l s,
  List.length vs <> 2%nat ->
  run script (deser (TTuple2 ta tb) a (VSeq vs) l) s
  = (RErr (N.of_nat (List.length s)), s ++ [CError a None (BadSequenceLen vs 2) l]).
Check c06_tuple3_arity : forall script a ta tb tc vs l s,
  List.length vs <> 3%nat ->
  run script (deser (TTuple3 ta tb tc) a (VSeq vs) l) s
  = (RErr (N.of_nat (List.length s)), s ++ [CError a None (BadSequenceLen vs 3) l]).
Check c06_option_null : forall script a t l s, run script (deser (TOption t) a VNull l) s = (ROk ONone, s).
Check c06_option_some : forall a t v l, v <> VNull -> deser (TOption t) a v l = map_ok (deser t a v l) OSome.
Check c06_box : forall a t v l, deser (TBox t) a v l = deser t a v l.
Check c06_vec_elements : forall script a t vs l s os s',
  run script (deser (TVec t) a (VSeq vs) l) s = (ROk (OList os), s') ->
  Forall2 (elem_ok script (deser t a) l) (indexed_from vs 0) os.
Check c06_vec_length : forall script a t vs l s os s',
  run script (deser (TVec t) a (VSeq vs) l) s = (ROk (OList os), s') -> List.length os = List.length vs.
Check c06_map_bad_key_fails : forall script a kp n t ms l s k v e,
  In (k, v) ms -> parse_key kp k = inr e -> is_err (fst (run script (deser (TMap kp n t) a (VMap ms) l) s)).
Print Assumptions c06_array_arity.
Print Assumptions c06_tuple2_arity.
Print Assumptions c06_tuple3_arity.
Print Assumptions c06_option_null.
Print Assumptions c06_option_some.
Print Assumptions c06_box.
Print Assumptions c06_vec_elements.
Print Assumptions c06_vec_length.
Print Assumptions c06_map_bad_key_fails.
Print Assumptions c06_set_value.
Print Assumptions c06_map_value.
Print Assumptions c06_set_members.
Print Assumptions c06_set_distinct.
Print Assumptions c06_set_covers.
Print Assumptions c06_map_insert_same.
Print Assumptions c06_map_insert_other.

(** Comma-separated lists ([CS<T>]) and string keys, for every string: the segments joined with
    commas are the text, none contains a comma, and that determines them; only *empty* segments
    are dropped (a blank one is an element); the list succeeds exactly when every remaining segment
    parses, with the parsed segments in order, and fails with the error of the first one that does
    not; an integer key or element parses only to a value of the target's domain, and the
    canonical decimal text of every value of the domain parses to it. *)
Theorem c06_cs_split_join : forall s, join_comma (split_comma s "") = s.
Proof. exact split_join. Qed.

Theorem c06_cs_segments_comma_free : forall s, Forall (fun x => comma_free x = true) (split_comma s "").
Proof. exact split_comma_free. Qed.

Theorem c06_cs_split_determined : forall l, l <> [] -> Forall (fun x => comma_free x = true) l -> split_comma (join_comma l) "" = l.
Proof. exact split_inverse. Qed.

Theorem c06_cs_dropped_iff_empty : forall s x, In x (segments s) <-> In x (split_comma s "") /\ x <> ""%string.
Proof. exact segments_spec. Qed.

Theorem c06_cs_ok : forall kp s os, parse_cs kp s = inl os <-> Forall2 (fun x o => parse_key kp x = inl o) (segments s) os.
Proof. exact parse_cs_ok. Qed.

Theorem c06_cs_err : forall kp s e, parse_cs kp s = inr e <->
  exists pre x post os, segments s = (pre ++ x :: post)%list /\ Forall2 (fun x o => parse_key kp x = inl o) pre os /\ parse_key kp x = inr e.
Proof. exact parse_cs_err. Qed.

Theorem c06_cs_strings : forall s, parse_cs KPString s = inl (map OStr (segments s)).
Proof. exact parse_cs_strings. Qed.

Theorem c06_cs_run : forall script a kp v l s,
  run script (deser_cs a kp v l) s
  = match v with
    | VStr str =>
      match parse_cs kp str with
      | inl os => (ROk (OList os), s)
      | inr e => (RErr (N.of_nat (List.length s)), (s ++ [CError a None (Unexpected (parse_err_msg e)) l])%list)
      end
    | _ => (RErr (N.of_nat (List.length s)), (s ++ [CError a None (IncorrectValueKind v [KString]) l])%list)
    end.
Proof. exact deser_cs_run. Qed.

Theorem c06_key_int_sound : forall d s z, parse_int d s = inl z -> (imin d <= z <= imax d)%Z /\ (i_nonzero d = true -> z <> 0%Z).
Proof. exact parse_int_sound. Qed.

Theorem c06_key_int_canonical : forall d z, (imin d <= z <= imax d)%Z -> (i_nonzero d = true -> z <> 0%Z) -> parse_int d (dec_Z z) = inl z.
Proof. exact parse_int_dec. Qed.

Check c06_cs_split_join : forall s, join_comma (split_comma s "") = s.
Check c06_cs_segments_comma_free : forall s, Forall (fun x => comma_free x = true) (split_comma s "").
Check c06_cs_split_determined : forall l, l <> [] -> Forall (fun x => comma_free x = true) l -> split_comma (join_comma l) "" = l.
Check c06_cs_dropped_iff_empty : forall s x, In x (segments s) <-> In x (split_comma s "") /\ x <> ""%string.
Check c06_cs_ok : forall kp s os, parse_cs kp s = inl os <-> Forall2 (fun x o => parse_key kp x = inl o) (segments s) os.
Check c06_cs_err : forall kp s e, parse_cs kp s = inr e <->
  exists pre x post os, segments s = (pre ++ x :: post)%list /\ Forall2 (fun x o => parse_key kp x = inl o) pre os /\ parse_key kp x = inr e.
Check c06_cs_strings : forall s, parse_cs KPString s = inl (map OStr (segments s)).
Check c06_cs_run : forall script a kp v l s,
  run script (deser_cs a kp v l) s
  = match v with
    | VStr str =>
      match parse_cs kp str with
      | inl os => (ROk (OList os), s)
      | inr e => (RErr (N.of_nat (List.length s)), (s ++ [CError a None (Unexpected (parse_err_msg e)) l])%list)
      end
    | _ => (RErr (N.of_nat (List.length s)), (s ++ [CError a None (IncorrectValueKind v [KString]) l])%list)
    end.
Check c06_key_int_sound : forall d s z, parse_int d s = inl z -> (imin d <= z <= imax d)%Z /\ (i_nonzero d = true -> z <> 0%Z).
Check c06_key_int_canonical : forall d z, (imin d <= z <= imax d)%Z -> (i_nonzero d = true -> z <> 0%Z) -> parse_int d (dec_Z z) = inl z.
Print Assumptions c06_cs_split_join.
Print Assumptions c06_cs_segments_comma_free.
Print Assumptions c06_cs_split_determined.
Print Assumptions c06_cs_dropped_iff_empty.
Print Assumptions c06_cs_ok.
Print Assumptions c06_cs_err.
Print Assumptions c06_cs_strings.
Print Assumptions c06_cs_run.
Print Assumptions c06_key_int_sound.
Print Assumptions c06_key_int_canonical.
