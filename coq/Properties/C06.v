(** C06 - containers keep structure: order, arity, None-iff-null, set and map semantics. *)
From Deserr Require Import Base Pointer Kinds Value Prog Utf8 Scalars Types Deser Monitors.
From Deserr.proofs Require Import MiscProofs.

(** arrays and tuples require exactly their arity; otherwise the whole offending sequence is
    reported once with the expected length, from any state, under any script *)
Theorem c06_array_arity : forall script a n t vs l s,
  N.of_nat (List.length vs) <> n ->
  run script (deser (TArray n t) a (VSeq vs) l) s
  = (RErr (N.of_nat (List.length s)), s ++ [CError a None (BadSequenceLen vs n) l]).
Proof. exact array_bad_len. Qed.
Theorem c06_tuple2_arity : forall script a ta tb vs l s,
  List.length vs <> 2%nat ->
  run script (deser (TTuple2 ta tb) a (VSeq vs) l) s
  = (RErr (N.of_nat (List.length s)), s ++ [CError a None (BadSequenceLen vs 2) l]).
Proof. exact tuple2_bad_len. Qed.
Theorem c06_tuple3_arity : forall script a ta tb tc vs l s,
  List.length vs <> 3%nat ->
  run script (deser (TTuple3 ta tb tc) a (VSeq vs) l) s
  = (RErr (N.of_nat (List.length s)), s ++ [CError a None (BadSequenceLen vs 3) l]).
Proof. exact tuple3_bad_len. Qed.

(** Option: None exactly for null, otherwise its content's result wrapped in Some *)
Theorem c06_option_null : forall script a t l s, run script (deser (TOption t) a VNull l) s = (ROk ONone, s).
Proof. exact option_null. Qed.
Theorem c06_option_some : forall a t v l, v <> VNull -> deser (TOption t) a v l = map_ok (deser t a v l) OSome.
Proof. exact option_some. Qed.
Theorem c06_box : forall a t v l, deser (TBox t) a v l = deser t a v l.
Proof. exact box_transparent. Qed.

(** Vec: a successful result has one output per payload element, in payload order, output i
    being the Ok result of element i deserialized at index i: nothing dropped, duplicated or
    reordered (any script, any state) *)
Theorem c06_vec_elements : forall script a t vs l s os s',
  run script (deser (TVec t) a (VSeq vs) l) s = (ROk (OList os), s') ->
  Forall2 (elem_ok script (deser t a) l) (indexed_from vs 0) os.
Proof. exact vec_elements. Qed.
Theorem c06_vec_length : forall script a t vs l s os s',
  run script (deser (TVec t) a (VSeq vs) l) s = (ROk (OList os), s') -> List.length os = List.length vs.
Proof. exact vec_same_length. Qed.

(** maps: a member whose key cannot be parsed makes the call fail, whatever the error type answers *)
Theorem c06_map_bad_key_fails : forall script a kp n t ms l s k v e,
  In (k, v) ms -> parse_key kp k = inr e ->
  is_err (fst (run script (deser (TMap kp n t) a (VMap ms) l) s)).
Proof. exact map_bad_key_fails. Qed.

Check c06_array_arity : forall script a n t vs l s,
  N.of_nat (List.length vs) <> n ->
  run script (deser (TArray n t) a (VSeq vs) l) s
  = (RErr (N.of_nat (List.length s)), s ++ [CError a None (BadSequenceLen vs n) l]).
Check c06_tuple2_arity : forall script a ta tb vs l s,
  List.length vs <> 2%nat ->
  run script (deser (TTuple2 ta tb) a (VSeq vs) l) s
  = (RErr (N.of_nat (List.length s)), s ++ [CError a None (BadSequenceLen vs 2) l]).
Check c06_tuple3_arity : forall script a ta tb tc vs l s,
  List.length vs <> 3%nat ->
  run script (deser (TTuple3 ta tb tc) a (VSeq vs) l) s
  = (RErr (N.of_nat (List.length s)), s ++ [CError a None (BadSequenceLen vs 3) l]).
Check c06_option_null : forall script a t l s, run script (deser (TOption t) a VNull l) s = (ROk ONone, s).
Check c06_option_some : forall a t v l, v <> VNull -> deser (TOption t) a v l = map_ok (deser t a v l) OSome.
Check c06_box : forall a t v l, deser (TBox t) a v l = deser t a v l.
Check c06_vec_elements : forall script a t vs l s os s',
  run script (deser (TVec t) a (VSeq vs) l) s = (ROk (OList os), s') ->
  Forall2 (elem_ok script (deser t a) l) (indexed_from vs 0) os.
Check c06_vec_length : forall script a t vs l s os s',
  run script (deser (TVec t) a (VSeq vs) l) s = (ROk (OList os), s') -> List.length os = List.length vs.
Check c06_map_bad_key_fails : forall script a kp n t ms l s k v e,
  In (k, v) ms -> parse_key kp k = inr e -> is_err (fst (run script (deser (TMap kp n t) a (VMap ms) l) s)).
Print Assumptions c06_array_arity.
Print Assumptions c06_tuple2_arity.
Print Assumptions c06_tuple3_arity.
Print Assumptions c06_option_null.
Print Assumptions c06_option_some.
Print Assumptions c06_box.
Print Assumptions c06_vec_elements.
Print Assumptions c06_vec_length.
Print Assumptions c06_map_bad_key_fails.
