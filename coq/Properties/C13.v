(** C13 - the serde_json bridge is lossless and self-consistent. *)
From Deserr Require Import Base Pointer Kinds Value Prog Deser Json.
From Deserr.proofs Require Import JsonProofs.

(** Deserr for serde_json::Value never fails on a document serde_json can hold, makes no call to
    the error type, and yields the same document - from any state, under any script *)
Theorem c13_deser_roundtrip : forall script a j,
  wf_json j = true ->
  forall l s, run script (deser_json a (into_value j) l) s = (ROk (OJson (into_value j)), s).
Proof. exact deser_json_roundtrip. Qed.

(** hence the document held by the result is the original one *)
Theorem c13_deser_same_document : forall script a j l s,
  wf_json j = true ->
  json_of_out (match fst (run script (deser_json a (into_value j) l) s) with ROk o => o | _ => OUnit end) = j.
Proof.
  intros script a j l s H. rewrite (deser_json_roundtrip script a j H). cbn.
  apply from_roundtrip. exact H.
Qed.

Theorem c13_from_roundtrip : forall j, wf_json j = true -> from_value (into_value j) = j.
Proof. exact from_roundtrip. Qed.

Theorem c13_kind_agrees : forall j, kind_json j = kind_of (into_value j).
Proof. exact kind_agrees. Qed.

Theorem c13_wf : forall j, wf_json j = true -> wf_value (into_value j) = true.
Proof. exact wf_into_value. Qed.

Theorem c13_class_nonneg : forall d fb, (d < 2 ^ 64)%N ->
  into_value (JNumber (classify_literal (LInt false d fb))) = VInt d.
Proof. exact classes_pos. Qed.
Theorem c13_class_neg : forall d fb, (0 < d <= 2 ^ 63)%N ->
  into_value (JNumber (classify_literal (LInt true d fb))) = VNeg (- Z.of_N d).
Proof. exact classes_neg. Qed.
Theorem c13_class_float : forall l,
  match l with
  | LInt false d _ => (2 ^ 64 <= d)%N
  | LInt true d _ => d = 0%N \/ (2 ^ 63 < d)%N
  | LFloat _ => True
  end ->
  exists b, into_value (JNumber (classify_literal l)) = VFloat b.
Proof. exact classes_float. Qed.

Example c13_example :
  let j := JObject [("a", JArray [JNumber (PosInt 1); JNumber (NegInt (-5)); JNull]);
                    ("b", JObject [("x", JString "y")])]%string in
  wf_json j = true /\ from_value (into_value j) = j
  /\ fst (run (fun _ => false) (deser_json 0 (into_value j) Origin) []) = ROk (OJson (into_value j)).
Proof. vm_compute. repeat split. Qed.

Check c13_deser_roundtrip : forall script a j, wf_json j = true ->
  forall l s, run script (deser_json a (into_value j) l) s = (ROk (OJson (into_value j)), s).
Check c13_deser_same_document : forall script a j l s, wf_json j = true ->
  json_of_out (match fst (run script (deser_json a (into_value j) l) s) with ROk o => o | _ => OUnit end) = j.
Check c13_from_roundtrip : forall j, wf_json j = true -> from_value (into_value j) = j.
Check c13_kind_agrees : forall j, kind_json j = kind_of (into_value j).
Check c13_wf : forall j, wf_json j = true -> wf_value (into_value j) = true.
Check c13_class_nonneg : forall d fb, (d < 2 ^ 64)%N -> into_value (JNumber (classify_literal (LInt false d fb))) = VInt d.
Check c13_class_neg : forall d fb, (0 < d <= 2 ^ 63)%N -> into_value (JNumber (classify_literal (LInt true d fb))) = VNeg (- Z.of_N d).
Check c13_class_float : forall l,
  match l with
  | LInt false d _ => (2 ^ 64 <= d)%N
  | LInt true d _ => d = 0%N \/ (2 ^ 63 < d)%N
  | LFloat _ => True
  end ->
  exists b, into_value (JNumber (classify_literal l)) = VFloat b.
Print Assumptions c13_deser_roundtrip.
Print Assumptions c13_deser_same_document.
Print Assumptions c13_from_roundtrip.
Print Assumptions c13_kind_agrees.
Print Assumptions c13_wf.
Print Assumptions c13_class_nonneg.
Print Assumptions c13_class_neg.
Print Assumptions c13_class_float.
