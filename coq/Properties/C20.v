(** C20 - the HTTP extractors add nothing and lose nothing (partial: the framework side -
    request parsing, content-type negotiation, async polling - is an input, not modelled). *)
From Deserr Require Import Base Pointer Kinds Value Prog Scalars Types Deser Messages Http.
From Deserr.proofs Require Import HttpProofs.

(** extraction succeeds exactly when the framework's own extractor yields a document and
    deserr::deserialize of that document succeeds, with the same value *)
Theorem c20_iff : forall ftext dtext t fw o,
  extract ftext dtext t fw = Some (Extracted o) <->
  exists v, fw = FwDoc v /\ deserialize_json_error ftext dtext t v = Some (inl o).
Proof. exact extract_iff. Qed.

(** framework-level rejections pass through unchanged *)
Theorem c20_framework_rejection : forall ftext dtext t s b,
  extract ftext dtext t (FwRej s b) = Some (Rejected s b).
Proof. exact extract_framework_rejection. Qed.

(** when deserr fails the rejection carries exactly the deserr error: 400 with the message as body *)
Theorem c20_carries : forall ftext dtext t v m,
  deserialize_json_error ftext dtext t v = Some (inr m) ->
  extract ftext dtext t (FwDoc v) = Some (Rejected 400 m).
Proof. exact extract_carries_error. Qed.

(** and nothing else is ever rejected *)
Theorem c20_rejected_cases : forall ftext dtext t fw s b,
  extract ftext dtext t fw = Some (Rejected s b) ->
  fw = FwRej s b \/ exists v, fw = FwDoc v /\ s = 400%N /\ deserialize_json_error ftext dtext t v = Some (inr b).
Proof. exact extract_rejected_cases. Qed.

Check c20_iff : forall ftext dtext t fw o,
  extract ftext dtext t fw = Some (Extracted o) <->
  exists v, fw = FwDoc v /\ deserialize_json_error ftext dtext t v = Some (inl o).
Check c20_framework_rejection : forall ftext dtext t s b, extract ftext dtext t (FwRej s b) = Some (Rejected s b).
Check c20_carries : forall ftext dtext t v m,
  deserialize_json_error ftext dtext t v = Some (inr m) -> extract ftext dtext t (FwDoc v) = Some (Rejected 400 m).
Check c20_rejected_cases : forall ftext dtext t fw s b,
  extract ftext dtext t fw = Some (Rejected s b) ->
  fw = FwRej s b \/ exists v, fw = FwDoc v /\ s = 400%N /\ deserialize_json_error ftext dtext t v = Some (inr b).
Print Assumptions c20_iff.
Print Assumptions c20_framework_rejection.
Print Assumptions c20_carries.
Print Assumptions c20_rejected_cases.
