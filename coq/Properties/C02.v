(** C02 - keep-going error types receive every independent fault exactly once. *)
From Coq Require Import Permutation.
From Deserr Require Import Base Pointer Kinds Value Prog Utf8 Scalars ScalarSpec Types Deser Spec Monitors.
From Deserr.proofs Require Import RefineBase RefineStruct HeldProofs C02Proofs.
Local Open Scope list_scope.

(** The interpreter refines the declarative specification [Spec.spec] (the reference interpreter of
    the documented semantics, in which no fault can hide a sibling by construction): for every
    target type, error-type tag, payload, location and starting state, under an error type that
    always answers Continue, the run
      - reports exactly the faults of the specification, in order, each once,
      - invokes exactly the specified user functions, in order,
      - returns Ok(v) iff the specification has no fault (v is then the specified value),
        Err otherwise, and never panics. *)
Theorem c02_refinement : forall t a v l s,
  exists r ext,
    run (fun _ => true) (deser t a v l) s = (r, s ++ ext)
    /\ trace_faults ext = s_faults (spec t v l)
    /\ trace_ucalls ext = s_ucalls (spec t v l)
    /\ match r with
       | ROk o => s_out (spec t v l) = Some o /\ s_faults (spec t v l) = []
       | RErr _ => s_out (spec t v l) = None /\ s_faults (spec t v l) <> []
       | RPanic _ => False
       end.
Proof. exact deser_refines_spec. Qed.

(** For every script of Continue/Break answers: the error value returned by [deserialize] holds
    every report made during the run exactly once (a permutation of them). *)
Theorem c02_final_error_holds_every_report : forall t v script e tr,
  run script (deserialize t v) [] = (RErr e, tr) ->
  Permutation (reports_under tr (List.length tr) e) (trace_faults tr).
Proof. exact final_error_holds_all_reports. Qed.

(** Together: under a keep-going error type, the final error of [deserialize] holds exactly one
    report for each fault of the specification. *)
Theorem c02_keep_going : forall t v,
  exists r tr,
    run (fun _ => true) (deserialize t v) [] = (r, tr)
    /\ trace_faults tr = faults t v Origin
    /\ trace_ucalls tr = s_ucalls (spec t v Origin)
    /\ match r with
       | ROk o => okval t v = Some o /\ faults t v Origin = []
       | RErr e => okval t v = None /\ faults t v Origin <> []
                   /\ Permutation (reports_under tr (List.length tr) e) (faults t v Origin)
       | RPanic _ => False
       end.
Proof. exact keep_going_outcome. Qed.

(** What "independent" means in the specification: siblings never hide each other. *)
Theorem c02_elements_independent : forall t vs l,
  faults (TVec t) (VSeq vs) l = flat_map (fun iv => faults t (snd iv) (Index (fst iv) l)) (indexed vs 0).
Proof. exact vec_faults_independent. Qed.

Theorem c02_map_entries_independent : forall kp n t ms l,
  faults (TMap kp n t) (VMap ms) l
  = flat_map (fun kv => match parse_key kp (fst kv) with
                        | inl _ => faults t (snd kv) (Key (fst kv) l)
                        | inr _ => [FKind (Unexpected (key_msg (fst kv) n)) l]
                        end) ms.
Proof. exact map_faults_independent. Qed.

Theorem c02_fields_independent : forall fs sk d mk ms l,
  let members := map (s_member fs d l) ms in
  let vals := map (fun p => s_field_value (fst p) (snd p) members) (indexed_nat fs) in
  s_faults (s_fields fs sk d mk ms l)
  = flat_map (fun m => s_faults (snd m)) members
    ++ flat_map (fun p : spfield * option (option out) =>
                   match snd p with
                   | None => match sp_missing (fst p) with
                             | None => [FKind (MissingField (sp_key (fst p))) l]
                             | Some fn => [FUser (fn, [AStr (sp_key (fst p)); ALoc (to_owned l)]) l]
                             end
                   | Some _ => []
                   end) (combine fs vals).
Proof. exact fields_faults_independent. Qed.

(* non-vacuity: five independent faults (bad element twice, wrong kind, unknown key, missing field) *)
Example c02_example :
  let u8 := TInt {| i_signed := false; i_width := W8; i_nonzero := false |} in
  let t := TStruct (mkCS [mkCF "a" "a" (TVec u8) None FFNone FDMissing None None;
                          mkCF "b" "b" TBool None FFNone FDMissing None None;
                          mkCF "c" "c" TString None FFNone FDMissing None None] [] DenyDefault) None in
  let v := VMap [("a", VSeq [VInt 1; VInt 1000; VStr "x"]); ("zzz", VNull); ("b", VInt 3)]%string in
  List.length (faults t v Origin) = 5%nat
  /\ List.length (trace_faults (snd (run (fun _ => true) (deserialize t v) []))) = 5%nat.
Proof. vm_compute. split; reflexivity. Qed.

Check c02_refinement : forall t a v l s,
  exists r ext,
    run (fun _ => true) (deser t a v l) s = (r, s ++ ext)
    /\ trace_faults ext = s_faults (spec t v l)
    /\ trace_ucalls ext = s_ucalls (spec t v l)
    /\ match r with
       | ROk o => s_out (spec t v l) = Some o /\ s_faults (spec t v l) = []
       | RErr _ => s_out (spec t v l) = None /\ s_faults (spec t v l) <> []
       | RPanic _ => False
       end.
Check c02_final_error_holds_every_report : forall t v script e tr,
  run script (deserialize t v) [] = (RErr e, tr) ->
  Permutation (reports_under tr (List.length tr) e) (trace_faults tr).
Check c02_keep_going : forall t v,
  exists r tr,
    run (fun _ => true) (deserialize t v) [] = (r, tr)
    /\ trace_faults tr = faults t v Origin
    /\ trace_ucalls tr = s_ucalls (spec t v Origin)
    /\ match r with
       | ROk o => okval t v = Some o /\ faults t v Origin = []
       | RErr e => okval t v = None /\ faults t v Origin <> []
                   /\ Permutation (reports_under tr (List.length tr) e) (faults t v Origin)
       | RPanic _ => False
       end.
Check c02_elements_independent : forall t vs l,
  faults (TVec t) (VSeq vs) l = flat_map (fun iv => faults t (snd iv) (Index (fst iv) l)) (indexed vs 0).
Check c02_map_entries_independent : forall kp n t ms l,
  faults (TMap kp n t) (VMap ms) l
  = flat_map (fun kv => match parse_key kp (fst kv) with
                        | inl _ => faults t (snd kv) (Key (fst kv) l)
                        | inr _ => [FKind (Unexpected (key_msg (fst kv) n)) l]
                        end) ms.
Check c02_fields_independent : forall fs sk d mk ms l,
  let members := map (s_member fs d l) ms in
  let vals := map (fun p => s_field_value (fst p) (snd p) members) (indexed_nat fs) in
  s_faults (s_fields fs sk d mk ms l)
  = flat_map (fun m => s_faults (snd m)) members
    ++ flat_map (fun p : spfield * option (option out) =>
                   match snd p with
                   | None => match sp_missing (fst p) with
                             | None => [FKind (MissingField (sp_key (fst p))) l]
                             | Some fn => [FUser (fn, [AStr (sp_key (fst p)); ALoc (to_owned l)]) l]
                             end
                   | Some _ => []
                   end) (combine fs vals).
Print Assumptions c02_refinement.
Print Assumptions c02_final_error_holds_every_report.
Print Assumptions c02_keep_going.
Print Assumptions c02_elements_independent.
Print Assumptions c02_map_entries_independent.
Print Assumptions c02_fields_independent.
