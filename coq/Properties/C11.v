(** C11 - from / try_from / map / validate see only good values, once, in order. *)
From Deserr Require Import Base Pointer Kinds Value Prog Utf8 Scalars Types Deser Monitors.
From Deserr.proofs Require Import MiscProofs.

(** container-level `from`: the function is invoked exactly once, right after its intermediate
    value deserialized, with that value; when the intermediate value fails it is not invoked
    and the failure is returned as it is; what it returns is what is validated and returned *)
Theorem c11_from_container : forall script a inter fn val v l s,
  run script (deser (TFrom inter fn val) a v l) s =
  match run script (deser inter a v l) s with
  | (ROk o, s1) => run script (validate a val l (OFn fn o)) (s1 ++ [CUser fn [AOut o]])
  | (r, s1) => (r, s1)
  end.
Proof. exact from_container. Qed.

(** container-level `try_from`: same, and a failure of the function is handed to the error type
    once, at the container's location, and makes the call fail *)
Theorem c11_try_from_container : forall script a inter fn val v l s,
  run script (deser (TTryFrom inter fn val) a v l) s =
  match run script (deser inter a v l) s with
  | (ROk o, s1) =>
    let s2 := s1 ++ [CUser fn [AOut o]] in
    if ufail o then (RErr (N.of_nat (List.length s2)), s2 ++ [CMergeU a None (fn, [AOut o]) l])
    else run script (validate a val l (OFn fn o)) s2
  | (r, s1) => (r, s1)
  end.
Proof. exact try_from_container. Qed.

(** `validate`: invoked once with the finished value and the container's location; its failure
    is handed to the error type at that location and makes the call fail; otherwise the value is
    returned unchanged *)
Theorem c11_validate : forall script a val l o s,
  run script (validate a val l o) s =
  match val with
  | None => (ROk o, s)
  | Some fn =>
    let args := [AOut o; ALoc (to_owned l)] in
    let s1 := s ++ [CUser fn args] in
    if ufail o then (RErr (N.of_nat (List.length s1)), s1 ++ [CMergeU a None (fn, args) l]) else (ROk o, s1)
  end.
Proof. exact validate_run. Qed.

Check c11_from_container : forall script a inter fn val v l s,
  run script (deser (TFrom inter fn val) a v l) s =
  match run script (deser inter a v l) s with
  | (ROk o, s1) => run script (validate a val l (OFn fn o)) (s1 ++ [CUser fn [AOut o]])
  | (r, s1) => (r, s1)
  end.
Check c11_try_from_container : forall script a inter fn val v l s,
  run script (deser (TTryFrom inter fn val) a v l) s =
  match run script (deser inter a v l) s with
  | (ROk o, s1) =>
    let s2 := s1 ++ [CUser fn [AOut o]] in
    if ufail o then (RErr (N.of_nat (List.length s2)), s2 ++ [CMergeU a None (fn, [AOut o]) l])
    else run script (validate a val l (OFn fn o)) s2
  | (r, s1) => (r, s1)
  end.
Check c11_validate : forall script a val l o s,
  run script (validate a val l o) s =
  match val with
  | None => (ROk o, s)
  | Some fn =>
    let args := [AOut o; ALoc (to_owned l)] in
    let s1 := s ++ [CUser fn args] in
    if ufail o then (RErr (N.of_nat (List.length s1)), s1 ++ [CMergeU a None (fn, args) l]) else (ROk o, s1)
  end.
Print Assumptions c11_from_container.
Print Assumptions c11_try_from_container.
Print Assumptions c11_validate.
