(** C11 - from / try_from / map / validate see only good values, once, in order. *)
From Deserr Require Import Base Pointer Kinds Value Prog Utf8 Scalars Types Deser Monitors.
From Deserr.proofs Require Import MiscProofs RefineFields C11More.

(** container-level `from`: the function is invoked exactly once, right after its intermediate
    value deserialized, with that value; when the intermediate value fails it is not invoked
    and the failure is returned as it is; what it returns is what is validated and returned *)
Theorem c11_from_container : forall script a inter fn val v l s,
  run script (deser (TFrom inter fn val) a v l) s =
  match run script (deser inter a v l) s with
  | (ROk o, s1) => run script (validate a val l (OFn fn o)) (s1 ++ [CUser fn [AOut o]])
  | (r, s1) => (r, s1)
  end.
Proof. exact from_container. Qed.

(** container-level `try_from`: same, and a failure of the function is handed to the error type
    once, at the container's location, and makes the call fail *)
Theorem c11_try_from_container : forall script a inter fn val v l s,
  run script (deser (TTryFrom inter fn val) a v l) s =
  match run script (deser inter a v l) s with
  | (ROk o, s1) =>
    let s2 := s1 ++ [CUser fn [AOut o]] in
    if ufail o then (RErr (N.of_nat (List.length s2)), s2 ++ [CMergeU a None (fn, [AOut o]) l])
    else run script (validate a val l (OFn fn o)) s2
  | (r, s1) => (r, s1)
  end.
Proof. exact try_from_container. Qed.

(** `validate`: invoked once with the finished value and the container's location; its failure
    is handed to the error type at that location and makes the call fail; otherwise the value is
    returned unchanged *)
Theorem c11_validate : forall script a val l o s,
  run script (validate a val l o) s =
  match val with
  | None => (ROk o, s)
  | Some fn =>
    let args := [AOut o; ALoc (to_owned l)] in
    let s1 := s ++ [CUser fn args] in
    if ufail o then (RErr (N.of_nat (List.length s1)), s1 ++ [CMergeU a None (fn, args) l]) else (ROk o, s1)
  end.
Proof. exact validate_run. Qed.

(** field level, every script: once the field's value has deserialized (with the field's own
    error type), its `from` / `try_from` function runs exactly once, right then, on that value;
    a failing `try_from` hands its error first to the field's error type, then to the container's
    at the field's location, and the field is marked failed; both answers must be Continue for
    the struct to go on *)
Theorem c11_field_stage_ok : forall script a f i k v l acc sts s x s1,
  run script (rf_run f (falg_of a f) v (Key k l)) s = (ROk x, s1) ->
  run script (field_entry a f i k v l acc sts) s
  = match rf_from f with
    | FFNone => (SGo acc (set_nth i (FSome x) sts), s1)
    | FFFrom fn => (SGo acc (set_nth i (FSome (OFn fn x)) sts), s1 ++ [CUser fn [AOut x]])
    | FFTry fn =>
      if ufail x then
        let s2 := s1 ++ [CUser fn [AOut x]] in
        let i1 := N.of_nat (List.length s2) in
        let s3 := s2 ++ [CMergeU (falg_of a f) None (fn, [AOut x]) (Key k l)] in
        let i2 := N.of_nat (List.length s3) in
        let s4 := s3 ++ [CMerge a acc (falg_of a f) i1 (Key k l)] in
        (if script i1 && script i2 then SGo (Some i2) (set_nth i FErr sts) else SStop (RErr i2), s4)
      else (SGo acc (set_nth i (FSome (OFn fn x)) sts), s1 ++ [CUser fn [AOut x]])
    end.
Proof. exact field_entry_ok. Qed.

(** ... and when the field's value did not deserialize no function runs at all: the error is
    handed over to the container's error type at the field's location *)
Theorem c11_field_stage_err : forall script a f i k v l acc sts s e s1,
  run script (rf_run f (falg_of a f) v (Key k l)) s = (RErr e, s1) ->
  run script (field_entry a f i k v l acc sts) s
  = (let i' := N.of_nat (List.length s1) in
     if script i' then SGo (Some i') (set_nth i FErr sts) else SStop (RErr i'),
     s1 ++ [CMerge a acc (falg_of a f) e (Key k l)]).
Proof. exact field_entry_err. Qed.

(** construction, every script: the `map` functions run once each, in field order with the
    skipped fields last, on the final values; the struct is built from their results *)
Theorem c11_maps_at_construction : forall script (vals : list (string * out * option N)) outs_rev s,
  run script (construct (map (fun it => (fst (fst it), FSome (snd (fst it)), snd it)) vals) outs_rev) s
  = (inl (rev outs_rev ++ map built_field vals), (s ++ flat_map built_calls vals)%list).
Proof. exact construct_any_script. Qed.

Check c11_field_stage_ok : forall script a f i k v l acc sts s x s1,
  run script (rf_run f (falg_of a f) v (Key k l)) s = (ROk x, s1) ->
  run script (field_entry a f i k v l acc sts) s
  = match rf_from f with
    | FFNone => (SGo acc (set_nth i (FSome x) sts), s1)
    | FFFrom fn => (SGo acc (set_nth i (FSome (OFn fn x)) sts), s1 ++ [CUser fn [AOut x]])
    | FFTry fn =>
      if ufail x then
        let s2 := s1 ++ [CUser fn [AOut x]] in
        let i1 := N.of_nat (List.length s2) in
        let s3 := s2 ++ [CMergeU (falg_of a f) None (fn, [AOut x]) (Key k l)] in
        let i2 := N.of_nat (List.length s3) in
        let s4 := s3 ++ [CMerge a acc (falg_of a f) i1 (Key k l)] in
        (if script i1 && script i2 then SGo (Some i2) (set_nth i FErr sts) else SStop (RErr i2), s4)
      else (SGo acc (set_nth i (FSome (OFn fn x)) sts), s1 ++ [CUser fn [AOut x]])
    end.
Check c11_field_stage_err : forall script a f i k v l acc sts s e s1,
  run script (rf_run f (falg_of a f) v (Key k l)) s = (RErr e, s1) ->
  run script (field_entry a f i k v l acc sts) s
  = (let i' := N.of_nat (List.length s1) in
     if script i' then SGo (Some i') (set_nth i FErr sts) else SStop (RErr i'),
     s1 ++ [CMerge a acc (falg_of a f) e (Key k l)]).
Check c11_maps_at_construction : forall script (vals : list (string * out * option N)) outs_rev s,
  run script (construct (map (fun it => (fst (fst it), FSome (snd (fst it)), snd it)) vals) outs_rev) s
  = (inl (rev outs_rev ++ map built_field vals), (s ++ flat_map built_calls vals)%list).

Check c11_from_container : forall script a inter fn val v l s,
  run script (deser (TFrom inter fn val) a v l) s =
  match run script (deser inter a v l) s with
  | (ROk o, s1) => run script (validate a val l (OFn fn o)) (s1 ++ [CUser fn [AOut o]])
  | (r, s1) => (r, s1)
  end.
Check c11_try_from_container : forall script a inter fn val v l s,
  run script (deser (TTryFrom inter fn val) a v l) s =
  match run script (deser inter a v l) s with
  | (ROk o, s1) =>
    let s2 := s1 ++ [CUser fn [AOut o]] in
    if ufail o then (RErr (N.of_nat (List.length s2)), s2 ++ [CMergeU a None (fn, [AOut o]) l])
    else run script (validate a val l (OFn fn o)) s2
  | (r, s1) => (r, s1)
  end.
Check c11_validate : forall script a val l o s,
  run script (validate a val l o) s =
  match val with
  | None => (ROk o, s)
  | Some fn =>
    let args := [AOut o; ALoc (to_owned l)] in
    let s1 := s ++ [CUser fn args] in
    if ufail o then (RErr (N.of_nat (List.length s1)), s1 ++ [CMergeU a None (fn, args) l]) else (ROk o, s1)
  end.
Print Assumptions c11_from_container.
Print Assumptions c11_try_from_container.
Print Assumptions c11_validate.
Print Assumptions c11_field_stage_ok.
Print Assumptions c11_field_stage_err.
Print Assumptions c11_maps_at_construction.
