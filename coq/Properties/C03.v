(** C03 - a stop answer ends the work; the fail-fast result is the first keep-going report. *)
From Deserr Require Import Base Pointer Kinds Value Prog Utf8 Scalars Types Deser Monitors.
From Deserr.proofs Require Import ProgProofs LeavesProofs C14Proofs StopProofs DeserStops.

(** Causality, for every target type / payload / location / starting state and any two answer
    scripts that agree on the answers to calls 0..k-1 (pointwise: no extensionality): either the
    two runs are one and the same run, which made no call numbered >= k, or both runs got past
    call k and their traces agree up to and including call k (the arguments of call k are fixed
    before its answer is read). Hence everything that happened before a stop at call k is
    identical to the keep-going run. *)
Theorem c03_causal : forall t a v l (sc1 sc2 : N -> bool) (k : N) (s : list call),
  (forall i, (i < k)%N -> sc1 i = sc2 i) ->
  let p := deser t a v l in
  (run sc1 p s = run sc2 p s
   /\ (N.of_nat (List.length (snd (run sc1 p s))) <= N.max k (N.of_nat (List.length s)))%N)
  \/
  ((k < N.of_nat (List.length (snd (run sc1 p s))))%N /\ (k < N.of_nat (List.length (snd (run sc2 p s))))%N
   /\ firstn (S (N.to_nat k)) (snd (run sc1 p s)) = firstn (S (N.to_nat k)) (snd (run sc2 p s))).
Proof. intros t a v l sc1 sc2 k s H. apply (run_causal (deser t a v l) sc1 sc2 k s H). Qed.

(** The first call made to the error type (position and arguments) does not depend on the
    answers at all: an always-stop error type is handed exactly the first report of the
    keep-going run. *)
Theorem c03_failfast_first : forall t a v l sc1 sc2 s,
  first_created (ext_of sc1 (deser t a v l) s) (N.of_nat (List.length s))
  = first_created (ext_of sc2 (deser t a v l) s) (N.of_nat (List.length s)).
Proof. exact deser_first_created. Qed.

(** A stop answer ends the work. For every script whose answers are all Break from call k on
    (a fail-fast error type is k = 0; an error type that gives up after some reports is any k):
    let j be the first call at or after k that creates an error value (a report, a user error
    handed to merge, or a hand-over merge). Then every call after j is a hand-over
    [merge(_, other, _)] whose [other] is the result of the call just before it - no value is
    examined, no report is made, no user function runs any more - and [deserialize] returns Err
    of the result of the last call. ([c03_tail_ok] is the very predicate the check evaluates on
    the implementation's traces.) *)
Theorem c03_stop_ends_the_work : forall t v script k,
  (forall j, (k <= j)%N -> script j = false) ->
  c03_tail_ok k (fst (run script (deserialize t v) [])) (snd (run script (deserialize t v) [])) = true.
Proof. exact deserialize_stop_ends_the_work. Qed.

(** Under EVERY script (also those that go back to Continue later): a report or hand-over that is
    answered Break is immediately followed by the hand-over of its result to the enclosing
    container, or it is the last call and its result is what [deserialize] returns - nothing is
    examined in between. *)
Theorem c03_stop_next : forall t v script pre c post,
  snd (run script (deserialize t v) []) = pre ++ c :: post ->
  creates c = true -> script (N.of_nat (List.length pre)) = false ->
  next_ok (N.of_nat (List.length pre)) post
  /\ (post = [] -> fst (run script (deserialize t v) []) = RErr (N.of_nat (List.length pre))).
Proof. exact deserialize_stop_next. Qed.

Check c03_stop_next : forall t v script pre c post,
  snd (run script (deserialize t v) []) = pre ++ c :: post ->
  creates c = true -> script (N.of_nat (List.length pre)) = false ->
  next_ok (N.of_nat (List.length pre)) post
  /\ (post = [] -> fst (run script (deserialize t v) []) = RErr (N.of_nat (List.length pre))).

(* non-vacuity: the stop happens inside a Vec inside a struct; two hand-overs follow *)
Example c03_example :
  let u8 := TInt {| i_signed := false; i_width := W8; i_nonzero := false |} in
  let t := TStruct (mkCS [mkCF "a" "a" (TVec u8) None FFNone FDMissing None None;
                          mkCF "b" "b" TBool None FFNone FDMissing None None] [] DenyDefault) None in
  let v := VMap [("a", VSeq [VInt 1; VInt 1000; VStr "x"]); ("b", VNull)]%string in
  let r := run (fun i => (i <? 0)%N) (deserialize t v) [] in
  List.length (snd r) = 3%nat /\ fst r = RErr 2 /\ c03_tail_ok 0 (fst r) (snd r) = true.
Proof. vm_compute. repeat split. Qed.

Check c03_stop_ends_the_work : forall t v script k,
  (forall j, (k <= j)%N -> script j = false) ->
  c03_tail_ok k (fst (run script (deserialize t v) [])) (snd (run script (deserialize t v) [])) = true.
Check c03_failfast_first : forall t a v l sc1 sc2 s,
  first_created (ext_of sc1 (deser t a v l) s) (N.of_nat (List.length s))
  = first_created (ext_of sc2 (deser t a v l) s) (N.of_nat (List.length s)).
Check c03_causal : forall t a v l (sc1 sc2 : N -> bool) (k : N) (s : list call),
  (forall i, (i < k)%N -> sc1 i = sc2 i) ->
  let p := deser t a v l in
  (run sc1 p s = run sc2 p s
   /\ (N.of_nat (List.length (snd (run sc1 p s))) <= N.max k (N.of_nat (List.length s)))%N)
  \/
  ((k < N.of_nat (List.length (snd (run sc1 p s))))%N /\ (k < N.of_nat (List.length (snd (run sc2 p s))))%N
   /\ firstn (S (N.to_nat k)) (snd (run sc1 p s)) = firstn (S (N.to_nat k)) (snd (run sc2 p s))).
Print Assumptions c03_causal.
Print Assumptions c03_failfast_first.
Print Assumptions c03_stop_ends_the_work.
Print Assumptions c03_stop_next.
