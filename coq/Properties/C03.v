(** C03 - a stop answer ends the work; the fail-fast result is the first keep-going report. *)
From Deserr Require Import Base Pointer Kinds Value Prog Utf8 Scalars Types Deser Monitors.
From Deserr.proofs Require Import ProgProofs LeavesProofs C14Proofs.

(** Causality, for every target type / payload / location / starting state and any two answer
    scripts that agree on the answers to calls 0..k-1 (pointwise: no extensionality): either the
    two runs are one and the same run, which made no call numbered >= k, or both runs got past
    call k and their traces agree up to and including call k (the arguments of call k are fixed
    before its answer is read). Hence everything that happened before a stop at call k is
    identical to the keep-going run. *)
Theorem c03_causal : forall t a v l (sc1 sc2 : N -> bool) (k : N) (s : list call),
  (forall i, (i < k)%N -> sc1 i = sc2 i) ->
  let p := deser t a v l in
  (run sc1 p s = run sc2 p s
   /\ (N.of_nat (List.length (snd (run sc1 p s))) <= N.max k (N.of_nat (List.length s)))%N)
  \/
  ((k < N.of_nat (List.length (snd (run sc1 p s))))%N /\ (k < N.of_nat (List.length (snd (run sc2 p s))))%N
   /\ firstn (S (N.to_nat k)) (snd (run sc1 p s)) = firstn (S (N.to_nat k)) (snd (run sc2 p s))).
Proof. intros t a v l sc1 sc2 k s H. apply (run_causal (deser t a v l) sc1 sc2 k s H). Qed.

(** The first call made to the error type (position and arguments) does not depend on the
    answers at all: an always-stop error type is handed exactly the first report of the
    keep-going run. *)
Theorem c03_failfast_first : forall t a v l sc1 sc2 s,
  first_created (ext_of sc1 (deser t a v l) s) (N.of_nat (List.length s))
  = first_created (ext_of sc2 (deser t a v l) s) (N.of_nat (List.length s)).
Proof. exact deser_first_created. Qed.

Check c03_failfast_first : forall t a v l sc1 sc2 s,
  first_created (ext_of sc1 (deser t a v l) s) (N.of_nat (List.length s))
  = first_created (ext_of sc2 (deser t a v l) s) (N.of_nat (List.length s)).
Check c03_causal : forall t a v l (sc1 sc2 : N -> bool) (k : N) (s : list call),
  (forall i, (i < k)%N -> sc1 i = sc2 i) ->
  let p := deser t a v l in
  (run sc1 p s = run sc2 p s
   /\ (N.of_nat (List.length (snd (run sc1 p s))) <= N.max k (N.of_nat (List.length s)))%N)
  \/
  ((k < N.of_nat (List.length (snd (run sc1 p s))))%N /\ (k < N.of_nat (List.length (snd (run sc2 p s))))%N
   /\ firstn (S (N.to_nat k)) (snd (run sc1 p s)) = firstn (S (N.to_nat k)) (snd (run sc2 p s))).
Print Assumptions c03_causal.
Print Assumptions c03_failfast_first.
