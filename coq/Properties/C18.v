(** C18 - did-you-mean suggests only a closest accepted name within the typo budget.
    The theorems hold for an arbitrary distance function [dist]; the implementation uses
    strsim's Damerau-Levenshtein, modelled by [DidYouMean.dl] and tied by correspondence. *)
From Deserr Require Import Base Utf8 DidYouMean.
From Deserr.proofs Require Import DymProofs.
Local Open Scope nat_scope.

Theorem c18_budget : forall len,
  budget len =
  if len <=? 3 then None else
  Some (if len <=? 7 then 1 else if len <=? 12 then 2 else if len <=? 17 then 3
        else if len <=? 24 then 4 else 5).
Proof. exact budget_table. Qed.

Theorem c18_empty_short : forall dist r acc,
  String.length r <= 3 -> dym dist r acc = ""%string.
Proof. exact dym_short. Qed.

Theorem c18_empty_iff : forall dist r acc,
  dym dist r acc = ""%string <->
  (String.length r <= 3 \/
   exists t, budget (String.length r) = Some t /\ forall a, In a acc -> t < dist r a).
Proof. exact dym_empty_iff. Qed.

Theorem c18_suggests_closest_earliest : forall dist r acc t,
  budget (String.length r) = Some t ->
  (exists a, In a acc /\ dist r a <= t) ->
  exists pre a post,
    acc = pre ++ a :: post
    /\ dym dist r acc = ("did you mean `" ++ a ++ "`? ")%string
    /\ dist r a <= t
    /\ (forall x, In x pre -> dist r a < dist r x)
    /\ (forall x, In x post -> dist r a <= dist r x).
Proof. exact dym_suggests. Qed.

Example c18_example :
  (did_you_mean "doggo" ["catto"; "doggi"; "dogo"; "doggy"] = "did you mean `doggi`? "
  /\ did_you_mean "dog" ["dog"] = ""
  /\ did_you_mean "doggo" ["catto"] = "")%string.
Proof. vm_compute. repeat split. Qed.

Check c18_budget : forall len,
  budget len =
  if len <=? 3 then None else
  Some (if len <=? 7 then 1 else if len <=? 12 then 2 else if len <=? 17 then 3
        else if len <=? 24 then 4 else 5).
Check c18_empty_short : forall dist r acc, String.length r <= 3 -> dym dist r acc = ""%string.
Check c18_empty_iff : forall dist r acc,
  dym dist r acc = ""%string <->
  (String.length r <= 3 \/
   exists t, budget (String.length r) = Some t /\ forall a, In a acc -> t < dist r a).
Check c18_suggests_closest_earliest : forall dist r acc t,
  budget (String.length r) = Some t ->
  (exists a, In a acc /\ dist r a <= t) ->
  exists pre a post,
    acc = pre ++ a :: post
    /\ dym dist r acc = ("did you mean `" ++ a ++ "`? ")%string
    /\ dist r a <= t
    /\ (forall x, In x pre -> dist r a < dist r x)
    /\ (forall x, In x post -> dist r a <= dist r x).
Print Assumptions c18_budget.
Print Assumptions c18_empty_short.
Print Assumptions c18_empty_iff.
Print Assumptions c18_suggests_closest_earliest.
