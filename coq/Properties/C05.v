(** C05 - scalars accept exactly the representable values, exactly, and say why not. *)
From Deserr Require Import Base Pointer Kinds Value Prog Utf8 Scalars ScalarSpec.
From Deserr Require Import Fround.
From Deserr.proofs Require Import ScalarProofs FroundProofs.

(** Integers (all 24 targets = every [int_desc]): from any state and under any script,
    - Ok iff the kind is admissible and the number is in the target's domain, the result is then
      the input number itself and no call is made;
    - otherwise exactly one call [error(None, _, l)]: IncorrectValueKind with the value and exactly
      the admissible kinds, or the domain message (received number / zero + violated bound). *)
Theorem c05_int_exact : forall script a d v l s,
  run script (deser_int a d v l) s = outcome_run a v l s (spec_int d v).
Proof. exact deser_int_spec. Qed.

Theorem c05_in_domain : forall d z,
  in_domain d z = true <-> (imin d <= z <= imax d)%Z /\ (i_nonzero d = true -> z <> 0%Z).
Proof. exact in_domain_iff. Qed.

Theorem c05_unit : forall script a v l s,
  run script (deser_unit a v l) s = outcome_run a v l s (spec_unit v).
Proof. exact deser_unit_spec. Qed.
Theorem c05_bool : forall script a v l s,
  run script (deser_bool a v l) s = outcome_run a v l s (spec_bool v).
Proof. exact deser_bool_spec. Qed.
Theorem c05_string : forall script a v l s,
  run script (deser_string a v l) s = outcome_run a v l s (spec_string v).
Proof. exact deser_string_spec. Qed.
Theorem c05_char : forall script a v l s,
  run script (deser_char a v l) s = outcome_run a v l s (spec_char v).
Proof. exact deser_char_spec. Qed.

(* non-vacuity: u8 on 255 / 256 / -1 / "x", NonZeroI8 on 0 *)
Example c05_example :
  let u8 := {| i_signed := false; i_width := W8; i_nonzero := false |} in
  let nzi8 := {| i_signed := true; i_width := W8; i_nonzero := true |} in
  spec_int u8 (VInt 255) = SOk (OInt 255)
  /\ spec_int u8 (VInt 256) = SUnexp "value: `256` is too large to be deserialized, maximum value authorized is `255`"
  /\ spec_int u8 (VNeg (-1)) = SKind [KInteger]
  /\ spec_int nzi8 (VNeg (-129)) = SUnexp "value: `-129` is too small to be deserialized, minimum value authorized is `-128`"
  /\ spec_int nzi8 (VInt 0) = SUnexp "a non-zero integer value higher than `-128` was expected, but found a zero".
Proof. vm_compute. repeat split. Qed.

Check c05_int_exact : forall script a d v l s,
  run script (deser_int a d v l) s = outcome_run a v l s (spec_int d v).
Check c05_in_domain : forall d z,
  in_domain d z = true <-> (imin d <= z <= imax d)%Z /\ (i_nonzero d = true -> z <> 0%Z).
Check c05_unit : forall script a v l s, run script (deser_unit a v l) s = outcome_run a v l s (spec_unit v).
Check c05_bool : forall script a v l s, run script (deser_bool a v l) s = outcome_run a v l s (spec_bool v).
Check c05_string : forall script a v l s, run script (deser_string a v l) s = outcome_run a v l s (spec_string v).
Check c05_char : forall script a v l s, run script (deser_char a v l) s = outcome_run a v l s (spec_char v).
(** Floats: f32 / f64 accept the three numeric kinds and nothing else, never fail on them, and
    make no call; the value is computed by [Fround] (integer -> f64 / f32, f64 -> f32). *)
Theorem c05_f64_total : forall script a v l s,
  run script (deser_f64 a v l) s
  = match v with
    | VInt x => (ROk (OF64 (f64_of_Z (Z.of_N x))), s)
    | VNeg x => (ROk (OF64 (f64_of_Z x)), s)
    | VFloat b => (ROk (OF64 (f64_canon b)), s)
    | _ => (RErr (N.of_nat (List.length s)), s ++ [CError a None (IncorrectValueKind v float_accepted) l])%list
    end.
Proof. intros script a v l s. destruct v; reflexivity. Qed.

Theorem c05_f32_total : forall script a v l s,
  run script (deser_f32 a v l) s
  = match v with
    | VInt x => (ROk (OF32 (f32_of_Z (Z.of_N x))), s)
    | VNeg x => (ROk (OF32 (f32_of_Z x)), s)
    | VFloat b => (ROk (OF32 (f32_of_f64 b)), s)
    | _ => (RErr (N.of_nat (List.length s)), s ++ [CError a None (IncorrectValueKind v float_accepted) l])%list
    end.
Proof. intros script a v l s. destruct v; reflexivity. Qed.

(** The rounding primitive used by every one of those conversions rounds to nearest, ties to
    even: [round_even m s] is within half a unit of m / 2^s, and on an exact tie it is even.
    (The assembly of sign / exponent / mantissa fields around it is tied to the implementation and
    to Flocq's [binary_normalize] by bit-exact comparison on every run, not by a theorem.) *)
Theorem c05_round_even_nearest : forall m s : N,
  (0 < s)%N ->
  let q := round_even m s in
  (2 ^ s * q <= m + 2 ^ (s - 1))%N /\ (m <= 2 ^ s * q + 2 ^ (s - 1))%N
  /\ ((m + 2 ^ (s - 1) = 2 ^ s * q)%N \/ (m = 2 ^ s * q + 2 ^ (s - 1))%N -> N.even q = true).
Proof. exact round_even_nearest. Qed.

(** Integers -> floats, what the bit pattern denotes. A finite normal f64 with fields (sign, exp,
    frac) denotes (-1)^sign * (2^52 + frac) * 2^(exp - 1075); an f32, (2^23 + frac) * 2^(exp - 150).
    - An integer of at most 53 (resp. 24) significant bits is converted EXACTLY:
      (2^52 + frac) = m * 2^(53 - size m) and exp = size m + 1022, i.e. the value is m itself.
    - A larger one becomes q * 2^(size m - 53) where q = round_even m (size m - 53) is the
      integer nearest to m / 2^(size m - 53), ties to even ([c05_round_even_nearest]), with the
      carry into the exponent when q = 2^53: round-to-nearest-even at the unit of m's binade,
      which is the IEEE conversion. (Payload integers have at most 64 bits: no overflow.)
    - A negative integer is the same with the sign bit set. *)
Theorem c05_f64_of_int_exact : forall p,
  (N.size (Npos p) <= 53)%N ->
  let b := f64_of_Z (Zpos p) in
  f64_sign b = 0%N /\ f64_exp b = (N.size (Npos p) + 1022)%N
  /\ (2 ^ 52 + f64_frac b = Npos p * 2 ^ (53 - N.size (Npos p)))%N.
Proof. intros p H. apply (f64_of_small_exact (Npos p)); [reflexivity|exact H]. Qed.

Theorem c05_f64_of_int_rounded : forall p,
  (53 < N.size (Npos p))%N -> (N.size (Npos p) <= 1024)%N ->
  let k := N.size (Npos p) in
  let q := round_even (Npos p) (k - 53) in
  let b := f64_of_Z (Zpos p) in
  (2 ^ 52 <= q <= 2 ^ 53)%N
  /\ ((q < 2 ^ 53)%N -> f64_sign b = 0%N /\ f64_exp b = (k + 1022)%N /\ (2 ^ 52 + f64_frac b = q)%N)
  /\ (q = (2 ^ 53)%N -> (k < 1024)%N -> f64_sign b = 0%N /\ f64_exp b = (k + 1023)%N /\ f64_frac b = 0%N)
  /\ (q = (2 ^ 53)%N -> k = 1024%N -> b = (2047 * 2 ^ 52)%N).
Proof. intros p H1 H2. apply (f64_of_large_rounded (Npos p) H1 H2). Qed.

Theorem c05_f32_of_int_exact : forall p,
  (N.size (Npos p) <= 24)%N ->
  let b := f32_of_Z (Zpos p) in
  f32_sign b = 0%N /\ f32_exp b = (N.size (Npos p) + 126)%N
  /\ (2 ^ 23 + f32_frac b = Npos p * 2 ^ (24 - N.size (Npos p)))%N.
Proof. intros p H. apply (f32_of_small_exact (Npos p)); [reflexivity|exact H]. Qed.

Theorem c05_f32_of_int_rounded : forall p,
  (24 < N.size (Npos p))%N -> (N.size (Npos p) <= 128)%N ->
  let k := N.size (Npos p) in
  let q := round_even (Npos p) (k - 24) in
  let b := f32_of_Z (Zpos p) in
  (2 ^ 23 <= q <= 2 ^ 24)%N
  /\ ((q < 2 ^ 24)%N -> f32_sign b = 0%N /\ f32_exp b = (k + 126)%N /\ (2 ^ 23 + f32_frac b = q)%N)
  /\ (q = (2 ^ 24)%N -> (k < 128)%N -> f32_sign b = 0%N /\ f32_exp b = (k + 127)%N /\ f32_frac b = 0%N)
  /\ (q = (2 ^ 24)%N -> k = 128%N -> b = (255 * 2 ^ 23)%N).
Proof. intros p H1 H2. apply (f32_of_large_rounded (Npos p) H1 H2). Qed.

Theorem c05_float_of_negative : forall p,
  f64_of_Z (Zneg p) = (2 ^ 63 + f64_of_Z (Zpos p))%N /\ f32_of_Z (Zneg p) = (2 ^ 31 + f32_of_Z (Zpos p))%N.
Proof. intros p. split; [apply encode64_neg|apply encode32_neg]. Qed.

(** f64 -> f32 for a finite normal f64 (fraction field mf < 2^52, biased exponent 897 <= ef <= 2046,
    i.e. the f32 result is normal or overflows): the result is q * 2^(ef - 1023 - 23) with
    q = round_even (2^52 + mf) 29 - the nearest f32, ties to even - with the carry into the
    exponent, and infinity beyond the largest finite f32. (Results in the f32 subnormal range,
    NaNs and infinities: bit-exact comparison only.) *)
Theorem c05_f32_of_f64_normal : forall mf ef : N,
  (mf < 2 ^ 52)%N -> (897 <= ef)%N -> (ef <= 2046)%N ->
  let q := round_even (mf + 2 ^ 52) 29 in
  let b := encode 24 8 false (mf + 2 ^ 52) (Z.of_N ef - 1075) in
  (2 ^ 23 <= q <= 2 ^ 24)%N
  /\ ((q < 2 ^ 24)%N -> (ef <= 1150)%N -> f32_sign b = 0%N /\ f32_exp b = (ef - 896)%N /\ (2 ^ 23 + f32_frac b = q)%N)
  /\ (q = (2 ^ 24)%N -> (ef < 1150)%N -> f32_sign b = 0%N /\ f32_exp b = (ef - 895)%N /\ f32_frac b = 0%N)
  /\ ((1150 < ef)%N \/ (q = (2 ^ 24)%N /\ ef = 1150%N) -> b = (255 * 2 ^ 23)%N).
Proof. exact f32_of_f64_normal. Qed.

(** f64 -> f32 with a result in the f32 subnormal range (1 <= ef <= 896): the produced bits ARE the
    integer nearest (ties to even) to value / 2^-149, and never reach infinity *)
Theorem c05_f32_of_f64_subnormal : forall mf ef : N,
  (mf < 2 ^ 52)%N -> (1 <= ef)%N -> (ef <= 896)%N ->
  encode 24 8 false (mf + 2 ^ 52) (Z.of_N ef - 1075) = round_even (mf + 2 ^ 52) (926 - ef)
  /\ (round_even (mf + 2 ^ 52) (926 - ef) <= 2 ^ 23)%N.
Proof. exact f32_of_f64_subnormal. Qed.

Check c05_f32_of_f64_subnormal : forall mf ef : N,
  (mf < 2 ^ 52)%N -> (1 <= ef)%N -> (ef <= 896)%N ->
  encode 24 8 false (mf + 2 ^ 52) (Z.of_N ef - 1075) = round_even (mf + 2 ^ 52) (926 - ef)
  /\ (round_even (mf + 2 ^ 52) (926 - ef) <= 2 ^ 23)%N.

(** and [f32_of_f64] really calls it so on such inputs (positive sign; the sign bit is added as for
    integers) *)
Theorem c05_f32_of_f64_unfold : forall b : N,
  N.testbit b 63 = false ->
  let ef := N.land (N.shiftr b 52) 2047 in
  let mf := N.land b 4503599627370495 in
  ef <> 2047%N -> ef <> 0%N ->
  f32_of_f64 b = encode 24 8 false (mf + 4503599627370496) (Z.of_N ef - 1075).
Proof.
  intros b Hs ef mf H1 H2. unfold f32_of_f64. rewrite Hs. fold ef. fold mf.
  replace (ef =? 2047)%N with false by (symmetry; apply N.eqb_neq; exact H1).
  replace (ef =? 0)%N with false by (symmetry; apply N.eqb_neq; exact H2). reflexivity.
Qed.

Check c05_f32_of_f64_normal : forall mf ef : N,
  (mf < 2 ^ 52)%N -> (897 <= ef)%N -> (ef <= 2046)%N ->
  let q := round_even (mf + 2 ^ 52) 29 in
  let b := encode 24 8 false (mf + 2 ^ 52) (Z.of_N ef - 1075) in
  (2 ^ 23 <= q <= 2 ^ 24)%N
  /\ ((q < 2 ^ 24)%N -> (ef <= 1150)%N -> f32_sign b = 0%N /\ f32_exp b = (ef - 896)%N /\ (2 ^ 23 + f32_frac b = q)%N)
  /\ (q = (2 ^ 24)%N -> (ef < 1150)%N -> f32_sign b = 0%N /\ f32_exp b = (ef - 895)%N /\ f32_frac b = 0%N)
  /\ ((1150 < ef)%N \/ (q = (2 ^ 24)%N /\ ef = 1150%N) -> b = (255 * 2 ^ 23)%N).
Check c05_f32_of_f64_unfold : forall b : N,
  N.testbit b 63 = false ->
  let ef := N.land (N.shiftr b 52) 2047 in
  let mf := N.land b 4503599627370495 in
  ef <> 2047%N -> ef <> 0%N ->
  f32_of_f64 b = encode 24 8 false (mf + 4503599627370496) (Z.of_N ef - 1075).

(* non-vacuity: 2^60 + 2^36 + 1 is just above an f32 rounding midpoint: it must round UP (a detour
   through f64 would round it down - the seeded defect C05b) *)
Example c05_f32_midpoint : f32_of_Z 1152921573326323713 = 1568669697%N.
Proof. vm_compute. reflexivity. Qed.

Check c05_f64_of_int_exact : forall p,
  (N.size (Npos p) <= 53)%N ->
  let b := f64_of_Z (Zpos p) in
  f64_sign b = 0%N /\ f64_exp b = (N.size (Npos p) + 1022)%N
  /\ (2 ^ 52 + f64_frac b = Npos p * 2 ^ (53 - N.size (Npos p)))%N.
Check c05_f64_of_int_rounded : forall p,
  (53 < N.size (Npos p))%N -> (N.size (Npos p) <= 1024)%N ->
  let k := N.size (Npos p) in
  let q := round_even (Npos p) (k - 53) in
  let b := f64_of_Z (Zpos p) in
  (2 ^ 52 <= q <= 2 ^ 53)%N
  /\ ((q < 2 ^ 53)%N -> f64_sign b = 0%N /\ f64_exp b = (k + 1022)%N /\ (2 ^ 52 + f64_frac b = q)%N)
  /\ (q = (2 ^ 53)%N -> (k < 1024)%N -> f64_sign b = 0%N /\ f64_exp b = (k + 1023)%N /\ f64_frac b = 0%N)
  /\ (q = (2 ^ 53)%N -> k = 1024%N -> b = (2047 * 2 ^ 52)%N).
Check c05_f32_of_int_exact : forall p,
  (N.size (Npos p) <= 24)%N ->
  let b := f32_of_Z (Zpos p) in
  f32_sign b = 0%N /\ f32_exp b = (N.size (Npos p) + 126)%N
  /\ (2 ^ 23 + f32_frac b = Npos p * 2 ^ (24 - N.size (Npos p)))%N.
Check c05_f32_of_int_rounded : forall p,
  (24 < N.size (Npos p))%N -> (N.size (Npos p) <= 128)%N ->
  let k := N.size (Npos p) in
  let q := round_even (Npos p) (k - 24) in
  let b := f32_of_Z (Zpos p) in
  (2 ^ 23 <= q <= 2 ^ 24)%N
  /\ ((q < 2 ^ 24)%N -> f32_sign b = 0%N /\ f32_exp b = (k + 126)%N /\ (2 ^ 23 + f32_frac b = q)%N)
  /\ (q = (2 ^ 24)%N -> (k < 128)%N -> f32_sign b = 0%N /\ f32_exp b = (k + 127)%N /\ f32_frac b = 0%N)
  /\ (q = (2 ^ 24)%N -> k = 128%N -> b = (255 * 2 ^ 23)%N).
Check c05_float_of_negative : forall p,
  f64_of_Z (Zneg p) = (2 ^ 63 + f64_of_Z (Zpos p))%N /\ f32_of_Z (Zneg p) = (2 ^ 31 + f32_of_Z (Zpos p))%N.

Check c05_f64_total : forall script a v l s,
  run script (deser_f64 a v l) s
  = match v with
    | VInt x => (ROk (OF64 (f64_of_Z (Z.of_N x))), s)
    | VNeg x => (ROk (OF64 (f64_of_Z x)), s)
    | VFloat b => (ROk (OF64 (f64_canon b)), s)
    | _ => (RErr (N.of_nat (List.length s)), s ++ [CError a None (IncorrectValueKind v float_accepted) l])%list
    end.
Check c05_f32_total : forall script a v l s,
  run script (deser_f32 a v l) s
  = match v with
    | VInt x => (ROk (OF32 (f32_of_Z (Z.of_N x))), s)
    | VNeg x => (ROk (OF32 (f32_of_Z x)), s)
    | VFloat b => (ROk (OF32 (f32_of_f64 b)), s)
    | _ => (RErr (N.of_nat (List.length s)), s ++ [CError a None (IncorrectValueKind v float_accepted) l])%list
    end.
Check c05_round_even_nearest : forall m s : N,
  (0 < s)%N ->
  let q := round_even m s in
  (2 ^ s * q <= m + 2 ^ (s - 1))%N /\ (m <= 2 ^ s * q + 2 ^ (s - 1))%N
  /\ ((m + 2 ^ (s - 1) = 2 ^ s * q)%N \/ (m = 2 ^ s * q + 2 ^ (s - 1))%N -> N.even q = true).

Print Assumptions c05_int_exact.
Print Assumptions c05_in_domain.
Print Assumptions c05_unit.
Print Assumptions c05_bool.
Print Assumptions c05_string.
Print Assumptions c05_char.
Print Assumptions c05_f64_total.
Print Assumptions c05_f32_total.
Print Assumptions c05_round_even_nearest.
Print Assumptions c05_f64_of_int_exact.
Print Assumptions c05_f64_of_int_rounded.
Print Assumptions c05_f32_of_int_exact.
Print Assumptions c05_f32_of_int_rounded.
Print Assumptions c05_float_of_negative.
Print Assumptions c05_f32_of_f64_normal.
Print Assumptions c05_f32_of_f64_unfold.
Print Assumptions c05_f32_of_f64_subnormal.

(** f64 -> f32 on the remaining inputs: infinities and zeros keep their sign, every NaN becomes the
    canonical f32 NaN, a subnormal f64 (far below half the least positive f32) becomes a signed zero *)
Theorem c05_f32_of_f64_special : forall b : N,
  let sign := N.testbit b 63 in
  let ef := N.land (N.shiftr b 52) 2047 in
  let mf := N.land b 4503599627370495 in
  let signbit := if sign then (2 ^ 31)%N else 0%N in
  (ef = 2047%N -> mf = 0%N -> f32_of_f64 b = (signbit + 255 * 2 ^ 23)%N)
  /\ (ef = 2047%N -> mf <> 0%N -> f32_of_f64 b = nan32)
  /\ (ef = 0%N -> mf = 0%N -> f32_of_f64 b = signbit)
  /\ (ef = 0%N -> mf <> 0%N -> f32_of_f64 b = signbit).
Proof. exact f32_of_f64_special. Qed.

Check c05_f32_of_f64_special : forall b : N,
  let sign := N.testbit b 63 in
  let ef := N.land (N.shiftr b 52) 2047 in
  let mf := N.land b 4503599627370495 in
  let signbit := if sign then (2 ^ 31)%N else 0%N in
  (ef = 2047%N -> mf = 0%N -> f32_of_f64 b = (signbit + 255 * 2 ^ 23)%N)
  /\ (ef = 2047%N -> mf <> 0%N -> f32_of_f64 b = nan32)
  /\ (ef = 0%N -> mf = 0%N -> f32_of_f64 b = signbit)
  /\ (ef = 0%N -> mf <> 0%N -> f32_of_f64 b = signbit).
Print Assumptions c05_f32_of_f64_special.
