(** C05 - scalars accept exactly the representable values, exactly, and say why not. *)
From Deserr Require Import Base Pointer Kinds Value Prog Utf8 Scalars ScalarSpec.
From Deserr Require Import Fround.
From Deserr.proofs Require Import ScalarProofs FroundProofs.

(** Integers (all 24 targets = every [int_desc]): from any state and under any script,
    - Ok iff the kind is admissible and the number is in the target's domain, the result is then
      the input number itself and no call is made;
    - otherwise exactly one call [error(None, _, l)]: IncorrectValueKind with the value and exactly
      the admissible kinds, or the domain message (received number / zero + violated bound). *)
Theorem c05_int_exact : forall script a d v l s,
  run script (deser_int a d v l) s = outcome_run a v l s (spec_int d v).
Proof. exact deser_int_spec. Qed.

Theorem c05_in_domain : forall d z,
  in_domain d z = true <-> (imin d <= z <= imax d)%Z /\ (i_nonzero d = true -> z <> 0%Z).
Proof. exact in_domain_iff. Qed.

Theorem c05_unit : forall script a v l s,
  run script (deser_unit a v l) s = outcome_run a v l s (spec_unit v).
Proof. exact deser_unit_spec. Qed.
Theorem c05_bool : forall script a v l s,
  run script (deser_bool a v l) s = outcome_run a v l s (spec_bool v).
Proof. exact deser_bool_spec. Qed.
Theorem c05_string : forall script a v l s,
  run script (deser_string a v l) s = outcome_run a v l s (spec_string v).
Proof. exact deser_string_spec. Qed.
Theorem c05_char : forall script a v l s,
  run script (deser_char a v l) s = outcome_run a v l s (spec_char v).
Proof. exact deser_char_spec. Qed.

(* non-vacuity: u8 on 255 / 256 / -1 / "x", NonZeroI8 on 0 *)
Example c05_example :
  let u8 := {| i_signed := false; i_width := W8; i_nonzero := false |} in
  let nzi8 := {| i_signed := true; i_width := W8; i_nonzero := true |} in
  spec_int u8 (VInt 255) = SOk (OInt 255)
  /\ spec_int u8 (VInt 256) = SUnexp "value: `256` is too large to be deserialized, maximum value authorized is `255`"
  /\ spec_int u8 (VNeg (-1)) = SKind [KInteger]
  /\ spec_int nzi8 (VNeg (-129)) = SUnexp "value: `-129` is too small to be deserialized, minimum value authorized is `-128`"
  /\ spec_int nzi8 (VInt 0) = SUnexp "a non-zero integer value higher than `-128` was expected, but found a zero".
Proof. vm_compute. repeat split. Qed.

Check c05_int_exact : forall script a d v l s,
  run script (deser_int a d v l) s = outcome_run a v l s (spec_int d v).
Check c05_in_domain : forall d z,
  in_domain d z = true <-> (imin d <= z <= imax d)%Z /\ (i_nonzero d = true -> z <> 0%Z).
Check c05_unit : forall script a v l s, run script (deser_unit a v l) s = outcome_run a v l s (spec_unit v).
Check c05_bool : forall script a v l s, run script (deser_bool a v l) s = outcome_run a v l s (spec_bool v).
Check c05_string : forall script a v l s, run script (deser_string a v l) s = outcome_run a v l s (spec_string v).
Check c05_char : forall script a v l s, run script (deser_char a v l) s = outcome_run a v l s (spec_char v).
(** Floats: f32 / f64 accept the three numeric kinds and nothing else, never fail on them, and
    make no call; the value is computed by [Fround] (integer -> f64 / f32, f64 -> f32). *)
Theorem c05_f64_total : forall script a v l s,
  run script (deser_f64 a v l) s
  = match v with
    | VInt x => (ROk (OF64 (f64_of_Z (Z.of_N x))), s)
    | VNeg x => (ROk (OF64 (f64_of_Z x)), s)
    | VFloat b => (ROk (OF64 (f64_canon b)), s)
    | _ => (RErr (N.of_nat (List.length s)), s ++ [CError a None (IncorrectValueKind v float_accepted) l])%list
    end.
Proof. intros script a v l s. destruct v; reflexivity. Qed.

Theorem c05_f32_total : forall script a v l s,
  run script (deser_f32 a v l) s
  = match v with
    | VInt x => (ROk (OF32 (f32_of_Z (Z.of_N x))), s)
    | VNeg x => (ROk (OF32 (f32_of_Z x)), s)
    | VFloat b => (ROk (OF32 (f32_of_f64 b)), s)
    | _ => (RErr (N.of_nat (List.length s)), s ++ [CError a None (IncorrectValueKind v float_accepted) l])%list
    end.
Proof. intros script a v l s. destruct v; reflexivity. Qed.

(** The rounding primitive used by every one of those conversions rounds to nearest, ties to
    even: [round_even m s] is within half a unit of m / 2^s, and on an exact tie it is even.
    (The assembly of sign / exponent / mantissa fields around it is tied to the implementation and
    to Flocq's [binary_normalize] by bit-exact comparison on every run, not by a theorem.) *)
Theorem c05_round_even_nearest : forall m s : N,
  (0 < s)%N ->
  let q := round_even m s in
  (2 ^ s * q <= m + 2 ^ (s - 1))%N /\ (m <= 2 ^ s * q + 2 ^ (s - 1))%N
  /\ ((m + 2 ^ (s - 1) = 2 ^ s * q)%N \/ (m = 2 ^ s * q + 2 ^ (s - 1))%N -> N.even q = true).
Proof. exact round_even_nearest. Qed.

Check c05_f64_total : forall script a v l s,
  run script (deser_f64 a v l) s
  = match v with
    | VInt x => (ROk (OF64 (f64_of_Z (Z.of_N x))), s)
    | VNeg x => (ROk (OF64 (f64_of_Z x)), s)
    | VFloat b => (ROk (OF64 (f64_canon b)), s)
    | _ => (RErr (N.of_nat (List.length s)), s ++ [CError a None (IncorrectValueKind v float_accepted) l])%list
    end.
Check c05_f32_total : forall script a v l s,
  run script (deser_f32 a v l) s
  = match v with
    | VInt x => (ROk (OF32 (f32_of_Z (Z.of_N x))), s)
    | VNeg x => (ROk (OF32 (f32_of_Z x)), s)
    | VFloat b => (ROk (OF32 (f32_of_f64 b)), s)
    | _ => (RErr (N.of_nat (List.length s)), s ++ [CError a None (IncorrectValueKind v float_accepted) l])%list
    end.
Check c05_round_even_nearest : forall m s : N,
  (0 < s)%N ->
  let q := round_even m s in
  (2 ^ s * q <= m + 2 ^ (s - 1))%N /\ (m <= 2 ^ s * q + 2 ^ (s - 1))%N
  /\ ((m + 2 ^ (s - 1) = 2 ^ s * q)%N \/ (m = 2 ^ s * q + 2 ^ (s - 1))%N -> N.even q = true).

Print Assumptions c05_int_exact.
Print Assumptions c05_in_domain.
Print Assumptions c05_unit.
Print Assumptions c05_bool.
Print Assumptions c05_string.
Print Assumptions c05_char.
Print Assumptions c05_f64_total.
Print Assumptions c05_f32_total.
Print Assumptions c05_round_even_nearest.
