(** C16 - the derive rejects what it cannot honour instead of ignoring it. *)
From Deserr Require Import Base Pointer Kinds Value Scalars Types Derive DeriveSpec.
From Deserr.proofs Require Import RejectProofs NoOverride.

(** [rejectable] (DeriveSpec.v) is the property's list, as a definition over source-level items:
    empty / unknown / malformed attribute or invalid rename_all value, a single-valued attribute
    given twice (within one attribute or across several), from together with try_from, tag on a
    struct, container try_from with rename_all / tag / deny_unknown_fields - at container, variant
    and field level - and the unsupported shapes (tuple / unit struct, union, variant with unnamed
    data, data-carrying enum without tag). Such an input is never accepted by the macro's front
    end: for every item whose type positions are already compiled, whatever they are. *)
Theorem c16_never_accepted : forall (it : item tpos),
  rejectable it = true -> forall t, expand it <> Accept t.
Proof. exact rejectable_never_accepted. Qed.

(** container-level causes are rejected by a diagnostic of the derive itself *)
Theorem c16_container_rejected : forall (it : item tpos),
  cattrs_rejectable (it_attrs it) (is_struct_shape (it_shape it)) = true -> expand it = Reject.
Proof. exact expand_rejects_cattrs. Qed.

(** a field / variant attribute list with a rejection cause is not read *)
Theorem c16_field_attrs_rejected : forall (gs : list (list (fattr tpos))),
  fattrs_rejectable gs = true -> read_fattrs gs = None.
Proof. exact fattrs_rejectable_rejected. Qed.
Theorem c16_variant_attrs_rejected : forall gs, vattrs_rejectable gs = true -> read_vattrs gs = None.
Proof. exact vattrs_rejectable_rejected. Qed.

(** the macro model has no panic outcome: every input is mapped to Accept / Reject / Invalid
    (Invalid = rustc itself refuses the item); see DESIGN.md for what this does not cover *)

(* non-vacuity: a valid struct is accepted; the same struct with `tag` is rejectable and rejected *)
Example c16_example :
  let f := mkField "x"%string [] (Accept TBool, Some (OBool false)) : field tpos in
  (exists t, expand (mkItem [[CADeny None]] (SNamed [f])) = Accept t)
  /\ rejectable (mkItem [[CADeny None; CATag "t"%string]] (SNamed [f])) = true
  /\ expand (mkItem [[CADeny None; CATag "t"%string]] (SNamed [f])) = Reject
  /\ rejectable (mkItem [[CARenameAll (Some RACamel)]; [CARenameAll (Some RALower)]] (SNamed [f])) = true.
Proof. vm_compute. repeat split. eexists. reflexivity. Qed.


(** Never silently drops or overrides what was written. An accepted item has readable container
    attributes; and whenever the attributes of a container / variant / field are readable, EVERY
    attribute item that was written - in whichever #[deserr(..)] group - is present in the merged
    attributes with exactly the value that was written ([cle] / [vle] / [fle]: field-wise "set in
    the item => set to the same value in the result"). The expansion ([Derive.expand],
    [named_struct], [expand_variant]) is generated from those merged attributes alone. *)
Theorem c16_accepted_reads_attrs : forall it t,
  expand it = Accept t ->
  exists ca, read_cattrs (it_attrs it) = Some ca /\ validate_cattrs ca (is_struct_shape (it_shape it)) = true.
Proof.
  intros it t H. unfold expand in H. destruct (read_cattrs (it_attrs it)) as [ca|]; [|discriminate].
  exists ca. split; [reflexivity|]. destruct (validate_cattrs ca (is_struct_shape (it_shape it))); [reflexivity|discriminate].
Qed.

Theorem c16_container_no_override : forall (T : Type) (gs : list (list (cattr T))) ca,
  read_cattrs gs = Some ca ->
  forall g a, In g gs -> In a g -> exists o, single_cattr a = Some o /\ cle o ca.
Proof.
  intros T gs ca H g a Hg Ha. destruct (container_all_items_read gs ca H g a Hg Ha) as [o Ho].
  exists o. split; [exact Ho|]. eapply container_no_override; eassumption.
Qed.

Theorem c16_variant_no_override : forall gs va,
  read_vattrs gs = Some va -> forall g a o, In g gs -> In a g -> single_vattr a = Some o -> vle o va.
Proof. exact variant_no_override. Qed.

Theorem c16_field_no_override : forall (T : Type) (gs : list (list (fattr T))) fa,
  read_fattrs gs = Some fa -> forall g a o, In g gs -> In a g -> single_fattr a = Some o -> fle o fa.
Proof. intros T. exact (@field_no_override T). Qed.

Check c16_accepted_reads_attrs : forall it t,
  expand it = Accept t ->
  exists ca, read_cattrs (it_attrs it) = Some ca /\ validate_cattrs ca (is_struct_shape (it_shape it)) = true.
Check c16_container_no_override : forall (T : Type) (gs : list (list (cattr T))) ca,
  read_cattrs gs = Some ca ->
  forall g a, In g gs -> In a g -> exists o, single_cattr a = Some o /\ cle o ca.
Check c16_variant_no_override : forall gs va,
  read_vattrs gs = Some va -> forall g a o, In g gs -> In a g -> single_vattr a = Some o -> vle o va.
Check c16_field_no_override : forall (T : Type) (gs : list (list (fattr T))) fa,
  read_fattrs gs = Some fa -> forall g a o, In g gs -> In a g -> single_fattr a = Some o -> fle o fa.

Check c16_never_accepted : forall (it : item tpos), rejectable it = true -> forall t, expand it <> Accept t.
Check c16_container_rejected : forall (it : item tpos),
  cattrs_rejectable (it_attrs it) (is_struct_shape (it_shape it)) = true -> expand it = Reject.
Check c16_field_attrs_rejected : forall (gs : list (list (fattr tpos))), fattrs_rejectable gs = true -> read_fattrs gs = None.
Check c16_variant_attrs_rejected : forall gs, vattrs_rejectable gs = true -> read_vattrs gs = None.
Print Assumptions c16_never_accepted.
Print Assumptions c16_container_rejected.
Print Assumptions c16_field_attrs_rejected.
Print Assumptions c16_variant_attrs_rejected.
Print Assumptions c16_accepted_reads_attrs.
Print Assumptions c16_container_no_override.
Print Assumptions c16_variant_no_override.
Print Assumptions c16_field_no_override.
