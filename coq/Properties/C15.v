(** C15 - object member order never changes the outcome. *)
From Coq Require Import Permutation.
From Deserr Require Import Base Pointer Kinds Value Prog Utf8 Scalars ScalarSpec Types Deser Spec Monitors.
From Deserr.proofs Require Import C15Base C15Proofs.
Local Open Scope list_scope.

(** [veq v v']: v' is v with the members of any objects, at any depth, permuted.
    [wfv v]: in every object of v the keys are distinct and no two distinct keys parse to the same
    map key (such as "1" and "01" for an integer-keyed map target - for those the last member wins
    in the real code, so the order genuinely matters and the property does not speak about them).

    For every target type and location, the specification gives both payloads the same value, the
    same reports up to order (an actual value embedded in a report is itself compared up to
    [veq]), and the same user-function invocations up to order. *)
Theorem c15_spec_order_insensitive : forall v v',
  veq v v' -> wfv v ->
  forall t l,
    s_out (spec t v l) = s_out (spec t v' l)
    /\ PM feq (s_faults (spec t v l)) (s_faults (spec t v' l))
    /\ Permutation (s_ucalls (spec t v l)) (s_ucalls (spec t v' l)).
Proof. exact spec_order_insensitive. Qed.

(** The interpreter under a keep-going error type: both runs succeed with the same value, or both
    fail; the reports received are the same up to order; so are the user functions invoked. *)
Theorem c15_deserialize_order_insensitive : forall t v v',
  veq v v' -> wfv v ->
  let (r, tr) := run (fun _ => true) (deserialize t v) [] in
  let (r', tr') := run (fun _ => true) (deserialize t v') [] in
  match r, r' with
  | ROk o, ROk o' => o = o'
  | RErr _, RErr _ => True
  | _, _ => False
  end
  /\ PM feq (trace_faults tr) (trace_faults tr')
  /\ Permutation (trace_ucalls tr) (trace_ucalls tr').
Proof. exact deserialize_order_insensitive. Qed.

(** well-formedness and the relation are preserved along permutations *)
Theorem c15_wfv_preserved : forall a b, veq a b -> wfv a -> wfv b.
Proof. exact veq_wfv. Qed.

(* non-vacuity: a nested object, permuted at both levels, is related and well formed *)
Example c15_example :
  let v  := VMap [("a", VMap [("x", VInt 1); ("y", VStr "s")]); ("b", VSeq [VInt 3])]%string in
  let v' := VMap [("b", VSeq [VInt 3]); ("a", VMap [("y", VStr "s"); ("x", VInt 1)])]%string in
  veq v v' /\ wfv v.
Proof.
  cbv zeta. split.
  - eapply veq_trans; [apply (veq_member [] "a"%string _ _ _ (veq_perm _ _ (perm_swap _ _ _)))|].
    apply veq_perm. apply perm_swap.
  - assert (Hg : forall ks : list string, NoDup ks ->
                 (forall k, In k ks -> forall d, exists e, parse_int d k = inr e) ->
                 (forall k, In k ks -> k <> "true" /\ k <> "false")%string -> good_keys ks).
    { intros ks Hnd Hint Hbool. split; [exact Hnd|]. intros kp k1 k2 a H1 H2 P1 P2. destruct kp as [|d|]; cbn [parse_key] in P1, P2.
      - congruence.
      - destruct (Hint k1 H1 d) as [e He]. rewrite He in P1. discriminate.
      - destruct (Hbool k1 H1) as [Ht Hf]. apply String.eqb_neq in Ht, Hf. rewrite Ht, Hf in P1. discriminate. }
    assert (Hkeys : forall k, In k ["a"; "b"; "x"; "y"]%string ->
              (forall d, exists e, parse_int d k = inr e) /\ (k <> "true" /\ k <> "false")%string).
    { intros k Hin. cbn in Hin.
      destruct Hin as [<-|[<-|[<-|[<-|[]]]]]; (split; [intros [[] [] []]; eexists; vm_compute; reflexivity|split; discriminate]). }
    cbn [wfv map fst]. repeat split;
      try (apply Hg; [repeat constructor; cbn; intuition discriminate
                     |intros k Hk; apply Hkeys; cbn in *; intuition
                     |intros k Hk; apply Hkeys; cbn in *; intuition]).
Qed.

Check c15_spec_order_insensitive : forall v v',
  veq v v' -> wfv v ->
  forall t l,
    s_out (spec t v l) = s_out (spec t v' l)
    /\ PM feq (s_faults (spec t v l)) (s_faults (spec t v' l))
    /\ Permutation (s_ucalls (spec t v l)) (s_ucalls (spec t v' l)).
Check c15_deserialize_order_insensitive : forall t v v',
  veq v v' -> wfv v ->
  let (r, tr) := run (fun _ => true) (deserialize t v) [] in
  let (r', tr') := run (fun _ => true) (deserialize t v') [] in
  match r, r' with
  | ROk o, ROk o' => o = o'
  | RErr _, RErr _ => True
  | _, _ => False
  end
  /\ PM feq (trace_faults tr) (trace_faults tr')
  /\ Permutation (trace_ucalls tr) (trace_ucalls tr').
Check c15_wfv_preserved : forall a b, veq a b -> wfv a -> wfv b.
Print Assumptions c15_spec_order_insensitive.
Print Assumptions c15_deserialize_order_insensitive.
Print Assumptions c15_wfv_preserved.
