(** C14 - built-in error messages name the right place, value and alternatives. *)
From Deserr Require Import Base Pointer Kinds Value Prog Utf8 Scalars Types Deser Monitors Messages.
From Deserr.proofs Require Import C14Proofs PathProofs.
Local Open Scope string_scope.

(** JsonError and QueryParamError always answer Break and return errors handed to them
    unchanged, so their result is the rendering of the FIRST call made to the error type in the
    always-Break run. That call - hence the message - is the same under every script, in
    particular it is the first report of the keep-going run. Any float-text oracle. *)
Theorem c14_first_report : forall ftext dtext qp t v sc1 sc2,
  first_report_msg ftext dtext qp (snd (run sc1 (deserialize t v) []))
  = first_report_msg ftext dtext qp (snd (run sc2 (deserialize t v) [])).
Proof. exact first_report_msg_independent. Qed.

(** and such an error type succeeds exactly when the keep-going run succeeds, with the same value *)
Theorem c14_ok_same : forall t a v l sc1 sc2 s o s',
  run sc1 (deser t a v l) s = (ROk o, s') -> run sc2 (deser t a v l) s = (ROk o, s').
Proof. exact deser_ok_independent. Qed.

(* the message of a kind error at depth: path from the root, expected kinds, quoted JSON text *)
Example c14_example :
  json_msg (fun _ => "1.5"%string) (IncorrectValueKind (VSeq [VInt 2; VStr "a""b"]) [KInteger])
           (Index 3 (Key "me" Origin))
  = "Invalid value type at `.me[3]`: expected a positive integer, but found an array: `[2,""a\""b""]`"%string
  /\ qp_msg (fun _ => ""%string) (fun _ => ""%string) (MissingField "q") (Key "x" (Key "top" Origin))
     = "Missing parameter `q` inside `top.x`"%string
  /\ json_msg (fun _ => ""%string) (UnknownKey "doggo" ["dogo"; "catto"]) Origin
     = "Unknown field `doggo`: did you mean `dogo`? expected one of `dogo`, `catto`"%string.
Proof. vm_compute. repeat split. Qed.


(** The JSON rendering of a location can be parsed back (by the left-to-right parser
    [PathProofs.parse_path]) into exactly the steps of the location, when no key contains '.' or
    '[' - for other keys the text is ambiguous by nature; hence the rendering is injective on
    such locations: the message names the place unambiguously. *)
Theorem c14_path_roundtrip : forall l, plain_keys l = true -> parse_path (path_json l) = Some (to_owned l).
Proof. exact path_json_roundtrip. Qed.

Theorem c14_path_injective : forall l1 l2,
  plain_keys l1 = true -> plain_keys l2 = true -> path_json l1 = path_json l2 -> to_owned l1 = to_owned l2.
Proof. exact path_json_injective. Qed.

Example c14_path_example :
  parse_path (path_json (Index 12 (Key "b c" (Index 0 (Key "a" Origin)))))
  = Some [SKey "a"; SIndex 0; SKey "b c"; SIndex 12].
Proof. vm_compute. reflexivity. Qed.

Check c14_path_roundtrip : forall l, plain_keys l = true -> parse_path (path_json l) = Some (to_owned l).
Check c14_path_injective : forall l1 l2,
  plain_keys l1 = true -> plain_keys l2 = true -> path_json l1 = path_json l2 -> to_owned l1 = to_owned l2.

Check c14_first_report : forall ftext dtext qp t v sc1 sc2,
  first_report_msg ftext dtext qp (snd (run sc1 (deserialize t v) []))
  = first_report_msg ftext dtext qp (snd (run sc2 (deserialize t v) [])).
Check c14_ok_same : forall t a v l sc1 sc2 s o s',
  run sc1 (deser t a v l) s = (ROk o, s') -> run sc2 (deser t a v l) s = (ROk o, s').
Print Assumptions c14_first_report.
Print Assumptions c14_ok_same.
Print Assumptions c14_path_roundtrip.
Print Assumptions c14_path_injective.
