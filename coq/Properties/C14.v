(** C14 - built-in error messages name the right place, value and alternatives. *)
From Deserr Require Import Base Pointer Kinds Value Prog Utf8 Scalars Types Deser Monitors C04Defs Messages.
From Deserr Require Import DidYouMean Json.
From Deserr.proofs Require Import C14Proofs PathProofs C04Proofs MsgContents.
Local Open Scope string_scope.

(** JsonError and QueryParamError always answer Break and return errors handed to them
    unchanged, so their result is the rendering of the FIRST call made to the error type in the
    always-Break run. That call - hence the message - is the same under every script, in
    particular it is the first report of the keep-going run. Any float-text oracle. *)
Theorem c14_first_report : forall ftext dtext qp t v sc1 sc2,
  first_report_msg ftext dtext qp (snd (run sc1 (deserialize t v) []))
  = first_report_msg ftext dtext qp (snd (run sc2 (deserialize t v) [])).
Proof. exact first_report_msg_independent. Qed.

(** and such an error type succeeds exactly when the keep-going run succeeds, with the same value *)
Theorem c14_ok_same : forall t a v l sc1 sc2 s o s',
  run sc1 (deser t a v l) s = (ROk o, s') -> run sc2 (deser t a v l) s = (ROk o, s').
Proof. exact deser_ok_independent. Qed.

(* the message of a kind error at depth: path from the root, expected kinds, quoted JSON text *)
Example c14_example :
  json_msg (fun _ => "1.5"%string) (IncorrectValueKind (VSeq [VInt 2; VStr "a""b"]) [KInteger])
           (Index 3 (Key "me" Origin))
  = "Invalid value type at `.me[3]`: expected a positive integer, but found an array: `[2,""a\""b""]`"%string
  /\ qp_msg (fun _ => ""%string) (fun _ => ""%string) (MissingField "q") (Key "x" (Key "top" Origin))
     = "Missing parameter `q` inside `top.x`"%string
  /\ json_msg (fun _ => ""%string) (UnknownKey "doggo" ["dogo"; "catto"]) Origin
     = "Unknown field `doggo`: did you mean `dogo`? expected one of `dogo`, `catto`"%string.
Proof. vm_compute. repeat split. Qed.


(** The report that the message renders is true of the payload (under the hypotheses of C04):
    its location exists in the payload; the value quoted by an "Invalid value type" message is
    the value found there and its kind is not among the expected ones; the sequence quoted by an
    "Invalid array len" message is the sequence found there, of another length; a field reported
    missing is absent from the object there; an unknown field / value is present there and not
    among the alternatives listed. *)
Theorem c14_rendered_report_is_true : forall t v script c,
  nodup_keys v = true -> c04_wf t = true ->
  find creates (snd (run script (deserialize t v) [])) = Some c -> call_ok v c.
Proof.
  intros t v script c Hnd Hwf Hf. apply find_some in Hf. destruct Hf as [Hin _].
  pose proof (deserialize_calls_true t v script Hnd Hwf) as H. rewrite Forall_forall in H. apply H. exact Hin.
Qed.

Check c14_rendered_report_is_true : forall t v script c,
  nodup_keys v = true -> c04_wf t = true ->
  find creates (snd (run script (deserialize t v) [])) = Some c -> call_ok v c.

(** The JSON rendering of a location can be parsed back (by the left-to-right parser
    [PathProofs.parse_path]) into exactly the steps of the location, when no key contains '.' or
    '[' - for other keys the text is ambiguous by nature; hence the rendering is injective on
    such locations: the message names the place unambiguously. *)
Theorem c14_path_roundtrip : forall l, plain_keys l = true -> parse_path (path_json l) = Some (to_owned l).
Proof. exact path_json_roundtrip. Qed.

Theorem c14_path_injective : forall l1 l2,
  plain_keys l1 = true -> plain_keys l2 = true -> path_json l1 = path_json l2 -> to_owned l1 = to_owned l2.
Proof. exact path_json_injective. Qed.

(** ... and so can the query-parameter rendering (the same text without the leading dot of a first
    key), when moreover a first key is not empty *)
Theorem c14_path_qp_roundtrip : forall l, qp_ok l = true -> parse_path_qp (path_qp l) = Some (to_owned l).
Proof. exact path_qp_roundtrip. Qed.

Check c14_path_qp_roundtrip : forall l, qp_ok l = true -> parse_path_qp (path_qp l) = Some (to_owned l).

Example c14_path_example :
  parse_path (path_json (Index 12 (Key "b c" (Index 0 (Key "a" Origin)))))
  = Some [SKey "a"; SIndex 0; SKey "b c"; SIndex 12].
Proof. vm_compute. reflexivity. Qed.

Check c14_path_roundtrip : forall l, plain_keys l = true -> parse_path (path_json l) = Some (to_owned l).
Check c14_path_injective : forall l1 l2,
  plain_keys l1 = true -> plain_keys l2 = true -> path_json l1 = path_json l2 -> to_owned l1 = to_owned l2.

Check c14_first_report : forall ftext dtext qp t v sc1 sc2,
  first_report_msg ftext dtext qp (snd (run sc1 (deserialize t v) []))
  = first_report_msg ftext dtext qp (snd (run sc2 (deserialize t v) [])).
Check c14_ok_same : forall t a v l sc1 sc2 s o s',
  run sc1 (deser t a v l) s = (ROk o, s') -> run sc2 (deser t a v l) s = (ROk o, s').
Print Assumptions c14_first_report.
Print Assumptions c14_ok_same.
Print Assumptions c14_path_roundtrip.
Print Assumptions c14_path_injective.
Print Assumptions c14_rendered_report_is_true.
Print Assumptions c14_path_qp_roundtrip.

(** Text level: what each message contains ([substr a s]: s is some text, then a, then some
    text). Below the root every message contains the path from the root between backquotes (for
    query parameters the rendering without the leading dot); at the root the location text is
    empty. *)
Theorem c14_contents_path : forall ftext dtext k l, l <> Origin ->
  substr ("`" ++ path_json l ++ "`") (json_msg ftext k l) /\ substr ("`" ++ path_qp l ++ "`") (qp_msg ftext dtext k l).
Proof. intros ftext dtext k l Hl. split; [exact (json_msg_has_path ftext k l Hl)|exact (qp_msg_has_path ftext dtext k l Hl)]. Qed.

Theorem c14_contents_root : forall art, location_json Origin art = "" /\ location_qp Origin art = "".
Proof. intros art. split; reflexivity. Qed.

(** per kind: the offending value as JSON text with the expected kinds; the missing field; the
    unknown key / value, the suggestion text and every accepted alternative; both lengths and the
    sequence; the detail message *)
Theorem c14_contents_value : forall ftext actual accepted l,
  substr (value_description_json ftext actual) (json_msg ftext (IncorrectValueKind actual accepted) l)
  /\ substr (describe accepted) (json_msg ftext (IncorrectValueKind actual accepted) l).
Proof. exact json_msg_value. Qed.

Theorem c14_contents_value_quoted : forall ftext v,
  kind_json (from_value v) <> KNull ->
  substr ("`" ++ json_text ftext (from_value v) ++ "`") (value_description_json ftext v).
Proof. exact value_description_quotes. Qed.

Theorem c14_contents_missing : forall ftext f l, substr ("`" ++ f ++ "`") (json_msg ftext (MissingField f) l).
Proof. exact json_msg_missing. Qed.

Theorem c14_contents_unknown_key : forall ftext key accepted l,
  substr ("`" ++ key ++ "`") (json_msg ftext (UnknownKey key accepted) l)
  /\ substr (did_you_mean key accepted) (json_msg ftext (UnknownKey key accepted) l)
  /\ forall a, In a accepted -> substr ("`" ++ a ++ "`") (json_msg ftext (UnknownKey key accepted) l).
Proof. exact json_msg_unknown_key. Qed.

Theorem c14_contents_unknown_value : forall ftext v accepted l,
  substr ("`" ++ v ++ "`") (json_msg ftext (UnknownValue v accepted) l)
  /\ substr (did_you_mean v accepted) (json_msg ftext (UnknownValue v accepted) l)
  /\ forall a, In a accepted -> substr ("`" ++ a ++ "`") (json_msg ftext (UnknownValue v accepted) l).
Proof. exact json_msg_unknown_value. Qed.

Theorem c14_contents_len : forall ftext actual expected l,
  let m := json_msg ftext (BadSequenceLen actual expected) l in
  substr ("Received " ++ dec_N (N.of_nat (List.length actual)) ++ " elements") m
  /\ substr ("instead of " ++ dec_N expected ++ ":") m
  /\ substr ("`" ++ json_text ftext (from_value (VSeq actual)) ++ "`") m.
Proof. exact json_msg_len. Qed.

Theorem c14_contents_detail : forall ftext msg l, substr msg (json_msg ftext (Unexpected msg) l).
Proof. exact json_msg_detail. Qed.

(** the suggestion text is empty or names one accepted alternative (which one: C18) *)
Theorem c14_contents_suggestion : forall key accepted,
  did_you_mean key accepted = "" \/ exists a, In a accepted /\ did_you_mean key accepted = "did you mean `" ++ a ++ "`? ".
Proof. exact suggestion_text. Qed.

Check c14_contents_path : forall ftext dtext k l, l <> Origin ->
  substr ("`" ++ path_json l ++ "`") (json_msg ftext k l) /\ substr ("`" ++ path_qp l ++ "`") (qp_msg ftext dtext k l).
Check c14_contents_unknown_key : forall ftext key accepted l,
  substr ("`" ++ key ++ "`") (json_msg ftext (UnknownKey key accepted) l)
  /\ substr (did_you_mean key accepted) (json_msg ftext (UnknownKey key accepted) l)
  /\ forall a, In a accepted -> substr ("`" ++ a ++ "`") (json_msg ftext (UnknownKey key accepted) l).
Check c14_contents_len : forall ftext actual expected l,
  let m := json_msg ftext (BadSequenceLen actual expected) l in
  substr ("Received " ++ dec_N (N.of_nat (List.length actual)) ++ " elements") m
  /\ substr ("instead of " ++ dec_N expected ++ ":") m
  /\ substr ("`" ++ json_text ftext (from_value (VSeq actual)) ++ "`") m.

(** the same ingredients in the QueryParamError message *)
Theorem c14_contents_qp : forall ftext dtext l,
    (forall actual accepted, substr (value_description_qp dtext actual) (qp_msg ftext dtext (IncorrectValueKind actual accepted) l))
    /\ (forall f, substr ("`" ++ f ++ "`") (qp_msg ftext dtext (MissingField f) l))
    /\ (forall key accepted, substr ("`" ++ key ++ "`") (qp_msg ftext dtext (UnknownKey key accepted) l)
                             /\ substr (did_you_mean key accepted) (qp_msg ftext dtext (UnknownKey key accepted) l)
                             /\ forall a, In a accepted -> substr ("`" ++ a ++ "`") (qp_msg ftext dtext (UnknownKey key accepted) l))
    /\ (forall v accepted, substr ("`" ++ v ++ "`") (qp_msg ftext dtext (UnknownValue v accepted) l)
                           /\ substr (did_you_mean v accepted) (qp_msg ftext dtext (UnknownValue v accepted) l)
                           /\ forall a, In a accepted -> substr ("`" ++ a ++ "`") (qp_msg ftext dtext (UnknownValue v accepted) l))
    /\ (forall actual expected,
          substr ("Received " ++ dec_N (N.of_nat (List.length actual)) ++ " elements") (qp_msg ftext dtext (BadSequenceLen actual expected) l)
          /\ substr ("instead of " ++ dec_N expected ++ ":") (qp_msg ftext dtext (BadSequenceLen actual expected) l)
          /\ substr ("`" ++ json_text ftext (from_value (VSeq actual)) ++ "`") (qp_msg ftext dtext (BadSequenceLen actual expected) l))
    /\ (forall msg, substr msg (qp_msg ftext dtext (Unexpected msg) l)).
Proof. exact qp_msg_contents. Qed.

Check c14_contents_root : forall art, location_json Origin art = "" /\ location_qp Origin art = "".
Check c14_contents_value : forall ftext actual accepted l,
  substr (value_description_json ftext actual) (json_msg ftext (IncorrectValueKind actual accepted) l)
  /\ substr (describe accepted) (json_msg ftext (IncorrectValueKind actual accepted) l).
Check c14_contents_value_quoted : forall ftext v,
  kind_json (from_value v) <> KNull ->
  substr ("`" ++ json_text ftext (from_value v) ++ "`") (value_description_json ftext v).
Check c14_contents_missing : forall ftext f l, substr ("`" ++ f ++ "`") (json_msg ftext (MissingField f) l).
Check c14_contents_unknown_value : forall ftext v accepted l,
  substr ("`" ++ v ++ "`") (json_msg ftext (UnknownValue v accepted) l)
  /\ substr (did_you_mean v accepted) (json_msg ftext (UnknownValue v accepted) l)
  /\ forall a, In a accepted -> substr ("`" ++ a ++ "`") (json_msg ftext (UnknownValue v accepted) l).
Check c14_contents_detail : forall ftext msg l, substr msg (json_msg ftext (Unexpected msg) l).
Check c14_contents_suggestion : forall key accepted,
  did_you_mean key accepted = "" \/ exists a, In a accepted /\ did_you_mean key accepted = "did you mean `" ++ a ++ "`? ".
Check c14_contents_qp : forall ftext dtext l,
    (forall actual accepted, substr (value_description_qp dtext actual) (qp_msg ftext dtext (IncorrectValueKind actual accepted) l))
    /\ (forall f, substr ("`" ++ f ++ "`") (qp_msg ftext dtext (MissingField f) l))
    /\ (forall key accepted, substr ("`" ++ key ++ "`") (qp_msg ftext dtext (UnknownKey key accepted) l)
                             /\ substr (did_you_mean key accepted) (qp_msg ftext dtext (UnknownKey key accepted) l)
                             /\ forall a, In a accepted -> substr ("`" ++ a ++ "`") (qp_msg ftext dtext (UnknownKey key accepted) l))
    /\ (forall v accepted, substr ("`" ++ v ++ "`") (qp_msg ftext dtext (UnknownValue v accepted) l)
                           /\ substr (did_you_mean v accepted) (qp_msg ftext dtext (UnknownValue v accepted) l)
                           /\ forall a, In a accepted -> substr ("`" ++ a ++ "`") (qp_msg ftext dtext (UnknownValue v accepted) l))
    /\ (forall actual expected,
          substr ("Received " ++ dec_N (N.of_nat (List.length actual)) ++ " elements") (qp_msg ftext dtext (BadSequenceLen actual expected) l)
          /\ substr ("instead of " ++ dec_N expected ++ ":") (qp_msg ftext dtext (BadSequenceLen actual expected) l)
          /\ substr ("`" ++ json_text ftext (from_value (VSeq actual)) ++ "`") (qp_msg ftext dtext (BadSequenceLen actual expected) l))
    /\ (forall msg, substr msg (qp_msg ftext dtext (Unexpected msg) l)).

Print Assumptions c14_contents_path.
Print Assumptions c14_contents_root.
Print Assumptions c14_contents_value.
Print Assumptions c14_contents_value_quoted.
Print Assumptions c14_contents_missing.
Print Assumptions c14_contents_unknown_key.
Print Assumptions c14_contents_unknown_value.
Print Assumptions c14_contents_len.
Print Assumptions c14_contents_detail.
Print Assumptions c14_contents_suggestion.
Print Assumptions c14_contents_qp.
