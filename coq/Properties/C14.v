(** C14 - built-in error messages name the right place, value and alternatives. *)
From Deserr Require Import Base Pointer Kinds Value Prog Utf8 Scalars Types Deser Monitors Messages.
From Deserr.proofs Require Import C14Proofs.
Local Open Scope string_scope.

(** JsonError and QueryParamError always answer Break and return errors handed to them
    unchanged, so their result is the rendering of the FIRST call made to the error type in the
    always-Break run. That call - hence the message - is the same under every script, in
    particular it is the first report of the keep-going run. Any float-text oracle. *)
Theorem c14_first_report : forall ftext dtext qp t v sc1 sc2,
  first_report_msg ftext dtext qp (snd (run sc1 (deserialize t v) []))
  = first_report_msg ftext dtext qp (snd (run sc2 (deserialize t v) [])).
Proof. exact first_report_msg_independent. Qed.

(** and such an error type succeeds exactly when the keep-going run succeeds, with the same value *)
Theorem c14_ok_same : forall t a v l sc1 sc2 s o s',
  run sc1 (deser t a v l) s = (ROk o, s') -> run sc2 (deser t a v l) s = (ROk o, s').
Proof. exact deser_ok_independent. Qed.

(* the message of a kind error at depth: path from the root, expected kinds, quoted JSON text *)
Example c14_example :
  json_msg (fun _ => "1.5"%string) (IncorrectValueKind (VSeq [VInt 2; VStr "a""b"]) [KInteger])
           (Index 3 (Key "me" Origin))
  = "Invalid value type at `.me[3]`: expected a positive integer, but found an array: `[2,""a\""b""]`"%string
  /\ qp_msg (fun _ => ""%string) (fun _ => ""%string) (MissingField "q") (Key "x" (Key "top" Origin))
     = "Missing parameter `q` inside `top.x`"%string
  /\ json_msg (fun _ => ""%string) (UnknownKey "doggo" ["dogo"; "catto"]) Origin
     = "Unknown field `doggo`: did you mean `dogo`? expected one of `dogo`, `catto`"%string.
Proof. vm_compute. repeat split. Qed.

Check c14_first_report : forall ftext dtext qp t v sc1 sc2,
  first_report_msg ftext dtext qp (snd (run sc1 (deserialize t v) []))
  = first_report_msg ftext dtext qp (snd (run sc2 (deserialize t v) [])).
Check c14_ok_same : forall t a v l sc1 sc2 s o s',
  run sc1 (deser t a v l) s = (ROk o, s') -> run sc2 (deser t a v l) s = (ROk o, s').
Print Assumptions c14_first_report.
Print Assumptions c14_ok_same.
