(** C19 - Value pointers faithfully record the path that was pushed. *)
From Deserr Require Import Base Pointer.
From Deserr.proofs Require Import PointerProofs.

Theorem c19_to_owned : forall steps, to_owned (build steps) = steps.
Proof. exact to_owned_build. Qed.

Theorem c19_origin : forall steps, is_origin (build steps) = true <-> steps = [].
Proof. exact is_origin_build. Qed.

Theorem c19_first_field : forall steps, first_field (build steps) = first_key steps.
Proof. exact first_field_build. Qed.

Theorem c19_last_field : forall steps, last_field (build steps) = last_key steps.
Proof. exact last_field_build. Qed.

Theorem c19_build_onto : forall p, build (to_owned p) = p.
Proof. exact build_to_owned. Qed.

(* non-vacuity: a five-step path with keys and indices *)
Example c19_example :
  let steps := [SIndex 3; SKey "a"; SIndex 0; SKey "b"; SIndex 7]%N in
  to_owned (build steps) = steps /\ first_field (build steps) = Some "a"%string
  /\ last_field (build steps) = Some "b"%string /\ is_origin (build steps) = false.
Proof. vm_compute. repeat split. Qed.

Check c19_to_owned : forall steps, to_owned (build steps) = steps.
Check c19_origin : forall steps, is_origin (build steps) = true <-> steps = [].
Check c19_first_field : forall steps, first_field (build steps) = first_key steps.
Check c19_last_field : forall steps, last_field (build steps) = last_key steps.
Check c19_build_onto : forall p, build (to_owned p) = p.
Print Assumptions c19_to_owned.
Print Assumptions c19_origin.
Print Assumptions c19_first_field.
Print Assumptions c19_last_field.
Print Assumptions c19_build_onto.
