(** C12 - deserialize is total: it returns Ok or Err, it never panics. *)
From Deserr Require Import Base Pointer Kinds Value Prog Utf8 Scalars Types Deser.
From Deserr.proofs Require Import C12Proofs.

(** The interpreter models every panic site of the code explicitly ([RPanic]): the [unwrap]s of
    tuple slots, [FieldState::unwrap] in the derived constructors, and the [Vec -> [T; N]]
    conversion. None of them is reachable: for every target type, payload (any shape, any
    nesting), location, error-type behaviour (script) and starting state. *)
Theorem c12_no_panic : forall t a v l script s site,
  fst (run script (deser t a v l) s) <> RPanic site.
Proof. exact deser_never_panics. Qed.

(* the panic branches exist in the model: with states the interpreter never builds they fire *)
Example c12_sites_are_modelled :
  fst (run (fun _ => true) (construct [("f"%string, FErr, None)] []) []) = inr (RPanic "Unwrapping an empty field state")
  /\ fst (run (fun _ => true) (tuple_loop 0 Origin [] 0 None [None]) []) = RPanic "called `Option::unwrap()` on a `None` value".
Proof. vm_compute. split; reflexivity. Qed.

Check c12_no_panic : forall t a v l script s site, fst (run script (deser t a v l) s) <> RPanic site.
Print Assumptions c12_no_panic.
