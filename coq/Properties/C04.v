(** C04 - every report points at the real culprit: location and payload match the input. *)
From Deserr Require Import Base Pointer Kinds Value Prog Utf8 Scalars Types Deser Monitors C04Defs.
From Deserr.proofs Require Import LeavesProofs C04Proofs Under LocProofs DeserLoc.

(** For every target type satisfying the stated hypotheses ([c04_wf]: distinct effective keys
    within each struct / variant, no variant field keyed like the enum's tag), every payload with
    unique keys per object, every location [l] at which the value [v] sits in the payload [root],
    every script and state: EVERY call the interpreter can make is true of the payload
    ([call_ok]) - its location resolves to an existing position; an IncorrectValueKind carries
    the value found there, whose kind is not among the accepted kinds; a BadSequenceLen carries
    the sequence found there, whose length differs from the expected one; a MissingField is absent
    from the object there; an UnknownKey is present there and not among the accepted keys; an
    UnknownValue is the string found there and not among the accepted names; the locations of
    hand-overs and of user-function calls resolve. *)
Theorem c04_calls_true : forall root, nodup_keys root = true ->
  forall t, c04_wf t = true -> forall a v l, resolves root l v -> Calls (call_ok root) (deser t a v l).
Proof. exact deser_calls_true. Qed.

(** hence every call logged by [deserialize t v] is true of [v], under every script *)
Theorem c04_trace_true : forall t v script,
  nodup_keys v = true -> c04_wf t = true ->
  Forall (call_ok v) (snd (run script (deserialize t v) [])).
Proof. exact deserialize_calls_true. Qed.

(** Hand-overs: under every script, every [merge(_, other, loc)] made by [deserialize] is made at
    a location that is an ancestor-or-self of the location of every report held by [other]. *)
Theorem c04_merge_location : forall t v script,
  let tr := snd (run script (deserialize t v) []) in
  Forall (merge_ok tr) tr.
Proof. exact deserialize_merges_located. Qed.

(** Both together: the monitor that the check evaluates on the implementation's traces
    ([Monitors.call_true]) holds of every call of every run of the model. *)
Theorem c04_call_true : forall t v script,
  nodup_keys v = true -> c04_wf t = true ->
  let tr := snd (run script (deserialize t v) []) in
  forallb (call_true v tr) tr = true.
Proof. exact deserialize_call_true. Qed.

Check c04_merge_location : forall t v script,
  let tr := snd (run script (deserialize t v) []) in Forall (merge_ok tr) tr.
Check c04_call_true : forall t v script,
  nodup_keys v = true -> c04_wf t = true ->
  let tr := snd (run script (deserialize t v) []) in
  forallb (call_true v tr) tr = true.

(* non-vacuity: an array fault at index 2 and a missing field inside a map value *)
Example c04_example :
  let u8 := TInt {| i_signed := false; i_width := W8; i_nonzero := false |} in
  let st := TStruct (mkCS [mkCF "a" "a" (TArray 3 u8) None FFNone FDMissing None None;
                           mkCF "b" "b" TBool None FFNone FDMissing None None] [] DenyDefault) None in
  let t := TMap KPString "alloc::string::String" st in
  let v := VMap [("k", VMap [("a", VSeq [VInt 1; VInt 2; VInt 1000]); ("zz", VNull)])]%string in
  c04_wf t = true /\ nodup_keys v = true
  /\ List.length (snd (run (fun _ => true) (deserialize t v) [])) = 6%nat
  /\ forallb (call_true v (snd (run (fun _ => true) (deserialize t v) []))) (snd (run (fun _ => true) (deserialize t v) [])) = true.
Proof. vm_compute. repeat split. Qed.

Check c04_calls_true : forall root, nodup_keys root = true ->
  forall t, c04_wf t = true -> forall a v l, resolves root l v -> Calls (call_ok root) (deser t a v l).
Check c04_trace_true : forall t v script,
  nodup_keys v = true -> c04_wf t = true -> Forall (call_ok v) (snd (run script (deserialize t v) [])).
Print Assumptions c04_calls_true.
Print Assumptions c04_trace_true.
Print Assumptions c04_merge_location.
Print Assumptions c04_call_true.
