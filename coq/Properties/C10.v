(** C10 - enum dispatch: the tag or string selects exactly the named variant. *)
From Deserr Require Import Base Pointer Kinds Value Prog Utf8 Scalars Types Deser Monitors Derive.
From Deserr.proofs Require Import MiscProofs DeriveProofs.

(** unit-only enum: exact, case-sensitive match ([String.eqb]) of the string against the
    effective variant names, first match; otherwise UnknownValue with all names in order *)
Theorem c10_unit_string : forall script a vs s l st,
  run script (run_unit_enum a vs (VStr s) l) st =
  match find_unit vs s with
  | Some ident => (ROk (OVariant ident []), st)
  | None => (RErr (N.of_nat (List.length st)), st ++ [CError a None (UnknownValue s (map snd vs)) l])
  end.
Proof. exact unit_enum_string. Qed.
Theorem c10_unit_match : forall vs s ident, find_unit vs s = Some ident -> In (ident, s) vs.
Proof. exact find_unit_some. Qed.
Theorem c10_unit_no_match : forall vs s, find_unit vs s = None <-> ~ In s (map snd vs).
Proof. exact find_unit_none. Qed.
Theorem c10_unit_non_string : forall script a vs v l st,
  (forall s, v <> VStr s) ->
  run script (run_unit_enum a vs v l) st
  = (RErr (N.of_nat (List.length st)), st ++ [CError a None (IncorrectValueKind v [KString]) l]).
Proof. exact unit_enum_non_string. Qed.

(** internally tagged enum *)
Theorem c10_tag_absent : forall script a tag vs ms l st,
  lookup_key tag ms = None ->
  run script (run_tagged a tag vs (VMap ms) l) st
  = (RErr (N.of_nat (List.length st)), st ++ [CError a None (MissingField tag) l]).
Proof. exact tagged_missing. Qed.
Theorem c10_tag_non_string : forall script a tag vs ms l st tv rest,
  remove_first tag ms = Some (tv, rest) -> (forall s, tv <> VStr s) ->
  run script (run_tagged a tag vs (VMap ms) l) st
  = (RErr (N.of_nat (List.length st)), st ++ [CError a None (IncorrectValueKind tv [KString]) (Key tag l)]).
Proof. exact tagged_non_string. Qed.
Theorem c10_tag_names_no_variant : forall script a tag vs ms l st s rest,
  remove_first tag ms = Some (VStr s, rest) -> find_variant vs s = None ->
  run script (run_tagged a tag vs (VMap ms) l) st
  = (RErr (N.of_nat (List.length st)), st ++ [CError a None (Unexpected "Incorrect tag value"%string) l]).
Proof. exact tagged_unknown. Qed.
(** the variant chosen is the first whose effective name equals the tag string exactly; its
    fields are read from the remaining entries by the rules of that variant alone *)
Theorem c10_tag_selects : forall a tag vs ms l s rest rv,
  remove_first tag ms = Some (VStr s, rest) -> find_variant vs s = Some rv ->
  run_tagged a tag vs (VMap ms) l =
  match rv_data rv with
  | None => Ret (ROk (OVariant (rv_ident rv) []))
  | Some (fs, sk, d) => run_fields a fs sk d (OVariant (rv_ident rv)) rest l
  end.
Proof. exact tagged_selects. Qed.
Theorem c10_variant_first_exact : forall vs s rv,
  find_variant vs s = Some rv ->
  exists pre post, vs = pre ++ rv :: post /\ rv_key rv = s /\ Forall (fun x => rv_key x <> s) pre.
Proof. exact find_variant_first. Qed.


(** where the names come from: the effective name of a variant is its own `rename`, else the
    container's `rename_all` applied to its identifier, else the identifier (and the container's
    `rename_all` never reaches the variant's fields: C07) *)
Theorem c10_variant_names : forall ca v cv,
  expand_variant ca v = Accept cv ->
  exists va, read_vattrs (vr_attrs v) = Some va
    /\ cv_ident cv = vr_ident v
    /\ cv_key cv = key_name_for_ident (vr_ident v) (ca_rename_all ca) (va_rename va).
Proof.
  intros ca v cv H. destruct (expand_variant_scope ca v cv H) as (va & Hva & Hk & _). exists va. split; [exact Hva|]. split; [|exact Hk].
  unfold expand_variant in H. rewrite Hva in H. destruct (vr_shape v); [inversion H; reflexivity| |discriminate].
  destruct (named_struct _ _ _); cbn in H; inversion H; reflexivity.
Qed.

Check c10_variant_names : forall ca v cv,
  expand_variant ca v = Accept cv ->
  exists va, read_vattrs (vr_attrs v) = Some va
    /\ cv_ident cv = vr_ident v
    /\ cv_key cv = key_name_for_ident (vr_ident v) (ca_rename_all ca) (va_rename va).

Check c10_unit_string : forall script a vs s l st,
  run script (run_unit_enum a vs (VStr s) l) st =
  match find_unit vs s with
  | Some ident => (ROk (OVariant ident []), st)
  | None => (RErr (N.of_nat (List.length st)), st ++ [CError a None (UnknownValue s (map snd vs)) l])
  end.
Check c10_unit_match : forall vs s ident, find_unit vs s = Some ident -> In (ident, s) vs.
Check c10_unit_no_match : forall vs s, find_unit vs s = None <-> ~ In s (map snd vs).
Check c10_unit_non_string : forall script a vs v l st,
  (forall s, v <> VStr s) ->
  run script (run_unit_enum a vs v l) st
  = (RErr (N.of_nat (List.length st)), st ++ [CError a None (IncorrectValueKind v [KString]) l]).
Check c10_tag_absent : forall script a tag vs ms l st,
  lookup_key tag ms = None ->
  run script (run_tagged a tag vs (VMap ms) l) st
  = (RErr (N.of_nat (List.length st)), st ++ [CError a None (MissingField tag) l]).
Check c10_tag_non_string : forall script a tag vs ms l st tv rest,
  remove_first tag ms = Some (tv, rest) -> (forall s, tv <> VStr s) ->
  run script (run_tagged a tag vs (VMap ms) l) st
  = (RErr (N.of_nat (List.length st)), st ++ [CError a None (IncorrectValueKind tv [KString]) (Key tag l)]).
Check c10_tag_names_no_variant : forall script a tag vs ms l st s rest,
  remove_first tag ms = Some (VStr s, rest) -> find_variant vs s = None ->
  run script (run_tagged a tag vs (VMap ms) l) st
  = (RErr (N.of_nat (List.length st)), st ++ [CError a None (Unexpected "Incorrect tag value"%string) l]).
Check c10_tag_selects : forall a tag vs ms l s rest rv,
  remove_first tag ms = Some (VStr s, rest) -> find_variant vs s = Some rv ->
  run_tagged a tag vs (VMap ms) l =
  match rv_data rv with
  | None => Ret (ROk (OVariant (rv_ident rv) []))
  | Some (fs, sk, d) => run_fields a fs sk d (OVariant (rv_ident rv)) rest l
  end.
Check c10_variant_first_exact : forall vs s rv,
  find_variant vs s = Some rv ->
  exists pre post, vs = pre ++ rv :: post /\ rv_key rv = s /\ Forall (fun x => rv_key x <> s) pre.
Print Assumptions c10_unit_string.
Print Assumptions c10_unit_match.
Print Assumptions c10_unit_no_match.
Print Assumptions c10_unit_non_string.
Print Assumptions c10_tag_absent.
Print Assumptions c10_tag_non_string.
Print Assumptions c10_tag_names_no_variant.
Print Assumptions c10_tag_selects.
Print Assumptions c10_variant_first_exact.
Print Assumptions c10_variant_names.

(* `rename_all = lowercase` is str::to_lowercase, not ASCII lowercasing (modelled for Latin-1, Greek
   except sigma, Cyrillic) *)
Example c10_lowercase_beyond_ascii :
  lowercase "ÖsterReich" = "österreich"%string /\ lowercase "ÉtatsUnis" = "étatsunis"%string
  /\ lowercase "Ελλάδα" = "ελλάδα"%string /\ lowercase "Россия" = "россия"%string /\ lowercase "×Þ_Ab" = "×þ_ab"%string.
Proof. vm_compute. repeat split. Qed.

(** on ASCII identifiers that lowercasing is the byte-wise ASCII one *)
Theorem c10_lowercase_ascii : forall s, ascii_only s = true -> lowercase s = str_map to_lower s.
Proof. exact lowercase_ascii. Qed.
Check c10_lowercase_ascii : forall s, ascii_only s = true -> lowercase s = str_map to_lower s.
Print Assumptions c10_lowercase_ascii.
