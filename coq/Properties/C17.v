(** C17 - the expected-kinds phrase depends only on the set of kinds and covers it exactly. *)
From Deserr Require Import Base Kinds.
From Deserr.proofs Require Import KindsProofs.

(** order and multiplicity are irrelevant: any two lists with the same members, of any length *)
Theorem c17_set_only : forall l l', (forall k, In k l <-> In k l') -> describe l = describe l'.
Proof. exact describe_set_only. Qed.

(** the phrase is exactly the rule of the property ([spec_describe], Kinds.v: "a number" when
    floats are accepted, "an integer" for both integer kinds without floats, otherwise the
    individual names, fixed order, joined "a", "a or b", "a, b, or c") - for every list *)
Theorem c17_covers_exactly : forall l, describe l = spec_describe l.
Proof. exact describe_spec. Qed.

Theorem c17_empty : forall l, (forall k, ~ In k l) -> describe l = "a different value"%string.
Proof. exact describe_empty. Qed.

Example c17_example :
  describe [KMap; KInteger; KNull; KInteger; KNegativeInteger; KMap]
  = "null, an integer, or an object"%string
  /\ describe [KFloat; KInteger] = "a number"%string
  /\ describe [KNegativeInteger; KString] = "a negative integer or a string"%string.
Proof. vm_compute. repeat split. Qed.

Check c17_set_only : forall l l', (forall k, In k l <-> In k l') -> describe l = describe l'.
Check c17_covers_exactly : forall l, describe l = spec_describe l.
Check c17_empty : forall l, (forall k, ~ In k l) -> describe l = "a different value"%string.
Print Assumptions c17_set_only.
Print Assumptions c17_covers_exactly.
Print Assumptions c17_empty.
