(** C09 - unknown keys: denied exactly and completely, otherwise ignored completely. *)
From Deserr Require Import Base Pointer Kinds Value Prog Utf8 Scalars Types Deser Derive Monitors Spec.
From Deserr.proofs Require Import MiscProofs RefineFields FieldsSpec DeriveProofs.

(** without deny_unknown_fields, members whose key matches no field have no influence
    whatsoever: the run (result AND every call) is the run on the payload without them, for any
    script and state - adding, removing or changing them changes nothing *)
Theorem c09_ignored : forall script a fs sk mk ms l s,
  run script (run_fields a fs sk DenyNo mk ms l) s
  = run script (run_fields a fs sk DenyNo mk (filter (known fs) ms) l) s.
Proof. exact run_fields_ignore_unknown. Qed.

(** with it, a member whose key matches no field is reported as UnknownKey with the given list
    of accepted keys at the container's location, then the loop goes on with the next member *)
Theorem c09_denied_step : forall a fs keys l k v ms acc sts,
  find_field fs k 0 = None ->
  entries_loop a fs DenyDefault keys l ((k, v) :: ms) acc sts
  = bind (report a acc (UnknownKey k keys) l (fun acc' => Ret (SGo acc' sts)) (fun i => Ret (SStop (RErr i))))
         (fun so => match so with
                    | SGo acc' sts' => entries_loop a fs DenyDefault keys l ms acc' sts'
                    | SStop r => Ret (SStop r)
                    end).
Proof. exact entries_deny_step. Qed.

(** Specification level (the interpreter refines it, C02): a member whose key is the effective key
    of no field is, under deny_unknown_fields, exactly one UnknownKey report at the container's
    location listing the accepted keys in declaration order; without the attribute it contributes
    nothing at all; with a user function, one call with (key, accepted keys, location) whose result
    is handed over at the container's location. By [c02_fields_independent] these are added up over
    all members: one report per unknown key. *)
Theorem c09_unknown_member_result : forall fs d l k v,
  (forall f, In f fs -> sp_key f <> k) ->
  s_member fs d l (k, v)
  = (None,
     match d with
     | DenyNo => mkS None [] []
     | DenyDefault => s_fault (FKind (UnknownKey k (map sp_key fs)) l)
     | DenyFn fn =>
       let args := [AStr k; AStrs (map sp_key fs); ALoc (to_owned l)] in
       mkS None [FUser (fn, args) l] [(fn, args)]
     end).
Proof. exact unknown_member_result. Qed.

Check c09_unknown_member_result : forall fs d l k v,
  (forall f, In f fs -> sp_key f <> k) ->
  s_member fs d l (k, v)
  = (None,
     match d with
     | DenyNo => mkS None [] []
     | DenyDefault => s_fault (FKind (UnknownKey k (map sp_key fs)) l)
     | DenyFn fn =>
       let args := [AStr k; AStrs (map sp_key fs); ALoc (to_owned l)] in
       mkS None [FUser (fn, args) l] [(fn, args)]
     end).

Check c09_ignored : forall script a fs sk mk ms l s,
  run script (run_fields a fs sk DenyNo mk ms l) s
  = run script (run_fields a fs sk DenyNo mk (filter (known fs) ms) l) s.
Check c09_denied_step : forall a fs keys l k v ms acc sts,
  find_field fs k 0 = None ->
  entries_loop a fs DenyDefault keys l ((k, v) :: ms) acc sts
  = bind (report a acc (UnknownKey k keys) l (fun acc' => Ret (SGo acc' sts)) (fun i => Ret (SStop (RErr i))))
         (fun so => match so with
                    | SGo acc' sts' => entries_loop a fs DenyDefault keys l ms acc' sts'
                    | SStop r => Ret (SStop r)
                    end).
Print Assumptions c09_ignored.
Print Assumptions c09_denied_step.
Print Assumptions c09_unknown_member_result.

(** The accepted-keys list the derive builds is exactly the effective keys of the non-skipped
    fields in declaration order - for every field list, however long and wherever its skipped
    fields are: the sort that moves skipped fields to the end is stable. *)
Theorem c09_accepted_keys : forall fs ra v,
  named_vectors fs ra = Accept v ->
  exists extra,
    Forall2 (fun f x => fst x = f /\ read_fattrs (fd_attrs f) = Some (snd x)) fs extra
    /\ v_keys v = map (fun x => key_name_for_ident (fd_ident (fst x)) ra (fa_rename (snd x)))
                      (filter (fun x => negb (fa_skipped (snd x))) extra).
Proof. exact named_vectors_keys. Qed.

Check c09_accepted_keys : forall fs ra v,
  named_vectors fs ra = Accept v ->
  exists extra,
    Forall2 (fun f x => fst x = f /\ read_fattrs (fd_attrs f) = Some (snd x)) fs extra
    /\ v_keys v = map (fun x => key_name_for_ident (fd_ident (fst x)) ra (fa_rename (snd x)))
                      (filter (fun x => negb (fa_skipped (snd x))) extra).
Print Assumptions c09_accepted_keys.
