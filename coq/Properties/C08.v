(** C08 - missing, default and skip: absent means absent, once, at the right place. *)
From Deserr Require Import Base Pointer Kinds Value Prog Utf8 Scalars Types Deser Monitors Spec.
From Deserr.proofs Require Import C08Proofs RefineFields FieldsSpec.

(** After the entry loop (any script, any state, if it was not stopped), the state of field i is
    Missing exactly when it started Missing - the field has no default - and no payload member
    selected its match arm. Present-but-invalid and null members leave it Err / Some, never
    Missing, so they are not additionally reported missing. *)
Theorem c08_missing_state_iff : forall script a fs d keys l ms acc s,
  let rfs := rfields_of fs in
  let sts0 := map (fun f => state_of_default (rf_default f)) rfs in
  missing_after rfs sts0 ms (fst (run script (entries_loop a rfs d keys l ms acc sts0) s)).
Proof. exact entries_missing_states. Qed.

(** with distinct effective keys, "no member selects field i" means "its key is absent" *)
Theorem c08_selected_by_own_key : forall fs i f k,
  NoDup (map rf_key fs) -> nth_error fs i = Some f -> (selects fs i k <-> rf_key f = k).
Proof. exact selects_iff_key. Qed.

(** The missing loop under a keep-going error type: it reports, in field order and exactly once
    each, the fields whose state is Missing - MissingField(effective key) at the container's
    location, or the user's missing_field_error function called with exactly (key, location)
    whose result is handed over at that location - and nothing else; the accumulator stays empty
    iff it was empty and nothing was missing. *)
Theorem c08_missing_reports : forall a l fs sts acc s,
  exists ext acc',
    run (fun _ => true) (missing_loop a l fs sts acc) s = (inl acc', s ++ ext)
    /\ missing_reports_of a l ext = Some (expected_missing l fs sts)
    /\ (acc' = None <-> acc = None /\ expected_missing l fs sts = []).
Proof. exact missing_loop_keep_going. Qed.

(** a derived struct really runs these loops on its resolved fields *)
Theorem c08_struct_runs_fields : forall s val a ms l,
  deser (TStruct s val) a (VMap ms) l
  = and_then (run_fields a (rfields_of (cs_fields s)) (cs_skipped s) (cs_deny s) OStruct ms l) (validate a val l).
Proof. exact deser_struct_unfold. Qed.

(** The value of a successful struct / variant (specification level; the interpreter refines it,
    C02): the non-skipped fields in declaration order, each with the value it ended with (a member's
    result or its default) passed through its [map] function, followed by the skipped fields, each
    built from its default alone through its [map] function - the payload has no influence on them. *)
Theorem c08_struct_value_shape : forall fs sk d mk ms l o,
  s_out (s_fields fs sk d mk ms l) = Some o ->
  let members := map (s_member fs d l) ms in
  let vals := map (fun p => s_field_value (fst p) (snd p) members) (indexed_nat fs) in
  exists v3,
    map field_item (combine fs vals) = map toS v3
    /\ o = mk (map built_field (v3 ++ map skipped_item sk)).
Proof. exact struct_value_shape. Qed.

(** a field whose effective key is absent ends with its default (or stays without a value) *)
Theorem c08_absent_key_default : forall fs d l i f ms,
  NoDup (map sp_key fs) -> NoDup (map fst ms) -> nth_error fs i = Some f ->
  lookup_key (sp_key f) ms = None ->
  s_field_value i f (map (s_member fs d l) ms)
  = match sp_default f with FDValue o => Some (Some o) | FDMissing => None end.
Proof. intros fs d l i f ms H1 H2 H3 H4. rewrite (field_filled_from_own_key fs d l i f ms H1 H2 H3), H4. reflexivity. Qed.

Check c08_struct_value_shape : forall fs sk d mk ms l o,
  s_out (s_fields fs sk d mk ms l) = Some o ->
  let members := map (s_member fs d l) ms in
  let vals := map (fun p => s_field_value (fst p) (snd p) members) (indexed_nat fs) in
  exists v3,
    map field_item (combine fs vals) = map toS v3
    /\ o = mk (map built_field (v3 ++ map skipped_item sk)).
Check c08_absent_key_default : forall fs d l i f ms,
  NoDup (map sp_key fs) -> NoDup (map fst ms) -> nth_error fs i = Some f ->
  lookup_key (sp_key f) ms = None ->
  s_field_value i f (map (s_member fs d l) ms)
  = match sp_default f with FDValue o => Some (Some o) | FDMissing => None end.

Check c08_missing_state_iff : forall script a fs d keys l ms acc s,
  let rfs := rfields_of fs in
  let sts0 := map (fun f => state_of_default (rf_default f)) rfs in
  missing_after rfs sts0 ms (fst (run script (entries_loop a rfs d keys l ms acc sts0) s)).
Check c08_selected_by_own_key : forall fs i f k,
  NoDup (map rf_key fs) -> nth_error fs i = Some f -> (selects fs i k <-> rf_key f = k).
Check c08_missing_reports : forall a l fs sts acc s,
  exists ext acc',
    run (fun _ => true) (missing_loop a l fs sts acc) s = (inl acc', s ++ ext)
    /\ missing_reports_of a l ext = Some (expected_missing l fs sts)
    /\ (acc' = None <-> acc = None /\ expected_missing l fs sts = []).
Check c08_struct_runs_fields : forall s val a ms l,
  deser (TStruct s val) a (VMap ms) l
  = and_then (run_fields a (rfields_of (cs_fields s)) (cs_skipped s) (cs_deny s) OStruct ms l) (validate a val l).
Print Assumptions c08_missing_state_iff.
Print Assumptions c08_selected_by_own_key.
Print Assumptions c08_missing_reports.
Print Assumptions c08_struct_runs_fields.
Print Assumptions c08_struct_value_shape.
Print Assumptions c08_absent_key_default.
