From Deserr Require Import Base Pointer Kinds Value Prog Utf8 Scalars Types Deser Monitors Messages.
From Deserr.proofs Require Import ProgProofs LeavesProofs LinProofs DeserLin C01Proofs C12Proofs.

(** the first call to the error type is the same under every script *)
Lemma deser_first_created t a v l sc1 sc2 s :
  first_created (ext_of sc1 (deser t a v l) s) (N.of_nat (List.length s))
  = first_created (ext_of sc2 (deser t a v l) s) (N.of_nat (List.length s)).
Proof. apply (first_report_script_independent np _ (deser_np t a v l)). Qed.

Lemma find_creates_run t v sc1 sc2 :
  find creates (snd (run sc1 (deserialize t v) [])) = find creates (snd (run sc2 (deserialize t v) [])).
Proof.
  unfold deserialize. rewrite !run_ext_of. cbn [app].
  rewrite <- !(first_created_find _ 0%N).
  f_equal. apply (deser_first_created t 0%N v Origin sc1 sc2 []).
Qed.

Lemma first_report_msg_independent ft dt qp t v sc1 sc2 :
  first_report_msg ft dt qp (snd (run sc1 (deserialize t v) []))
  = first_report_msg ft dt qp (snd (run sc2 (deserialize t v) [])).
Proof. unfold first_report_msg. rewrite (find_creates_run t v sc1 sc2). reflexivity. Qed.

(** an Ok run is the same run under every script *)
Lemma deser_ok_independent t a v l sc1 sc2 s o s' :
  run sc1 (deser t a v l) s = (ROk o, s') -> run sc2 (deser t a v l) s = (ROk o, s').
Proof.
  intros H. destruct (deser_ok_silent _ _ _ _ _ _ _ _ H) as [ext [Heq Hsil]].
  rewrite <- H. symmetry. apply (silent_run_script_independent np _ (deser_np t a v l)).
  assert (He : ext_of sc1 (deser t a v l) s = ext).
  { unfold ext_of. rewrite H. cbn [snd]. rewrite Heq. apply skipn_exact. }
  rewrite He. exact Hsil.
Qed.
