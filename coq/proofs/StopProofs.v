(** C03, "a stop answer ends the work": a static discipline on call trees ([Stops]) saying that
    right after an error-creating call answered Break only hand-over merges follow, each passing
    on the result of the previous call, and the last result is what is returned. Soundness for
    every script whose answers are all Break from some call on. *)
From Deserr Require Import Base Pointer Kinds Value Prog Monitors.
From Deserr.proofs Require Import ProgProofs.
Local Open Scope list_scope.

Section Discipline.
  Context {X : Type}.
  (** [carries x e]: the outcome [x] is a stop that returns the error value [e] *)
  Variable carries : X -> N -> Prop.

  (** what may follow a Break answer to the call that returned [e] *)
  Inductive Tail : N -> prog X -> Prop :=
  | Tail_ret e x : carries x e -> Tail e (Ret x)
  | Tail_merge e a acc oalg loc k :
      (forall i, Tail i (k i false)) -> Tail e (Op (CMerge a acc oalg e loc) k).

  Inductive Stops : prog X -> Prop :=
  | Stops_ret x : Stops (Ret x)
  | Stops_op c k :
      (forall i ans, Stops (k i ans)) ->
      (creates c = true -> forall i, Tail i (k i false)) ->
      Stops (Op c k).
End Discipline.

Lemma Tail_bind {X Y} (cp : X -> N -> Prop) (cf : Y -> N -> Prop) e (p : prog X) (f : X -> prog Y) :
  Tail cp e p -> (forall x e', cp x e' -> Tail cf e' (f x)) -> Tail cf e (bind p f).
Proof.
  intros Hp Hf. induction Hp as [e x Hx|e a acc oalg loc k _ IH]; cbn [bind].
  - apply Hf. exact Hx.
  - apply Tail_merge. intros i. apply IH.
Qed.

Lemma Stops_bind {X Y} (cp : X -> N -> Prop) (cf : Y -> N -> Prop) (p : prog X) (f : X -> prog Y) :
  Stops cp p -> (forall x, Stops cf (f x)) -> (forall x e, cp x e -> Tail cf e (f x)) -> Stops cf (bind p f).
Proof.
  intros Hp Hs Hf. induction Hp as [x|c k _ IH Hc]; cbn [bind]; [apply Hs|].
  apply Stops_op; [exact IH|]. intros Hcr i. apply Tail_bind with (cp := cp); [apply Hc; exact Hcr|exact Hf].
Qed.

Lemma Stops_user {X} (cr : X -> N -> Prop) fn args (k : prog X) : Stops cr k -> Stops cr (user_call fn args k).
Proof. intros H. unfold user_call. apply Stops_op; [intros _ _; exact H|discriminate]. Qed.

(** ** soundness *)

(** the calls after a stop: each is a hand-over whose [other] is the previous call *)
Fixpoint chain (e : N) (i : N) (tr : list call) : Prop :=
  match tr with
  | [] => True
  | CMerge _ _ _ o _ :: r => o = e /\ chain i (N.succ i) r
  | _ :: _ => False
  end.

(** the id returned at the end of such a chain *)
Fixpoint last_id (e : N) (i : N) (tr : list call) : N :=
  match tr with [] => e | _ :: r => last_id i (N.succ i) r end.

Lemma tail_run {X} (cr : X -> N -> Prop) e (q : prog X) :
  Tail cr e q ->
  forall script s, (forall j, (N.of_nat (List.length s) <= j)%N -> script j = false) ->
  exists ext, snd (run script q s) = s ++ ext
              /\ chain e (N.of_nat (List.length s)) ext
              /\ cr (fst (run script q s)) (last_id e (N.of_nat (List.length s)) ext).
Proof.
  induction 1 as [e x Hx|e a acc oalg loc k _ IH]; intros script s Hsc; cbn [run].
  - exists []. rewrite app_nil_r. cbn. repeat split. exact Hx.
  - rewrite (Hsc (N.of_nat (List.length s))) by lia.
    destruct (IH (N.of_nat (List.length s)) script (s ++ [CMerge a acc oalg e loc])) as (ext & Heq & Hch & Hcr).
    { intros j Hj. apply Hsc. rewrite app_length in Hj. cbn in Hj. lia. }
    exists (CMerge a acc oalg e loc :: ext). rewrite Heq, <- app_assoc. split; [reflexivity|].
    rewrite app_length in Hch, Hcr. cbn [List.length] in Hch, Hcr.
    replace (N.of_nat (List.length s + 1)) with (N.succ (N.of_nat (List.length s))) in Hch, Hcr by lia.
    cbn [chain last_id]. repeat split; assumption.
Qed.

Theorem stops_run {X} (cr : X -> N -> Prop) (p : prog X) :
  Stops cr p ->
  forall script k s,
    (forall j, (k <= j)%N -> script j = false) ->
    forall ext, snd (run script p s) = s ++ ext ->
    forall pre c post,
      ext = pre ++ c :: post -> creates c = true -> (k <= N.of_nat (List.length s + List.length pre))%N ->
      let j := N.of_nat (List.length s + List.length pre) in
      chain j (N.succ j) post /\ cr (fst (run script p s)) (last_id j (N.succ j) post).
Proof.
  induction 1 as [x|c0 k0 _ IH Hc]; intros script k s Hsc ext Hext pre c post Hdec Hcr Hk; cbn [run] in *.
  - cbn [snd] in Hext.
    assert (Hx : ext = []) by (apply (app_inv_head s); rewrite app_nil_r; symmetry; exact Hext).
    rewrite Hx in Hdec. destruct pre; discriminate.
  - set (i := N.of_nat (List.length s)) in *.
    destruct (run_extends script (k0 i (script i)) (s ++ [c0])) as [ext' Hext'].
    assert (Hx : ext = c0 :: ext').
    { rewrite Hext' in Hext. rewrite <- app_assoc in Hext. apply app_inv_head in Hext. symmetry. exact Hext. }
    rewrite Hx in Hdec. clear Hx Hext. destruct pre as [|c1 pre'].
    + (* the creating call is this one *)
      cbn [app] in Hdec. inversion Hdec; subst c0 post. cbn [List.length] in *. rewrite Nat.add_0_r in *. fold i in Hk |- *.
      rewrite (Hsc i Hk) in *.
      destruct (tail_run cr i (k0 i false) (Hc Hcr i) script (s ++ [c])) as (ext2 & Heq2 & Hch & Hres).
      { intros j Hj. apply Hsc. rewrite app_length in Hj. cbn in Hj. lia. }
      rewrite Hext' in Heq2. apply app_inv_head in Heq2. subst ext2.
      rewrite app_length in Hch, Hres. cbn [List.length] in Hch, Hres.
      replace (N.of_nat (List.length s + 1)) with (N.succ i) in Hch, Hres by (unfold i; lia).
      split; assumption.
    + cbn [app] in Hdec. inversion Hdec; subst c1 ext'.
      specialize (IH i (script i) script k (s ++ [c0]) Hsc (pre' ++ c :: post) Hext' pre' c post eq_refl Hcr).
      rewrite app_length in IH. cbn [List.length] in IH, Hk |- *.
      replace (List.length s + 1 + List.length pre')%nat with (List.length s + S (List.length pre'))%nat in IH by lia.
      apply IH. exact Hk.
Qed.

(** ** the monitor of the check, as a consequence *)
Lemma first_creating_split tr : forall i k j,
  first_creating_from tr i k = Some j ->
  exists pre c post, tr = pre ++ c :: post /\ creates c = true /\ (k <= j)%N /\ j = (i + N.of_nat (List.length pre))%N.
Proof.
  induction tr as [|c tr IH]; intros i k j H; [discriminate|]. cbn [first_creating_from] in H.
  destruct ((k <=? i)%N && creates c) eqn:E.
  - inversion H; subst j. apply andb_prop in E. destruct E as [E1 E2]. apply N.leb_le in E1.
    exists [], c, tr. cbn. repeat split; try assumption. lia.
  - destruct (IH (N.succ i) k j H) as (pre & c' & post & -> & Hc & Hk & Hj).
    exists (c :: pre), c', post. cbn [app List.length]. repeat split; try assumption. lia.
Qed.

Lemma handovers_before pre : forall i j rest,
  (i + N.of_nat (List.length pre) <= N.succ j)%N ->
  handovers_from (pre ++ rest) i j = handovers_from rest (i + N.of_nat (List.length pre)) j.
Proof.
  induction pre as [|c pre IH]; intros i j rest H; cbn [app List.length handovers_from].
  - rewrite N.add_0_r. reflexivity.
  - replace (j <? i)%N with false by (symmetry; apply N.ltb_ge; cbn [List.length] in H; lia). cbn [andb].
    rewrite IH by (cbn [List.length] in H; lia). f_equal. cbn [List.length]. lia.
Qed.

Lemma handovers_chain post : forall i j, (j < i)%N -> chain (N.pred i) i post -> handovers_from post i j = true.
Proof.
  induction post as [|c post IH]; intros i j Hji Hch; [reflexivity|]. cbn [handovers_from chain] in *.
  replace (j <? i)%N with true by (symmetry; apply N.ltb_lt; exact Hji).
  destruct c; try contradiction. destruct Hch as [-> Hch]. rewrite N.eqb_refl. cbn [andb].
  apply IH; [lia|]. rewrite N.pred_succ. exact Hch.
Qed.

Lemma last_id_length post : forall e i, post <> [] -> last_id e i post = (i + N.of_nat (List.length post) - 1)%N.
Proof.
  induction post as [|c post IH]; intros e i H; [contradiction|]. cbn [last_id List.length].
  destruct post as [|c' post']; [cbn; lia|]. rewrite IH by discriminate. cbn [List.length]. lia.
Qed.

Theorem stops_tail_ok (p : prog res) :
  Stops (fun r e => r = RErr e) p ->
  forall script k, (forall j, (k <= j)%N -> script j = false) ->
  c03_tail_ok k (fst (run script p [])) (snd (run script p [])) = true.
Proof.
  intros Hst script k Hsc. unfold c03_tail_ok.
  destruct (run_extends script p []) as [ext Hext]. cbn [app] in Hext.
  destruct (first_creating_from (snd (run script p [])) 0 k) as [j|] eqn:Ef; [|reflexivity].
  rewrite Hext in Ef. destruct (first_creating_split _ _ _ _ Ef) as (pre & c & post & Hdec & Hc & Hk & Hj).
  cbn [N.add] in Hj.
  destruct (stops_run _ p Hst script k [] Hsc ext Hext pre c post Hdec Hc) as [Hch Hres].
  { cbn [List.length Nat.add]. lia. }
  cbn [List.length Nat.add] in Hch, Hres. rewrite <- Hj in Hch, Hres. rewrite Hres, Hext, Hdec.
  apply andb_true_intro. split.
  - rewrite handovers_before by lia. cbn [handovers_from N.add].
    replace (j <? N.of_nat (List.length pre))%N with false by (symmetry; apply N.ltb_ge; lia). cbn [andb].
    apply handovers_chain; [lia|]. replace (N.pred (N.succ (N.of_nat (List.length pre)))) with j by lia.
    replace (N.succ (N.of_nat (List.length pre))) with (N.succ j) by lia. exact Hch.
  - apply N.eqb_eq. rewrite app_length. cbn [List.length]. destruct post as [|c' post'].
    + cbn [last_id List.length]. lia.
    + rewrite last_id_length by discriminate. cbn [List.length]. lia.
Qed.

(** ** every script: right after a Break, the error is handed over (or returned) *)
Definition next_ok (e : N) (rest : list call) : Prop :=
  match rest with
  | [] => True
  | CMerge _ _ _ o _ :: _ => o = e
  | _ :: _ => False
  end.

Lemma tail_first {X} (cr : X -> N -> Prop) e (q : prog X) :
  Tail cr e q -> forall script s ext, snd (run script q s) = s ++ ext ->
  next_ok e ext /\ (ext = [] -> cr (fst (run script q s)) e).
Proof.
  intros H script s ext Hext. destruct H as [e x Hx|e a acc oalg loc k Hk]; cbn [run fst snd] in *.
  - assert (ext = []) by (apply (app_inv_head s); rewrite app_nil_r; symmetry; exact Hext). subst ext. split; [exact I|intros _; exact Hx].
  - destruct (run_extends script (k (N.of_nat (List.length s)) (script (N.of_nat (List.length s)))) (s ++ [CMerge a acc oalg e loc])) as [ext' Hext'].
    rewrite Hext', <- app_assoc in Hext. apply app_inv_head in Hext. subst ext. cbn [app next_ok]. split; [reflexivity|discriminate].
Qed.

Theorem stops_next {X} (cr : X -> N -> Prop) (p : prog X) :
  Stops cr p ->
  forall script s ext, snd (run script p s) = s ++ ext ->
  forall pre c post,
    ext = pre ++ c :: post -> creates c = true -> script (N.of_nat (List.length s + List.length pre)) = false ->
    next_ok (N.of_nat (List.length s + List.length pre)) post
    /\ (post = [] -> cr (fst (run script p s)) (N.of_nat (List.length s + List.length pre))).
Proof.
  induction 1 as [x|c0 k0 _ IH Hc]; intros script s ext Hext pre c post Hdec Hcr Hsc; cbn [run] in *.
  - cbn [snd] in Hext. assert (Hx : ext = []) by (apply (app_inv_head s); rewrite app_nil_r; symmetry; exact Hext).
    rewrite Hx in Hdec. destruct pre; discriminate.
  - set (i := N.of_nat (List.length s)) in *.
    destruct (run_extends script (k0 i (script i)) (s ++ [c0])) as [ext' Hext'].
    assert (Hx : ext = c0 :: ext').
    { rewrite Hext' in Hext. rewrite <- app_assoc in Hext. apply app_inv_head in Hext. symmetry. exact Hext. }
    rewrite Hx in Hdec. clear Hx Hext. destruct pre as [|c1 pre'].
    + cbn [app] in Hdec. inversion Hdec; subst c0 post. cbn [List.length] in *. rewrite Nat.add_0_r in *. fold i in Hsc |- *.
      rewrite Hsc in *. apply (tail_first cr i (k0 i false) (Hc Hcr i) script (s ++ [c]) ext' Hext').
    + cbn [app] in Hdec. inversion Hdec; subst c1 ext'.
      specialize (IH i (script i) script (s ++ [c0]) (pre' ++ c :: post) Hext' pre' c post eq_refl Hcr).
      rewrite app_length in IH. cbn [List.length] in IH, Hsc |- *.
      replace (List.length s + 1 + List.length pre')%nat with (List.length s + S (List.length pre'))%nat in IH by lia.
      apply IH. exact Hsc.
Qed.
