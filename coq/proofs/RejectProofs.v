(** C16: derive inputs that must be rejected are rejected by the front end model. *)
From Deserr Require Import Base Pointer Kinds Value Scalars Types Derive DeriveSpec.
From Deserr.proofs Require Import RejectMerge.

Section Cont.
  Context {T : Type}.

  Definition Inv (l : list (cattr T)) (ca : cattrs T) : Prop :=
    existsb c_is_bad l = false
    /\ (forall s, @has T s ca = Nat.leb 1 (cnt s l))
    /\ (forall s, (cnt s l <= 1)%nat)
    /\ has SFrom ca && has STry ca = false.

  Lemma Inv_default : Inv [] ca_default.
  Proof. repeat split; try (intros []; reflexivity). intros []; cbn; lia. Qed.

  Lemma Inv_single a o : single_cattr a = Some o -> Inv [a] o.
  Proof.
    destruct a as [[r|]| | | | | | | | | |]; cbn [single_cattr]; intros H; inversion H; subst o;
      (split; [reflexivity|split; [intros []; reflexivity|split; [intros []; cbn; lia|reflexivity]]]).
  Qed.

  Lemma leb1_add a b : (a <= 1)%nat -> (b <= 1)%nat ->
    Nat.leb 1 (a + b) = Nat.leb 1 a || Nat.leb 1 b.
  Proof. intros; destruct a as [|[|a]], b as [|[|b]]; cbn; try lia; reflexivity. Qed.

  Lemma Inv_merge l1 l2 this o r :
    Inv l1 this -> Inv l2 o -> merge_cattrs this o = Some r -> Inv (l1 ++ l2) r.
  Proof.
    intros (B1 & H1 & C1 & X1) (B2 & H2 & C2 & X2) Hm.
    destruct (merge_cattrs_inv _ _ _ Hm) as (Hu & Hex & Hf & Ht).
    split; [rewrite existsb_app, B1, B2; reflexivity|].
    split; [intros s; rewrite Hu, cnt_app, leb1_add by auto; rewrite H1, H2; reflexivity|].
    split.
    - intros s. rewrite cnt_app. specialize (Hex s). rewrite H1, H2 in Hex.
      specialize (C1 s). specialize (C2 s).
      destruct (cnt s l1) as [|[|n1]], (cnt s l2) as [|[|n2]]; cbn in *; try lia; discriminate.
    - rewrite !Hu.
      destruct (has SFrom this) eqn:A, (has STry this) eqn:B, (has SFrom o) eqn:C, (has STry o) eqn:D;
        cbn in *; try reflexivity; try discriminate;
        try (specialize (Hf eq_refl); discriminate);
        try (destruct (Ht eq_refl); discriminate).
  Qed.

  Lemma Inv_group_from l0 this g r :
    Inv l0 this ->
    fold_left (fun acc a => match acc with
                            | None => None
                            | Some this => match single_cattr a with
                                           | None => None
                                           | Some o => merge_cattrs this o
                                           end
                            end) g (Some this) = Some r ->
    Inv (l0 ++ g) r.
  Proof.
    revert l0 this. induction g as [|a g IH]; intros l0 this Hi H.
    - cbn in H. inversion H; subst. rewrite app_nil_r. exact Hi.
    - cbn [fold_left] in H. destruct (single_cattr a) as [o|] eqn:Es.
      + destruct (merge_cattrs this o) as [t1|] eqn:Em.
        * replace (l0 ++ a :: g) with ((l0 ++ [a]) ++ g) by (rewrite <- app_assoc; reflexivity).
          apply (IH _ t1); [|exact H]. eapply Inv_merge; [exact Hi|apply Inv_single; exact Es|exact Em].
        * rewrite fold_opt_none in H. discriminate.
      + rewrite fold_opt_none in H. discriminate.
  Qed.

  Lemma Inv_group g o : parse_cgroup g = Some o -> g <> [] /\ Inv g o.
  Proof.
    unfold parse_cgroup. destruct g as [|a g]; [discriminate|]. intros H.
    split; [discriminate|]. apply (Inv_group_from [] ca_default (a :: g) o Inv_default H).
  Qed.

  Lemma Inv_read_from l0 this gs r :
    Inv l0 this ->
    fold_left (fun acc g => match acc with
                            | None => None
                            | Some this => match parse_cgroup g with
                                           | None => None
                                           | Some o => merge_cattrs this o
                                           end
                            end) gs (Some this) = Some r ->
    Forall (fun g => g <> []) gs /\ Inv (l0 ++ List.concat gs) r.
  Proof.
    revert l0 this. induction gs as [|g gs IH]; intros l0 this Hi H.
    - cbn in H. inversion H; subst. cbn. rewrite app_nil_r. split; [constructor|exact Hi].
    - cbn [fold_left] in H. destruct (parse_cgroup g) as [o|] eqn:Eg.
      + destruct (merge_cattrs this o) as [t1|] eqn:Em.
        * destruct (Inv_group _ _ Eg) as [Hne Hio].
          destruct (IH (l0 ++ g) t1 (Inv_merge _ _ _ _ _ Hi Hio Em) H) as [Hall Hr].
          split; [constructor; assumption|]. cbn [List.concat]. rewrite app_assoc. exact Hr.
        * rewrite fold_opt_none in H. discriminate.
      + rewrite fold_opt_none in H. discriminate.
  Qed.

  Lemma Inv_read gs ca : read_cattrs gs = Some ca -> Forall (fun g => g <> []) gs /\ Inv (List.concat gs) ca.
  Proof. intros H. apply (Inv_read_from [] ca_default gs ca Inv_default H). Qed.

  Lemma leb1_count {A} (f : A -> bool) l : Nat.leb 1 (count_if f l) = existsb f l.
  Proof.
    unfold count_if. induction l as [|x l IH]; [reflexivity|]. cbn [filter existsb].
    destruct (f x); cbn; [reflexivity|exact IH].
  Qed.

  Lemma ltb1_count_le {A} (f : A -> bool) l : (count_if f l <= 1)%nat -> Nat.ltb 1 (count_if f l) = false.
  Proof. intros H. apply Nat.ltb_ge. exact H. Qed.

  (** the container-level causes: the attributes are not accepted *)
  Theorem cattrs_rejectable_rejected (gs : list (list (cattr T))) is_struct :
    cattrs_rejectable gs is_struct = true ->
    match read_cattrs gs with
    | None => True
    | Some ca => validate_cattrs ca is_struct = false
    end.
  Proof.
    intros Hr. destruct (read_cattrs gs) as [ca|] eqn:E; [|exact I].
    destruct (Inv_read _ _ E) as [Hne (Hbad & Hhas & Hcnt & Hx)].
    unfold cattrs_rejectable in Hr.
    (* everything but the validate_container_attributes conditions is excluded by the invariant *)
    assert (Hempty : existsb (fun g : list (cattr T) => match g with [] => true | _ => false end) gs = false).
    { apply Bool.not_true_is_false. intros Hc. apply existsb_exists in Hc. destruct Hc as [g [Hin Hg]].
      rewrite Forall_forall in Hne. specialize (Hne g Hin). destruct g; [contradiction|discriminate]. }
    rewrite Hempty, Hbad in Hr. cbn [orb] in Hr.
    set (flat := List.concat gs) in *.
    assert (C1 : (count_if c_is_rename_all flat <= 1)%nat) by exact (Hcnt SRa).
    assert (C2 : (count_if c_is_tag flat <= 1)%nat) by exact (Hcnt STag).
    assert (C3 : (count_if c_is_error flat <= 1)%nat) by exact (Hcnt SErr).
    assert (C4 : (count_if c_is_deny flat <= 1)%nat) by exact (Hcnt SDeny).
    assert (C5 : (count_if c_is_from flat <= 1)%nat) by exact (Hcnt SFrom).
    assert (C6 : (count_if c_is_try_from flat <= 1)%nat) by exact (Hcnt STry).
    assert (C7 : (count_if c_is_validate flat <= 1)%nat) by exact (Hcnt SVal).
    rewrite (ltb1_count_le _ _ C1), (ltb1_count_le _ _ C2), (ltb1_count_le _ _ C3), (ltb1_count_le _ _ C4),
      (ltb1_count_le _ _ C5), (ltb1_count_le _ _ C6), (ltb1_count_le _ _ C7) in Hr. cbn [orb] in Hr.
    assert (Ara : is_some (ca_rename_all ca) = existsb c_is_rename_all flat) by (rewrite <- leb1_count; exact (Hhas SRa)).
    assert (Atag : is_some (ca_tag ca) = existsb c_is_tag flat) by (rewrite <- leb1_count; exact (Hhas STag)).
    assert (Adeny : is_some (ca_deny ca) = existsb c_is_deny flat) by (rewrite <- leb1_count; exact (Hhas SDeny)).
    assert (Afrom : is_some (ca_from ca) = existsb c_is_from flat) by (rewrite <- leb1_count; exact (Hhas SFrom)).
    assert (Atry : is_some (ca_try_from ca) = existsb c_is_try_from flat) by (rewrite <- leb1_count; exact (Hhas STry)).
    rewrite <- Afrom, <- Atry, <- Atag, <- Ara, <- Adeny in Hr.
    assert (Hx' : is_some (ca_from ca) && is_some (ca_try_from ca) = false) by exact Hx.
    rewrite Hx' in Hr. cbn [orb] in Hr.
    unfold validate_cattrs.
    destruct (is_some (ca_try_from ca)), (is_some (ca_rename_all ca)), (is_some (ca_tag ca)),
      (is_some (ca_deny ca)), is_struct; cbn in *; try reflexivity; discriminate.
  Qed.
End Cont.

(** ** the whole item *)
Lemma expand_rejects_cattrs (it : item tpos) :
  cattrs_rejectable (it_attrs it) (is_struct_shape (it_shape it)) = true -> expand it = Reject.
Proof.
  intros H. apply cattrs_rejectable_rejected in H. unfold expand.
  destruct (read_cattrs (it_attrs it)) as [ca|]; [|reflexivity]. rewrite H. reflexivity.
Qed.

