(** C16: derive inputs that must be rejected are rejected by the front end model. *)
From Deserr Require Import Base Pointer Kinds Value Scalars Types Derive DeriveSpec.
From Deserr.proofs Require Import RejectMerge RejectMergeF.

Section Cont.
  Context {T : Type}.

  Definition Inv (l : list (cattr T)) (ca : cattrs T) : Prop :=
    existsb c_is_bad l = false
    /\ (forall s, @has T s ca = Nat.leb 1 (cnt s l))
    /\ (forall s, (cnt s l <= 1)%nat)
    /\ has SFrom ca && has STry ca = false.

  Lemma Inv_default : Inv [] ca_default.
  Proof. repeat split; try (intros []; reflexivity). intros []; cbn; lia. Qed.

  Lemma Inv_single a o : single_cattr a = Some o -> Inv [a] o.
  Proof.
    destruct a as [[r|]| | | | | | | | | |]; cbn [single_cattr]; intros H; inversion H; subst o;
      (split; [reflexivity|split; [intros []; reflexivity|split; [intros []; cbn; lia|reflexivity]]]).
  Qed.

  Lemma leb1_add a b : (a <= 1)%nat -> (b <= 1)%nat ->
    Nat.leb 1 (a + b) = Nat.leb 1 a || Nat.leb 1 b.
  Proof. intros; destruct a as [|[|a]], b as [|[|b]]; cbn; try lia; reflexivity. Qed.

  Lemma Inv_merge l1 l2 this o r :
    Inv l1 this -> Inv l2 o -> merge_cattrs this o = Some r -> Inv (l1 ++ l2) r.
  Proof.
    intros (B1 & H1 & C1 & X1) (B2 & H2 & C2 & X2) Hm.
    destruct (merge_cattrs_inv _ _ _ Hm) as (Hu & Hex & Hf & Ht).
    split; [rewrite existsb_app, B1, B2; reflexivity|].
    split; [intros s; rewrite Hu, cnt_app, leb1_add by auto; rewrite H1, H2; reflexivity|].
    split.
    - intros s. rewrite cnt_app. specialize (Hex s). rewrite H1, H2 in Hex.
      specialize (C1 s). specialize (C2 s).
      destruct (cnt s l1) as [|[|n1]], (cnt s l2) as [|[|n2]]; cbn in *; try lia; discriminate.
    - rewrite !Hu.
      destruct (has SFrom this) eqn:A, (has STry this) eqn:B, (has SFrom o) eqn:C, (has STry o) eqn:D;
        cbn in *; try reflexivity; try discriminate;
        try (specialize (Hf eq_refl); discriminate);
        try (destruct (Ht eq_refl); discriminate).
  Qed.

  Lemma Inv_group_from l0 this g r :
    Inv l0 this ->
    fold_left (fun acc a => match acc with
                            | None => None
                            | Some this => match single_cattr a with
                                           | None => None
                                           | Some o => merge_cattrs this o
                                           end
                            end) g (Some this) = Some r ->
    Inv (l0 ++ g) r.
  Proof.
    revert l0 this. induction g as [|a g IH]; intros l0 this Hi H.
    - cbn in H. inversion H; subst. rewrite app_nil_r. exact Hi.
    - cbn [fold_left] in H. destruct (single_cattr a) as [o|] eqn:Es.
      + destruct (merge_cattrs this o) as [t1|] eqn:Em.
        * replace (l0 ++ a :: g) with ((l0 ++ [a]) ++ g) by (rewrite <- app_assoc; reflexivity).
          apply (IH _ t1); [|exact H]. eapply Inv_merge; [exact Hi|apply Inv_single; exact Es|exact Em].
        * rewrite fold_opt_none in H. discriminate.
      + rewrite fold_opt_none in H. discriminate.
  Qed.

  Lemma Inv_group g o : parse_cgroup g = Some o -> g <> [] /\ Inv g o.
  Proof.
    unfold parse_cgroup. destruct g as [|a g]; [discriminate|]. intros H.
    split; [discriminate|]. apply (Inv_group_from [] ca_default (a :: g) o Inv_default H).
  Qed.

  Lemma Inv_read_from l0 this gs r :
    Inv l0 this ->
    fold_left (fun acc g => match acc with
                            | None => None
                            | Some this => match parse_cgroup g with
                                           | None => None
                                           | Some o => merge_cattrs this o
                                           end
                            end) gs (Some this) = Some r ->
    Forall (fun g => g <> []) gs /\ Inv (l0 ++ List.concat gs) r.
  Proof.
    revert l0 this. induction gs as [|g gs IH]; intros l0 this Hi H.
    - cbn in H. inversion H; subst. cbn. rewrite app_nil_r. split; [constructor|exact Hi].
    - cbn [fold_left] in H. destruct (parse_cgroup g) as [o|] eqn:Eg.
      + destruct (merge_cattrs this o) as [t1|] eqn:Em.
        * destruct (Inv_group _ _ Eg) as [Hne Hio].
          destruct (IH (l0 ++ g) t1 (Inv_merge _ _ _ _ _ Hi Hio Em) H) as [Hall Hr].
          split; [constructor; assumption|]. cbn [List.concat]. rewrite app_assoc. exact Hr.
        * rewrite fold_opt_none in H. discriminate.
      + rewrite fold_opt_none in H. discriminate.
  Qed.

  Lemma Inv_read gs ca : read_cattrs gs = Some ca -> Forall (fun g => g <> []) gs /\ Inv (List.concat gs) ca.
  Proof. intros H. apply (Inv_read_from [] ca_default gs ca Inv_default H). Qed.

  Lemma leb1_count {A} (f : A -> bool) l : Nat.leb 1 (count_if f l) = existsb f l.
  Proof.
    unfold count_if. induction l as [|x l IH]; [reflexivity|]. cbn [filter existsb].
    destruct (f x); cbn; [reflexivity|exact IH].
  Qed.

  Lemma ltb1_count_le {A} (f : A -> bool) l : (count_if f l <= 1)%nat -> Nat.ltb 1 (count_if f l) = false.
  Proof. intros H. apply Nat.ltb_ge. exact H. Qed.

  (** the container-level causes: the attributes are not accepted *)
  Theorem cattrs_rejectable_rejected (gs : list (list (cattr T))) is_struct :
    cattrs_rejectable gs is_struct = true ->
    match read_cattrs gs with
    | None => True
    | Some ca => validate_cattrs ca is_struct = false
    end.
  Proof.
    intros Hr. destruct (read_cattrs gs) as [ca|] eqn:E; [|exact I].
    destruct (Inv_read _ _ E) as [Hne (Hbad & Hhas & Hcnt & Hx)].
    unfold cattrs_rejectable in Hr.
    (* everything but the validate_container_attributes conditions is excluded by the invariant *)
    assert (Hempty : existsb (fun g : list (cattr T) => match g with [] => true | _ => false end) gs = false).
    { apply Bool.not_true_is_false. intros Hc. apply existsb_exists in Hc. destruct Hc as [g [Hin Hg]].
      rewrite Forall_forall in Hne. specialize (Hne g Hin). destruct g; [contradiction|discriminate]. }
    rewrite Hempty, Hbad in Hr. cbn [orb] in Hr.
    set (flat := List.concat gs) in *.
    assert (C1 : (count_if c_is_rename_all flat <= 1)%nat) by exact (Hcnt SRa).
    assert (C2 : (count_if c_is_tag flat <= 1)%nat) by exact (Hcnt STag).
    assert (C3 : (count_if c_is_error flat <= 1)%nat) by exact (Hcnt SErr).
    assert (C4 : (count_if c_is_deny flat <= 1)%nat) by exact (Hcnt SDeny).
    assert (C5 : (count_if c_is_from flat <= 1)%nat) by exact (Hcnt SFrom).
    assert (C6 : (count_if c_is_try_from flat <= 1)%nat) by exact (Hcnt STry).
    assert (C7 : (count_if c_is_validate flat <= 1)%nat) by exact (Hcnt SVal).
    rewrite (ltb1_count_le _ _ C1), (ltb1_count_le _ _ C2), (ltb1_count_le _ _ C3), (ltb1_count_le _ _ C4),
      (ltb1_count_le _ _ C5), (ltb1_count_le _ _ C6), (ltb1_count_le _ _ C7) in Hr. cbn [orb] in Hr.
    assert (Ara : is_some (ca_rename_all ca) = existsb c_is_rename_all flat) by (rewrite <- leb1_count; exact (Hhas SRa)).
    assert (Atag : is_some (ca_tag ca) = existsb c_is_tag flat) by (rewrite <- leb1_count; exact (Hhas STag)).
    assert (Adeny : is_some (ca_deny ca) = existsb c_is_deny flat) by (rewrite <- leb1_count; exact (Hhas SDeny)).
    assert (Afrom : is_some (ca_from ca) = existsb c_is_from flat) by (rewrite <- leb1_count; exact (Hhas SFrom)).
    assert (Atry : is_some (ca_try_from ca) = existsb c_is_try_from flat) by (rewrite <- leb1_count; exact (Hhas STry)).
    rewrite <- Afrom, <- Atry, <- Atag, <- Ara, <- Adeny in Hr.
    assert (Hx' : is_some (ca_from ca) && is_some (ca_try_from ca) = false) by exact Hx.
    rewrite Hx' in Hr. cbn [orb] in Hr.
    unfold validate_cattrs.
    destruct (is_some (ca_try_from ca)), (is_some (ca_rename_all ca)), (is_some (ca_tag ca)),
      (is_some (ca_deny ca)), is_struct; cbn in *; try reflexivity; discriminate.
  Qed.
End Cont.


(** ** field attributes *)
Section Fld.
  Context {T : Type}.
  Definition FInv (l : list (fattr T)) (ca : fattrs T) : Prop :=
    existsb f_is_bad l = false
    /\ (forall s, @fhas T s ca = Nat.leb 1 (fcnt s l))
    /\ (forall s, (fcnt s l <= 1)%nat)
    /\ fhas FsFrom ca && fhas FsTry ca = false.

  Lemma FInv_default : FInv [] fa_empty.
  Proof. repeat split; try (intros []; reflexivity). intros []; cbn; lia. Qed.

  Lemma FInv_single a o : single_fattr a = Some o -> FInv [a] o.
  Proof.
    destruct a as [ | | | | | | | | | | ]; cbn [single_fattr]; intros H; inversion H; subst o;
      (split; [reflexivity|split; [intros []; reflexivity|split; [intros []; cbn; lia|reflexivity]]]).
  Qed.

  Lemma leb1_add_f a b : (a <= 1)%nat -> (b <= 1)%nat ->
    Nat.leb 1 (a + b) = Nat.leb 1 a || Nat.leb 1 b.
  Proof. intros; destruct a as [|[|a]], b as [|[|b]]; cbn; try lia; reflexivity. Qed.

  Lemma FInv_merge l1 l2 this o r :
    FInv l1 this -> FInv l2 o -> merge_fattrs this o = Some r -> FInv (l1 ++ l2) r.
  Proof.
    intros (B1 & H1 & C1 & X1) (B2 & H2 & C2 & X2) Hm.
    destruct (merge_fattrs_inv _ _ _ Hm) as (Hu & Hex & Hf & Ht).
    split; [rewrite existsb_app, B1, B2; reflexivity|].
    split; [intros s; rewrite Hu, fcnt_app, leb1_add_f by auto; rewrite H1, H2; reflexivity|].
    split.
    - intros s. rewrite fcnt_app. specialize (Hex s). rewrite H1, H2 in Hex.
      specialize (C1 s). specialize (C2 s).
      destruct (fcnt s l1) as [|[|n1]], (fcnt s l2) as [|[|n2]]; cbn in *; try lia; discriminate.
    - rewrite !Hu.
      destruct (fhas FsFrom this) eqn:A, (fhas FsTry this) eqn:B, (fhas FsFrom o) eqn:C, (fhas FsTry o) eqn:D;
        cbn in *; try reflexivity; try discriminate;
        try (specialize (Hf eq_refl); discriminate);
        try (destruct (Ht eq_refl); discriminate).
  Qed.

  Lemma FInv_group_from l0 this g r :
    FInv l0 this ->
    fold_left (fun acc a => match acc with
                            | None => None
                            | Some this => match single_fattr a with
                                           | None => None
                                           | Some o => merge_fattrs this o
                                           end
                            end) g (Some this) = Some r ->
    FInv (l0 ++ g) r.
  Proof.
    revert l0 this. induction g as [|a g IH]; intros l0 this Hi H.
    - cbn in H. inversion H; subst. rewrite app_nil_r. exact Hi.
    - cbn [fold_left] in H. destruct (single_fattr a) as [o|] eqn:Es.
      + destruct (merge_fattrs this o) as [t1|] eqn:Em.
        * replace (l0 ++ a :: g) with ((l0 ++ [a]) ++ g) by (rewrite <- app_assoc; reflexivity).
          apply (IH _ t1); [|exact H]. eapply FInv_merge; [exact Hi|apply FInv_single; exact Es|exact Em].
        * rewrite fold_opt_none in H. discriminate.
      + rewrite fold_opt_none in H. discriminate.
  Qed.

  Lemma FInv_group g o : parse_fgroup g = Some o -> g <> [] /\ FInv g o.
  Proof.
    unfold parse_fgroup. destruct g as [|a g]; [discriminate|]. intros H.
    split; [discriminate|]. apply (FInv_group_from [] fa_empty (a :: g) o FInv_default H).
  Qed.

  Lemma FInv_read_from l0 this gs r :
    FInv l0 this ->
    fold_left (fun acc g => match acc with
                            | None => None
                            | Some this => match parse_fgroup g with
                                           | None => None
                                           | Some o => merge_fattrs this o
                                           end
                            end) gs (Some this) = Some r ->
    Forall (fun g => g <> []) gs /\ FInv (l0 ++ List.concat gs) r.
  Proof.
    revert l0 this. induction gs as [|g gs IH]; intros l0 this Hi H.
    - cbn in H. inversion H; subst. cbn. rewrite app_nil_r. split; [constructor|exact Hi].
    - cbn [fold_left] in H. destruct (parse_fgroup g) as [o|] eqn:Eg.
      + destruct (merge_fattrs this o) as [t1|] eqn:Em.
        * destruct (FInv_group _ _ Eg) as [Hne Hio].
          destruct (IH (l0 ++ g) t1 (FInv_merge _ _ _ _ _ Hi Hio Em) H) as [Hall Hr].
          split; [constructor; assumption|]. cbn [List.concat]. rewrite app_assoc. exact Hr.
        * rewrite fold_opt_none in H. discriminate.
      + rewrite fold_opt_none in H. discriminate.
  Qed.

  Lemma FInv_read gs ca : read_fattrs gs = Some ca -> Forall (fun g => g <> []) gs /\ FInv (List.concat gs) ca.
  Proof. intros H. apply (FInv_read_from [] fa_empty gs ca FInv_default H). Qed.


  Theorem fattrs_rejectable_rejected (gs : list (list (fattr T))) :
    fattrs_rejectable gs = true -> read_fattrs gs = None.
  Proof.
    intros Hr. destruct (read_fattrs gs) as [ca|] eqn:E; [|reflexivity]. exfalso.
    destruct (FInv_read _ _ E) as [Hne (Hbad & Hhas & Hcnt & Hx)].
    unfold fattrs_rejectable in Hr.
    assert (Hempty : existsb (fun g : list (fattr T) => match g with [] => true | _ => false end) gs = false).
    { apply Bool.not_true_is_false. intros Hc. apply existsb_exists in Hc. destruct Hc as [g [Hin Hg]].
      rewrite Forall_forall in Hne. specialize (Hne g Hin). destruct g; [contradiction|discriminate]. }
    rewrite Hempty, Hbad in Hr. cbn [orb] in Hr.
    set (flat := List.concat gs) in *.
    assert (C1 : (count_if f_is_rename flat <= 1)%nat) by exact (Hcnt FsRn).
    assert (C2 : (count_if f_is_default flat <= 1)%nat) by exact (Hcnt FsDf).
    assert (C3 : (count_if f_is_missing flat <= 1)%nat) by exact (Hcnt FsMs).
    assert (C4 : (count_if f_is_error flat <= 1)%nat) by exact (Hcnt FsEr).
    assert (C5 : (count_if f_is_map flat <= 1)%nat) by exact (Hcnt FsMp).
    assert (C6 : (count_if f_is_from flat <= 1)%nat) by exact (Hcnt FsFrom).
    assert (C7 : (count_if f_is_try_from flat <= 1)%nat) by exact (Hcnt FsTry).
    rewrite (ltb1_count_le _ _ C1), (ltb1_count_le _ _ C2), (ltb1_count_le _ _ C3), (ltb1_count_le _ _ C4),
      (ltb1_count_le _ _ C5), (ltb1_count_le _ _ C6), (ltb1_count_le _ _ C7) in Hr. cbn [orb] in Hr.
    assert (Afrom : is_some (fa_from ca) = existsb f_is_from flat) by (rewrite <- leb1_count; exact (Hhas FsFrom)).
    assert (Atry : is_some (fa_try_from ca) = existsb f_is_try_from flat) by (rewrite <- leb1_count; exact (Hhas FsTry)).
    rewrite <- Afrom, <- Atry in Hr.
    assert (Hx' : is_some (fa_from ca) && is_some (fa_try_from ca) = false) by exact Hx.
    rewrite Hx' in Hr. discriminate.
  Qed.
End Fld.

(** ** variant attributes: two slots *)
Lemma merge_vattrs_inv self other r :
  merge_vattrs self other = Some r ->
  (is_some (va_rename r) = is_some (va_rename self) || is_some (va_rename other))
  /\ (is_some (va_rename_all r) = is_some (va_rename_all self) || is_some (va_rename_all other))
  /\ is_some (va_rename self) && is_some (va_rename other) = false
  /\ is_some (va_rename_all self) && is_some (va_rename_all other) = false.
Proof.
  destruct self as [r1 a1], other as [r2 a2]. unfold merge_vattrs, merge1. cbn [va_rename va_rename_all].
  destruct a2, a1, r2, r1; cbn; intros H; inversion H; subst; cbn; repeat split; reflexivity.
Qed.

Definition VInv (l : list vattr) (va : vattrs) : Prop :=
  existsb v_is_bad l = false
  /\ is_some (va_rename va) = Nat.leb 1 (count_if v_is_rename l)
  /\ is_some (va_rename_all va) = Nat.leb 1 (count_if v_is_rename_all l)
  /\ (count_if v_is_rename l <= 1)%nat /\ (count_if v_is_rename_all l <= 1)%nat.

Lemma count_if_app {A} (f : A -> bool) l1 l2 : count_if f (l1 ++ l2) = (count_if f l1 + count_if f l2)%nat.
Proof. unfold count_if. rewrite filter_app, app_length. reflexivity. Qed.

Lemma VInv_single a o : single_vattr a = Some o -> VInv [a] o.
Proof.
  destruct a as [s|[r|]| |]; cbn [single_vattr]; intros H; inversion H; subst o; repeat split; cbn; lia.
Qed.

Lemma leb1_add' a b : (a <= 1)%nat -> (b <= 1)%nat -> Nat.leb 1 (a + b) = Nat.leb 1 a || Nat.leb 1 b.
Proof. intros; destruct a as [|[|a]], b as [|[|b]]; cbn; try lia; reflexivity. Qed.

Lemma VInv_merge l1 l2 this o r :
  VInv l1 this -> VInv l2 o -> merge_vattrs this o = Some r -> VInv (l1 ++ l2) r.
Proof.
  intros (B1 & R1 & A1 & CR1 & CA1) (B2 & R2 & A2 & CR2 & CA2) Hm.
  destruct (merge_vattrs_inv _ _ _ Hm) as (Hr & Ha & Xr & Xa).
  rewrite R1, R2 in Xr. rewrite A1, A2 in Xa.
  unfold VInv. rewrite existsb_app, B1, B2, !count_if_app, Hr, Ha, R1, R2, A1, A2.
  rewrite !leb1_add' by assumption.
  repeat split.
  - destruct (count_if v_is_rename l1) as [|[|n1]], (count_if v_is_rename l2) as [|[|n2]]; cbn in *; try lia; discriminate.
  - destruct (count_if v_is_rename_all l1) as [|[|n1]], (count_if v_is_rename_all l2) as [|[|n2]]; cbn in *; try lia; discriminate.
Qed.

Lemma VInv_group_from l0 this g r :
  VInv l0 this ->
  fold_left (fun acc a => match acc with
                          | None => None
                          | Some this => match single_vattr a with
                                         | None => None
                                         | Some o => merge_vattrs this o
                                         end
                          end) g (Some this) = Some r ->
  VInv (l0 ++ g) r.
Proof.
  revert l0 this. induction g as [|a g IH]; intros l0 this Hi H.
  - cbn in H. inversion H; subst. rewrite app_nil_r. exact Hi.
  - cbn [fold_left] in H. destruct (single_vattr a) as [o|] eqn:Es.
    + destruct (merge_vattrs this o) as [t1|] eqn:Em.
      * replace (l0 ++ a :: g) with ((l0 ++ [a]) ++ g) by (rewrite <- app_assoc; reflexivity).
        apply (IH _ t1); [|exact H]. eapply VInv_merge; [exact Hi|apply VInv_single; exact Es|exact Em].
      * rewrite fold_opt_none in H. discriminate.
    + rewrite fold_opt_none in H. discriminate.
Qed.

Lemma VInv_default : VInv [] va_default.
Proof. repeat split; cbn; lia. Qed.

Lemma VInv_read_from l0 this gs r :
  VInv l0 this ->
  fold_left (fun acc g => match acc with
                          | None => None
                          | Some this => match parse_vgroup g with
                                         | None => None
                                         | Some o => merge_vattrs this o
                                         end
                          end) gs (Some this) = Some r ->
  Forall (fun g => g <> []) gs /\ VInv (l0 ++ List.concat gs) r.
Proof.
  revert l0 this. induction gs as [|g gs IH]; intros l0 this Hi H.
  - cbn in H. inversion H; subst. cbn. rewrite app_nil_r. split; [constructor|exact Hi].
  - cbn [fold_left] in H. destruct (parse_vgroup g) as [o|] eqn:Eg.
    + destruct (merge_vattrs this o) as [t1|] eqn:Em.
      * assert (Hg : g <> [] /\ VInv g o).
        { unfold parse_vgroup in Eg. destruct g as [|a g']; [discriminate|]. split; [discriminate|].
          apply (VInv_group_from [] va_default (a :: g') o VInv_default Eg). }
        destruct Hg as [Hne Hio].
        destruct (IH (l0 ++ g) t1 (VInv_merge _ _ _ _ _ Hi Hio Em) H) as [Hall Hr].
        split; [constructor; assumption|]. cbn [List.concat]. rewrite app_assoc. exact Hr.
      * rewrite fold_opt_none in H. discriminate.
    + rewrite fold_opt_none in H. discriminate.
Qed.

Theorem vattrs_rejectable_rejected gs : vattrs_rejectable gs = true -> read_vattrs gs = None.
Proof.
  intros Hr. destruct (read_vattrs gs) as [va|] eqn:E; [|reflexivity]. exfalso.
  destruct (VInv_read_from [] va_default gs va VInv_default E) as [Hne (Hbad & _ & _ & C1 & C2)].
  cbn [app] in *. unfold vattrs_rejectable in Hr.
  assert (Hempty : existsb (fun g : list vattr => match g with [] => true | _ => false end) gs = false).
  { apply Bool.not_true_is_false. intros Hc. apply existsb_exists in Hc. destruct Hc as [g [Hin Hg]].
    rewrite Forall_forall in Hne. specialize (Hne g Hin). destruct g; [contradiction|discriminate]. }
  rewrite Hempty, Hbad in Hr.
  apply Nat.ltb_ge in C1. apply Nat.ltb_ge in C2. rewrite C1, C2 in Hr. discriminate.
Qed.

(** ** the whole item *)
Lemma expand_rejects_cattrs (it : item tpos) :
  cattrs_rejectable (it_attrs it) (is_struct_shape (it_shape it)) = true -> expand it = Reject.
Proof.
  intros H. apply cattrs_rejectable_rejected in H. unfold expand.
  destruct (read_cattrs (it_attrs it)) as [ca|]; [|reflexivity]. rewrite H. reflexivity.
Qed.


(** ** the body of the item *)
Lemma dall_not_accept {A B} (g : A -> dres B) (l : list A) :
  (exists x, In x l /\ forall y, g x <> Accept y) -> forall r, dall (map g l) <> Accept r.
Proof.
  induction l as [|a l IH]; intros [x [Hin Hx]] r; [destruct Hin|].
  cbn [map dall]. destruct (g a) as [y| |] eqn:Ea; cbn [dbind]; try discriminate.
  destruct Hin as [<-|Hin]; [exfalso; apply (Hx y); exact Ea|].
  destruct (dall (map g l)) as [ys| |] eqn:El; cbn [dbind]; try discriminate.
  exfalso. apply (IH (ex_intro _ x (conj Hin Hx)) ys). reflexivity.
Qed.

Lemma named_struct_rejects (fs : list (field tpos)) ra d :
  fields_rejectable fs = true -> forall s, named_struct fs ra d <> Accept s.
Proof.
  intros H s. unfold fields_rejectable in H. apply existsb_exists in H. destruct H as [f [Hin Hf]].
  apply fattrs_rejectable_rejected in Hf.
  unfold named_struct, named_vectors.
  match goal with |- context [dall (map ?g fs)] =>
    destruct (dall (map g fs)) as [extra| |] eqn:E end; cbn [dbind]; try discriminate.
  exfalso. eapply dall_not_accept; [|exact E]. exists f. split; [exact Hin|].
  intros y. rewrite Hf. discriminate.
Qed.

Lemma expand_variant_rejects ca (v : variant tpos) :
  variant_rejectable v = true -> forall cv, expand_variant ca v <> Accept cv.
Proof.
  intros H cv. unfold variant_rejectable in H. apply Bool.orb_true_iff in H. unfold expand_variant.
  destruct H as [H|H].
  - apply vattrs_rejectable_rejected in H. rewrite H. discriminate.
  - destruct (read_vattrs (vr_attrs v)) as [va|]; [|discriminate].
    destruct (vr_shape v) as [|fs|]; try discriminate.
    destruct (named_struct fs (va_rename_all va) (ca_deny ca)) as [s| |] eqn:E; cbn [dbind]; try discriminate.
    exfalso. eapply named_struct_rejects; [exact H|exact E].
Qed.

Lemma expand_variant_data ca (v : variant tpos) cv :
  expand_variant ca v = Accept cv -> has_data v = true -> cv_data cv <> VDUnit.
Proof.
  unfold expand_variant, has_data. destruct (read_vattrs (vr_attrs v)) as [va|]; [|discriminate].
  destruct (vr_shape v) as [|fs|]; try discriminate.
  destruct (named_struct fs (va_rename_all va) (ca_deny ca)) as [s| |]; cbn [dbind]; try discriminate.
  intros H _. inversion H; subst. cbn. discriminate.
Qed.

Lemma dall_in {A B} (g : A -> dres B) (l : list A) r x :
  dall (map g l) = Accept r -> In x l -> exists y, In y r /\ g x = Accept y.
Proof.
  revert r. induction l as [|a l IH]; intros r H Hin; [destruct Hin|].
  cbn [map dall] in H. destruct (g a) as [y| |] eqn:Ea; cbn [dbind] in H; try discriminate.
  destruct (dall (map g l)) as [ys| |] eqn:El; cbn [dbind] in H; try discriminate.
  inversion H; subst. destruct Hin as [<-|Hin].
  - exists y. split; [left; reflexivity|exact Ea].
  - destruct (IH ys eq_refl Hin) as [y' [Hy' Hg]]. exists y'. split; [right; exact Hy'|exact Hg].
Qed.

(** what the invariant says about a successfully read container attribute set *)
Lemma read_cattrs_flags (gs : list (list (cattr tpos))) ca :
  read_cattrs gs = Some ca ->
  is_some (ca_tag ca) = existsb c_is_tag (List.concat gs)
  /\ is_some (ca_from ca) = existsb c_is_from (List.concat gs)
  /\ is_some (ca_try_from ca) = existsb c_is_try_from (List.concat gs).
Proof.
  intros E. destruct (Inv_read _ _ E) as [_ (_ & Hhas & _ & _)].
  repeat split; rewrite <- leb1_count; [exact (Hhas STag)|exact (Hhas SFrom)|exact (Hhas STry)].
Qed.

Theorem rejectable_never_accepted (it : item tpos) :
  rejectable it = true -> forall t, expand it <> Accept t.
Proof.
  intros H t. unfold rejectable in H. apply Bool.orb_true_iff in H. destruct H as [H|H].
  - rewrite (expand_rejects_cattrs it H). discriminate.
  - apply Bool.andb_true_iff in H. destruct H as [Hconv Hbody]. apply Bool.negb_true_iff in Hconv.
    unfold expand. destruct (read_cattrs (it_attrs it)) as [ca|] eqn:E; [|discriminate].
    destruct (negb (validate_cattrs ca (is_struct_shape (it_shape it)))); [discriminate|].
    destruct (read_cattrs_flags _ _ E) as (Htag & Hfrom & Htry).
    unfold uses_container_conversion in Hconv.
    assert (Hf : existsb c_is_from (List.concat (it_attrs it)) = false /\ existsb c_is_try_from (List.concat (it_attrs it)) = false).
    { split; apply Bool.not_true_is_false; intros Hc; apply existsb_exists in Hc; destruct Hc as [a [Hin Ha]];
        assert (Hex : existsb (fun a => c_is_from a || c_is_try_from a) (List.concat (it_attrs it)) = true)
          by (apply existsb_exists; exists a; split; [exact Hin|rewrite Ha; auto using Bool.orb_true_r]);
        rewrite Hex in Hconv; discriminate. }
    destruct Hf as [Hf1 Hf2]. rewrite Hf1 in Hfrom. rewrite Hf2 in Htry.
    destruct (ca_try_from ca) as [x|]; [discriminate|]. destruct (ca_from ca) as [x|]; [discriminate|].
    unfold body_rejectable in Hbody. destruct (it_shape it) as [fs| | |vs|]; try discriminate.
    + destruct (named_struct fs (ca_rename_all ca) (ca_deny ca)) as [s| |] eqn:Es; cbn [dbind]; try discriminate.
      exfalso. eapply named_struct_rejects; [exact Hbody|exact Es].
    + destruct (dall (map (expand_variant ca) vs)) as [cvs| |] eqn:Ev; cbn [dbind]; try discriminate.
      apply Bool.orb_true_iff in Hbody. destruct Hbody as [Hv|Hd].
      * exfalso. apply existsb_exists in Hv. destruct Hv as [v [Hin Hv]].
        eapply dall_not_accept; [|exact Ev]. exists v. split; [exact Hin|]. apply expand_variant_rejects. exact Hv.
      * apply Bool.andb_true_iff in Hd. destruct Hd as [Hdata Hnotag]. apply Bool.negb_true_iff in Hnotag.
        rewrite Hnotag in Htag. destruct (ca_tag ca) as [tag|]; [discriminate|].
        apply existsb_exists in Hdata. destruct Hdata as [v [Hin Hv]].
        destruct (dall_in _ _ _ v Ev Hin) as [cv [Hcv Hexp]].
        assert (Hau : all_unit cvs = false).
        { apply Bool.not_true_is_false. intros Hc. unfold all_unit in Hc. rewrite forallb_forall in Hc.
          specialize (Hc cv Hcv). pose proof (expand_variant_data _ _ _ Hexp Hv) as Hnd.
          destruct (cv_data cv); [apply Hnd; reflexivity|discriminate]. }
        rewrite Hau. discriminate.
Qed.
