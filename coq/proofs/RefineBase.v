(** Refinement of the interpreter to the declarative specification (C02), part 1:
    the relation, its basic rules, scalars and std containers. *)
From Deserr Require Import Base Pointer Kinds Value Prog Utf8 Scalars ScalarSpec Types Deser Spec Monitors.
From Deserr.proofs Require Import ProgProofs ScalarProofs.

Notation keep_going := (fun _ : N => true).

(** what an outcome must be for a specification result *)
Definition res_matches (r : res) (sr : sres) : Prop :=
  match r with
  | ROk o => s_out sr = Some o /\ s_faults sr = []
  | RErr _ => s_out sr = None /\ s_faults sr <> []
  | RPanic _ => False
  end.

(** [Ref p sr]: under an error type that always continues, from any state, the program [p]
    reports exactly the faults of [sr] (in order), invokes exactly its user functions (in order),
    and its outcome is the specified one *)
Definition Ref (p : prog res) (sr : sres) : Prop :=
  forall s, exists r ext,
    run keep_going p s = (r, s ++ ext)
    /\ trace_faults ext = s_faults sr
    /\ trace_ucalls ext = s_ucalls sr
    /\ res_matches r sr.

Lemma trace_faults_app a b : trace_faults (a ++ b) = trace_faults a ++ trace_faults b.
Proof. unfold trace_faults. apply flat_map_app. Qed.
Lemma trace_ucalls_app a b : trace_ucalls (a ++ b) = trace_ucalls a ++ trace_ucalls b.
Proof. unfold trace_ucalls. apply flat_map_app. Qed.

Lemma ref_ret_ok o : Ref (Ret (ROk o)) (s_ok o).
Proof. intros s. exists (ROk o), []. rewrite app_nil_r. repeat split. Qed.

Lemma ref_fail_kind a k l : Ref (fail_with a k l) (s_fault (FKind k l)).
Proof.
  intros s. exists (RErr (N.of_nat (List.length s))), [CError a None k l]. repeat split. discriminate.
Qed.

Lemma ref_of_sc a v l o script :
  forall p, (forall s, run script p s = outcome_run a v l s o) -> script = keep_going -> o <> SOther ->
  Ref p (of_sc v l o).
Proof.
  intros p Hp -> Hno s. rewrite Hp. destruct o as [x|acc|m|]; [| | |contradiction]; cbn [outcome_run of_sc].
  - exists (ROk x), []. rewrite app_nil_r. repeat split.
  - eexists _, [_]. repeat split. discriminate.
  - eexists _, [_]. repeat split. discriminate.
Qed.

Lemma spec_int_not_other d v : spec_int d v <> SOther.
Proof. unfold spec_int. destruct (admissible d v); [destruct (in_domain d (num v))|]; discriminate. Qed.

Lemma ref_deser_int a d v l : Ref (deser_int a d v l) (of_sc v l (spec_int d v)).
Proof.
  apply (ref_of_sc a v l _ keep_going); [intros s; apply deser_int_spec|reflexivity|apply spec_int_not_other].
Qed.
Lemma ref_deser_unit a v l : Ref (deser_unit a v l) (of_sc v l (spec_unit v)).
Proof.
  apply (ref_of_sc a v l _ keep_going); [intros s; apply deser_unit_spec|reflexivity|destruct v; discriminate].
Qed.
Lemma ref_deser_bool a v l : Ref (deser_bool a v l) (of_sc v l (spec_bool v)).
Proof.
  apply (ref_of_sc a v l _ keep_going); [intros s; apply deser_bool_spec|reflexivity|destruct v; discriminate].
Qed.
Lemma ref_deser_string a v l : Ref (deser_string a v l) (of_sc v l (spec_string v)).
Proof.
  apply (ref_of_sc a v l _ keep_going); [intros s; apply deser_string_spec|reflexivity|destruct v; discriminate].
Qed.
Lemma ref_deser_char a v l : Ref (deser_char a v l) (of_sc v l (spec_char v)).
Proof.
  apply (ref_of_sc a v l _ keep_going); [intros s; apply deser_char_spec|reflexivity|].
  destruct v; try discriminate. unfold spec_char. destruct (chars s) as [|c [|c' r]]; discriminate.
Qed.
Lemma ref_deser_f64 a v l : Ref (deser_f64 a v l) (of_sc v l (spec_f64 v)).
Proof.
  destruct v; cbn [deser_f64 spec_f64 of_sc]; try apply ref_ret_ok; apply ref_fail_kind.
Qed.
Lemma ref_deser_f32 a v l : Ref (deser_f32 a v l) (of_sc v l (spec_f32 v)).
Proof.
  destruct v; cbn [deser_f32 spec_f32 of_sc]; try apply ref_ret_ok; apply ref_fail_kind.
Qed.

(** *** the specification is well formed: a value iff no fault *)
Definition wf_sres (sr : sres) : Prop :=
  (s_faults sr = [] -> exists o, s_out sr = Some o) /\ (s_faults sr <> [] -> s_out sr = None).

Lemma ref_wf p sr : Ref p sr -> wf_sres sr.
Proof.
  intros H. destruct (H []) as (r & ext & _ & _ & _ & Hm). destruct r as [o|e|site]; [| |destruct Hm].
  - destruct Hm as [Ho Hf]. split; [intros _; exists o; exact Ho|intros Hn; contradiction].
  - destruct Hm as [Ho Hf]. split; [intros Hn; contradiction|intros _; exact Ho].
Qed.

(** *** sequencing rules *)

(** run a child, then continue: the facts a loop step needs *)
Lemma ref_child_run p sr s :
  Ref p sr ->
  exists r ext, run keep_going p s = (r, s ++ ext)
    /\ trace_faults ext = s_faults sr /\ trace_ucalls ext = s_ucalls sr /\ res_matches r sr.
Proof. intros H. apply H. Qed.

(** and_then: the [?] operator followed by more work that only depends on the value *)
Lemma ref_and_then p f sr (g : out -> sres) :
  Ref p sr ->
  (forall o, s_out sr = Some o -> Ref (f o) (g o)) ->
  Ref (and_then p f)
      (match s_out sr with
       | Some o => mkS (s_out (g o)) (s_faults (g o)) (s_ucalls sr ++ s_ucalls (g o))
       | None => sr
       end).
Proof.
  intros Hp Hf s. destruct (Hp s) as (r & ext & Hrun & Hfa & Huc & Hm).
  unfold and_then. rewrite run_bind, Hrun. destruct r as [o|e|site]; [| |destruct Hm].
  - destruct Hm as [Ho Hnil]. rewrite Ho. destruct (Hf o Ho (s ++ ext)) as (r2 & ext2 & Hrun2 & Hfa2 & Huc2 & Hm2).
    exists r2, (ext ++ ext2). rewrite Hrun2, app_assoc. split; [reflexivity|].
    rewrite trace_faults_app, trace_ucalls_app, Hfa, Hnil, Hfa2, Huc, Huc2. cbn [s_faults s_ucalls app].
    repeat split. destruct r2; exact Hm2.
  - destruct Hm as [Ho Hne]. rewrite Ho. exists (RErr e), ext. cbn [run]. repeat split; assumption.
Qed.

Lemma ref_ext p sr sr' :
  Ref p sr -> s_out sr = s_out sr' -> s_faults sr = s_faults sr' -> s_ucalls sr = s_ucalls sr' -> Ref p sr'.
Proof.
  intros H Ho Hf Hu s. destruct (H s) as (r & ext & Hrun & Hfa & Huc & Hm).
  exists r, ext. rewrite <- Hf, <- Hu. repeat split; try assumption.
  destruct r; cbn [res_matches] in *; rewrite <- ?Ho, <- ?Hf; exact Hm.
Qed.

Lemma ref_map_ok p f sr :
  Ref p sr -> Ref (map_ok p f) (mkS (option_map f (s_out sr)) (s_faults sr) (s_ucalls sr)).
Proof.
  intros Hp s. destruct (Hp s) as (r & ext & Hrun & Hfa & Huc & Hm).
  unfold map_ok. rewrite run_bind, Hrun. cbn [run].
  destruct r as [o|e|site]; [| |destruct Hm].
  - destruct Hm as [Ho Hnil]. exists (ROk (f o)), ext. repeat split; try assumption. cbn. rewrite Ho. reflexivity.
  - destruct Hm as [Ho Hne]. exists (RErr e), ext. repeat split; try assumption. cbn. rewrite Ho. reflexivity.
Qed.

(** validate *)
Lemma ref_validate a val l o ucalls0 :
  forall s, exists r ext,
    run keep_going (validate a val l o) s = (r, s ++ ext)
    /\ let sr := s_validate val l (mkS (Some o) [] ucalls0) in
       trace_faults ext = s_faults sr /\ ucalls0 ++ trace_ucalls ext = s_ucalls sr /\ res_matches r sr.
Proof.
  intros s. unfold validate, s_validate. cbn [s_out]. destruct val as [fn|].
  - rewrite run_user_call. destruct (ufail o).
    + eexists _, [_; _]. cbn [run]. rewrite <- app_assoc. split; [reflexivity|]. cbn. repeat split. discriminate.
    + eexists _, [_]. cbn [run]. split; [reflexivity|]. cbn. repeat split.
  - exists (ROk o), []. rewrite !app_nil_r. cbn. repeat split.
Qed.
