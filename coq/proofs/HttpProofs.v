From Deserr Require Import Base Pointer Kinds Value Prog Scalars Types Deser Messages Http.

Lemma extract_iff ftext dtext t fw o :
  extract ftext dtext t fw = Some (Extracted o) <->
  exists v, fw = FwDoc v /\ deserialize_json_error ftext dtext t v = Some (inl o).
Proof.
  split.
  - destruct fw as [s b|v]; cbn [extract]; [discriminate|].
    destruct (deserialize_json_error ftext dtext t v) as [[o'|m]|] eqn:E; try discriminate.
    intros H. inversion H; subst. exists v. split; [reflexivity|exact E].
  - intros [v [-> H]]. cbn [extract]. rewrite H. reflexivity.
Qed.

Lemma extract_framework_rejection ftext dtext t s b :
  extract ftext dtext t (FwRej s b) = Some (Rejected s b).
Proof. reflexivity. Qed.

Lemma extract_carries_error ftext dtext t v m :
  deserialize_json_error ftext dtext t v = Some (inr m) ->
  extract ftext dtext t (FwDoc v) = Some (Rejected 400 m).
Proof. intros H. cbn [extract]. rewrite H. reflexivity. Qed.

Lemma extract_rejected_cases ftext dtext t fw s b :
  extract ftext dtext t fw = Some (Rejected s b) ->
  fw = FwRej s b \/ exists v, fw = FwDoc v /\ s = 400%N /\ deserialize_json_error ftext dtext t v = Some (inr b).
Proof.
  destruct fw as [s' b'|v]; cbn [extract].
  - intros H. inversion H; subst. left; reflexivity.
  - destruct (deserialize_json_error ftext dtext t v) as [[o|m]|] eqn:E; try discriminate.
    intros H. inversion H; subst. right. exists v. split; [reflexivity|]. split; [reflexivity|exact E].
Qed.
