(** A linear type discipline for call trees: [Lin held L p] says that, started with the live
    error values [L], the program [p] consumes each live value exactly once and ends holding
    exactly the live values [held x]. Soundness ties it to runs, for every script and state. *)
From Coq Require Import Permutation.
From Deserr Require Import Base Pointer Kinds Value Prog Monitors.
From Deserr.proofs Require Import ProgProofs.

(** [held x = None]: the outcome is exempt (a panic: the run did not return) *)
Definition holds {X} (held : X -> option (list N)) (x : X) (L : list N) : Prop :=
  match held x with None => True | Some h => Permutation h L end.

Inductive Lin {X} (held : X -> option (list N)) : list N -> prog X -> Prop :=
| Lin_ret L x : holds held x L -> Lin held L (Ret x)
| Lin_op L L' c k :
    Permutation L (call_uses c ++ L') ->
    (forall i ans, ~ In i L -> Lin held (if creates c then i :: L' else L') (k i ans)) ->
    Lin held L (Op c k).

Lemma Lin_perm {X} (held : X -> option (list N)) L1 L2 (p : prog X) :
  Permutation L1 L2 -> Lin held L1 p -> Lin held L2 p.
Proof.
  intros HP H. revert L2 HP. induction H as [L x Hx | L L' c k HL Hk IH]; intros L2 HP.
  - constructor. unfold holds in *. destruct (held x); [|exact I].
    eapply Permutation_trans; eassumption.
  - econstructor.
    + eapply Permutation_trans; [apply Permutation_sym; exact HP|exact HL].
    + intros i ans Hi. apply Hk. intros Hin. apply Hi. eapply Permutation_in; eassumption.
Qed.

(** frame + sequencing *)
Lemma Lin_bind {X Y} (hp : X -> option (list N)) (h : Y -> option (list N)) Lp F
      (p : prog X) (f : X -> prog Y) :
  Lin hp Lp p ->
  (forall x, match hp x with
             | Some hx => Lin h (hx ++ F) (f x)
             | None => forall L, Lin h L (f x)        (* an exempt outcome must stay exempt *)
             end) ->
  Lin h (Lp ++ F) (bind p f).
Proof.
  intros Hp Hf. induction Hp as [L x Hx | L L' c k HL Hk IH]; cbn [bind].
  - specialize (Hf x). unfold holds in Hx. destruct (hp x) as [hx|]; [|apply Hf].
    eapply Lin_perm; [|apply Hf]. apply Permutation_app_tail. exact Hx.
  - apply Lin_op with (L' := L' ++ F).
    + rewrite app_assoc. apply Permutation_app_tail. exact HL.
    + intros i ans Hi.
      assert (Hi' : ~ In i L) by (intros Hin; apply Hi; apply in_or_app; left; exact Hin).
      specialize (IH i ans Hi'). destruct (creates c); exact IH.
Qed.

Lemma Lin_bind0 {X Y} (hp : X -> option (list N)) (h : Y -> option (list N)) F
      (p : prog X) (f : X -> prog Y) :
  Lin hp [] p ->
  (forall x, match hp x with
             | Some hx => Lin h (hx ++ F) (f x)
             | None => forall L, Lin h L (f x)
             end) ->
  Lin h F (bind p f).
Proof. intros Hp Hf. apply (Lin_bind hp h [] F p f Hp Hf). Qed.

Lemma Lin_user {X} (held : X -> option (list N)) L fn args (k : prog X) :
  Lin held L k -> Lin held L (user_call fn args k).
Proof.
  intros H. unfold user_call. apply Lin_op with (L' := L); [reflexivity|].
  intros i ans _. exact H.
Qed.

(** ** soundness *)

Lemma NoDup_app_r {A} (l1 l2 : list A) : NoDup (l1 ++ l2) -> NoDup l2.
Proof.
  induction l1 as [|x l1 IH]; cbn [app]; intros H; [exact H|].
  inversion H; subst. apply IH. assumption.
Qed.

Lemma created_ids_app tr1 tr2 i :
  created_ids (tr1 ++ tr2) i = created_ids tr1 i ++ created_ids tr2 (i + N.of_nat (List.length tr1)).
Proof.
  revert i. induction tr1 as [|c tr1 IH]; intros i; cbn [app created_ids List.length].
  - rewrite N.add_0_r. reflexivity.
  - rewrite IH. replace (N.succ i + N.of_nat (List.length tr1))%N
      with (i + N.of_nat (S (List.length tr1)))%N by lia.
    destruct (creates c); reflexivity.
Qed.

Lemma created_ids_ge tr i x : In x (created_ids tr i) -> (i <= x)%N.
Proof.
  revert i. induction tr as [|c tr IH]; intros i H; [destruct H|].
  cbn [created_ids] in H. destruct (creates c).
  - destruct H as [<-|H]; [lia|]. apply IH in H. lia.
  - apply IH in H. lia.
Qed.

Lemma created_ids_lt tr i x : In x (created_ids tr i) -> (x < i + N.of_nat (List.length tr))%N.
Proof.
  revert i. induction tr as [|c tr IH]; intros i H; [destruct H|].
  cbn [created_ids List.length] in *. destruct (creates c).
  - destruct H as [<-|H]; [lia|]. apply IH in H. lia.
  - apply IH in H. lia.
Qed.

Lemma created_ids_nodup tr i : NoDup (created_ids tr i).
Proof.
  revert i. induction tr as [|c tr IH]; intros i; cbn [created_ids]; [constructor|].
  destruct (creates c); [|apply IH]. constructor; [|apply IH].
  intros H. apply created_ids_ge in H. lia.
Qed.

Definition any_creates (tr : list call) : bool := existsb creates tr.

Inductive lin_post (h : list N) (L : list N) (s : list call) (s' : list call) : Prop :=
| LinPost (ext : list call)
    (lp_eq : s' = s ++ ext)
    (lp_perm : Permutation (h ++ flat_map call_uses ext)
                           (L ++ created_ids ext (N.of_nat (List.length s))))
    (lp_nodup : NoDup h)
    (lp_bound : forall i, In i h -> (i < N.of_nat (List.length s'))%N)
    (lp_nonempty : L <> [] \/ any_creates ext = true -> h <> []).

Theorem lin_sound {X} (held : X -> option (list N)) L (p : prog X) :
  Lin held L p ->
  forall script s,
    (forall i, In i L -> (i < N.of_nat (List.length s))%N) -> NoDup L ->
    forall h, held (fst (run script p s)) = Some h ->
    lin_post h L s (snd (run script p s)).
Proof.
  induction 1 as [L x Hx | L L' c k HL Hk IH]; intros script s Hb Hnd h Hh; cbn [run fst snd] in *.
  - unfold holds in Hx. rewrite Hh in Hx.
    apply LinPost with (ext := []); cbn [flat_map created_ids].
    + rewrite app_nil_r. reflexivity.
    + rewrite !app_nil_r. exact Hx.
    + eapply Permutation_NoDup; [apply Permutation_sym; exact Hx|exact Hnd].
    + intros i Hi. apply Hb. eapply Permutation_in; eassumption.
    + intros [HL|Hc]; [|discriminate]. intros He. apply HL.
      apply Permutation_nil. rewrite <- He. exact Hx.
  - set (i := N.of_nat (List.length s)).
    assert (Hfresh : ~ In i L) by (intros Hin; apply Hb in Hin; unfold i in Hin; lia).
    set (Lnew := if creates c then i :: L' else L').
    assert (HL'sub : forall j, In j L' -> In j L).
    { intros j Hj. eapply Permutation_in; [apply Permutation_sym; exact HL|]. apply in_or_app. right. exact Hj. }
    assert (HndL' : NoDup L').
    { apply Permutation_NoDup in HL; [|exact Hnd]. apply NoDup_app_r in HL. exact HL. }
    assert (Hb' : forall j, In j Lnew -> (j < N.of_nat (List.length (s ++ [c])))%N).
    { intros j Hj. rewrite app_length. cbn [List.length]. unfold Lnew in Hj.
      destruct (creates c).
      - destruct Hj as [<-|Hj]; [unfold i; lia|]. apply HL'sub, Hb in Hj. lia.
      - apply HL'sub, Hb in Hj. lia. }
    assert (Hnd' : NoDup Lnew).
    { unfold Lnew. destruct (creates c); [|exact HndL']. constructor; [|exact HndL'].
      intros Hin. apply Hfresh. apply HL'sub. exact Hin. }
    destruct (IH i (script i) Hfresh script (s ++ [c]) Hb' Hnd' h Hh) as [ext Heq Hperm Hnd2 Hbound Hne].
    apply LinPost with (ext := c :: ext).
    + rewrite Heq, <- app_assoc. reflexivity.
    + cbn [flat_map created_ids]. rewrite app_length in Hperm. cbn [List.length] in Hperm.
      replace (N.of_nat (List.length s + 1)) with (N.succ i) in Hperm by (unfold i; lia).
      fold i.
      (* held ++ uses c ++ uses ext  ~  L ++ created (c :: ext) *)
      eapply Permutation_trans.
      { rewrite app_assoc. eapply Permutation_trans; [apply Permutation_app_tail, Permutation_app_comm|].
        rewrite <- app_assoc. apply Permutation_app_head. exact Hperm. }
      eapply Permutation_trans; [|apply Permutation_app_tail; apply Permutation_sym; exact HL].
      rewrite <- app_assoc. apply Permutation_app_head.
      unfold Lnew. destruct (creates c).
      * cbn [app]. apply Permutation_middle.
      * reflexivity.
    + exact Hnd2.
    + exact Hbound.
    + intros Hor. apply Hne. unfold Lnew. cbn [any_creates existsb] in Hor.
      destruct (creates c) eqn:Ec.
      * left. discriminate.
      * destruct Hor as [HLne|Hany].
        -- left. intros ->. apply HLne. apply Permutation_nil.
           apply Permutation_sym. rewrite HL.
           destruct c; cbn in Ec; try discriminate. reflexivity.
        -- right. exact Hany.
Qed.
