(** C16: derive inputs that must be rejected are rejected by the front end model. *)
From Deserr Require Import Base Pointer Kinds Value Scalars Types Derive DeriveSpec.

(** ** generic: a fold over an option accumulator that stays None *)
Lemma fold_opt_none {A B} (f : A -> B -> option A) (l : list B) :
  fold_left (fun acc x => match acc with None => None | Some t => f t x end) l None = None.
Proof. induction l as [|x l IH]; [reflexivity|exact IH]. Qed.

Lemma fold_opt_some {A B} (f : A -> B -> option A) (l : list B) (a0 r : A) :
  fold_left (fun acc x => match acc with None => None | Some t => f t x end) l (Some a0) = Some r ->
  match l with
  | [] => r = a0
  | x :: l' => exists a1, f a0 x = Some a1 /\
               fold_left (fun acc x => match acc with None => None | Some t => f t x end) l' (Some a1) = Some r
  end.
Proof.
  destruct l as [|x l']; cbn [fold_left]; [intros H; inversion H; reflexivity|].
  destruct (f a0 x) as [a1|] eqn:E; [intros H; exists a1; split; [reflexivity|exact H]|].
  rewrite fold_opt_none. discriminate.
Qed.

(** ** container attributes *)
Section Cont.
  Context {T : Type}.

  Inductive slot := SRa | SErr | STag | SDeny | SFrom | STry | SVal.

  Definition has (s : slot) (ca : cattrs T) : bool :=
    match s with
    | SRa => is_some (ca_rename_all ca) | SErr => is_some (ca_err ca) | STag => is_some (ca_tag ca)
    | SDeny => is_some (ca_deny ca) | SFrom => is_some (ca_from ca) | STry => is_some (ca_try_from ca)
    | SVal => is_some (ca_validate ca)
    end.

  Definition sets (s : slot) (a : cattr T) : bool :=
    match s with
    | SRa => c_is_rename_all a | SErr => c_is_error a | STag => c_is_tag a | SDeny => c_is_deny a
    | SFrom => c_is_from a | STry => c_is_try_from a | SVal => c_is_validate a
    end.

  Definition cnt (s : slot) (l : list (cattr T)) : nat := count_if (sets s) l.

  Lemma cnt_app s l1 l2 : cnt s (l1 ++ l2) = (cnt s l1 + cnt s l2)%nat.
  Proof. unfold cnt, count_if. rewrite filter_app, app_length. reflexivity. Qed.

  Lemma merge1_inv {A} (self other r : option A) :
    merge1 self other = Some r ->
    is_some r = is_some self || is_some other /\ (is_some self && is_some other = false).
  Proof.
    unfold merge1. destruct other as [x|]; destruct self as [y|]; cbn; intros H; inversion H; subst; cbn; auto.
  Qed.

  (** everything a successful merge tells us, slot by slot *)
  Ltac bsolve :=
    cbn [has ca_rename_all ca_err ca_tag ca_deny ca_from ca_try_from ca_validate] in *;
    repeat match goal with
           | H : context [is_some ?x] |- _ => is_var x; destruct x; cbn [is_some orb andb] in *
           | |- context [is_some ?x] => is_var x; destruct x; cbn [is_some orb andb] in *
           end;
    cbn [is_some orb andb] in *; try reflexivity; try discriminate; try tauto; try (split; congruence).

  (** everything a successful merge tells us, slot by slot *)
  Lemma merge_cattrs_inv (self other r : cattrs T) :
    merge_cattrs self other = Some r ->
    (forall s, has s r = has s self || has s other)
    /\ (forall s, has s self && has s other = false)
    /\ (has SFrom other = true -> has STry self = false)
    /\ (has STry other = true -> has SFrom self = false /\ has SFrom other = false).
  Proof.
    destruct self as [ra1 er1 tg1 dn1 fr1 tf1 vl1], other as [ra2 er2 tg2 dn2 fr2 tf2 vl2].
    unfold merge_cattrs, merge1. cbn [ca_rename_all ca_err ca_tag ca_deny ca_from ca_try_from ca_validate].
    intros H.
    destruct ra2, ra1; cbn [is_some] in H; try discriminate;
      destruct er2, er1; cbn [is_some] in H; try discriminate;
        destruct tg2, tg1; cbn [is_some] in H; try discriminate;
          destruct dn2, dn1; cbn [is_some] in H; try discriminate;
            destruct fr2, fr1, tf2, tf1; cbn [is_some orb] in H; try discriminate;
              destruct vl2, vl1; cbn [is_some] in H; try discriminate;
                inversion H; subst r; clear H;
                  (split; [intros []; reflexivity|split; [intros []; reflexivity|split; cbn; intros; try discriminate; auto]]).
  Qed.

End Cont.
