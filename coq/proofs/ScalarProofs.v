From Deserr Require Import Base Pointer Kinds Value Prog Utf8 Scalars ScalarSpec.

Lemma run_fail_with script a k l s :
  run script (fail_with a k l) s = (RErr (N.of_nat (List.length s)), s ++ [CError a None k l]).
Proof. reflexivity. Qed.

Lemma run_ret {X} script (x : X) s : run script (Ret x) s = (x, s).
Proof. reflexivity. Qed.

Lemma imin_nonpos d : (imin d <= 0)%Z.
Proof.
  unfold imin. destruct (i_signed d); [|lia].
  assert (0 < 2 ^ (bits_of_w (i_width d) - 1))%Z; [|lia].
  apply Z.pow_pos_nonneg; [lia|]. destruct (i_width d); cbn; lia.
Qed.

(** the integer impls do exactly what the specification says, from any state, under any script *)
Lemma deser_int_spec script a d v l s :
  run script (deser_int a d v l) s = outcome_run a v l s (spec_int d v).
Proof.
  pose proof (imin_nonpos d) as Hmin.
  unfold deser_int, spec_int, admissible, in_domain, domain_msg, outcome_run, num.
  destruct v as [| b | x | x | f | str | vs | ms]; try reflexivity.
  - (* VInt *)
    destruct (i_nonzero d) eqn:Hnz; cbn [andb negb].
    + destruct (N.eqb_spec x 0) as [->|Hx].
      * cbn. rewrite Bool.andb_false_r. reflexivity.
      * assert (Hz : (Z.of_N x =? 0)%Z = false) by (apply Z.eqb_neq; lia).
        rewrite Hz. cbn [negb andb].
        destruct (Z.leb_spec (Z.of_N x) (imax d)); destruct (Z.leb_spec (imin d) (Z.of_N x));
          cbn [andb]; try reflexivity; lia.
    + destruct (Z.leb_spec (Z.of_N x) (imax d)); destruct (Z.leb_spec (imin d) (Z.of_N x));
        cbn [andb negb]; try reflexivity; lia.
  - (* VNeg *)
    destruct (i_signed d) eqn:Hs; [|reflexivity].
    destruct (i_nonzero d) eqn:Hnz; cbn [andb negb].
    + destruct (Z.eqb_spec x 0) as [->|Hx].
      * cbn [negb]. rewrite Bool.andb_false_r. reflexivity.
      * cbn [negb]. rewrite Bool.andb_true_r. destruct ((imin d <=? x)%Z && (x <=? imax d)%Z); reflexivity.
    + rewrite Bool.andb_true_r. destruct ((imin d <=? x)%Z && (x <=? imax d)%Z); reflexivity.
Qed.

Lemma deser_unit_spec script a v l s :
  run script (deser_unit a v l) s = outcome_run a v l s (spec_unit v).
Proof. destruct v; reflexivity. Qed.
Lemma deser_bool_spec script a v l s :
  run script (deser_bool a v l) s = outcome_run a v l s (spec_bool v).
Proof. destruct v; reflexivity. Qed.
Lemma deser_string_spec script a v l s :
  run script (deser_string a v l) s = outcome_run a v l s (spec_string v).
Proof. destruct v; reflexivity. Qed.
Lemma deser_char_spec script a v l s :
  run script (deser_char a v l) s = outcome_run a v l s (spec_char v).
Proof.
  destruct v; try reflexivity. unfold deser_char, spec_char.
  destruct (chars s0) as [|c [|c' r]]; reflexivity.
Qed.

(** in the domain means: representable, so the result is the input number itself *)
Lemma in_domain_iff d z :
  in_domain d z = true <-> (imin d <= z <= imax d)%Z /\ (i_nonzero d = true -> z <> 0%Z).
Proof.
  unfold in_domain. rewrite !Bool.andb_true_iff, Bool.negb_true_iff, !Z.leb_le. split.
  - intros [[H1 H2] H3]. split; [lia|]. intros Hnz ->. rewrite Hnz in H3. discriminate.
  - intros [[H1 H2] H3]. repeat split; try assumption.
    destruct (i_nonzero d); [|reflexivity]. cbn. apply Z.eqb_neq. auto.
Qed.
