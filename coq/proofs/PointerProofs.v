From Deserr Require Import Base Pointer.

Lemma walk_back_build steps : walk_back (build steps) = rev steps.
Proof.
  unfold build.
  assert (H : forall p, walk_back (fold_left push steps p) = rev steps ++ walk_back p).
  { induction steps as [|s steps IH]; intros p; cbn [fold_left rev].
    - reflexivity.
    - rewrite IH. destruct s; cbn [push push_key push_index walk_back];
        rewrite <- app_assoc; reflexivity. }
  rewrite H. cbn. apply app_nil_r.
Qed.

Lemma to_owned_build steps : to_owned (build steps) = steps.
Proof. unfold to_owned. rewrite walk_back_build. apply rev_involutive. Qed.

Lemma build_snoc steps s : build (steps ++ [s]) = push (build steps) s.
Proof. unfold build. rewrite fold_left_app. reflexivity. Qed.

Lemma is_origin_build steps : is_origin (build steps) = true <-> steps = [].
Proof.
  split.
  - destruct steps as [|s steps] using rev_ind; [reflexivity|].
    rewrite build_snoc. destruct s; discriminate.
  - intros ->. reflexivity.
Qed.

Lemma last_field_build steps : last_field (build steps) = last_key steps.
Proof.
  unfold last_key.
  induction steps as [|s steps IH] using rev_ind; [reflexivity|].
  rewrite build_snoc, rev_app_distr. cbn [rev app].
  destruct s; cbn [push push_key push_index last_field first_key]; [reflexivity|exact IH].
Qed.

Lemma first_key_app a b :
  first_key (a ++ b) = match first_key a with Some k => Some k | None => first_key b end.
Proof.
  induction a as [|s a IH]; [reflexivity|].
  destruct s; cbn [app first_key]; [reflexivity|exact IH].
Qed.

Lemma first_field_build steps : first_field (build steps) = first_key steps.
Proof.
  induction steps as [|s steps IH] using rev_ind; [reflexivity|].
  rewrite build_snoc, first_key_app.
  destruct s; cbn [push push_key push_index first_field first_key]; rewrite IH.
  - destruct (first_key steps); reflexivity.
  - destruct (first_key steps); reflexivity.
Qed.

(** every vpr is built from its own owned path: [build] is onto, so the theorems above
    speak about every location the library can construct *)
Lemma build_to_owned p : build (to_owned p) = p.
Proof.
  induction p as [|k p IH|i p IH]; [reflexivity| |];
    unfold to_owned; cbn [walk_back rev]; rewrite build_snoc; fold (to_owned p);
    rewrite IH; reflexivity.
Qed.
