(** Refinement (C02), part 2: the loops of the std containers. *)
From Deserr Require Import Base Pointer Kinds Value Prog Utf8 Scalars ScalarSpec Types Deser Spec Monitors.
From Deserr.proofs Require Import ProgProofs ScalarProofs RefineBase.

Definition no_faults (ch : list sres) : Prop := flat_map s_faults ch = [].

(** what a loop over children ends with *)
Definition loop_result (acc : option N) (ch : list sres) (r : res) (mk : list out -> res) : Prop :=
  match acc, flat_map s_faults ch with
  | None, [] => exists outs, all_some (map s_out ch) = Some outs /\ r = mk outs
  | _, _ => exists e, r = RErr e
  end.

Lemma seq_loop_ref runel el a l fin :
  (forall v l', Ref (runel v l') (el v l')) ->
  forall vs idx acc outs_rev s,
    let ch := map (fun iv => el (snd iv) (Index (fst iv) l)) (indexed vs idx) in
    exists r ext,
      run keep_going (seq_loop runel a l fin vs idx acc outs_rev) s = (r, s ++ ext)
      /\ trace_faults ext = flat_map s_faults ch
      /\ trace_ucalls ext = flat_map s_ucalls ch
      /\ loop_result acc ch r (fun outs => fin (rev outs_rev ++ outs)).
Proof.
  intros Hel. induction vs as [|v vs IH]; intros idx acc outs_rev s; cbn [indexed map].
  - exists (match acc with Some e => RErr e | None => fin (rev outs_rev) end), [].
    cbn [seq_loop run flat_map]. rewrite app_nil_r. repeat split.
    unfold loop_result. cbn [flat_map]. destruct acc as [e|]; [exists e; reflexivity|].
    exists []. cbn. rewrite app_nil_r. split; reflexivity.
  - cbn [seq_loop fst snd flat_map]. rewrite run_bind.
    destruct (Hel v (Index idx l) s) as (rc & ext1 & Hrun1 & Hf1 & Hu1 & Hm1). rewrite Hrun1.
    destruct rc as [o|e|site]; [| |destruct Hm1].
    + destruct Hm1 as [Ho Hnil].
      destruct (IH (N.succ idx) acc (o :: outs_rev) (s ++ ext1)) as (r & ext2 & Hrun2 & Hf2 & Hu2 & Hres).
      exists r, (ext1 ++ ext2). rewrite Hrun2, app_assoc. split; [reflexivity|].
      rewrite trace_faults_app, trace_ucalls_app, Hf1, Hf2, Hu1, Hu2, Hnil. repeat split.
      unfold loop_result in *. cbn [flat_map map]. rewrite Hnil, Ho. cbn [app].
      destruct acc as [e|]; [exact Hres|].
      destruct (flat_map s_faults (map (fun iv => el (snd iv) (Index (fst iv) l)) (indexed vs (N.succ idx)))); [|exact Hres].
      destruct Hres as (outs & Hall & Hr). exists (o :: outs). cbn [all_some]. rewrite Hall. split; [reflexivity|].
      rewrite Hr. cbn [rev]. rewrite <- app_assoc. reflexivity.
    + destruct Hm1 as [Ho Hne]. cbn [absorb run]. cbn beta.
      destruct (IH (N.succ idx) (Some (N.of_nat (List.length (s ++ ext1)))) outs_rev
                   ((s ++ ext1) ++ [CMerge a acc a e (Index idx l)])) as (r & ext2 & Hrun2 & Hf2 & Hu2 & Hres).
      exists r, (ext1 ++ CMerge a acc a e (Index idx l) :: ext2).
      rewrite Hrun2. split; [rewrite <- !app_assoc; reflexivity|].
      rewrite trace_faults_app, trace_ucalls_app. cbn [trace_faults trace_ucalls flat_map app].
      fold (trace_faults ext2). fold (trace_ucalls ext2). rewrite Hf1, Hf2, Hu1, Hu2. repeat split.
      unfold loop_result in *. destruct Hres as [e' He'].
      destruct acc; [exists e'; exact He'|].
      cbn [flat_map]. destruct (s_faults (el v (Index idx l))) eqn:Ef; [contradiction|]. cbn [app]. exists e'. exact He'.
Qed.

Lemma all_some_length {A} (l : list (option A)) outs : all_some l = Some outs -> List.length outs = List.length l.
Proof.
  revert outs. induction l as [|[x|] l IH]; intros outs H; cbn [all_some] in H; [inversion H; reflexivity| |discriminate].
  destruct (all_some l) as [xs|]; [|discriminate]. inversion H; subst. cbn. rewrite (IH xs eq_refl). reflexivity.
Qed.

Lemma indexed_length {A} (l : list A) i : List.length (indexed l i) = List.length l.
Proof. revert i. induction l; intros i; cbn; [reflexivity|]. rewrite IHl. reflexivity. Qed.

(** a sequence-like container whose finishing function always succeeds *)
Lemma ref_seq_like runel el a l mk vs :
  (forall v l', Ref (runel v l') (el v l')) ->
  Ref (seq_loop runel a l (fun os => ROk (mk os)) vs 0%N None []) (s_seq el vs l mk).
Proof.
  intros Hel s. destruct (seq_loop_ref runel el a l (fun os => ROk (mk os)) Hel vs 0%N None [] s)
    as (r & ext & Hrun & Hf & Hu & Hres).
  exists r, ext. unfold s_seq, s_collect. cbn [s_faults s_ucalls s_out]. repeat split; try assumption.
  unfold loop_result in Hres.
  destruct (flat_map s_faults (map (fun iv => el (snd iv) (Index (fst iv) l)) (indexed vs 0%N))) eqn:Ef.
  - destruct Hres as (outs & Hall & ->). cbn [res_matches rev app s_out s_faults]. rewrite Hall. split; reflexivity.
  - destruct Hres as [e ->]. cbn [res_matches s_out s_faults]. split; [reflexivity|discriminate].
Qed.

(** *** tuples *)
Lemma tuple_loop_ref a l :
  forall items chs idx acc prev_rev s,
    Forall2 (fun (it : (value -> vpr -> prog res) * value) (isr : N * sres) =>
               Ref (fst it (snd it) (Index (fst isr) l)) (snd isr)) items (indexed chs idx) ->
    exists r ext,
      run keep_going (tuple_loop a l items idx acc (map Some prev_rev)) s = (r, s ++ ext)
      /\ trace_faults ext = flat_map s_faults chs
      /\ trace_ucalls ext = flat_map s_ucalls chs
      /\ loop_result acc chs r (fun outs => ROk (OTuple (rev prev_rev ++ outs))).
Proof.
  induction items as [|[runel v] items IH]; intros chs idx acc prev_rev s Hall.
  - destruct chs; [|inversion Hall]. cbn [tuple_loop run flat_map].
    exists (match acc with
            | Some e => RErr e
            | None => ROk (OTuple (rev prev_rev))
            end), []. rewrite app_nil_r.
    assert (Hfa : forallb (fun s0 : option out => match s0 with Some _ => true | None => false end) (map Some prev_rev) = true).
    { clear. induction prev_rev; [reflexivity|exact IHprev_rev]. }
    assert (Hfm : flat_map (fun s0 : option out => match s0 with Some o => [o] | None => [] end) (map Some prev_rev) = prev_rev).
    { clear. induction prev_rev as [|x p IHp]; [reflexivity|]. cbn. rewrite IHp. reflexivity. }
    rewrite Hfa, Hfm. repeat split.
    unfold loop_result. cbn [flat_map]. destruct acc as [e|]; [exists e; reflexivity|].
    exists []. rewrite app_nil_r. split; reflexivity.
  - destruct chs as [|sr chs]; [inversion Hall|]. cbn [indexed] in Hall.
    inversion Hall as [|? ? ? ? Hc Hrest]; subst. cbn [fst snd] in Hc.
    cbn [tuple_loop flat_map]. rewrite run_bind.
    destruct (Hc s) as (rc & ext1 & Hrun1 & Hf1 & Hu1 & Hm1). rewrite Hrun1.
    destruct rc as [o|e|site]; [| |destruct Hm1].
    + destruct Hm1 as [Ho Hnil].
      destruct (IH chs (N.succ idx) acc (o :: prev_rev) (s ++ ext1) Hrest) as (r & ext2 & Hrun2 & Hf2 & Hu2 & Hres).
      exists r, (ext1 ++ ext2). cbn [map] in Hrun2. rewrite Hrun2, app_assoc. split; [reflexivity|].
      rewrite trace_faults_app, trace_ucalls_app, Hf1, Hf2, Hu1, Hu2, Hnil. repeat split.
      unfold loop_result in *. cbn [flat_map map]. rewrite Hnil, Ho. cbn [app]. destruct acc as [e|]; [exact Hres|].
      destruct (flat_map s_faults chs); [|exact Hres].
      destruct Hres as (outs & Hal & Hr). exists (o :: outs). cbn [all_some]. rewrite Hal. split; [reflexivity|].
      rewrite Hr. cbn [rev]. rewrite <- app_assoc. reflexivity.
    + destruct Hm1 as [Ho Hne]. cbn [absorb run]. cbn beta.
      (* the slot list gets a None: not of the form map Some; but the accumulator is set, so the result is Err *)
      assert (Hgen : forall items chs idx slots s e0,
                 Forall2 (fun (it : (value -> vpr -> prog res) * value) (isr : N * sres) =>
                            Ref (fst it (snd it) (Index (fst isr) l)) (snd isr)) items (indexed chs idx) ->
                 exists r ext, run keep_going (tuple_loop a l items idx (Some e0) slots) s = (r, s ++ ext)
                               /\ trace_faults ext = flat_map s_faults chs
                               /\ trace_ucalls ext = flat_map s_ucalls chs /\ exists e1, r = RErr e1).
      { clear. induction items as [|[runel v] items IHi]; intros chs idx slots s e0 Hall.
        - destruct chs; [|inversion Hall]. exists (RErr e0), []. cbn. rewrite app_nil_r. repeat split. exists e0; reflexivity.
        - destruct chs as [|sr chs]; [inversion Hall|]. cbn [indexed] in Hall.
          inversion Hall as [|? ? ? ? Hc Hrest]; subst. cbn [fst snd] in Hc.
          cbn [tuple_loop flat_map]. rewrite run_bind.
          destruct (Hc s) as (rc & ext1 & Hrun1 & Hf1 & Hu1 & Hm1). rewrite Hrun1.
          destruct rc as [o|e|site]; [| |destruct Hm1].
          + destruct (IHi chs (N.succ idx) (Some o :: slots) (s ++ ext1) e0 Hrest) as (r & ext2 & Hrun2 & Hf2 & Hu2 & He).
            exists r, (ext1 ++ ext2). rewrite Hrun2, app_assoc. split; [reflexivity|].
            rewrite trace_faults_app, trace_ucalls_app, Hf1, Hf2, Hu1, Hu2. repeat split. exact He.
          + cbn [absorb run]. cbn beta.
            destruct (IHi chs (N.succ idx) (None :: slots) ((s ++ ext1) ++ [CMerge a (Some e0) a e (Index idx l)])
                          (N.of_nat (List.length (s ++ ext1))) Hrest) as (r & ext2 & Hrun2 & Hf2 & Hu2 & He).
            exists r, (ext1 ++ CMerge a (Some e0) a e (Index idx l) :: ext2). rewrite Hrun2.
            split; [rewrite <- !app_assoc; reflexivity|].
            rewrite trace_faults_app, trace_ucalls_app. cbn [trace_faults trace_ucalls flat_map app].
            fold (trace_faults ext2). fold (trace_ucalls ext2). rewrite Hf1, Hf2, Hu1, Hu2. repeat split. exact He. }
      destruct (Hgen items chs (N.succ idx) (None :: map Some prev_rev)
                     ((s ++ ext1) ++ [CMerge a acc a e (Index idx l)]) (N.of_nat (List.length (s ++ ext1))) Hrest)
        as (r & ext2 & Hrun2 & Hf2 & Hu2 & [e1 He1]).
      exists r, (ext1 ++ CMerge a acc a e (Index idx l) :: ext2). rewrite Hrun2.
      split; [rewrite <- !app_assoc; reflexivity|].
      rewrite trace_faults_app, trace_ucalls_app. cbn [trace_faults trace_ucalls flat_map app].
      fold (trace_faults ext2). fold (trace_ucalls ext2). rewrite Hf1, Hf2, Hu1, Hu2. repeat split.
      unfold loop_result. destruct acc; [exists e1; exact He1|].
      cbn [flat_map]. destruct (s_faults sr) eqn:Ef; [contradiction|]. cbn [app]. exists e1. exact He1.
Qed.

(** *** maps *)
Definition map_member_spec (el : value -> vpr -> sres) (kp : keyparser) (tyname : string) (l : vpr)
           (kv : string * value) : option out * sres :=
  match parse_key kp (fst kv) with
  | inl ko => (Some ko, el (snd kv) (Key (fst kv) l))
  | inr _ => (None, s_fault (FKind (Unexpected (key_msg (fst kv) tyname)) l))
  end.

Definition map_fold (per : list (option out * sres)) (m0 : list (out * out)) : option (list (out * out)) :=
  fold_left (fun acc p => match acc, fst p, s_out (snd p) with
                          | Some m, Some ko, Some o => Some (map_insert ko o m)
                          | _, _, _ => None
                          end) per (Some m0).

Lemma map_loop_ref runel el kp tyname a l :
  (forall v l', Ref (runel v l') (el v l')) ->
  forall ms acc res_map s,
    let per := map (map_member_spec el kp tyname l) ms in
    exists r ext,
      run keep_going (map_loop runel kp tyname a l ms acc res_map) s = (r, s ++ ext)
      /\ trace_faults ext = flat_map (fun p => s_faults (snd p)) per
      /\ trace_ucalls ext = flat_map (fun p => s_ucalls (snd p)) per
      /\ match acc, flat_map (fun p => s_faults (snd p)) per with
         | None, [] => exists m, map_fold per res_map = Some m /\ r = ROk (OMap m)
         | _, _ => exists e, r = RErr e
         end.
Proof.
  intros Hel. induction ms as [|[k v] ms IH]; intros acc res_map s; cbv zeta; cbn [map].
  - exists (match acc with Some e => RErr e | None => ROk (OMap res_map) end), [].
    cbn [map_loop run flat_map]. rewrite app_nil_r. repeat split.
    destruct acc as [e|]; [exists e; reflexivity|]. exists res_map. split; reflexivity.
  - cbn [map_loop flat_map].
    assert (Hspec : map_member_spec el kp tyname l (k, v)
                    = match parse_key kp k with
                      | inl ko => (Some ko, el v (Key k l))
                      | inr _ => (None, s_fault (FKind (Unexpected (key_msg k tyname)) l))
                      end) by reflexivity.
    rewrite !Hspec. destruct (parse_key kp k) as [ko|pe] eqn:Ep; cbn [fst snd].
    + rewrite run_bind. destruct (Hel v (Key k l) s) as (rc & ext1 & Hrun1 & Hf1 & Hu1 & Hm1). rewrite Hrun1.
      destruct rc as [o|e|site]; [| |destruct Hm1].
      * destruct Hm1 as [Ho Hnil].
        destruct (IH acc (map_insert ko o res_map) (s ++ ext1)) as (r & ext2 & Hrun2 & Hf2 & Hu2 & Hres). cbv zeta in *.
        exists r, (ext1 ++ ext2). rewrite Hrun2, app_assoc. split; [reflexivity|].
        rewrite trace_faults_app, trace_ucalls_app, Hf1, Hf2, Hu1, Hu2, Hnil. repeat split.
        cbn [app]. destruct acc as [e|]; [exact Hres|].
        destruct (flat_map (fun p => s_faults (snd p)) (map (map_member_spec el kp tyname l) ms)); [|exact Hres].
        destruct Hres as (m & Hm & Hr). exists m. split; [|exact Hr].
        unfold map_fold. cbn [fold_left map fst snd]. rewrite Ho. exact Hm.
      * destruct Hm1 as [Ho Hne]. cbn [absorb run]. cbn beta.
        destruct (IH (Some (N.of_nat (List.length (s ++ ext1)))) res_map ((s ++ ext1) ++ [CMerge a acc a e (Key k l)]))
          as (r & ext2 & Hrun2 & Hf2 & Hu2 & Hres). cbv zeta in *.
        exists r, (ext1 ++ CMerge a acc a e (Key k l) :: ext2). rewrite Hrun2.
        split; [rewrite <- !app_assoc; reflexivity|].
        rewrite trace_faults_app, trace_ucalls_app. cbn [trace_faults trace_ucalls flat_map app].
        fold (trace_faults ext2). fold (trace_ucalls ext2). rewrite Hf1, Hf2, Hu1, Hu2. repeat split.
        destruct Hres as [e' He']. destruct acc; [exists e'; exact He'|].
        destruct (s_faults (el v (Key k l))) eqn:Ef; [contradiction|]. cbn [app]. exists e'. exact He'.
    + cbn [report run]. cbn beta.
      destruct (IH (Some (N.of_nat (List.length s))) res_map (s ++ [CError a acc (Unexpected (key_msg k tyname)) l]))
        as (r & ext2 & Hrun2 & Hf2 & Hu2 & Hres). cbv zeta in *.
      exists r, (CError a acc (Unexpected (key_msg k tyname)) l :: ext2). rewrite Hrun2.
      split; [rewrite <- app_assoc; reflexivity|].
      cbn [trace_faults trace_ucalls flat_map app s_fault s_faults s_ucalls].
      fold (trace_faults ext2). fold (trace_ucalls ext2). rewrite Hf2, Hu2. repeat split.
      destruct Hres as [e' He']. destruct acc; exists e'; exact He'.
Qed.
