(** Comma-separated lists and string keys (C06): what [split_comma], [parse_cs] and [parse_int]
    (the model of [str::split(',')], serde-cs [CS::from_str] and [FromStr] of the std integers) compute,
    for every string.
    - the segments, joined with commas, are the string; no segment contains a comma; and this
      determines them: splitting is the inverse of joining comma-free segments;
    - a CS list succeeds exactly when every non-empty segment parses, with the parsed segments in
      order (nothing dropped, duplicated or reordered; blank is not empty); it fails with the
      error of the first segment that does not parse;
    - an integer key parses only to a value of the target's domain, and the canonical decimal
      text of every value of the domain parses to that value. *)
From Coq Require Import DecimalString DecimalPos DecimalN.
From Deserr Require Import Base Pointer Kinds Value Prog Utf8 Scalars.
Local Open Scope string_scope.

(** ** split / join *)
Fixpoint join_comma (l : list string) : string :=
  match l with [] => "" | [x] => x | x :: r => x ++ "," ++ join_comma r end.

Fixpoint comma_free (s : string) : bool :=
  match s with EmptyString => true | String c r => negb (Ascii.eqb c ","%char) && comma_free r end.

Lemma sapp_assoc (a b c : string) : (a ++ b) ++ c = a ++ (b ++ c).
Proof. induction a as [|x a IH]; [reflexivity|]. cbn [append]. rewrite IH. reflexivity. Qed.
Lemma sapp_nil_r (a : string) : a ++ "" = a.
Proof. induction a as [|x a IH]; [reflexivity|]. cbn [append]. rewrite IH. reflexivity. Qed.

Lemma split_nonempty s cur : split_comma s cur <> [].
Proof. revert cur. induction s as [|c r IH]; intros cur; cbn [split_comma]; [discriminate|]. destruct (Ascii.eqb c ","); [discriminate|apply IH]. Qed.

Lemma join_cons x l : l <> [] -> join_comma (x :: l) = x ++ "," ++ join_comma l.
Proof. destruct l; [intros H; destruct (H eq_refl)|reflexivity]. Qed.

Lemma split_join_gen s : forall cur, join_comma (split_comma s cur) = cur ++ s.
Proof.
  induction s as [|c r IH]; intros cur; cbn [split_comma].
  - cbn [join_comma]. rewrite sapp_nil_r. reflexivity.
  - destruct (Ascii.eqb c ",") eqn:E.
    + apply Ascii.eqb_eq in E. subst c. rewrite join_cons by apply split_nonempty. rewrite IH. reflexivity.
    + rewrite IH, sapp_assoc. reflexivity.
Qed.

Theorem split_join s : join_comma (split_comma s "") = s.
Proof. exact (split_join_gen s ""). Qed.

Lemma comma_free_app a b : comma_free (a ++ b) = comma_free a && comma_free b.
Proof. induction a as [|x a IH]; [reflexivity|]. cbn [append comma_free]. rewrite IH, Bool.andb_assoc. reflexivity. Qed.

Lemma split_comma_free_gen s : forall cur, comma_free cur = true -> Forall (fun x => comma_free x = true) (split_comma s cur).
Proof.
  induction s as [|c r IH]; intros cur Hc; cbn [split_comma]; [constructor; [exact Hc|constructor]|].
  destruct (Ascii.eqb c ",") eqn:E.
  - constructor; [exact Hc|]. apply IH. reflexivity.
  - apply IH. rewrite comma_free_app, Hc. cbn [comma_free]. rewrite E. reflexivity.
Qed.

Theorem split_comma_free s : Forall (fun x => comma_free x = true) (split_comma s "").
Proof. apply split_comma_free_gen. reflexivity. Qed.

Lemma split_comma_free_seg x : forall cur, comma_free x = true -> split_comma x cur = [cur ++ x].
Proof.
  induction x as [|c r IH]; intros cur H; cbn [split_comma]; [rewrite sapp_nil_r; reflexivity|].
  cbn [comma_free] in H. apply Bool.andb_true_iff in H. destruct H as [Hc Hr].
  destruct (Ascii.eqb c ","); [discriminate|]. rewrite (IH _ Hr), sapp_assoc. reflexivity.
Qed.

Lemma split_app_comma x : forall cur rest, comma_free x = true ->
  split_comma (x ++ "," ++ rest) cur = (cur ++ x) :: split_comma rest "".
Proof.
  induction x as [|c r IH]; intros cur rest H.
  - cbn [append split_comma]. rewrite sapp_nil_r. reflexivity.
  - cbn [comma_free] in H. apply Bool.andb_true_iff in H. destruct H as [Hc Hr].
    change ((String c r) ++ "," ++ rest) with (String c (r ++ "," ++ rest)). cbn [split_comma].
    destruct (Ascii.eqb c ","); [discriminate|]. rewrite (IH _ rest Hr), sapp_assoc. reflexivity.
Qed.

(** splitting is the inverse of joining: the segments are determined by the text *)
Theorem split_inverse l : l <> [] -> Forall (fun x => comma_free x = true) l -> split_comma (join_comma l) "" = l.
Proof.
  induction l as [|x l IH]; intros Hne Hf; [destruct (Hne eq_refl)|]. inversion Hf as [|? ? Hx Hl]; subst.
  destruct l as [|y l].
  - cbn [join_comma]. rewrite (split_comma_free_seg x "" Hx). reflexivity.
  - rewrite join_cons by discriminate. rewrite (split_app_comma x "" _ Hx). cbn [append]. f_equal. apply IH; [discriminate|exact Hl].
Qed.

(** ** the list of parsed elements *)
Definition segments (s : string) : list string := filter (fun x => negb (String.eqb x "")) (split_comma s "").

Lemma parse_all_ok kp l os : parse_all kp l = inl os <-> Forall2 (fun x o => parse_key kp x = inl o) l os.
Proof.
  revert os. induction l as [|x l IH]; intros os; cbn [parse_all].
  - split; [intros H; inversion H; constructor|intros H; inversion H; reflexivity].
  - destruct (parse_key kp x) as [o|e] eqn:E.
    + destruct (parse_all kp l) as [os'|e'] eqn:El.
      * split; [intros H; inversion H; subst; constructor; [exact E|apply IH; reflexivity]|].
        intros H. inversion H as [|? ? ? ? Hx Hl]; subst. rewrite E in Hx. inversion Hx; subst.
        apply IH in Hl. inversion Hl; subst. reflexivity.
      * split; [discriminate|]. intros H. inversion H as [|? ? ? ? Hx Hl]; subst. apply IH in Hl. discriminate.
    + split; [discriminate|]. intros H. inversion H as [|? ? ? ? Hx Hl]; subst. rewrite E in Hx. discriminate.
Qed.

Lemma parse_all_err kp l e :
  parse_all kp l = inr e <->
  exists pre x post os, l = (pre ++ x :: post)%list /\ Forall2 (fun x o => parse_key kp x = inl o) pre os /\ parse_key kp x = inr e.
Proof.
  induction l as [|x l IH]; cbn [parse_all].
  - split; [discriminate|]. intros (pre & y & post & os & H & _). destruct pre; discriminate.
  - destruct (parse_key kp x) as [o|e0] eqn:E.
    + destruct (parse_all kp l) as [os'|e'] eqn:El.
      * split; [discriminate|]. intros (pre & y & post & os & H & Hp & Hy). destruct pre as [|p pre].
        -- cbn [app] in H. inversion H; subst. rewrite E in Hy. discriminate.
        -- cbn [app] in H. inversion H; subst. inversion Hp as [|? ? ? ? _ Hp']; subst.
           assert (Hx : @inl (list out) parse_err os' = inr e) by (apply IH; exists pre, y, post, l'; repeat split; assumption).
           discriminate.
      * split.
        -- intros H. inversion H; subst. destruct (proj1 IH eq_refl) as (pre & y & post & os & Hl & Hp & Hy).
           exists (x :: pre), y, post, (o :: os). split; [rewrite Hl; reflexivity|]. split; [constructor; assumption|exact Hy].
        -- intros (pre & y & post & os & H & Hp & Hy). destruct pre as [|p pre]; cbn [app] in H; inversion H; subst.
           ++ rewrite E in Hy. discriminate.
           ++ inversion Hp as [|? ? ? ? _ Hp']; subst.
              assert (Hx : @inr (list out) parse_err e' = inr e) by (apply IH; exists pre, y, post, l'; repeat split; assumption).
              exact Hx.
    + split.
      * intros H. inversion H; subst. exists [], x, l, []. repeat split; [constructor|exact E].
      * intros (pre & y & post & os & H & Hp & Hy). destruct pre as [|p pre]; cbn [app] in H; inversion H; subst.
        -- rewrite E in Hy. inversion Hy. reflexivity.
        -- inversion Hp as [|? ? ? ? Hx _]; subst. rewrite E in Hx. discriminate.
Qed.

(** C06 for CS: success = every non-empty segment parsed, in order *)
Theorem parse_cs_ok kp s os :
  parse_cs kp s = inl os <-> Forall2 (fun x o => parse_key kp x = inl o) (segments s) os.
Proof. unfold parse_cs. apply parse_all_ok. Qed.

(** failure = the error of the first non-empty segment that does not parse *)
Theorem parse_cs_err kp s e :
  parse_cs kp s = inr e <->
  exists pre x post os, segments s = (pre ++ x :: post)%list /\ Forall2 (fun x o => parse_key kp x = inl o) pre os /\ parse_key kp x = inr e.
Proof. unfold parse_cs. apply parse_all_err. Qed.

(** for strings every segment is an element: the list is exactly the non-empty segments *)
Theorem parse_cs_strings s : parse_cs KPString s = inl (map OStr (segments s)).
Proof.
  apply parse_cs_ok. induction (segments s) as [|x l IH]; cbn [map]; constructor; [reflexivity|exact IH].
Qed.

(** a segment is dropped only when it is empty (a blank one is an element) *)
Theorem segments_spec s x : In x (segments s) <-> In x (split_comma s "") /\ x <> "".
Proof.
  unfold segments. rewrite filter_In. split; intros [H1 H2]; (split; [exact H1|]).
  - intros ->. discriminate.
  - destruct (String.eqb x "") eqn:E; [apply String.eqb_eq in E; destruct (H2 E)|reflexivity].
Qed.

(** the whole run of the CS impl *)
Theorem deser_cs_run script a kp v l s :
  run script (deser_cs a kp v l) s
  = match v with
    | VStr str =>
      match parse_cs kp str with
      | inl os => (ROk (OList os), s)
      | inr e => (RErr (N.of_nat (List.length s)), (s ++ [CError a None (Unexpected (parse_err_msg e)) l])%list)
      end
    | _ => (RErr (N.of_nat (List.length s)), (s ++ [CError a None (IncorrectValueKind v [KString]) l])%list)
    end.
Proof.
  unfold deser_cs. destruct v; try reflexivity. destruct (parse_cs kp s0); reflexivity.
Qed.

(** ** integer keys / elements *)
Lemma imin_le_0 d : (imin d <= 0)%Z.
Proof. unfold imin. destruct (i_signed d); [|lia]. destruct (i_width d); cbn; lia. Qed.
Lemma imax_ge_0 d : (0 <= imax d)%Z.
Proof. unfold imax. destruct (i_signed d); destruct (i_width d); cbn; lia. Qed.

Lemma digit_of_range b x : digit_of b = Some x -> (0 <= x <= 9)%Z.
Proof.
  unfold digit_of. destruct ((48 <=? b)%N && (b <=? 57)%N) eqn:E; [|discriminate]. intros H. inversion H; subst.
  apply Bool.andb_true_iff in E. destruct E as [E1 E2]. apply N.leb_le in E1, E2. lia.
Qed.

Lemma parse_digits_pos_sound d : forall l acc z, (0 <= acc <= imax d)%Z ->
  parse_digits true d l acc = inl z -> (0 <= z <= imax d)%Z.
Proof.
  induction l as [|b r IH]; intros acc z Ha H; cbn [parse_digits] in H; [inversion H; subst; exact Ha|].
  destruct (digit_of b) as [x|] eqn:Ed; [|discriminate]. pose proof (digit_of_range b x Ed) as Hx. cbv zeta in H.
  destruct (acc * 10 + x <=? imax d)%Z eqn:E; [|discriminate]. apply Z.leb_le in E. apply (IH _ z) in H; [exact H|lia].
Qed.

Lemma parse_digits_neg_sound d : forall l acc z, (imin d <= acc <= 0)%Z ->
  parse_digits false d l acc = inl z -> (imin d <= z <= 0)%Z.
Proof.
  induction l as [|b r IH]; intros acc z Ha H; cbn [parse_digits] in H; [inversion H; subst; exact Ha|].
  destruct (digit_of b) as [x|] eqn:Ed; [|discriminate]. pose proof (digit_of_range b x Ed) as Hx. cbv zeta in H.
  destruct (imin d <=? acc * 10 - x)%Z eqn:E; [|discriminate]. apply Z.leb_le in E. apply (IH _ z) in H; [exact H|lia].
Qed.

(** an integer key / element parses only to a value of the target's domain *)
Theorem parse_int_sound d s z :
  parse_int d s = inl z -> (imin d <= z <= imax d)%Z /\ (i_nonzero d = true -> z <> 0%Z).
Proof.
  unfold parse_int. pose proof (imin_le_0 d) as Hmin. pose proof (imax_ge_0 d) as Hmax.
  match goal with |- match ?R with inl _ => _ | inr _ => _ end = _ -> _ => destruct R as [z0|e] eqn:ER end; [|discriminate].
  assert (Hz0 : (imin d <= z0 <= imax d)%Z).
  { destruct (bytes_of s) as [|b r]; [discriminate|].
    assert (Hpos : forall l, parse_digits true d l 0 = inl z0 -> (imin d <= z0 <= imax d)%Z).
    { intros l H. apply parse_digits_pos_sound in H; lia. }
    assert (Hneg : forall l, parse_digits false d l 0 = inl z0 -> (imin d <= z0 <= imax d)%Z).
    { intros l H. apply parse_digits_neg_sound in H; lia. }
    destruct (N.eq_dec b 43) as [->|H43].
    - destruct r; [discriminate|]. exact (Hpos _ ER).
    - destruct (N.eq_dec b 45) as [->|H45].
      + destruct r; [discriminate|]. destruct (i_signed d); [exact (Hneg _ ER)|discriminate].
      + apply (Hpos (b :: r)).
        destruct b as [|p]; [exact ER|].
        do 6 (destruct p as [p|p|]; try exact ER); try (destruct (H43 eq_refl)); try (destruct (H45 eq_refl)); destruct r; exact ER. }
  destruct (i_nonzero d && Z.eqb z0 0) eqn:E; [discriminate|]. intros H. inversion H; subst. split; [exact Hz0|].
  intros Hnz Hz. rewrite Hnz, Hz in E. discriminate.
Qed.

(** *** the canonical decimal text parses back *)
Fixpoint uval (u : Decimal.uint) (acc : Z) : Z :=
  match u with
  | Decimal.Nil => acc
  | Decimal.D0 l => uval l (acc * 10 + 0)
  | Decimal.D1 l => uval l (acc * 10 + 1)
  | Decimal.D2 l => uval l (acc * 10 + 2)
  | Decimal.D3 l => uval l (acc * 10 + 3)
  | Decimal.D4 l => uval l (acc * 10 + 4)
  | Decimal.D5 l => uval l (acc * 10 + 5)
  | Decimal.D6 l => uval l (acc * 10 + 6)
  | Decimal.D7 l => uval l (acc * 10 + 7)
  | Decimal.D8 l => uval l (acc * 10 + 8)
  | Decimal.D9 l => uval l (acc * 10 + 9)
  end%Z.

Lemma uval_mono u : forall acc, (0 <= acc)%Z -> (acc <= uval u acc)%Z.
Proof.
  induction u as [|u IH|u IH|u IH|u IH|u IH|u IH|u IH|u IH|u IH|u IH]; intros acc Ha; cbn [uval]; [lia|..];
    (etransitivity; [|apply IH; lia]; lia).
Qed.

Lemma uval_acc u : forall acc, uval u (Zpos acc) = Zpos (Pos.of_uint_acc u acc).
Proof.
  induction u as [|u IH|u IH|u IH|u IH|u IH|u IH|u IH|u IH|u IH|u IH]; intros acc; cbn [uval Pos.of_uint_acc]; [reflexivity|..];
    (etransitivity; [|apply IH]); f_equal; lia.
Qed.

Lemma uval_of_uint u : uval u 0 = Z.of_N (Pos.of_uint u).
Proof.
  induction u as [|u IH|u IH|u IH|u IH|u IH|u IH|u IH|u IH|u IH|u IH]; cbn [uval Pos.of_uint]; [reflexivity|exact IH|..];
    cbn [Z.mul Z.add Z.of_N]; apply uval_acc.
Qed.

Lemma uval_to_uint n : uval (N.to_uint n) 0 = Z.of_N n.
Proof. rewrite uval_of_uint. change (Pos.of_uint (N.to_uint n)) with (N.of_uint (N.to_uint n)). rewrite DecimalN.Unsigned.of_to. reflexivity. Qed.

Lemma parse_digits_pos_dec d u : forall acc, (0 <= acc)%Z -> (uval u acc <= imax d)%Z ->
  parse_digits true d (bytes_of (NilEmpty.string_of_uint u)) acc = inl (uval u acc).
Proof.
  induction u as [|u IH|u IH|u IH|u IH|u IH|u IH|u IH|u IH|u IH|u IH]; intros acc Ha Hm; [reflexivity|..];
    cbn [NilEmpty.string_of_uint bytes_of parse_digits uval] in *;
    (match goal with |- context [digit_of ?b] => let v := eval vm_compute in (digit_of b) in change (digit_of b) with v end);
    cbv beta iota zeta;
    (match goal with |- context [(?x <=? imax d)%Z] =>
       assert (Hle : (x <= imax d)%Z) by (etransitivity; [apply (uval_mono u); lia|exact Hm]);
       apply Z.leb_le in Hle; rewrite Hle end);
    (apply IH; [lia|exact Hm]).
Qed.

Lemma parse_digits_neg_dec d u : forall acc, (acc <= 0)%Z -> (imin d <= - uval u (- acc))%Z ->
  parse_digits false d (bytes_of (NilEmpty.string_of_uint u)) acc = inl (- uval u (- acc))%Z.
Proof.
  induction u as [|u IH|u IH|u IH|u IH|u IH|u IH|u IH|u IH|u IH|u IH]; intros acc Ha Hm;
    [cbn [NilEmpty.string_of_uint bytes_of parse_digits uval]; f_equal; lia|..];
    cbn [NilEmpty.string_of_uint bytes_of parse_digits uval] in *;
    (match goal with |- context [digit_of ?b] => let v := eval vm_compute in (digit_of b) in change (digit_of b) with v end);
    cbv beta iota zeta;
    (match goal with
     | Hm : (imin d <= - uval u ?a)%Z |- context [(imin d <=? ?x)%Z] =>
       assert (Hle : (imin d <= x)%Z) by (pose proof (uval_mono u a ltac:(lia)); lia);
       apply Z.leb_le in Hle; rewrite Hle;
       replace a with (- x)%Z in * by lia
     end);
    (apply IH; [lia|exact Hm]).
Qed.

Lemma string_of_uint_nonnil u : u <> Decimal.Nil -> NilZero.string_of_uint u = NilEmpty.string_of_uint u.
Proof. destruct u; [intros H; destruct (H eq_refl)|..]; reflexivity. Qed.

Lemma first_byte_digit u : u <> Decimal.Nil ->
  exists b r, bytes_of (NilEmpty.string_of_uint u) = b :: r /\ (48 <= b <= 57)%N.
Proof.
  destruct u; [intros H; destruct (H eq_refl)|..]; intros _; cbn [NilEmpty.string_of_uint bytes_of];
    eexists; eexists; (split; [reflexivity|cbn; lia]).
Qed.

(** the sign / digits dispatch of [parse_int] *)
Definition parse_body (d : int_desc) (l : list N) : Z + parse_err :=
  match l with
  | [] => inr PEmpty
  | [43%N] => inr PInvalidDigit
  | [45%N] => inr PInvalidDigit
  | 43%N :: rest => parse_digits true d rest 0
  | 45%N :: rest => if i_signed d then parse_digits false d rest 0 else inr PInvalidDigit
  | l => parse_digits true d l 0
  end.

Lemma parse_int_unfold d s :
  parse_int d s = let r := parse_body d (bytes_of s) in
                  match r with
                  | inl z => if i_nonzero d && Z.eqb z 0 then inr PZero else inl z
                  | e => e
                  end.
Proof.
  unfold parse_int, parse_body. destruct (bytes_of s) as [|b r]; [reflexivity|]. destruct b as [|p]; [reflexivity|].
  do 7 (try (destruct p as [p|p|]; try reflexivity)); destruct r; reflexivity.
Qed.

Lemma parse_body_digit d b r : (48 <= b <= 57)%N -> parse_body d (b :: r) = parse_digits true d (b :: r) 0.
Proof.
  intros Hb. destruct b as [|p]; [lia|].
  do 6 (destruct p as [p|p|]; try lia; try reflexivity).
Qed.

(** the canonical decimal text of every value of the domain parses to that value *)
Theorem parse_int_dec d z :
  (imin d <= z <= imax d)%Z -> (i_nonzero d = true -> z <> 0%Z) -> parse_int d (dec_Z z) = inl z.
Proof.
  intros Hr Hnz. rewrite parse_int_unfold.
  assert (Hb : parse_body d (bytes_of (dec_Z z)) = inl z).
  { destruct z as [|p|p]; unfold dec_Z.
    - change (bytes_of "0") with [48%N]. rewrite (parse_body_digit d 48 [] ltac:(lia)). cbn [parse_digits].
      change (digit_of 48) with (Some 0%Z). cbv beta iota zeta. change (0 * 10 + 0)%Z with 0%Z.
      pose proof (imax_ge_0 d) as Hm. apply Z.leb_le in Hm. rewrite Hm. reflexivity.
    - unfold dec_N. cbn [N.to_uint]. rewrite string_of_uint_nonnil by apply Unsigned.to_uint_nonnil.
      destruct (first_byte_digit (Pos.to_uint p) (Unsigned.to_uint_nonnil p)) as (b & r & Hb & Hd).
      pose proof (parse_digits_pos_dec d (Pos.to_uint p) 0 ltac:(lia)) as H. rewrite Hb in *.
      change (Pos.to_uint p) with (N.to_uint (Npos p)) in H. rewrite uval_to_uint in H. specialize (H ltac:(cbn [Z.of_N]; lia)).
      cbn [Z.of_N] in H. rewrite (parse_body_digit d b r Hd). exact H.
    - assert (Hs : i_signed d = true).
      { unfold imin in Hr. destruct (i_signed d); [reflexivity|lia]. }
      unfold dec_N. cbn [N.to_uint]. rewrite string_of_uint_nonnil by apply Unsigned.to_uint_nonnil.
      destruct (first_byte_digit (Pos.to_uint p) (Unsigned.to_uint_nonnil p)) as (b & r & Hb & Hd).
      change (bytes_of ("-" ++ NilEmpty.string_of_uint (Pos.to_uint p))) with (45%N :: bytes_of (NilEmpty.string_of_uint (Pos.to_uint p))).
      pose proof (parse_digits_neg_dec d (Pos.to_uint p) 0 ltac:(lia)) as H. rewrite Hb in *.
      change (- 0)%Z with 0%Z in H. change (Pos.to_uint p) with (N.to_uint (Npos p)) in H. rewrite uval_to_uint in H.
      cbn [Z.of_N] in H. specialize (H ltac:(lia)). cbn [parse_body]. rewrite Hs. exact H. }
  cbv zeta. rewrite Hb. destruct (i_nonzero d) eqn:En; cbn [andb]; [|reflexivity].
  destruct (Z.eqb z 0) eqn:E; [apply Z.eqb_eq in E; destruct (Hnz eq_refl E)|reflexivity].
Qed.

(** hence parsing is injective on what it accepts only up to the text's spelling ("1", "+1",
    "01" all parse to 1: the map keeps the last such entry - C06 [map_insert]), and every value of
    the domain is reachable *)
Corollary parse_int_surjective d z :
  (imin d <= z <= imax d)%Z -> (i_nonzero d = true -> z <> 0%Z) -> exists s, parse_int d s = inl z.
Proof. intros H1 H2. exists (dec_Z z). apply parse_int_dec; assumption. Qed.

Example spellings : parse_int {| i_signed := false; i_width := W8; i_nonzero := false |} "1" = inl 1%Z
                    /\ parse_int {| i_signed := false; i_width := W8; i_nonzero := false |} "+1" = inl 1%Z
                    /\ parse_int {| i_signed := false; i_width := W8; i_nonzero := false |} "01" = inl 1%Z
                    /\ parse_int {| i_signed := false; i_width := W8; i_nonzero := false |} "256" = inr PPosOverflow
                    /\ parse_int {| i_signed := false; i_width := W8; i_nonzero := false |} " 1" = inr PInvalidDigit
                    /\ parse_int {| i_signed := false; i_width := W8; i_nonzero := false |} "-0" = inr PInvalidDigit
                    /\ parse_int {| i_signed := true; i_width := W8; i_nonzero := false |} "-128" = inl (-128)%Z
                    /\ segments "a, ,,b," = ["a"; " "; "b"].
Proof. vm_compute. repeat split. Qed.
