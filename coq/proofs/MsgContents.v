(** C14, text level: the message of a report contains each ingredient the property lists - the
    rendered path (nothing at the root), the quoted value, the missing field, the unknown key or
    value with every accepted alternative and the suggestion, both lengths, the detail message.
    "Contains" is: the message is some text, the ingredient, some text. *)
From Deserr Require Import Base Pointer Kinds Value Prog Utf8 Scalars DidYouMean Deser Json Monitors Messages.
Local Open Scope string_scope.

Definition substr (a s : string) : Prop := exists p q, s = p ++ a ++ q.

Lemma sapp_assoc (a b c : string) : (a ++ b) ++ c = a ++ (b ++ c).
Proof. induction a as [|x a IH]; [reflexivity|]. cbn [append]. rewrite IH. reflexivity. Qed.
Lemma sapp_nil_r (a : string) : a ++ "" = a.
Proof. induction a as [|x a IH]; [reflexivity|]. cbn [append]. rewrite IH. reflexivity. Qed.

Lemma substr_refl a : substr a a.
Proof. exists "", "". cbn [append]. rewrite sapp_nil_r. reflexivity. Qed.
Lemma substr_l a s t : substr a s -> substr a (s ++ t).
Proof. intros (p & q & ->). exists p, (q ++ t). rewrite !sapp_assoc. reflexivity. Qed.
Lemma substr_r a s t : substr a t -> substr a (s ++ t).
Proof. intros (p & q & ->). exists (s ++ p), q. rewrite !sapp_assoc. reflexivity. Qed.
Lemma substr_trans a b c : substr a b -> substr b c -> substr a c.
Proof.
  intros (p & q & ->) (p' & q' & ->). exists (p' ++ p), (q ++ q'). rewrite !sapp_assoc. reflexivity.
Qed.

Ltac sub_here := first [apply substr_refl | apply substr_l; sub_here].
(** find the ingredient in a right-nested concatenation (bounded search) *)
Ltac sub_find :=
  first [ assumption
        | apply substr_refl
        | apply substr_l; solve [sub_find]
        | apply substr_r; solve [sub_find] ].

Lemma join_with_cons sep x y r : join_with sep (x :: y :: r) = x ++ sep ++ join_with sep (y :: r).
Proof. reflexivity. Qed.

Lemma substr_join sep (f : string -> string) a l : In a l -> substr (f a) (join_with sep (map f l)).
Proof.
  induction l as [|x l IH]; intros Hin; [destruct Hin|].
  destruct l as [|y l].
  - destruct Hin as [->|[]]. cbn [map join_with]. apply substr_refl.
  - cbn [map]. rewrite join_with_cons. destruct Hin as [->|Hin].
    + apply substr_l. apply substr_refl.
    + apply substr_r, substr_r. apply IH. exact Hin.
Qed.

Section Contents.
  Variable ftext dtext : N -> string.

  (** *** the place *)
  Lemma location_json_root art : location_json Origin art = "".
  Proof. reflexivity. Qed.
  Lemma location_qp_root art : location_qp Origin art = "".
  Proof. reflexivity. Qed.

  Lemma location_json_path l art : l <> Origin -> location_json l art = art ++ " `" ++ path_json l ++ "`".
  Proof. destruct l; [intros H; destruct (H eq_refl)| |]; reflexivity. Qed.
  Lemma location_qp_path l art : l <> Origin -> location_qp l art = art ++ " `" ++ path_qp l ++ "`".
  Proof. destruct l; [intros H; destruct (H eq_refl)| |]; reflexivity. Qed.

  (** every JsonError message of a report below the root contains the path from the root between
      backquotes *)
  Theorem json_msg_has_path k l : l <> Origin -> substr ("`" ++ path_json l ++ "`") (json_msg ftext k l).
  Proof.
    intros Hl. assert (H : forall art, substr ("`" ++ path_json l ++ "`") (location_json l art)).
    { intros art. rewrite (location_json_path l art Hl). exists (art ++ " "), "".
      rewrite !sapp_assoc, sapp_nil_r. reflexivity. }
    destruct k; unfold json_msg.
    - apply substr_r, substr_l, H.
    - apply substr_r, substr_r, substr_r, H.
    - apply substr_r, substr_r, substr_r, substr_l, H.
    - apply substr_r, substr_r, substr_r, substr_l, H.
    - apply substr_r, substr_l, H.
    - apply substr_r, substr_l, H.
  Qed.

  Theorem qp_msg_has_path k l : l <> Origin -> substr ("`" ++ path_qp l ++ "`") (qp_msg ftext dtext k l).
  Proof.
    intros Hl. assert (H : forall art, substr ("`" ++ path_qp l ++ "`") (location_qp l art)).
    { intros art. rewrite (location_qp_path l art Hl). exists (art ++ " "), "".
      rewrite !sapp_assoc, sapp_nil_r. reflexivity. }
    destruct k; unfold qp_msg.
    - apply substr_r, substr_l, H.
    - apply substr_r, substr_r, substr_r, H.
    - apply substr_r, substr_r, substr_r, substr_l, H.
    - apply substr_r, substr_r, substr_r, substr_l, H.
    - apply substr_r, substr_l, H.
    - apply substr_r, substr_l, H.
  Qed.

  (** at the root the message says nothing about a place: it is the message with an empty
      location text *)
  Theorem json_msg_root k :
    json_msg ftext k Origin =
    match k with
    | IncorrectValueKind actual accepted =>
      "Invalid value type" ++ "" ++ ": expected " ++ describe accepted ++ ", but found " ++ value_description_json ftext actual
    | MissingField f => "Missing field `" ++ f ++ "`" ++ ""
    | UnknownKey key accepted => "Unknown field `" ++ key ++ "`" ++ "" ++ ": " ++ did_you_mean key accepted ++ expected_one_of accepted
    | UnknownValue v accepted => "Unknown value `" ++ v ++ "`" ++ "" ++ ": " ++ did_you_mean v accepted ++ expected_one_of accepted
    | BadSequenceLen actual expected =>
      "Invalid array len" ++ "" ++ ". Received " ++ dec_N (N.of_nat (List.length actual))
      ++ " elements instead of " ++ dec_N expected ++ ": `" ++ json_text ftext (from_value (VSeq actual)) ++ "`"
    | Unexpected msg => "Invalid value" ++ "" ++ ": " ++ msg
    end.
  Proof. destruct k; reflexivity. Qed.

  (** *** the ingredients per kind *)
  Theorem json_msg_value actual accepted l :
    substr (value_description_json ftext actual) (json_msg ftext (IncorrectValueKind actual accepted) l)
    /\ substr (describe accepted) (json_msg ftext (IncorrectValueKind actual accepted) l).
  Proof. unfold json_msg. split; sub_find. Qed.

  (** the quoted value is the JSON text of the value (null is named, not quoted) *)
  Theorem value_description_quotes v :
    kind_json (from_value v) <> KNull ->
    substr ("`" ++ json_text ftext (from_value v) ++ "`") (value_description_json ftext v).
  Proof.
    intros Hk. unfold value_description_json. cbv zeta.
    destruct (kind_json (from_value v)) eqn:E; try (destruct (Hk eq_refl));
      (apply substr_r; exists ": ", ""; rewrite !sapp_assoc, sapp_nil_r; reflexivity).
  Qed.

  Theorem json_msg_missing f l : substr ("`" ++ f ++ "`") (json_msg ftext (MissingField f) l).
  Proof. unfold json_msg. exists "Missing field ", (location_json l " inside"). rewrite !sapp_assoc. reflexivity. Qed.

  Lemma expected_one_of_each a accepted : In a accepted -> substr ("`" ++ a ++ "`") (expected_one_of accepted).
  Proof.
    intros Hin. unfold expected_one_of. apply substr_r.
    exact (substr_join ", " (fun a => "`" ++ a ++ "`") a accepted Hin).
  Qed.

  Theorem json_msg_unknown_key key accepted l :
    substr ("`" ++ key ++ "`") (json_msg ftext (UnknownKey key accepted) l)
    /\ substr (did_you_mean key accepted) (json_msg ftext (UnknownKey key accepted) l)
    /\ forall a, In a accepted -> substr ("`" ++ a ++ "`") (json_msg ftext (UnknownKey key accepted) l).
  Proof.
    unfold json_msg. split; [|split].
    - exists "Unknown field ", (location_json l " inside" ++ ": " ++ did_you_mean key accepted ++ expected_one_of accepted).
      rewrite !sapp_assoc. reflexivity.
    - sub_find.
    - intros a Hin. pose proof (expected_one_of_each a accepted Hin) as H. sub_find.
  Qed.

  Theorem json_msg_unknown_value v accepted l :
    substr ("`" ++ v ++ "`") (json_msg ftext (UnknownValue v accepted) l)
    /\ substr (did_you_mean v accepted) (json_msg ftext (UnknownValue v accepted) l)
    /\ forall a, In a accepted -> substr ("`" ++ a ++ "`") (json_msg ftext (UnknownValue v accepted) l).
  Proof.
    unfold json_msg. split; [|split].
    - exists "Unknown value ", (location_json l " at" ++ ": " ++ did_you_mean v accepted ++ expected_one_of accepted).
      rewrite !sapp_assoc. reflexivity.
    - sub_find.
    - intros a Hin. pose proof (expected_one_of_each a accepted Hin) as H. sub_find.
  Qed.

  Theorem json_msg_len actual expected l :
    let m := json_msg ftext (BadSequenceLen actual expected) l in
    substr ("Received " ++ dec_N (N.of_nat (List.length actual)) ++ " elements") m
    /\ substr ("instead of " ++ dec_N expected ++ ":") m
    /\ substr ("`" ++ json_text ftext (from_value (VSeq actual)) ++ "`") m.
  Proof.
    cbv zeta. unfold json_msg. split; [|split].
    - exists ("Invalid array len" ++ location_json l " at" ++ ". "),
        (" instead of " ++ dec_N expected ++ ": `" ++ json_text ftext (from_value (VSeq actual)) ++ "`").
      rewrite !sapp_assoc. reflexivity.
    - exists ("Invalid array len" ++ location_json l " at" ++ ". Received " ++ dec_N (N.of_nat (List.length actual)) ++ " elements "),
        (" `" ++ json_text ftext (from_value (VSeq actual)) ++ "`").
      rewrite !sapp_assoc. reflexivity.
    - exists ("Invalid array len" ++ location_json l " at" ++ ". Received " ++ dec_N (N.of_nat (List.length actual))
              ++ " elements instead of " ++ dec_N expected ++ ": "), "".
      rewrite !sapp_assoc, sapp_nil_r. reflexivity.
  Qed.

  Theorem json_msg_detail msg l : substr msg (json_msg ftext (Unexpected msg) l).
  Proof. unfold json_msg. sub_find. Qed.

  (** the suggestion part of the text is empty or names one accepted alternative (C18 says which) *)
  Theorem suggestion_text key accepted :
    did_you_mean key accepted = "" \/ exists a, In a accepted /\ did_you_mean key accepted = "did you mean `" ++ a ++ "`? ".
  Proof.
    unfold did_you_mean, dym. destruct (budget (String.length key)) as [t|]; [|left; reflexivity].
    destruct (min_by (candidates dl key t accepted)) as [[a d]|] eqn:E; [|left; reflexivity].
    right. exists a. split; [|reflexivity].
    assert (Hin : In (a, d) (candidates dl key t accepted)).
    { clear - E. revert a d E. induction (candidates dl key t accepted) as [|x r IH]; intros a d E; [discriminate|].
      cbn [min_by] in E. destruct (min_by r) as [y|] eqn:Er.
      - destruct (snd y <? snd x)%nat; inversion E; subst; [right; apply IH; reflexivity|left; reflexivity].
      - inversion E; subst. left; reflexivity. }
    unfold candidates in Hin. apply filter_In in Hin. destruct Hin as [Hin _]. apply in_map_iff in Hin.
    destruct Hin as (a' & Ha & Hin). inversion Ha; subst. exact Hin.
  Qed.

  (** *** query parameters: the same ingredients *)
  Theorem qp_msg_contents l :
    (forall actual accepted, substr (value_description_qp dtext actual) (qp_msg ftext dtext (IncorrectValueKind actual accepted) l))
    /\ (forall f, substr ("`" ++ f ++ "`") (qp_msg ftext dtext (MissingField f) l))
    /\ (forall key accepted, substr ("`" ++ key ++ "`") (qp_msg ftext dtext (UnknownKey key accepted) l)
                             /\ substr (did_you_mean key accepted) (qp_msg ftext dtext (UnknownKey key accepted) l)
                             /\ forall a, In a accepted -> substr ("`" ++ a ++ "`") (qp_msg ftext dtext (UnknownKey key accepted) l))
    /\ (forall v accepted, substr ("`" ++ v ++ "`") (qp_msg ftext dtext (UnknownValue v accepted) l)
                           /\ substr (did_you_mean v accepted) (qp_msg ftext dtext (UnknownValue v accepted) l)
                           /\ forall a, In a accepted -> substr ("`" ++ a ++ "`") (qp_msg ftext dtext (UnknownValue v accepted) l))
    /\ (forall actual expected,
          substr ("Received " ++ dec_N (N.of_nat (List.length actual)) ++ " elements") (qp_msg ftext dtext (BadSequenceLen actual expected) l)
          /\ substr ("instead of " ++ dec_N expected ++ ":") (qp_msg ftext dtext (BadSequenceLen actual expected) l)
          /\ substr ("`" ++ json_text ftext (from_value (VSeq actual)) ++ "`") (qp_msg ftext dtext (BadSequenceLen actual expected) l))
    /\ (forall msg, substr msg (qp_msg ftext dtext (Unexpected msg) l)).
  Proof.
    unfold qp_msg. repeat match goal with |- _ /\ _ => split end.
    - intros actual accepted. sub_find.
    - intros f. exists "Missing parameter ", (location_qp l " inside"). rewrite !sapp_assoc. reflexivity.
    - intros key accepted. split; [|split].
      + exists "Unknown parameter ", (location_qp l " inside" ++ ": " ++ did_you_mean key accepted ++ expected_one_of accepted).
        rewrite !sapp_assoc. reflexivity.
      + sub_find.
      + intros a Hin. pose proof (expected_one_of_each a accepted Hin) as H. sub_find.
    - intros v accepted. split; [|split].
      + exists "Unknown value ", (location_qp l " for parameter" ++ ": " ++ did_you_mean v accepted ++ expected_one_of accepted).
        rewrite !sapp_assoc. reflexivity.
      + sub_find.
      + intros a Hin. pose proof (expected_one_of_each a accepted Hin) as H. sub_find.
    - intros actual expected. split; [|split].
      + exists ("Invalid array len" ++ location_qp l " for parameter" ++ ". "),
          (" instead of " ++ dec_N expected ++ ": `" ++ json_text ftext (from_value (VSeq actual)) ++ "`").
        rewrite !sapp_assoc. reflexivity.
      + exists ("Invalid array len" ++ location_qp l " for parameter" ++ ". Received " ++ dec_N (N.of_nat (List.length actual)) ++ " elements "),
          (" `" ++ json_text ftext (from_value (VSeq actual)) ++ "`").
        rewrite !sapp_assoc. reflexivity.
      + exists ("Invalid array len" ++ location_qp l " for parameter" ++ ". Received " ++ dec_N (N.of_nat (List.length actual))
                ++ " elements instead of " ++ dec_N expected ++ ": "), "".
        rewrite !sapp_assoc, sapp_nil_r. reflexivity.
    - intros msg. sub_find.
  Qed.
End Contents.
