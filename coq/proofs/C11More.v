(** C11, field level, every script: exact run equations of the per-field stage and of the
    construction stage. *)
From Deserr Require Import Base Pointer Kinds Value Prog Utf8 Scalars Types Deser Monitors.
From Deserr.proofs Require Import ProgProofs RefineFields.
Local Open Scope list_scope.

Definition falg_of (a : N) (f : rfield) : N := match rf_alg f with Some b => b | None => a end.

(** the field's value deserialized: the conversion runs once, right then, on that value *)
Lemma field_entry_ok script a f i k v l acc sts s x s1 :
  run script (rf_run f (falg_of a f) v (Key k l)) s = (ROk x, s1) ->
  run script (field_entry a f i k v l acc sts) s
  = match rf_from f with
    | FFNone => (SGo acc (set_nth i (FSome x) sts), s1)
    | FFFrom fn => (SGo acc (set_nth i (FSome (OFn fn x)) sts), s1 ++ [CUser fn [AOut x]])
    | FFTry fn =>
      if ufail x then
        let s2 := s1 ++ [CUser fn [AOut x]] in
        let i1 := N.of_nat (List.length s2) in
        let s3 := s2 ++ [CMergeU (falg_of a f) None (fn, [AOut x]) (Key k l)] in
        let i2 := N.of_nat (List.length s3) in
        let s4 := s3 ++ [CMerge a acc (falg_of a f) i1 (Key k l)] in
        (if script i1 && script i2 then SGo (Some i2) (set_nth i FErr sts) else SStop (RErr i2), s4)
      else (SGo acc (set_nth i (FSome (OFn fn x)) sts), s1 ++ [CUser fn [AOut x]])
    end.
Proof.
  intros Hrun. unfold field_entry. fold (falg_of a f). rewrite run_bind, Hrun.
  destruct (rf_from f) as [|fn|fn]; [reflexivity|rewrite run_user_call; reflexivity|].
  rewrite run_user_call. destruct (ufail x); [|reflexivity]. cbn [run]. cbv zeta.
  destruct (script (N.of_nat (List.length (s1 ++ [CUser fn [AOut x]])))),
           (script (N.of_nat (List.length ((s1 ++ [CUser fn [AOut x]]) ++ [CMergeU (falg_of a f) None (fn, [AOut x]) (Key k l)])))); reflexivity.
Qed.

(** the field's value did not deserialize: no conversion function runs; the error is handed over *)
Lemma field_entry_err script a f i k v l acc sts s e s1 :
  run script (rf_run f (falg_of a f) v (Key k l)) s = (RErr e, s1) ->
  run script (field_entry a f i k v l acc sts) s
  = (let i' := N.of_nat (List.length s1) in
     if script i' then SGo (Some i') (set_nth i FErr sts) else SStop (RErr i'),
     s1 ++ [CMerge a acc (falg_of a f) e (Key k l)]).
Proof.
  intros Hrun. unfold field_entry. fold (falg_of a f). rewrite run_bind, Hrun. cbn [absorb run]. cbv zeta.
  destruct (script (N.of_nat (List.length s1))); reflexivity.
Qed.

(** construction: under every script, the [map] functions run once each, in field order (skipped
    fields last), on the final values, and the struct is built from their results *)
Lemma construct_any_script script : forall (vals : list (string * out * option N)) outs_rev s,
  run script (construct (map (fun it => (fst (fst it), FSome (snd (fst it)), snd it)) vals) outs_rev) s
  = (inl (rev outs_rev ++ map built_field vals), s ++ flat_map built_calls vals).
Proof.
  induction vals as [|[[n o] m] vals IH]; intros outs_rev s; cbn [map construct fst snd flat_map].
  - cbn [run]. rewrite !app_nil_r. reflexivity.
  - destruct m as [fn|].
    + rewrite run_user_call, IH. cbn [rev built_field built_calls app]. rewrite <- !app_assoc. reflexivity.
    + rewrite IH. cbn [rev built_field built_calls app]. rewrite <- !app_assoc. reflexivity.
Qed.

(** a field state that is not a value stops the construction before any later [map] runs
    (unreachable: C12) *)
Lemma validate_once script a val l o s :
  run script (validate a val l o) s
  = match val with
    | None => (ROk o, s)
    | Some fn =>
      let s1 := s ++ [CUser fn [AOut o; ALoc (to_owned l)]] in
      if ufail o then (RErr (N.of_nat (List.length s1)), s1 ++ [CMergeU a None (fn, [AOut o; ALoc (to_owned l)]) l])
      else (ROk o, s1)
    end.
Proof.
  unfold validate. destruct val as [fn|]; [|reflexivity]. rewrite run_user_call. destruct (ufail o); reflexivity.
Qed.
