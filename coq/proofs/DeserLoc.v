(** The interpreter is well located (C04): every hand-over is made at an ancestor-or-self of the
    locations of all the reports it hands over. *)
From Deserr Require Import Base Pointer Kinds Value Prog Utf8 Scalars Types Deser Spec Monitors C04Defs.
From Deserr.proofs Require Import ProgProofs TyInd DeserLin HeldProofs Under LocProofs LeavesProofs C04Proofs.
Local Open Scope list_scope.

Definition post_res (l : vpr) (r : res) (B : env) : Prop :=
  match r with RErr e => bound_le B e l | _ => True end.
Definition post_step (l : vpr) (s : step_out) (B : env) : Prop :=
  match s with SGo acc _ => acc_ok B acc l | SStop r => post_res l r B end.
Definition post_miss (l : vpr) (m : option N + res) (B : env) : Prop :=
  match m with inl acc => acc_ok B acc l | inr r => post_res l r B end.
Definition post_constr (c : list (string * out) + res) (B : env) : Prop :=
  match c with inr (RErr _) => False | _ => True end.

Notation LocRes l := (Loc (post_res l)).

Lemma lc_ret_ok l B o : LocRes l B (Ret (ROk o)).
Proof. apply Loc_ret. exact I. Qed.
Lemma lc_ret_panic l B s : LocRes l B (Ret (RPanic s)).
Proof. apply Loc_ret. exact I. Qed.
Lemma lc_ret_new l B i : LocRes l (upd B i l) (Ret (RErr i)).
Proof. apply Loc_ret. apply bound_le_new. Qed.

Lemma lc_fail_at l B a k loc : anc l loc = true -> LocRes l B (fail_with a k loc).
Proof.
  intros Ha. unfold fail_with. apply Loc_op with (bnew := l); [split; [exact Ha|exact I]|].
  intros i ans _. cbn [creates]. apply lc_ret_new.
Qed.
Lemma lc_fail_with l B a k : LocRes l B (fail_with a k l).
Proof. apply lc_fail_at. apply anc_refl. Qed.

Lemma lc_absorb {X} (post : X -> env -> Prop) B a acc oalg e loc l go stop :
  bound_le B e loc -> anc l loc = true -> acc_ok B acc l ->
  (forall i, B i = None -> Loc post (upd B i l) (go (Some i))) ->
  (forall i, B i = None -> Loc post (upd B i l) (stop i)) ->
  Loc post B (absorb a acc oalg e loc go stop).
Proof.
  intros He Ha Hacc Hgo Hstop. unfold absorb. apply Loc_op with (bnew := l); [repeat split; assumption|].
  intros i ans Hi. cbn [creates]. destruct ans; [apply Hgo|apply Hstop]; exact Hi.
Qed.

Lemma lc_report {X} (post : X -> env -> Prop) B a acc k loc l go stop :
  anc l loc = true -> acc_ok B acc l ->
  (forall i, B i = None -> Loc post (upd B i l) (go (Some i))) ->
  (forall i, B i = None -> Loc post (upd B i l) (stop i)) ->
  Loc post B (report a acc k loc go stop).
Proof.
  intros Ha Hacc Hgo Hstop. unfold report. apply Loc_op with (bnew := l); [split; assumption|].
  intros i ans Hi. cbn [creates]. destruct ans; [apply Hgo|apply Hstop]; exact Hi.
Qed.

Lemma lc_report_user {X} (post : X -> env -> Prop) B a acc u loc l go stop :
  anc l loc = true -> acc_ok B acc l ->
  (forall i, B i = None -> Loc post (upd B i l) (go (Some i))) ->
  (forall i, B i = None -> Loc post (upd B i l) (stop i)) ->
  Loc post B (report_user a acc u loc go stop).
Proof.
  intros Ha Hacc Hgo Hstop. unfold report_user. apply Loc_op with (bnew := l); [split; assumption|].
  intros i ans Hi. cbn [creates]. destruct ans; [apply Hgo|apply Hstop]; exact Hi.
Qed.

(** *** scalars *)
Lemma lc_deser_int l B a d v : LocRes l B (deser_int a d v l).
Proof.
  unfold deser_int. destruct v; try apply lc_fail_with;
    repeat match goal with
           | |- Loc _ _ (if ?c then _ else _) => destruct c
           end; try apply lc_fail_with; apply lc_ret_ok.
Qed.
Lemma lc_deser_f64 l B a v : LocRes l B (deser_f64 a v l).
Proof. destruct v; try apply lc_fail_with; apply lc_ret_ok. Qed.
Lemma lc_deser_f32 l B a v : LocRes l B (deser_f32 a v l).
Proof. destruct v; try apply lc_fail_with; apply lc_ret_ok. Qed.
Lemma lc_deser_unit l B a v : LocRes l B (deser_unit a v l).
Proof. destruct v; try apply lc_fail_with; apply lc_ret_ok. Qed.
Lemma lc_deser_bool l B a v : LocRes l B (deser_bool a v l).
Proof. destruct v; try apply lc_fail_with; apply lc_ret_ok. Qed.
Lemma lc_deser_string l B a v : LocRes l B (deser_string a v l).
Proof. destruct v; try apply lc_fail_with; apply lc_ret_ok. Qed.
Lemma lc_deser_char l B a v : LocRes l B (deser_char a v l).
Proof.
  destruct v; try apply lc_fail_with. unfold deser_char.
  destruct (chars s) as [|c [|c' r]]; try apply lc_fail_with. apply lc_ret_ok.
Qed.
Lemma lc_deser_cs l B a ep v : LocRes l B (deser_cs a ep v l).
Proof.
  destruct v; try apply lc_fail_with. unfold deser_cs.
  destruct (parse_cs ep s); [apply lc_ret_ok|apply lc_fail_with].
Qed.

(** *** and_then / map_ok / validate *)
Lemma lc_and_then l B p f :
  LocRes l B p -> (forall o B', LocRes l B' (f o)) -> LocRes l B (and_then p f).
Proof.
  intros Hp Hf. unfold and_then. apply Loc_bind with (pp := post_res l); [exact Hp|].
  intros [o|e|s] B' _ Hx; [apply Hf|apply Loc_ret; exact Hx|apply lc_ret_panic].
Qed.

Lemma lc_map_ok l B p f : LocRes l B p -> LocRes l B (map_ok p f).
Proof.
  intros Hp. unfold map_ok. apply Loc_bind with (pp := post_res l); [exact Hp|].
  intros [o|e|s] B' _ Hx; apply Loc_ret; [exact I|exact Hx|exact I].
Qed.

Lemma lc_validate l B a val o : LocRes l B (validate a val l o).
Proof.
  unfold validate. destruct val as [fn|]; [|apply lc_ret_ok].
  apply Loc_user. destruct (ufail o); [|apply lc_ret_ok].
  apply Loc_op with (bnew := l); [split; [apply anc_refl|exact I]|]. intros i ans _. cbn [creates]. apply lc_ret_new.
Qed.

(** *** loops over children *)
Lemma acc_ok_new B i l : acc_ok (upd B i l) (Some i) l.
Proof. apply bound_le_new. Qed.

Definition not_err (r : res) : Prop := match r with RErr _ => False | _ => True end.

Lemma lc_seq_loop runel a l fin :
  (forall B v idx, LocRes (Index idx l) B (runel v (Index idx l))) ->
  (forall os, not_err (fin os)) ->
  forall vs B idx acc outs_rev, acc_ok B acc l -> LocRes l B (seq_loop runel a l fin vs idx acc outs_rev).
Proof.
  intros Hel Hfin. induction vs as [|v vs IH]; intros B idx acc outs_rev Hacc; cbn [seq_loop].
  - apply Loc_ret. destruct acc as [e|]; [exact Hacc|]. specialize (Hfin (rev outs_rev)).
    destruct (fin (rev outs_rev)); [exact I|contradiction|exact I].
  - apply Loc_bind with (pp := post_res (Index idx l)); [apply Hel|].
    intros [o|e|s] B' He Hx; [apply IH; eapply acc_ok_ext; eassumption| |apply lc_ret_panic].
    apply lc_absorb with (l := l); [exact Hx|apply anc_index|eapply acc_ok_ext; eassumption| |].
    + intros i Hi. apply IH. apply acc_ok_new.
    + intros i Hi. apply lc_ret_new.
Qed.

Lemma lc_tuple_loop a l :
  forall items B idx acc slots_rev,
    Forall (fun it => forall B v idx, LocRes (Index idx l) B (fst it v (Index idx l))) items ->
    acc_ok B acc l -> LocRes l B (tuple_loop a l items idx acc slots_rev).
Proof.
  induction items as [|[runel v] items IH]; intros B idx acc slots_rev Hall Hacc; cbn [tuple_loop].
  - apply Loc_ret. destruct acc as [e|]; [exact Hacc|]. destruct (forallb _ slots_rev); exact I.
  - inversion Hall as [|? ? Hv Hrest]; subst. cbn [fst] in Hv.
    apply Loc_bind with (pp := post_res (Index idx l)); [apply Hv|].
    intros [o|e|s] B' He Hx; [apply IH; [exact Hrest|eapply acc_ok_ext; eassumption]| |apply lc_ret_panic].
    apply lc_absorb with (l := l); [exact Hx|apply anc_index|eapply acc_ok_ext; eassumption| |].
    + intros i Hi. apply IH; [exact Hrest|apply acc_ok_new].
    + intros i Hi. apply lc_ret_new.
Qed.

Lemma lc_map_loop runel kp tyname a l :
  (forall B v k, LocRes (Key k l) B (runel v (Key k l))) ->
  forall ms B acc res_map, acc_ok B acc l -> LocRes l B (map_loop runel kp tyname a l ms acc res_map).
Proof.
  intros Hel. induction ms as [|[k v] ms IH]; intros B acc res_map Hacc; cbn [map_loop].
  - apply Loc_ret. destruct acc; [exact Hacc|exact I].
  - destruct (parse_key kp k) as [ko|err].
    + apply Loc_bind with (pp := post_res (Key k l)); [apply Hel|].
      intros [o|e|s] B' He Hx; [apply IH; eapply acc_ok_ext; eassumption| |apply lc_ret_panic].
      apply lc_absorb with (l := l); [exact Hx|apply anc_key|eapply acc_ok_ext; eassumption| |].
      * intros i Hi. apply IH. apply acc_ok_new.
      * intros i Hi. apply lc_ret_new.
    + apply lc_report with (l := l); [apply anc_refl|exact Hacc| |].
      * intros i Hi. apply IH. apply acc_ok_new.
      * intros i Hi. apply lc_ret_new.
Qed.

(** *** serde_json::Value *)
Lemma lc_deser_json a : forall v l B, LocRes l B (deser_json a v l).
Proof.
  fix IH 1. intros v l B. destruct v as [| b | x | x | f | s | vs | ms]; cbn [deser_json]; try apply lc_ret_ok.
  - destruct (float_is_finite f); [apply lc_ret_ok|apply lc_fail_with].
  - assert (Hacc : acc_ok B None l) by exact I. revert Hacc.
    generalize (@None N) as acc. generalize (@nil value) as outs_rev. generalize 0%N as idx. revert B.
    induction vs as [|x vs IHvs]; intros B idx outs_rev acc Hacc.
    + apply Loc_ret. destruct acc; [exact Hacc|exact I].
    + apply Loc_bind with (pp := post_res (Index idx l)); [apply IH|].
      intros [o|e|s] B' He Hx; [apply IHvs; eapply acc_ok_ext; eassumption| |apply lc_ret_panic].
      apply lc_absorb with (l := l); [exact Hx|apply anc_index|eapply acc_ok_ext; eassumption| |].
      * intros i Hi. apply IHvs. apply acc_ok_new.
      * intros i Hi. apply lc_ret_new.
  - assert (Hacc : acc_ok B None l) by exact I. revert Hacc.
    generalize (@None N) as acc. generalize (@nil (string * value)) as jm. revert B.
    induction ms as [|[k x] ms IHms]; intros B jm acc Hacc.
    + apply Loc_ret. destruct acc; [exact Hacc|exact I].
    + apply Loc_bind with (pp := post_res (Key k l)); [apply IH|].
      intros [o|e|s] B' He Hx; [apply IHms; eapply acc_ok_ext; eassumption| |apply lc_ret_panic].
      apply lc_absorb with (l := l); [exact Hx|apply anc_key|eapply acc_ok_ext; eassumption| |].
      * intros i Hi. apply IHms. apply acc_ok_new.
      * intros i Hi. apply lc_ret_new.
Qed.

(** *** derived structs *)
Definition rfield_lc (f : rfield) : Prop := forall a v l B, LocRes l B (rf_run f a v l).

Lemma lc_field_entry a f i k v l acc sts B :
  rfield_lc f -> acc_ok B acc l -> Loc (post_step l) B (field_entry a f i k v l acc sts).
Proof.
  intros Hf Hacc. unfold field_entry. apply Loc_bind with (pp := post_res (Key k l)); [apply Hf|].
  intros [x|e|s] B' He Hx; [| |apply Loc_ret; exact I].
  - assert (Hacc' : acc_ok B' acc l) by (eapply acc_ok_ext; eassumption).
    destruct (rf_from f) as [|fn|fn]; [apply Loc_ret; exact Hacc'|apply Loc_user; apply Loc_ret; exact Hacc'|].
    apply Loc_user. destruct (ufail x); [|apply Loc_ret; exact Hacc'].
    apply Loc_op with (bnew := Key k l); [split; [apply anc_refl|exact I]|]. intros i1 ans1 Hi1. cbn [creates].
    apply Loc_op with (bnew := l).
    + split; [apply bound_le_new|]. split; [apply anc_key|]. eapply acc_ok_ext; [apply ext_upd; exact Hi1|exact Hacc'].
    + intros i2 ans2 Hi2. cbn [creates]. destruct (ans1 && ans2); apply Loc_ret; apply bound_le_new.
  - apply lc_absorb with (l := l); [exact Hx|apply anc_key|eapply acc_ok_ext; eassumption| |];
      intros i' Hi'; apply Loc_ret; apply bound_le_new.
Qed.

Lemma lc_unknown_key a d keys k l acc sts B :
  acc_ok B acc l -> Loc (post_step l) B (unknown_key a d keys k l acc sts).
Proof.
  intros Hacc. unfold unknown_key. destruct d as [| |fn]; [apply Loc_ret; exact Hacc| |apply Loc_user];
    [apply lc_report with (l := l)|apply lc_report_user with (l := l)]; try apply anc_refl; try exact Hacc;
      intros i Hi; apply Loc_ret; apply bound_le_new.
Qed.

Lemma lc_entries_loop a fs d keys l :
  Forall rfield_lc fs ->
  forall ms B acc sts, acc_ok B acc l -> Loc (post_step l) B (entries_loop a fs d keys l ms acc sts).
Proof.
  intros Hfs. induction ms as [|[k v] ms IH]; intros B acc sts Hacc; cbn [entries_loop]; [apply Loc_ret; exact Hacc|].
  apply Loc_bind with (pp := post_step l).
  - destruct (find_field fs k 0) as [[i f]|] eqn:E; [|apply lc_unknown_key; exact Hacc].
    apply lc_field_entry; [|exact Hacc]. rewrite Forall_forall in Hfs. apply Hfs. eapply find_field_in; exact E.
  - intros [acc' sts'|r] B' He Hx; [apply IH; exact Hx|apply Loc_ret; exact Hx].
Qed.

Lemma lc_missing_loop a l : forall fs sts B acc, acc_ok B acc l -> Loc (post_miss l) B (missing_loop a l fs sts acc).
Proof.
  induction fs as [|f fs IH]; intros sts B acc Hacc; cbn [missing_loop]; [apply Loc_ret; exact Hacc|].
  destruct sts as [|st sts]; [apply Loc_ret; exact Hacc|]. destruct st; try (apply IH; exact Hacc).
  destruct (rf_missing f) as [fn|]; [apply Loc_user; apply lc_report_user with (l := l)|apply lc_report with (l := l)];
    try apply anc_refl; try exact Hacc;
      try (intros i Hi; apply IH; apply acc_ok_new); intros i Hi; apply Loc_ret; apply bound_le_new.
Qed.

Lemma lc_construct B : forall items outs_rev, Loc post_constr B (construct items outs_rev).
Proof.
  induction items as [|[[name st] m] items IH]; intros outs_rev; cbn [construct]; [apply Loc_ret; exact I|].
  destruct st; try (apply Loc_ret; exact I). destruct m as [fn|]; [apply Loc_user|]; apply IH.
Qed.

Lemma lc_run_fields a fs sk d mk ms l B : Forall rfield_lc fs -> LocRes l B (run_fields a fs sk d mk ms l).
Proof.
  intros Hfs. unfold run_fields. apply Loc_bind with (pp := post_step l); [apply lc_entries_loop; [exact Hfs|exact I]|].
  intros [acc sts|r] B1 _ H1; [|apply Loc_ret; exact H1].
  apply Loc_bind with (pp := post_miss l); [apply lc_missing_loop; exact H1|].
  intros [[e|]|r] B2 _ H2; [apply Loc_ret; exact H2| |apply Loc_ret; exact H2].
  apply Loc_bind with (pp := post_constr); [apply lc_construct|].
  intros [fields|r] B3 _ H3; [apply lc_ret_ok|]. apply Loc_ret. destruct r; [exact I|contradiction|exact I].
Qed.

Lemma lc_run_tagged a tag vs v l B :
  Forall (fun rv => match rv_data rv with
                    | None => True
                    | Some (fs, _, _) => Forall rfield_lc fs
                    end) vs ->
  LocRes l B (run_tagged a tag vs v l).
Proof.
  intros Hvs. unfold run_tagged. destruct v; try apply lc_fail_with.
  destruct (remove_first tag l0) as [[tv rest]|]; [|apply lc_fail_with].
  destruct tv; try (apply lc_fail_at; apply anc_key).
  destruct (find_variant vs s) as [rv|] eqn:E; [|apply lc_fail_with].
  assert (Hin : In rv vs).
  { clear Hvs. induction vs as [|x vs IH]; [discriminate|]. cbn [find_variant] in E.
    destruct (String.eqb (rv_key x) s); [inversion E; left; reflexivity|right; apply IH; exact E]. }
  rewrite Forall_forall in Hvs. specialize (Hvs rv Hin).
  destruct (rv_data rv) as [[[fs sk] d]|]; [|apply lc_ret_ok]. apply lc_run_fields. exact Hvs.
Qed.

Lemma lc_run_unit_enum a vs v l B : LocRes l B (run_unit_enum a vs v l).
Proof.
  unfold run_unit_enum. destruct v; try apply lc_fail_with.
  destruct (find_unit vs s); [apply lc_ret_ok|apply lc_fail_with].
Qed.

(** *** the interpreter *)
Theorem deser_loc : forall t a v l B, LocRes l B (deser t a v l).
Proof.
  induction t using ty_ind'; intros a v l B; cbn [deser].
  - apply lc_deser_unit.
  - apply lc_deser_bool.
  - apply lc_deser_int.
  - apply lc_deser_f32.
  - apply lc_deser_f64.
  - apply lc_deser_char.
  - apply lc_deser_string.
  - apply lc_ret_ok.
  - apply lc_deser_json.
  - destruct v; try apply lc_fail_with. apply lc_seq_loop; [intros; apply IHt|intros os; exact I|exact I].
  - destruct v; try apply lc_fail_with. destruct (negb _); [apply lc_fail_with|].
    apply lc_seq_loop; [intros; apply IHt| |exact I]. intros os. destruct (N.eqb _ n); exact I.
  - destruct v; try apply lc_fail_with. destruct l0 as [|x [|y [|z r]]]; try apply lc_fail_with.
    apply lc_tuple_loop; [|exact I]. repeat constructor; cbn [fst]; intros; [apply IHt1|apply IHt2].
  - destruct v; try apply lc_fail_with. destruct l0 as [|x [|y [|z [|w r]]]]; try apply lc_fail_with.
    apply lc_tuple_loop; [|exact I]. repeat constructor; cbn [fst]; intros; [apply IHt1|apply IHt2|apply IHt3].
  - destruct v; try apply lc_fail_with. apply lc_seq_loop; [intros; apply IHt|intros os; exact I|exact I].
  - destruct v; try apply lc_fail_with. apply lc_seq_loop; [intros; apply IHt|intros os; exact I|exact I].
  - destruct v; try apply lc_fail_with. apply lc_map_loop; [intros; apply IHt|exact I].
  - destruct v; try (apply lc_map_ok; apply IHt). apply lc_ret_ok.
  - apply IHt.
  - apply lc_deser_cs.
  - apply lc_and_then; [|intros o B'; apply lc_validate].
    destruct v; try apply lc_fail_with. apply lc_run_fields.
    unfold Pfields in H. rewrite Forall_forall in *. intros rf Hin.
    apply in_map_iff in Hin. destruct Hin as [cf [<- Hcf]]. intros a' v' l' B'. cbn [rf_run]. apply (H cf Hcf).
  - apply lc_and_then; [|intros o B'; apply lc_validate].
    apply lc_run_tagged. rewrite Forall_forall in *. intros rv Hin.
    apply in_map_iff in Hin. destruct Hin as [cv [<- Hcv]]. cbn [rv_data].
    specialize (H cv Hcv). unfold Pvariant in H. destruct (cv_data cv) as [|s]; [exact I|].
    unfold Pfields in H. rewrite Forall_forall in *. intros rf Hin.
    apply in_map_iff in Hin. destruct Hin as [cf [<- Hcf]]. intros a' v' l' B'. cbn [rf_run]. apply (H cf Hcf).
  - apply lc_and_then; [apply lc_run_unit_enum|intros o B'; apply lc_validate].
  - apply lc_and_then; [apply IHt|]. intros o B'. apply Loc_user. apply lc_validate.
  - apply lc_and_then; [apply IHt|]. intros o B'. apply Loc_user. destruct (ufail o); [|apply lc_validate].
    apply Loc_op with (bnew := l); [split; [apply anc_refl|exact I]|]. intros i ans _. cbn [creates]. apply lc_ret_new.
Qed.

(** every hand-over made by [deserialize], under every script, is made at an ancestor-or-self of
    the locations of everything it hands over *)
Theorem deserialize_merges_located : forall t v script,
  let tr := snd (run script (deserialize t v) []) in
  Forall (merge_ok tr) tr.
Proof.
  intros t v script. cbv zeta.
  destruct (loc_sound (post_res Origin) (fun _ => None) (deserialize t v) (deser_loc t 0%N v Origin _) script [])
    as (B' & _ & _ & HM).
  - split; [intros n c Hn; destruct n; discriminate|intros id b Hb; discriminate].
  - constructor.
  - exact HM.
Qed.

(** the whole monitor of the check: every call of every run is true of the payload *)
Theorem deserialize_call_true : forall t v script,
  nodup_keys v = true -> c04_wf t = true ->
  let tr := snd (run script (deserialize t v) []) in
  forallb (call_true v tr) tr = true.
Proof.
  intros t v script Hnd Hwf tr. apply forallb_forall. intros c Hin.
  pose proof (deserialize_calls_true t v script Hnd Hwf) as Hok. rewrite Forall_forall in Hok. specialize (Hok c Hin).
  pose proof (deserialize_merges_located t v script) as HM. cbv zeta in HM. rewrite Forall_forall in HM. specialize (HM c Hin).
  destruct c as [a sf kd l|a sf oa o l|a sf ue l|fn args]; cbn [call_true call_ok merge_ok] in *; try exact Hok.
  rewrite Hok. cbn [andb]. apply forallb_forall. intros l' Hl'. apply HM.
  unfold under_all. rewrite <- locs_under_is_under. exact Hl'.
Qed.
