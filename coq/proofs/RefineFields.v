(** Refinement (C02), part 3: derived structs - the entry loop, the missing loop and the
    construction against the declarative [s_fields]. *)
From Deserr Require Import Base Pointer Kinds Value Prog Utf8 Scalars ScalarSpec Types Deser Spec Monitors.
From Deserr.proofs Require Import ProgProofs ScalarProofs RefineBase RefineLoops C12Proofs C08Proofs.

Definition spfields_of (fs : list (cfield ty)) : list spfield :=
  map (fun f => mkSP (cf_name f) (cf_key f) (spec (cf_ty f)) (cf_from f) (cf_default f) (cf_map f) (cf_missing f)) fs.

Definition child_ref (cf : cfield ty) : Prop := forall a v l, Ref (deser (cf_ty cf) a v l) (spec (cf_ty cf) v l).

(** the inner [find] of [s_member], named *)
Fixpoint sp_find (fs : list spfield) (k : string) (i : nat) : option (nat * spfield) :=
  match fs with
  | [] => None
  | f :: r => if String.eqb (sp_key f) k then Some (i, f) else sp_find r k (S i)
  end.

Lemma s_member_unfold fs d l k v :
  s_member fs d l (k, v) =
  match sp_find fs k 0 with
  | Some (i, f) =>
    let r := sp_run f v (Key k l) in
    (Some i,
     match s_out r with
     | None => r
     | Some x =>
       match sp_from f with
       | FFNone => r
       | FFFrom fn => mkS (Some (OFn fn x)) [] (s_ucalls r ++ [(fn, [AOut x])])
       | FFTry fn =>
         if ufail x then mkS None [FUser (fn, [AOut x]) (Key k l)] (s_ucalls r ++ [(fn, [AOut x])])
         else mkS (Some (OFn fn x)) [] (s_ucalls r ++ [(fn, [AOut x])])
       end
     end)
  | None =>
    (None,
     match d with
     | DenyNo => mkS None [] []
     | DenyDefault => s_fault (FKind (UnknownKey k (map sp_key fs)) l)
     | DenyFn fn =>
       let args := [AStr k; AStrs (map sp_key fs); ALoc (to_owned l)] in
       mkS None [FUser (fn, args) l] [(fn, args)]
     end)
  end.
Proof.
  unfold s_member.
  assert (H : forall fs i,
             (fix find (fs : list spfield) (i : nat) : option (nat * spfield) :=
                match fs with
                | [] => None
                | f :: r => if String.eqb (sp_key f) k then Some (i, f) else find r (S i)
                end) fs i = sp_find fs k i).
  { induction fs0 as [|f r IH]; intros i; cbn; [reflexivity|]. destruct (String.eqb (sp_key f) k); [reflexivity|apply IH]. }
  rewrite H. reflexivity.
Qed.

Lemma find_correspond cfs k i0 :
  match find_field (rfields_of cfs) k i0, sp_find (spfields_of cfs) k i0 with
  | Some (i, rf), Some (j, sf) =>
    i = j /\ exists cf, In cf cfs /\
      rf = mkRF (cf_name cf) (cf_key cf) (deser (cf_ty cf)) (cf_alg cf) (cf_from cf) (cf_default cf) (cf_map cf) (cf_missing cf)
      /\ sf = mkSP (cf_name cf) (cf_key cf) (spec (cf_ty cf)) (cf_from cf) (cf_default cf) (cf_map cf) (cf_missing cf)
  | None, None => True
  | _, _ => False
  end.
Proof.
  revert i0. induction cfs as [|cf cfs IH]; intros i0; cbn [rfields_of spfields_of map find_field sp_find rf_key sp_key]; [exact I|].
  destruct (String.eqb (cf_key cf) k).
  - split; [reflexivity|]. exists cf. repeat split. left; reflexivity.
  - specialize (IH (S i0)). fold (rfields_of cfs). fold (spfields_of cfs).
    destruct (find_field (rfields_of cfs) k (S i0)) as [[i rf]|], (sp_find (spfields_of cfs) k (S i0)) as [[j sf]|]; try exact IH.
    destruct IH as [Hij (cf' & Hin & H1 & H2)]. split; [exact Hij|]. exists cf'. split; [right; exact Hin|]. split; assumption.
Qed.

Lemma keys_correspond cfs : map rf_key (rfields_of cfs) = map sp_key (spfields_of cfs).
Proof. unfold rfields_of, spfields_of. rewrite !map_map. reflexivity. Qed.

(** the state a member leaves in its field *)
Definition state_of_result (r : sres) : fstate := match s_out r with Some o => FSome o | None => FErr end.

Definition apply_member (sts : list fstate) (m : option nat * sres) : list fstate :=
  match fst m with Some i => set_nth i (state_of_result (snd m)) sts | None => sts end.

Lemma apply_member_some sts i r : apply_member sts (Some i, r) = set_nth i (state_of_result r) sts.
Proof. reflexivity. Qed.
Lemma apply_member_none sts r : apply_member sts (None, r) = sts.
Proof. reflexivity. Qed.

Definition member_faults (members : list (option nat * sres)) : list fault := flat_map (fun m => s_faults (snd m)) members.
Definition member_ucalls (members : list (option nat * sres)) : list (N * list uarg) := flat_map (fun m => s_ucalls (snd m)) members.

Ltac close_member Hacc :=
  cbn [snd fst s_faults s_ucalls s_fault app];
  repeat match goal with
         | H : s_faults _ = [] |- _ => rewrite H
         end;
  cbn [app];
  first [ reflexivity
        | rewrite <- ?app_assoc; reflexivity
        | split; [intros Hx; apply Hacc in Hx; tauto|intros [Hx1 Hx2]; apply Hacc; tauto]
        | split; [intros Hx; apply Hacc in Hx; destruct Hx; discriminate|intros [_ Hx]; discriminate] ].

Lemma entries_ref a cfs d l :
  Forall child_ref cfs ->
  forall ms acc sts s,
    let members := map (s_member (spfields_of cfs) d l) ms in
    exists acc' ext,
      run keep_going (entries_loop a (rfields_of cfs) d (map rf_key (rfields_of cfs)) l ms acc sts) s
      = (SGo acc' (fold_left apply_member members sts), s ++ ext)
      /\ trace_faults ext = member_faults members
      /\ trace_ucalls ext = member_ucalls members
      /\ (acc' = None <-> acc = None /\ member_faults members = []).
Proof.
  intros Hch. induction ms as [|[k v] ms IH]; intros acc sts s; cbv zeta; cbn [map].
  - exists acc, []. cbn. rewrite app_nil_r. repeat split; tauto.
  - cbn [entries_loop fold_left]. unfold member_faults, member_ucalls. cbn [flat_map].
    fold (member_faults (map (s_member (spfields_of cfs) d l) ms)).
    fold (member_ucalls (map (s_member (spfields_of cfs) d l) ms)).
    rewrite s_member_unfold. rewrite run_bind.
    pose proof (find_correspond cfs k 0) as Hfc.
    destruct (find_field (rfields_of cfs) k 0) as [[i rf]|] eqn:Eff;
      destruct (sp_find (spfields_of cfs) k 0) as [[j sf]|] eqn:Esf; try contradiction.
    + destruct Hfc as [<- (cf & Hin & -> & ->)].
      rewrite Forall_forall in Hch. pose proof (Hch cf Hin) as Hcf.
      cbn [sp_run sp_from]. unfold field_entry. cbn [rf_run rf_alg rf_from]. rewrite run_bind.
      set (falg := match cf_alg cf with Some b => b | None => a end).
      destruct (Hcf falg v (Key k l) s) as (rc & ext1 & Hrun1 & Hf1 & Hu1 & Hm1). rewrite Hrun1.
      rewrite apply_member_some.
      destruct rc as [x|e|site]; [| |destruct Hm1].
      * destruct Hm1 as [Ho Hnil]. rewrite Ho.
        destruct (cf_from cf) as [|fn|fn]; cbn beta iota.
        -- cbn [run]. unfold state_of_result. rewrite Ho.
           destruct (IH acc (set_nth i (FSome x) sts) (s ++ ext1)) as (acc' & ext2 & Hrun2 & Hf2 & Hu2 & Hacc).
           exists acc', (ext1 ++ ext2). cbv zeta in Hrun2. rewrite Hrun2.
           split; [rewrite app_assoc; reflexivity|].
           rewrite trace_faults_app, trace_ucalls_app, Hf1, Hf2, Hu1, Hu2.
           split; [close_member Hacc|]. split; close_member Hacc.
        -- rewrite run_user_call. cbn [run]. unfold state_of_result. cbn [s_out].
           destruct (IH acc (set_nth i (FSome (OFn fn x)) sts) ((s ++ ext1) ++ [CUser fn [AOut x]])) as (acc' & ext2 & Hrun2 & Hf2 & Hu2 & Hacc).
           exists acc', (ext1 ++ CUser fn [AOut x] :: ext2). cbv zeta in Hrun2. rewrite Hrun2.
           split; [rewrite <- !app_assoc; reflexivity|].
           rewrite trace_faults_app, trace_ucalls_app. cbn [trace_faults trace_ucalls flat_map].
           fold (trace_faults ext2). fold (trace_ucalls ext2). rewrite Hf1, Hf2, Hu1, Hu2.
           split; [close_member Hacc|]. split; close_member Hacc.
        -- rewrite run_user_call. destruct (ufail x); cbn beta iota.
           ++ cbn [run]. cbn beta. cbn [andb]. cbn beta iota. cbn [run]. unfold state_of_result. cbn [s_out].
              set (s1 := (s ++ ext1) ++ [CUser fn [AOut x]]).
              set (s2 := (s1 ++ [CMergeU falg None (fn, [AOut x]) (Key k l)])
                         ++ [CMerge a acc falg (N.of_nat (List.length s1)) (Key k l)]).
              destruct (IH (Some (N.of_nat (List.length (s1 ++ [CMergeU falg None (fn, [AOut x]) (Key k l)]))))
                           (set_nth i FErr sts) s2) as (acc' & ext2 & Hrun2 & Hf2 & Hu2 & Hacc).
              exists acc', (ext1 ++ CUser fn [AOut x] :: CMergeU falg None (fn, [AOut x]) (Key k l)
                                 :: CMerge a acc falg (N.of_nat (List.length s1)) (Key k l) :: ext2).
              cbv zeta in Hrun2. rewrite Hrun2.
              split; [unfold s2, s1; rewrite <- !app_assoc; reflexivity|].
              rewrite trace_faults_app, trace_ucalls_app. cbn [trace_faults trace_ucalls flat_map].
              fold (trace_faults ext2). fold (trace_ucalls ext2). rewrite Hf1, Hf2, Hu1, Hu2.
              split; [close_member Hacc|]. split; close_member Hacc.
           ++ cbn [run]. unfold state_of_result. cbn [s_out].
              destruct (IH acc (set_nth i (FSome (OFn fn x)) sts) ((s ++ ext1) ++ [CUser fn [AOut x]])) as (acc' & ext2 & Hrun2 & Hf2 & Hu2 & Hacc).
              exists acc', (ext1 ++ CUser fn [AOut x] :: ext2). cbv zeta in Hrun2. rewrite Hrun2.
              split; [rewrite <- !app_assoc; reflexivity|].
              rewrite trace_faults_app, trace_ucalls_app. cbn [trace_faults trace_ucalls flat_map].
              fold (trace_faults ext2). fold (trace_ucalls ext2). rewrite Hf1, Hf2, Hu1, Hu2.
              split; [close_member Hacc|]. split; close_member Hacc.
      * destruct Hm1 as [Ho Hne]. rewrite Ho. cbn [absorb run]. cbn beta. unfold state_of_result. rewrite Ho.
        destruct (IH (Some (N.of_nat (List.length (s ++ ext1)))) (set_nth i FErr sts)
                     ((s ++ ext1) ++ [CMerge a acc falg e (Key k l)])) as (acc' & ext2 & Hrun2 & Hf2 & Hu2 & Hacc).
        exists acc', (ext1 ++ CMerge a acc falg e (Key k l) :: ext2). cbv zeta in Hrun2. rewrite Hrun2.
        split; [rewrite <- !app_assoc; reflexivity|].
        rewrite trace_faults_app, trace_ucalls_app. cbn [trace_faults trace_ucalls flat_map app].
        fold (trace_faults ext2). fold (trace_ucalls ext2). rewrite Hf1, Hf2, Hu1, Hu2.
        split; [reflexivity|]. split; [reflexivity|]. cbn [snd]. split.
        -- intros H. apply Hacc in H. destruct H; discriminate.
        -- intros [_ H]. destruct (s_faults (spec (cf_ty cf) v (Key k l))); [contradiction|discriminate].
    + (* unknown key *)
      rewrite <- keys_correspond. unfold unknown_key. rewrite apply_member_none.
      destruct d as [| |fn].
      * cbn [run].
        destruct (IH acc sts s) as (acc' & ext2 & Hrun2 & Hf2 & Hu2 & Hacc).
        exists acc', ext2. cbv zeta in Hrun2. rewrite Hrun2. cbn [snd s_faults s_ucalls app].
        split; [reflexivity|]. split; [exact Hf2|]. split; [exact Hu2|exact Hacc].
      * cbn [report run]. cbn beta.
        destruct (IH (Some (N.of_nat (List.length s))) sts
                     (s ++ [CError a acc (UnknownKey k (map rf_key (rfields_of cfs))) l])) as (acc' & ext2 & Hrun2 & Hf2 & Hu2 & Hacc).
        exists acc', (CError a acc (UnknownKey k (map rf_key (rfields_of cfs))) l :: ext2).
        cbv zeta in Hrun2. rewrite Hrun2. split; [rewrite <- app_assoc; reflexivity|].
        cbn [trace_faults trace_ucalls flat_map].
        fold (trace_faults ext2). fold (trace_ucalls ext2). rewrite Hf2, Hu2.
        split; [close_member Hacc|]. split; close_member Hacc.
      * rewrite run_user_call. cbn [report_user run]. cbn beta.
        set (args := [AStr k; AStrs (map rf_key (rfields_of cfs)); ALoc (to_owned l)]).
        destruct (IH (Some (N.of_nat (List.length (s ++ [CUser fn args])))) sts
                     ((s ++ [CUser fn args]) ++ [CMergeU a acc (fn, args) l])) as (acc' & ext2 & Hrun2 & Hf2 & Hu2 & Hacc).
        exists acc', (CUser fn args :: CMergeU a acc (fn, args) l :: ext2).
        cbv zeta in Hrun2. rewrite Hrun2. split; [rewrite <- !app_assoc; reflexivity|].
        cbn [trace_faults trace_ucalls flat_map].
        fold (trace_faults ext2). fold (trace_ucalls ext2). rewrite Hf2, Hu2.
        split; [close_member Hacc|]. split; close_member Hacc.
Qed.

(** *** the final states are the specified field values *)
Definition state_of_value (ov : option (option out)) : fstate :=
  match ov with None => FMissing | Some None => FErr | Some (Some o) => FSome o end.

Lemma fold_apply_length members sts : List.length (fold_left apply_member members sts) = List.length sts.
Proof.
  revert sts. induction members as [|m members IH]; intros sts; [reflexivity|]. cbn [fold_left].
  rewrite IH. unfold apply_member. destruct (fst m); [apply set_nth_length|reflexivity].
Qed.

Definition hits (i : nat) (m : option nat * sres) : bool :=
  match fst m with Some j => Nat.eqb i j | None => false end.

Lemma s_field_value_unfold i f members :
  s_field_value i f members =
  match filter (hits i) members with
  | [] => match sp_default f with FDValue o => Some (Some o) | FDMissing => None end
  | h :: t => Some (s_out (snd (last (h :: t) (None, mkS None [] []))))
  end.
Proof. reflexivity. Qed.

Lemma last_snoc {A} (l : list A) x d : last (l ++ [x]) d = x.
Proof.
  induction l as [|y l IH]; [reflexivity|]. cbn [app].
  destruct (l ++ [x]) as [|z r] eqn:E; [destruct l; discriminate|]. cbn [last]. exact IH.
Qed.

Lemma states_are_values cfs :
  forall members i cf,
    nth_error cfs i = Some cf ->
    nth_error (fold_left apply_member members (map (fun f => state_of_default (rf_default f)) (rfields_of cfs))) i
    = Some (state_of_value (s_field_value i (mkSP (cf_name cf) (cf_key cf) (spec (cf_ty cf)) (cf_from cf)
                                                   (cf_default cf) (cf_map cf) (cf_missing cf)) members)).
Proof.
  intros members. induction members as [|m members IH] using rev_ind; intros i cf Hi.
  - cbn [fold_left]. unfold rfields_of. rewrite map_map. cbn [rf_default].
    rewrite nth_error_map, Hi. cbn [option_map]. rewrite s_field_value_unfold. cbn [filter sp_default].
    destruct (cf_default cf); reflexivity.
  - rewrite fold_left_app. cbn [fold_left]. rewrite s_field_value_unfold, filter_app. cbn [filter].
    assert (Hlen : (i < List.length (fold_left apply_member members
                      (map (fun f => state_of_default (rf_default f)) (rfields_of cfs))))%nat).
    { rewrite fold_apply_length, map_length. unfold rfields_of. rewrite map_length.
      apply nth_error_Some. rewrite Hi. discriminate. }
    destruct m as [[j|] r].
    + rewrite apply_member_some. unfold hits at 2. cbn [fst].
      destruct (Nat.eqb_spec i j) as [<-|Hne].
      * rewrite nth_error_set_nth_same by exact Hlen.
        destruct (filter (hits i) members ++ [(Some i, r)]) eqn:E; [destruct (filter (hits i) members); discriminate|].
        rewrite <- E, last_snoc. reflexivity.
      * rewrite nth_error_set_nth_other by congruence. rewrite app_nil_r.
        rewrite (IH i cf Hi), s_field_value_unfold. reflexivity.
    + rewrite apply_member_none. unfold hits at 2. cbn [fst]. rewrite app_nil_r.
      rewrite (IH i cf Hi), s_field_value_unfold. reflexivity.
Qed.

(** *** the missing loop, in terms of faults *)
Definition fault_of_mreport (l : vpr) (r : mreport) : fault :=
  match r with MKind k => FKind k l | MUser fn args => FUser (fn, args) l end.
Definition ucalls_of_mreport (r : mreport) : list (N * list uarg) :=
  match r with MKind _ => [] | MUser fn args => [(fn, args)] end.

Lemma missing_loop_ref a l :
  forall fs sts acc s,
    exists ext acc',
      run keep_going (missing_loop a l fs sts acc) s = (inl acc', s ++ ext)
      /\ trace_faults ext = map (fault_of_mreport l) (expected_missing l fs sts)
      /\ trace_ucalls ext = flat_map ucalls_of_mreport (expected_missing l fs sts)
      /\ (acc' = None <-> acc = None /\ expected_missing l fs sts = []).
Proof.
  induction fs as [|f fs IH]; intros sts acc s; cbn [missing_loop].
  - exists [], acc. rewrite app_nil_r. repeat split; try reflexivity; intros; tauto.
  - destruct sts as [|st sts].
    + exists [], acc. rewrite app_nil_r. repeat split; try reflexivity; intros; tauto.
    + unfold expected_missing. cbn [combine flat_map fst snd]. fold (expected_missing l fs sts).
      destruct st.
      * destruct (rf_missing f) as [fn|].
        -- rewrite run_user_call. cbn [report_user run]. cbn beta.
           set (args := [AStr (rf_key f); ALoc (to_owned l)]).
           destruct (IH sts (Some (N.of_nat (List.length (s ++ [CUser fn args]))))
                        ((s ++ [CUser fn args]) ++ [CMergeU a acc (fn, args) l])) as (ext & acc' & Hrun & Hf & Hu & Hacc).
           exists (CUser fn args :: CMergeU a acc (fn, args) l :: ext), acc'.
           split; [rewrite Hrun; rewrite <- !app_assoc; reflexivity|].
           cbn [trace_faults trace_ucalls flat_map map app fault_of_mreport ucalls_of_mreport].
           fold (trace_faults ext). fold (trace_ucalls ext). rewrite Hf, Hu.
           split; [reflexivity|]. split; [reflexivity|].
           split; [intros H; apply Hacc in H; destruct H; discriminate|intros [_ H]; discriminate].
        -- cbn [report run]. cbn beta.
           destruct (IH sts (Some (N.of_nat (List.length s))) (s ++ [CError a acc (MissingField (rf_key f)) l]))
             as (ext & acc' & Hrun & Hf & Hu & Hacc).
           exists (CError a acc (MissingField (rf_key f)) l :: ext), acc'.
           split; [rewrite Hrun; rewrite <- app_assoc; reflexivity|].
           cbn [trace_faults trace_ucalls flat_map map app fault_of_mreport ucalls_of_mreport].
           fold (trace_faults ext). fold (trace_ucalls ext). rewrite Hf, Hu.
           split; [reflexivity|]. split; [reflexivity|].
           split; [intros H; apply Hacc in H; destruct H; discriminate|intros [_ H]; discriminate].
      * destruct (IH sts acc s) as (ext & acc' & Hrun & Hf & Hu & Hacc). exists ext, acc'. cbn [app]. auto.
      * destruct (IH sts acc s) as (ext & acc' & Hrun & Hf & Hu & Hacc). exists ext, acc'. cbn [app]. auto.
Qed.

(** *** construction *)
Definition built_field (it : string * out * option N) : string * out :=
  match it with (n, o, Some fn) => (n, OFn fn o) | (n, o, None) => (n, o) end.
Definition built_calls (it : string * out * option N) : list call :=
  match it with (_, o, Some fn) => [CUser fn [AOut o]] | (_, _, None) => [] end.

Lemma construct_ok : forall (vals : list (string * out * option N)) outs_rev s,
  run keep_going (construct (map (fun it => (fst (fst it), FSome (snd (fst it)), snd it)) vals) outs_rev) s
  = (inl (rev outs_rev ++ map built_field vals), s ++ flat_map built_calls vals).
Proof.
  induction vals as [|[[n o] m] vals IH]; intros outs_rev s; cbn [map construct fst snd flat_map].
  - cbn [run]. rewrite !app_nil_r. reflexivity.
  - destruct m as [fn|].
    + rewrite run_user_call, IH. cbn [rev built_field built_calls app]. rewrite <- !app_assoc. reflexivity.
    + rewrite IH. cbn [rev built_field built_calls app]. rewrite <- !app_assoc. reflexivity.
Qed.

(** *** the whole field machinery against [s_fields] *)

(** position-wise relation between two lists *)
Lemma Forall2_nth {A B} (R : A -> B -> Prop) l1 l2 :
  List.length l1 = List.length l2 ->
  (forall i x y, nth_error l1 i = Some x -> nth_error l2 i = Some y -> R x y) -> Forall2 R l1 l2.
Proof.
  revert l2. induction l1 as [|x l1 IH]; intros l2 Hlen H; destruct l2 as [|y l2]; try discriminate; constructor.
  - apply (H 0%nat); reflexivity.
  - apply IH; [cbn in Hlen; lia|]. intros i a b Ha Hb. apply (H (S i)); assumption.
Qed.

Lemma indexed_nat_from_nth {A} (l : list A) i0 i x :
  nth_error (indexed_nat_from l i0) i = Some x -> exists a, nth_error l i = Some a /\ x = ((i0 + i)%nat, a).
Proof.
  revert i0 i. induction l as [|y l IH]; intros i0 i H; [destruct i; discriminate|].
  destruct i; cbn [indexed_nat_from nth_error] in H.
  - inversion H. exists y. rewrite Nat.add_0_r. split; reflexivity.
  - destruct (IH (S i0) i H) as (a & Ha & ->). exists a. split; [exact Ha|]. f_equal. lia.
Qed.

Lemma indexed_nat_from_length {A} (l : list A) i0 : List.length (indexed_nat_from l i0) = List.length l.
Proof. revert i0. induction l; intros i0; cbn; [reflexivity|]. rewrite IHl. reflexivity. Qed.

Definition sp_of (cf : cfield ty) : spfield :=
  mkSP (cf_name cf) (cf_key cf) (spec (cf_ty cf)) (cf_from cf) (cf_default cf) (cf_map cf) (cf_missing cf).
Definition rf_of (cf : cfield ty) : rfield :=
  mkRF (cf_name cf) (cf_key cf) (deser (cf_ty cf)) (cf_alg cf) (cf_from cf) (cf_default cf) (cf_map cf) (cf_missing cf).

Lemma states_values_forall2 cfs members :
  let sts := fold_left apply_member members (map (fun f => state_of_default (rf_default f)) (rfields_of cfs)) in
  let vals := map (fun p => s_field_value (fst p) (snd p) members) (indexed_nat (spfields_of cfs)) in
  Forall2 (fun st ov => st = state_of_value ov) sts vals.
Proof.
  cbv zeta. apply Forall2_nth.
  - rewrite fold_apply_length, !map_length. unfold indexed_nat. rewrite indexed_nat_from_length.
    unfold rfields_of, spfields_of. rewrite !map_length. reflexivity.
  - intros i st ov Hst Hov.
    rewrite nth_error_map in Hov. unfold indexed_nat in Hov.
    destruct (nth_error (indexed_nat_from (spfields_of cfs) 0) i) as [p|] eqn:Ep; [|discriminate].
    cbn [option_map] in Hov. inversion Hov; subst ov; clear Hov.
    destruct (indexed_nat_from_nth _ _ _ _ Ep) as (sf & Hsf & ->). cbn [fst snd Nat.add].
    unfold spfields_of in Hsf. rewrite nth_error_map in Hsf.
    destruct (nth_error cfs i) as [cf|] eqn:Ecf; [|discriminate]. cbn [option_map] in Hsf. inversion Hsf; subst sf.
    rewrite (states_are_values cfs members i cf Ecf) in Hst. inversion Hst. reflexivity.
Qed.

(** the missing reports computed from the states are those computed from the values *)
Lemma expected_missing_values l cfs sts vals :
  Forall2 (fun st ov => st = state_of_value ov) sts vals ->
  List.length sts = List.length cfs ->
  map (fault_of_mreport l) (expected_missing l (rfields_of cfs) sts)
  = map fst (flat_map (fun p : spfield * option (option out) =>
                         match snd p with
                         | None =>
                           match sp_missing (fst p) with
                           | None => [(FKind (MissingField (sp_key (fst p))) l, [])]
                           | Some fn =>
                             let args := [AStr (sp_key (fst p)); ALoc (to_owned l)] in
                             [(FUser (fn, args) l, [(fn, args)])]
                           end
                         | Some _ => []
                         end) (combine (spfields_of cfs) vals))
  /\ flat_map ucalls_of_mreport (expected_missing l (rfields_of cfs) sts)
     = flat_map snd (flat_map (fun p : spfield * option (option out) =>
                         match snd p with
                         | None =>
                           match sp_missing (fst p) with
                           | None => [(FKind (MissingField (sp_key (fst p))) l, [])]
                           | Some fn =>
                             let args := [AStr (sp_key (fst p)); ALoc (to_owned l)] in
                             [(FUser (fn, args) l, [(fn, args)])]
                           end
                         | Some _ => []
                         end) (combine (spfields_of cfs) vals)).
Proof.
  revert sts vals. induction cfs as [|cf cfs IH]; intros sts vals HF Hlen.
  - destruct sts; [|discriminate]. split; reflexivity.
  - destruct sts as [|st sts]; [discriminate|]. inversion HF as [|? ov ? vals' Hst Hrest]; subst.
    cbn [rfields_of spfields_of map combine]. fold (rfields_of cfs). fold (spfields_of cfs).
    unfold expected_missing. cbn [combine flat_map fst snd]. fold (expected_missing l (rfields_of cfs) sts).
    cbn in Hlen. injection Hlen as Hlen. destruct (IH sts vals' Hrest Hlen) as [IH1 IH2].
    destruct ov as [[o|]|]; cbn [state_of_value rf_missing rf_key sp_missing sp_key]; cbn [app].
    + split; assumption.
    + split; assumption.
    + destruct (cf_missing cf) as [fn|]; cbn [map flat_map app fst snd fault_of_mreport ucalls_of_mreport];
        rewrite ?map_app, ?flat_map_app; cbn [map flat_map app fst snd]; rewrite IH1, IH2; split; reflexivity.
Qed.

(** a member that fills a field and has no value carries a fault *)
Lemma member_wf cfs d l kv i :
  Forall child_ref cfs ->
  fst (s_member (spfields_of cfs) d l kv) = Some i ->
  s_out (snd (s_member (spfields_of cfs) d l kv)) = None ->
  s_faults (snd (s_member (spfields_of cfs) d l kv)) <> [].
Proof.
  intros Hch. destruct kv as [k v]. rewrite s_member_unfold.
  pose proof (find_correspond cfs k 0) as Hfc.
  destruct (find_field (rfields_of cfs) k 0) as [[i' rf]|] eqn:Eff;
    destruct (sp_find (spfields_of cfs) k 0) as [[j sf]|] eqn:Esf; try contradiction.
  - destruct Hfc as [<- (cf & Hin & -> & ->)]. rewrite Forall_forall in Hch.
    pose proof (ref_wf _ _ (Hch cf Hin 0%N v (Key k l))) as [Hw1 Hw2].
    cbn [sp_run sp_from fst snd]. intros _.
    destruct (s_out (spec (cf_ty cf) v (Key k l))) as [x|] eqn:Eo.
    + destruct (cf_from cf) as [|fn|fn]; cbn [s_out s_faults]; try discriminate.
      * rewrite Eo. discriminate.
      * destruct (ufail x); cbn [s_out s_faults]; discriminate.
    + intros _ Hnil. destruct (Hw1 Hnil) as [o Ho]. congruence.
  - cbn [fst]. discriminate.
Qed.

Lemma set_nth_In {A} (x : A) : forall l n y, In y (set_nth n x l) -> y = x \/ In y l.
Proof.
  induction l as [|z l IH]; intros n y H; [destruct n; destruct H|].
  destruct n; cbn [set_nth] in H; destruct H as [H|H].
  - left; symmetry; exact H.
  - right; right; exact H.
  - right; left; exact H.
  - destruct (IH n y H) as [E|E]; [left; exact E|right; right; exact E].
Qed.

Lemma fold_apply_no_err members :
  (forall m, In m members -> fst m <> None -> state_of_result (snd m) <> FErr) ->
  forall sts, (forall st, In st sts -> st <> FErr) ->
  forall st, In st (fold_left apply_member members sts) -> st <> FErr.
Proof.
  induction members as [|m members IH]; intros Hm sts Hsts st Hin; cbn [fold_left] in Hin; [apply Hsts; exact Hin|].
  apply (IH (fun m' Hin' => Hm m' (or_intror Hin')) (apply_member sts m)); [|exact Hin].
  intros st' Hin'. destruct m as [[i|] r]; [rewrite apply_member_some in Hin'|rewrite apply_member_none in Hin'; apply Hsts; exact Hin'].
  destruct (set_nth_In _ _ _ _ Hin') as [->|Hold]; [|apply Hsts; exact Hold].
  apply (Hm (Some i, r)); [left; reflexivity|discriminate].
Qed.

Lemma expected_missing_nil l : forall fs sts,
  List.length fs = List.length sts -> expected_missing l fs sts = [] -> forall st, In st sts -> st <> FMissing.
Proof.
  induction fs as [|f fs IH]; intros sts Hlen Hnil st Hin; destruct sts as [|st0 sts]; try discriminate; [destruct Hin|].
  unfold expected_missing in Hnil. cbn [combine flat_map fst snd] in Hnil. fold (expected_missing l fs sts) in Hnil.
  apply app_eq_nil in Hnil. destruct Hnil as [H0 Hr]. destruct Hin as [<-|Hin].
  - intros ->. destruct (rf_missing f); discriminate.
  - apply (IH sts); [cbn in Hlen; lia|exact Hr|exact Hin].
Qed.

Lemma member_faults_nil_in members m : member_faults members = [] -> In m members -> s_faults (snd m) = [].
Proof.
  unfold member_faults. induction members as [|m0 members IH]; intros H Hin; [destruct Hin|].
  cbn [flat_map] in H. apply app_eq_nil in H. destruct H as [H0 Hr]. destruct Hin as [<-|Hin]; [exact H0|apply IH; assumption].
Qed.

(** the construction items of both sides when every field state is a value *)
Definition toF (it : string * out * option N) : string * fstate * option N := (fst (fst it), FSome (snd (fst it)), snd it).
Definition toS (it : string * out * option N) : string * option out * option N := (fst (fst it), Some (snd (fst it)), snd it).

Lemma items_correspond : forall cfs sts vals,
  Forall2 (fun st ov => st = state_of_value ov) sts vals ->
  List.length sts = List.length cfs ->
  (forall st, In st sts -> exists o, st = FSome o) ->
  exists v3,
    map (fun p => (rf_name (fst p), snd p, rf_map (fst p))) (combine (rfields_of cfs) sts) = map toF v3
    /\ map (fun p : spfield * option (option out) =>
              (sp_name (fst p), match snd p with Some (Some o) => Some o | _ => None end, sp_map (fst p)))
           (combine (spfields_of cfs) vals) = map toS v3.
Proof.
  induction cfs as [|cf cfs IH]; intros sts vals HF Hlen Hall.
  - exists []. destruct sts; [|discriminate]. split; reflexivity.
  - destruct sts as [|st sts]; [discriminate|]. inversion HF as [|? ov ? vals' Hst Hrest]; subst.
    destruct (IH sts vals' Hrest) as (v3 & H1 & H2); [cbn in Hlen; lia|intros st Hin; apply Hall; right; exact Hin|].
    destruct (Hall _ (or_introl eq_refl)) as [o Ho].
    destruct ov as [[o'|]|]; cbn [state_of_value] in Ho; try discriminate. inversion Ho; subst o'.
    exists ((cf_name cf, o, cf_map cf) :: v3).
    cbn [rfields_of spfields_of map combine]. fold (rfields_of cfs). fold (spfields_of cfs).
    cbn [fst snd rf_name rf_map sp_name sp_map state_of_value]. rewrite H1, H2. split; reflexivity.
Qed.

Definition spec_outs (items : list (string * option out * option N)) :=
  map (fun it : string * option out * option N => match it with
                     | (n, Some o, Some fn) => (n, Some (OFn fn o), [(fn, [AOut o])])
                     | (n, Some o, None) => (n, Some o, [])
                     | (n, None, _) => (n, None, [])
                     end) items.

Lemma spec_outs_values v3 :
  all_some (map (fun x => snd (fst x)) (spec_outs (map toS v3))) = Some (map snd (map built_field v3))
  /\ map (fun x => fst (fst x)) (spec_outs (map toS v3)) = map fst (map built_field v3)
  /\ flat_map snd (spec_outs (map toS v3)) = trace_ucalls (flat_map built_calls v3).
Proof.
  induction v3 as [|[[n o] m] v3 (IH1 & IH2 & IH3)]; [repeat split|].
  cbn [map toS spec_outs fst snd]. fold (spec_outs (map toS v3)).
  destruct m as [fn|]; cbn [all_some map fst snd flat_map built_field built_calls app];
    rewrite IH1, IH2, ?trace_ucalls_app, IH3; repeat split.
Qed.

Lemma combine_fst_snd {A B} (l : list (A * B)) : combine (map fst l) (map snd l) = l.
Proof. induction l as [|[a b] l IH]; [reflexivity|]. cbn. rewrite IH. reflexivity. Qed.

Lemma trace_faults_built v3 : trace_faults (flat_map built_calls v3) = [].
Proof. induction v3 as [|[[n o] [fn|]] v3 IH]; cbn; auto. Qed.
