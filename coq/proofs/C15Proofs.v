(** C15, part 4: the specification is insensitive to the order of object members at any depth;
    through the refinement theorem so is the interpreter. *)
From Coq Require Import Permutation.
From Deserr Require Import Base Pointer Kinds Value Prog Utf8 Scalars ScalarSpec Types Deser Spec Monitors.
From Deserr.proofs Require Import ProgProofs TyInd RefineBase RefineLoops RefineFields RefineStruct SortedIns C15Base C15Fields C15Maps.
Local Open Scope list_scope.

(** what the induction over [veq] carries for a pair of values *)
Definition P (v v' : value) : Prop := veq v v' /\ forall t l, SEQ (spec t v l) (spec t v' l).

Lemma P_refl v : P v v.
Proof. split; [apply veq_refl|intros; apply SEQ_refl]. Qed.

Definition mrelP (a b : string * value) : Prop := fst a = fst b /\ P (snd a) (snd b).

Inductive step : value -> value -> Prop :=
| st_perm ms ms' : Permutation ms ms' -> step (VMap ms) (VMap ms')
| st_members ms ms' : Forall2 mrelP ms ms' -> step (VMap ms) (VMap ms')
| st_elems vs vs' : Forall2 P vs vs' -> step (VSeq vs) (VSeq vs').

Lemma veq_members ms ms' : Forall2 (fun a b : string * value => fst a = fst b /\ veq (snd a) (snd b)) ms ms' -> veq (VMap ms) (VMap ms').
Proof.
  intros H. change ms with ([] ++ ms). change ms' with ([] ++ ms'). generalize (@nil (string * value)) as pre.
  induction H as [|[k v] [k' v'] la lb [Hk Hv] _ IH]; intros pre; [apply veq_refl|]. cbn [fst snd] in *. subst k'.
  eapply veq_trans; [apply veq_member; exact Hv|].
  specialize (IH (pre ++ [(k, v')])). rewrite <- !app_assoc in IH. exact IH.
Qed.

Lemma veq_elems vs vs' : Forall2 veq vs vs' -> veq (VSeq vs) (VSeq vs').
Proof.
  intros H. change vs with ([] ++ vs). change vs' with ([] ++ vs'). generalize (@nil value) as pre.
  induction H as [|v v' la lb Hv _ IH]; intros pre; [apply veq_refl|].
  eapply veq_trans; [apply veq_elem; exact Hv|].
  specialize (IH (pre ++ [v'])). rewrite <- !app_assoc in IH. exact IH.
Qed.

Lemma Forall2_impl {A B} (R R' : A -> B -> Prop) l l' : (forall a b, R a b -> R' a b) -> Forall2 R l l' -> Forall2 R' l l'.
Proof. intros H. induction 1; constructor; auto. Qed.

Lemma step_veq v v' : step v v' -> veq v v'.
Proof.
  intros [ms ms' HP|ms ms' HF|vs vs' HF].
  - apply veq_perm. exact HP.
  - apply veq_members. eapply Forall2_impl; [|exact HF]. intros a b [Hk [Hv _]]. split; assumption.
  - apply veq_elems. eapply Forall2_impl; [|exact HF]. intros a b [Hv _]. exact Hv.
Qed.

Lemma step_not_null v v' : step v v' -> v <> VNull /\ v' <> VNull.
Proof. intros [| |]; split; discriminate. Qed.

Lemma Forall2_length {A B} (R : A -> B -> Prop) l l' : Forall2 R l l' -> List.length l = List.length l'.
Proof. induction 1; cbn; congruence. Qed.

(** children of a sequence *)
Lemma indexed_children el vs vs' l i :
  Forall2 (fun v v' => forall l', SEQ (el v l') (el v' l')) vs vs' ->
  Forall2 SEQ (map (fun iv : N * value => el (snd iv) (Index (fst iv) l)) (indexed vs i))
              (map (fun iv : N * value => el (snd iv) (Index (fst iv) l)) (indexed vs' i)).
Proof.
  intros H. revert i. induction H as [|v v' la lb Hv _ IH]; intros i; cbn [indexed map fst snd]; constructor; [apply Hv|apply IH].
Qed.

Lemma s_seq_congr el vs vs' l mk :
  Forall2 (fun v v' => forall l', SEQ (el v l') (el v' l')) vs vs' -> SEQ (s_seq el vs l mk) (s_seq el vs' l mk).
Proof. intros H. unfold s_seq. apply SEQ_collect. apply indexed_children. exact H. Qed.

Lemma P_children t vs vs' : Forall2 P vs vs' -> Forall2 (fun v v' => forall l', SEQ (spec t v l') (spec t v' l')) vs vs'.
Proof. intros H. eapply Forall2_impl; [|exact H]. intros a b [_ Hs] l'. apply Hs. Qed.

Lemma SEQ_fault_len vs vs' n l : veq (VSeq vs) (VSeq vs') -> SEQ (s_fault (FKind (BadSequenceLen vs n) l)) (s_fault (FKind (BadSequenceLen vs' n) l)).
Proof. intros H. apply SEQ_mk; [|reflexivity]. apply PM_forall2. constructor; [apply feq_len; exact H|constructor]. Qed.

(** the fields of a derived struct or variant run the specification of their type *)
Lemma spfields_run cfs f : In f (spfields_of cfs) -> exists t, sp_run f = spec t.
Proof. unfold spfields_of. intros H. apply in_map_iff in H. destruct H as (cf & <- & _). exists (cf_ty cf). reflexivity. Qed.

Lemma wfv_map_keys ms : wfv (VMap ms) -> good_keys (map fst ms).
Proof. intros H. apply wfv_map in H. apply H. Qed.

Lemma s_fields_step cfs sk d mk ms ms' l :
  step (VMap ms) (VMap ms') -> NoDup (map fst ms) ->
  SEQ (s_fields (spfields_of cfs) sk d mk ms l) (s_fields (spfields_of cfs) sk d mk ms' l).
Proof.
  intros Hst Hnd. inversion Hst as [? ? HP|? ? HF|]; subst.
  - apply s_fields_perm; assumption.
  - apply s_fields_pointwise; [|exact Hnd]. eapply Forall2_impl; [|exact HF].
    intros a b [Hk [_ Hs]]. split; [exact Hk|]. intros f Hf. destruct (spfields_run _ _ Hf) as [t ->]. apply Hs.
Qed.

Lemma s_tagged_step tag (cvs : list (cvariant ty)) v v' l :
  step v v' -> wfv v ->
  let vs := map spvariant_of cvs in
  SEQ (s_tagged tag vs v l) (s_tagged tag vs v' l).
Proof.
  intros Hst Hw vs. pose proof (step_veq _ _ Hst) as Hveq.
  inversion Hst as [ms ms' HP|ms ms' HF|vs0 vs0' HF]; subst; cbn [s_tagged]; [| |apply SEQ_kind; exact Hveq].
  - (* permuted members *)
    pose proof (wfv_map_keys _ Hw) as [Hnd _].
    pose proof (remove_first_perm tag ms ms' HP Hnd) as Hrf.
    destruct (remove_first tag ms) as [[tv r]|], (remove_first tag ms') as [[tv' r']|]; try contradiction; [|apply SEQ_refl].
    destruct Hrf as (<- & HPr & Hndr). destruct tv; try apply SEQ_refl.
    destruct (find (fun sv => String.eqb (sv_key sv) s) vs) as [sv|] eqn:Efind; [|apply SEQ_refl].
    destruct (sv_data sv) as [[[fs sk] d]|] eqn:Ed; [|apply SEQ_refl].
    apply find_some in Efind. destruct Efind as [Hin _]. unfold vs in Hin. apply in_map_iff in Hin. destruct Hin as (cv & <- & _).
    unfold spvariant_of in Ed. cbn [sv_data] in Ed. destruct (cv_data cv) as [|cs]; [discriminate|]. inversion Ed; subst.
    apply s_fields_perm; assumption.
  - (* pointwise related members *)
    pose proof (wfv_map_keys _ Hw) as [Hnd _].
    pose proof (remove_first_pointwise P tag ms ms' HF) as Hrf.
    pose proof (remove_first_perm tag ms ms (Permutation_refl ms) Hnd) as Hself.
    destruct (remove_first tag ms) as [[tv r]|], (remove_first tag ms') as [[tv' r']|]; try contradiction; [|apply SEQ_refl].
    destruct Hrf as ([Hveq_t _] & HFr). destruct Hself as (_ & _ & Hndr).
    pose proof (veq_shape _ _ Hveq_t) as Hsh.
    destruct tv as [| | | | |s| |], tv' as [| | | | |s'| |]; cbn in Hsh; try contradiction; try discriminate; try (apply SEQ_kind; exact Hveq_t).
    inversion Hsh; subst s'.
    destruct (find (fun sv => String.eqb (sv_key sv) s) vs) as [sv|] eqn:Efind; [|apply SEQ_refl].
    destruct (sv_data sv) as [[[fs sk] d]|] eqn:Ed; [|apply SEQ_refl].
    apply find_some in Efind. destruct Efind as [Hin _]. unfold vs in Hin. apply in_map_iff in Hin. destruct Hin as (cv & <- & _).
    unfold spvariant_of in Ed. cbn [sv_data] in Ed. destruct (cv_data cv) as [|cs]; [discriminate|]. inversion Ed; subst.
    apply s_fields_step; [apply st_members; exact HFr|exact Hndr].
Qed.

Theorem spec_step : forall t v v' l, step v v' -> wfv v -> SEQ (spec t v l) (spec t v' l).
Proof.
  induction t using ty_ind'; intros v v' l Hst Hw; pose proof (step_veq _ _ Hst) as Hveq; cbn [spec].
  - (* () *) inversion Hst; subst; cbn; apply SEQ_kind; exact Hveq.
  - inversion Hst; subst; cbn; apply SEQ_kind; exact Hveq.
  - inversion Hst; subst; cbn; apply SEQ_kind; exact Hveq.
  - inversion Hst; subst; cbn; apply SEQ_kind; exact Hveq.
  - inversion Hst; subst; cbn; apply SEQ_kind; exact Hveq.
  - inversion Hst; subst; cbn; apply SEQ_kind; exact Hveq.
  - inversion Hst; subst; cbn; apply SEQ_kind; exact Hveq.
  - apply SEQ_refl.
  - (* serde_json::Value *)
    inversion Hst as [ms ms' HP|ms ms' HF|vs vs' HF]; subst.
    + apply s_json_map_perm; [exact HP|]. apply wfv_map_keys in Hw. apply Hw.
    + rewrite !s_json_map_unfold.
      assert (Hk : map fst ms = map fst ms').
      { clear - HF. induction HF as [|a b la lb [Hk _] _ IH]; [reflexivity|]. cbn. rewrite Hk, IH. reflexivity. }
      rewrite <- Hk. apply SEQ_collect. clear - HF.
      induction HF as [|[k x] [k' x'] la lb [Hk [_ Hs]] _ IH]; [constructor|]. cbn [fst snd] in *. subst k'.
      cbn [map fst snd]. constructor; [apply (Hs TJson)|exact IH].
    + rewrite !s_json_seq_unfold. apply SEQ_collect. apply indexed_children.
      eapply Forall2_impl; [|exact HF]. intros a b [_ Hs] l'. apply (Hs TJson).
  - (* Vec *)
    inversion Hst as [ms ms' HP|ms ms' HF|vs vs' HF]; subst; try (apply SEQ_kind; exact Hveq).
    apply s_seq_congr. apply P_children. exact HF.
  - (* [T; N] *)
    inversion Hst as [ms ms' HP|ms ms' HF|vs vs' HF]; subst; try (apply SEQ_kind; exact Hveq).
    rewrite <- (Forall2_length _ _ _ HF). destruct (N.eqb (N.of_nat (List.length vs)) n).
    + apply s_seq_congr. apply P_children. exact HF.
    + apply SEQ_fault_len. exact Hveq.
  - (* 2-tuples *)
    inversion Hst as [ms ms' HP|ms ms' HF|vs vs' HF]; subst; try (apply SEQ_kind; exact Hveq).
    inversion HF as [|x x' r r' Hx HF1]; subst; [apply SEQ_fault_len; exact Hveq|].
    inversion HF1 as [|y y' r2 r2' Hy HF2]; subst; [apply SEQ_fault_len; exact Hveq|].
    inversion HF2; subst; [|apply SEQ_fault_len; exact Hveq].
    apply SEQ_collect. constructor; [apply Hx|constructor; [apply Hy|constructor]].
  - (* 3-tuples *)
    inversion Hst as [ms ms' HP|ms ms' HF|vs vs' HF]; subst; try (apply SEQ_kind; exact Hveq).
    inversion HF as [|x x' r r' Hx HF1]; subst; [apply SEQ_fault_len; exact Hveq|].
    inversion HF1 as [|y y' r2 r2' Hy HF2]; subst; [apply SEQ_fault_len; exact Hveq|].
    inversion HF2 as [|z z' r3 r3' Hz HF3]; subst; [apply SEQ_fault_len; exact Hveq|].
    inversion HF3; subst; [|apply SEQ_fault_len; exact Hveq].
    apply SEQ_collect. constructor; [apply Hx|constructor; [apply Hy|constructor; [apply Hz|constructor]]].
  - (* HashSet *)
    inversion Hst as [ms ms' HP|ms ms' HF|vs vs' HF]; subst; try (apply SEQ_kind; exact Hveq).
    apply s_seq_congr. apply P_children. exact HF.
  - (* BTreeSet *)
    inversion Hst as [ms ms' HP|ms ms' HF|vs vs' HF]; subst; try (apply SEQ_kind; exact Hveq).
    apply s_seq_congr. apply P_children. exact HF.
  - (* maps *)
    inversion Hst as [ms ms' HP|ms ms' HF|vs vs' HF]; subst; try (apply SEQ_kind; exact Hveq).
    + apply s_map_perm; [exact HP|apply wfv_map_keys; exact Hw].
    + apply s_map_pointwise; [|apply wfv_map_keys; exact Hw].
      eapply Forall2_impl; [|exact HF]. intros a b [Hk [_ Hs]]. split; [exact Hk|apply Hs].
  - (* Option *)
    destruct (step_not_null _ _ Hst) as [Hn Hn'].
    destruct v; try contradiction; destruct v'; try contradiction; try (inversion Hst; fail);
      apply SEQ_option; apply IHt; assumption.
  - (* Box *) apply IHt; assumption.
  - (* comma-separated *) inversion Hst; subst; apply SEQ_kind; exact Hveq.
  - (* structs *)
    apply SEQ_validate.
    inversion Hst as [ms ms' HP|ms ms' HF|vs vs' HF]; subst; try (apply SEQ_kind; exact Hveq);
      apply (s_fields_step (cs_fields s)); [exact Hst|apply wfv_map_keys in Hw; apply Hw|exact Hst|apply wfv_map_keys in Hw; apply Hw].
  - (* internally tagged enums *)
    apply SEQ_validate. apply (s_tagged_step tag vs v v' l Hst Hw).
  - (* unit enums *)
    apply SEQ_validate. inversion Hst; subst; apply SEQ_kind; exact Hveq.
  - (* from *) apply SEQ_from. apply IHt; assumption.
  - (* try_from *) apply SEQ_try_from. apply IHt; assumption.
Qed.

(** the specification is insensitive to the order of object members at any depth *)
Theorem spec_order_insensitive : forall v v', veq v v' -> wfv v -> forall t l, SEQ (spec t v l) (spec t v' l).
Proof.
  intros v v' H. cut (wfv v -> P v v'); [intros HP Hw; apply HP; exact Hw|].
  induction H as [v|a b c H1 IH1 H2 IH2|ms ms' HP|pre k v v' post H IH|pre v v' post H IH]; intros Hw.
  - apply P_refl.
  - destruct (IH1 Hw) as [V1 S1]. destruct (IH2 (veq_wfv _ _ H1 Hw)) as [V2 S2].
    split; [eapply veq_trans; eassumption|]. intros t l. eapply SEQ_trans; [apply S1|apply S2].
  - split; [apply veq_perm; exact HP|]. intros t l. apply spec_step; [apply st_perm; exact HP|exact Hw].
  - assert (Hv : wfv v).
    { apply wfv_map in Hw. destruct Hw as [_ Hf]. rewrite Forall_forall in Hf. apply (Hf (k, v)). apply in_or_app. right. left. reflexivity. }
    split; [apply veq_member; exact H|]. intros t l. apply spec_step; [|exact Hw]. apply st_members.
    apply Forall2_app; [apply Forall2_refl; intros x; split; [reflexivity|apply P_refl]|].
    constructor; [split; [reflexivity|apply IH; exact Hv]|apply Forall2_refl; intros x; split; [reflexivity|apply P_refl]].
  - assert (Hv : wfv v).
    { apply wfv_seq in Hw. rewrite Forall_forall in Hw. apply Hw. apply in_or_app. right. left. reflexivity. }
    split; [apply veq_elem; exact H|]. intros t l. apply spec_step; [|exact Hw]. apply st_elems.
    apply Forall2_app; [apply Forall2_refl; exact P_refl|].
    constructor; [apply IH; exact Hv|apply Forall2_refl; exact P_refl].
Qed.

(** ... and so is the interpreter under a keep-going error type: the same value, or the same
    reports up to order *)
Theorem deserialize_order_insensitive : forall t v v',
  veq v v' -> wfv v ->
  let (r, tr) := run (fun _ => true) (deserialize t v) [] in
  let (r', tr') := run (fun _ => true) (deserialize t v') [] in
  match r, r' with
  | ROk o, ROk o' => o = o'
  | RErr _, RErr _ => True
  | _, _ => False
  end
  /\ PM feq (trace_faults tr) (trace_faults tr')
  /\ Permutation (trace_ucalls tr) (trace_ucalls tr').
Proof.
  intros t v v' Hveq Hw.
  destruct (deser_refines_spec t 0%N v Origin []) as (r & ext & Hrun & Hf & Hu & Hm).
  destruct (deser_refines_spec t 0%N v' Origin []) as (r' & ext' & Hrun' & Hf' & Hu' & Hm').
  unfold deserialize. rewrite Hrun, Hrun'. cbn [app].
  destruct (spec_order_insensitive v v' Hveq Hw t Origin) as (O & F & U).
  rewrite Hf, Hf', Hu, Hu'. split; [|split; assumption].
  destruct r as [o|e|site]; [| |destruct Hm]; destruct r' as [o'|e'|site']; try (destruct Hm'; fail); cbn [res_matches] in *.
  - destruct Hm as [Ho _], Hm' as [Ho' _]. congruence.
  - destruct Hm as [Ho _], Hm' as [Ho' _]. congruence.
  - destruct Hm as [Ho _], Hm' as [Ho' _]. congruence.
  - exact I.
Qed.
