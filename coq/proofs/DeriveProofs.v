(** The front end of the derive: the vectors of NamedFieldsInfo are paired position by position
    with the non-skipped fields in declaration order (C07). *)
From Deserr Require Import Base Pointer Kinds Value Scalars Types Derive.

Lemma dall_forall2 {A B} (g : A -> dres B) (l : list A) (r : list B) :
  dall (map g l) = Accept r -> Forall2 (fun x y => g x = Accept y) l r.
Proof.
  revert r. induction l as [|x l IH]; intros r H; cbn [map dall] in H.
  - inversion H. constructor.
  - destruct (g x) as [y| |] eqn:Ex; cbn [dbind] in H; try discriminate.
    destruct (dall (map g l)) as [ys| |] eqn:El; cbn [dbind] in H; try discriminate.
    inversion H; subst. constructor; [exact Ex|]. apply IH. reflexivity.
Qed.

Lemma filter_idem {A} (f : A -> bool) l : filter f (filter f l) = filter f l.
Proof.
  induction l as [|x l IH]; [reflexivity|]. cbn [filter]. destruct (f x) eqn:E; [|exact IH].
  cbn [filter]. rewrite E, IH. reflexivity.
Qed.

Lemma filter_neg_none {A} (f : A -> bool) l : filter (fun x => negb (f x)) (filter f l) = [].
Proof.
  induction l as [|x l IH]; [reflexivity|]. cbn [filter]. destruct (f x) eqn:E; [|exact IH].
  cbn [filter]. rewrite E. cbn [negb]. exact IH.
Qed.

(** the non-skipped entries of the stably sorted list are the non-skipped entries, in the
    original (declaration) order, and they come first *)
Lemma sorted_shape {A} (sk : A -> bool) (l : list A) :
  stable_sort_skipped sk l = filter (fun x => negb (sk x)) l ++ filter sk l
  /\ filter (fun x => negb (sk x)) (stable_sort_skipped sk l) = filter (fun x => negb (sk x)) l.
Proof.
  split; [reflexivity|]. unfold stable_sort_skipped. rewrite filter_app.
  rewrite filter_idem. rewrite filter_neg_none. apply app_nil_r.
Qed.

Lemma zip_fields_nil_keys names tys errs froms defs maps missing :
  zip_fields names [] tys errs froms defs maps missing = [].
Proof. destruct names; reflexivity. Qed.

Section Pairing.
  Variable ra : option rename_all.
  Notation entry := (field tpos * fattrs tpos)%type.

  (** what the compiled field built from one (field, merged attributes) entry must be *)
  Definition field_of (x : entry) (cf : cfield ty) : Prop :=
    cf_name cf = fd_ident (fst x)
    /\ cf_key cf = key_name_for_ident (fd_ident (fst x)) ra (fa_rename (snd x))
    /\ field_ty (snd x) (fd_ty (fst x)) = Accept (cf_ty cf)
    /\ cf_alg cf = fa_error (snd x)
    /\ cf_from cf = field_from (snd x)
    /\ field_default (snd x) (fd_ty (fst x)) = Accept (cf_default cf)
    /\ cf_map cf = fa_map (snd x)
    /\ cf_missing cf = fa_missing (snd x).

  Lemma zip_fields_pairing (kept rest : list entry) :
    forall tys_k tys_r defs_k defs_r,
      Forall2 (fun x t => field_ty (snd x) (fd_ty (fst x)) = Accept t) kept tys_k ->
      Forall2 (fun x d => field_default (snd x) (fd_ty (fst x)) = Accept d) kept defs_k ->
      Forall2 field_of kept
              (zip_fields (map (fun x => fd_ident (fst x)) (kept ++ rest))
                          (map (fun x => key_name_for_ident (fd_ident (fst x)) ra (fa_rename (snd x))) kept)
                          (tys_k ++ tys_r)
                          (map (fun x => fa_error (snd x)) kept)
                          (map (fun x => field_from (snd x)) kept)
                          (defs_k ++ defs_r)
                          (map (fun x => fa_map (snd x)) (kept ++ rest))
                          (map (fun x => fa_missing (snd x)) kept)).
  Proof.
    induction kept as [|x kept IH]; intros tys_k tys_r defs_k defs_r Ht Hd.
    - inversion Ht; subst. inversion Hd; subst. cbn [map app]. rewrite zip_fields_nil_keys. constructor.
    - inversion Ht as [|? t ? tk Hx Htk]; subst. inversion Hd as [|? d ? dk Hdx Hdk]; subst.
      cbn [app map zip_fields]. constructor.
      + unfold field_of. cbn. repeat split; assumption.
      + apply IH; assumption.
  Qed.
End Pairing.

Lemma Forall2_app_inv_l' {A B} (R : A -> B -> Prop) l1 l2 r :
  Forall2 R (l1 ++ l2) r -> exists r1 r2, r = r1 ++ r2 /\ Forall2 R l1 r1 /\ Forall2 R l2 r2.
Proof.
  revert r. induction l1 as [|x l1 IH]; intros r H; cbn [app] in H.
  - exists [], r. repeat split; [constructor|exact H].
  - inversion H as [|? y ? r' Hxy Hrest]; subst. destruct (IH _ Hrest) as (r1 & r2 & -> & H1 & H2).
    exists (y :: r1), r2. repeat split; [constructor; assumption|exact H2].
Qed.

(** reading the attributes of every field *)
Definition read_all (fs : list (field tpos)) : dres (list (field tpos * fattrs tpos)) :=
  dall (map (fun f => match read_fattrs (fd_attrs f) with
                      | Some fa => Accept (f, fa)
                      | None => Reject
                      end) fs).

Lemma read_all_shape fs extra :
  read_all fs = Accept extra ->
  Forall2 (fun f x => fst x = f /\ read_fattrs (fd_attrs f) = Some (snd x)) fs extra.
Proof.
  intros H. apply dall_forall2 in H.
  induction H as [|f x fs extra Hfx Hrest IH]; constructor; [|exact IH].
  destruct (read_fattrs (fd_attrs f)) as [fa|]; [|discriminate]. inversion Hfx; subst. split; reflexivity.
Qed.

Theorem named_vectors_pairing fs ra v :
  named_vectors fs ra = Accept v ->
  exists extra,
    Forall2 (fun f x => fst x = f /\ read_fattrs (fd_attrs f) = Some (snd x)) fs extra
    /\ Forall2 (field_of ra)
               (filter (fun x => negb (fa_skipped (snd x))) extra)
               (zip_fields (v_names v) (v_keys v) (v_tys v) (v_errs v) (v_froms v) (v_defaults v)
                           (v_maps v) (v_missing v)).
Proof.
  unfold named_vectors. fold (read_all fs). intros H.
  destruct (read_all fs) as [extra| |] eqn:Er; cbn [dbind] in H; try discriminate.
  exists extra. split; [apply read_all_shape; exact Er|].
  set (sk := fun x : field tpos * fattrs tpos => fa_skipped (snd x)) in *.
  destruct (sorted_shape sk extra) as [Hs Hk].
  set (sorted := stable_sort_skipped sk extra) in *.
  destruct (dall (map (fun x => field_ty (snd x) (fd_ty (fst x))) sorted)) as [tys| |] eqn:Et;
    cbn [dbind] in H; try discriminate.
  destruct (dall (map (fun x => field_default (snd x) (fd_ty (fst x))) sorted)) as [defs| |] eqn:Ed;
    cbn [dbind] in H; try discriminate.
  inversion H; subst v; clear H. cbn [v_names v_keys v_tys v_errs v_froms v_defaults v_maps v_missing].
  apply dall_forall2 in Et. apply dall_forall2 in Ed.
  subst sorted. subst sk. cbv beta in *. rewrite Hk. rewrite Hs in Et, Ed |- *.
  destruct (Forall2_app_inv_l' _ _ _ _ Et) as (tk & tr & -> & Htk & _).
  destruct (Forall2_app_inv_l' _ _ _ _ Ed) as (dk & dr & -> & Hdk & _).
  apply zip_fields_pairing; assumption.
Qed.

(** the variant's own rename_all, never the container's, renames the fields of a variant *)
Lemma expand_variant_scope ca v cv :
  expand_variant ca v = Accept cv ->
  exists va, read_vattrs (vr_attrs v) = Some va
    /\ cv_key cv = key_name_for_ident (vr_ident v) (ca_rename_all ca) (va_rename va)
    /\ match vr_shape v with
       | VSNamed fs => exists s, cv_data cv = VDNamed s /\ named_struct fs (va_rename_all va) (ca_deny ca) = Accept s
       | VSUnit => cv_data cv = VDUnit
       | VSUnnamed => False
       end.
Proof.
  unfold expand_variant. destruct (read_vattrs (vr_attrs v)) as [va|]; [|discriminate].
  intros H. exists va. split; [reflexivity|].
  destruct (vr_shape v) as [|fs|].
  - inversion H; subst. cbn. split; reflexivity.
  - destruct (named_struct fs (va_rename_all va) (ca_deny ca)) as [s| |] eqn:E; cbn [dbind] in H; try discriminate.
    inversion H; subst. cbn. split; [reflexivity|]. exists s. split; reflexivity.
  - discriminate.
Qed.

(** C09: the accepted-keys list the derive builds (for UnknownKey reports and for the user's
    deny function) is exactly the effective keys of the non-skipped fields in DECLARATION order,
    whatever the number of fields and wherever the skipped ones are (the sort that moves skipped
    fields last is stable) *)
Theorem named_vectors_keys fs ra v :
  named_vectors fs ra = Accept v ->
  exists extra,
    Forall2 (fun f x => fst x = f /\ read_fattrs (fd_attrs f) = Some (snd x)) fs extra
    /\ v_keys v = map (fun x => key_name_for_ident (fd_ident (fst x)) ra (fa_rename (snd x)))
                      (filter (fun x => negb (fa_skipped (snd x))) extra).
Proof.
  unfold named_vectors. fold (read_all fs). intros H.
  destruct (read_all fs) as [extra| |] eqn:Er; cbn [dbind] in H; try discriminate.
  exists extra. split; [apply read_all_shape; exact Er|].
  set (sk := fun x : field tpos * fattrs tpos => fa_skipped (snd x)) in *.
  destruct (sorted_shape sk extra) as [Hs Hk].
  set (sorted := stable_sort_skipped sk extra) in *.
  destruct (dall (map (fun x => field_ty (snd x) (fd_ty (fst x))) sorted)) as [tys| |] eqn:Et;
    cbn [dbind] in H; try discriminate.
  destruct (dall (map (fun x => field_default (snd x) (fd_ty (fst x))) sorted)) as [defs| |] eqn:Ed;
    cbn [dbind] in H; try discriminate.
  inversion H; subst v; clear H. cbn [v_keys].
  subst sorted. subst sk. cbv beta in *. rewrite Hk. reflexivity.
Qed.

(** on ASCII identifiers the UTF-8 aware [lowercase] is the byte-wise ASCII lowercasing *)
Fixpoint ascii_only (s : string) : bool :=
  match s with EmptyString => true | String c r => (N_of_ascii c <? 128)%N && ascii_only r end.

Lemma lower2_ascii n1 n2 : (n1 < 128)%N -> lower2 n1 n2 = None.
Proof.
  intros H. unfold lower2.
  replace (n1 =? 195)%N with false by (symmetry; apply N.eqb_neq; lia).
  replace (n1 =? 206)%N with false by (symmetry; apply N.eqb_neq; lia).
  replace (n1 =? 208)%N with false by (symmetry; apply N.eqb_neq; lia). reflexivity.
Qed.

Theorem lowercase_ascii s : ascii_only s = true -> lowercase s = str_map to_lower s.
Proof.
  induction s as [|c1 r1 IH]; intros H; [reflexivity|].
  cbn [ascii_only] in H. apply Bool.andb_true_iff in H. destruct H as [Hc Hr]. apply N.ltb_lt in Hc.
  cbn [lowercase str_map]. destruct r1 as [|c2 r2]; [reflexivity|].
  rewrite (lower2_ascii _ _ Hc). f_equal. apply IH. exact Hr.
Qed.
