(** What the final error holds: along any run of a linearly-typed call tree, the reports found
    under the live error values are exactly the reports made so far. With [deser_lin] this gives,
    for every script: the error returned by [deserialize] holds each report made during the run
    exactly once. *)
From Coq Require Import Permutation.
From Deserr Require Import Base Pointer Kinds Value Prog Utf8 Scalars Types Deser Spec Monitors.
From Deserr.proofs Require Import ProgProofs LinProofs TyInd DeserLin.
Local Open Scope list_scope.

(** every call refers only to earlier calls *)
Definition wf_refs (tr : list call) : Prop :=
  forall n c, nth_opt tr n = Some c -> forall u, In u (call_uses c) -> (N.to_nat u < n)%nat.

Lemma nth_opt_app_l {A} (l1 l2 : list A) n : (n < List.length l1)%nat -> nth_opt (l1 ++ l2) n = nth_opt l1 n.
Proof.
  revert n. induction l1 as [|x l1 IH]; intros n H; [cbn in H; lia|].
  destruct n; [reflexivity|]. cbn [app nth_opt]. apply IH. cbn in H. lia.
Qed.
Lemma nth_opt_app_exact {A} (pre : list A) x r : nth_opt (pre ++ x :: r) (List.length pre) = Some x.
Proof. induction pre; [reflexivity|exact IHpre]. Qed.
Lemma nth_opt_lt {A} (l : list A) n x : nth_opt l n = Some x -> (n < List.length l)%nat.
Proof.
  revert n. induction l as [|y l IH]; intros n H; [destruct n; discriminate|].
  destruct n; cbn [nth_opt List.length] in *; [lia|]. apply IH in H. lia.
Qed.

Lemma trace_faults_own tr : trace_faults tr = flat_map own_report tr.
Proof. reflexivity. Qed.

(** one unfolding, as a permutation over the uses *)
Lemma ru_step tr f id c :
  nth_opt tr (N.to_nat id) = Some c ->
  Permutation (reports_under tr (S f) id) (own_report c ++ flat_map (reports_under tr f) (call_uses c)).
Proof.
  intros Hn. cbn [reports_under]. rewrite Hn. destruct c as [a s k l|a s oalg o l|a s u l|fn args]; cbn [own_report call_uses app].
  - destruct s; cbn [flat_map]; rewrite ?app_nil_r; reflexivity.
  - rewrite flat_map_app. cbn [flat_map]. rewrite app_nil_r. destruct s; cbn [flat_map]; rewrite ?app_nil_r; [apply Permutation_app_comm|reflexivity].
  - destruct s; cbn [flat_map]; rewrite ?app_nil_r; reflexivity.
  - reflexivity.
Qed.

(** enough fuel is enough *)
Lemma ru_fuel tr : wf_refs tr ->
  forall b id, (N.to_nat id < b)%nat ->
  forall f1 f2, (N.to_nat id < f1)%nat -> (N.to_nat id < f2)%nat -> reports_under tr f1 id = reports_under tr f2 id.
Proof.
  intros Hwf. induction b as [|b IH]; intros id Hb f1 f2 H1 H2; [lia|].
  destruct f1 as [|f1]; [lia|]. destruct f2 as [|f2]; [lia|]. cbn [reports_under].
  destruct (nth_opt tr (N.to_nat id)) as [c|] eqn:En; [|reflexivity].
  assert (Hu : forall u, In u (call_uses c) -> reports_under tr f1 u = reports_under tr f2 u).
  { intros u Hin. pose proof (Hwf _ _ En u Hin) as Hlt. apply IH; lia. }
  destruct c as [a s k l|a s oalg o l|a s u l|fn args]; cbn [call_uses] in Hu.
  - destruct s as [x|]; [rewrite (Hu x (or_introl eq_refl))|]; reflexivity.
  - rewrite (Hu o) by (apply in_or_app; right; left; reflexivity).
    destruct s as [x|]; [rewrite (Hu x) by (left; reflexivity)|]; reflexivity.
  - destruct s as [x|]; [rewrite (Hu x (or_introl eq_refl))|]; reflexivity.
  - reflexivity.
Qed.

(** later calls do not change what an earlier error holds *)
Lemma ru_extend s ext : wf_refs s ->
  forall f id, (N.to_nat id < List.length s)%nat -> reports_under (s ++ ext) f id = reports_under s f id.
Proof.
  intros Hwf. induction f as [|f IH]; intros id Hid; [reflexivity|]. cbn [reports_under].
  rewrite nth_opt_app_l by exact Hid.
  destruct (nth_opt s (N.to_nat id)) as [c|] eqn:En; [|reflexivity].
  assert (Hu : forall u, In u (call_uses c) -> reports_under (s ++ ext) f u = reports_under s f u).
  { intros u Hin. pose proof (Hwf _ _ En u Hin) as Hlt. apply IH. lia. }
  destruct c as [a s0 k l|a s0 oalg o l|a s0 u l|fn args]; cbn [call_uses] in Hu.
  - destruct s0 as [x|]; [rewrite (Hu x (or_introl eq_refl))|]; reflexivity.
  - rewrite (Hu o) by (apply in_or_app; right; left; reflexivity).
    destruct s0 as [x|]; [rewrite (Hu x) by (left; reflexivity)|]; reflexivity.
  - destruct s0 as [x|]; [rewrite (Hu x (or_introl eq_refl))|]; reflexivity.
  - reflexivity.
Qed.

Definition held_reports (s : list call) (id : N) : list fault := reports_under s (List.length s) id.

Lemma flat_map_ext_in {A B} (f g : A -> list B) l : (forall x, In x l -> f x = g x) -> flat_map f l = flat_map g l.
Proof.
  induction l as [|x l IH]; intros H; [reflexivity|]. cbn [flat_map]. rewrite (H x (or_introl eq_refl)), IH; [reflexivity|].
  intros y Hy. apply H. right. exact Hy.
Qed.

Lemma Permutation_flat_map' {A B} (f : A -> list B) l1 l2 : Permutation l1 l2 -> Permutation (flat_map f l1) (flat_map f l2).
Proof.
  induction 1; cbn [flat_map]; [constructor|apply Permutation_app_head; assumption| |eapply Permutation_trans; eassumption].
  rewrite !app_assoc. apply Permutation_app_tail. apply Permutation_app_comm.
Qed.

Theorem lin_reports {X} (held : X -> option (list N)) L (p : prog X) :
  Lin held L p ->
  forall script s B,
    wf_refs s -> (forall i, In i L -> (N.to_nat i < List.length s)%nat) -> NoDup L ->
    Permutation (flat_map (held_reports s) L) B ->
    forall h, held (fst (run script p s)) = Some h ->
    exists ext, snd (run script p s) = s ++ ext
                /\ wf_refs (s ++ ext)
                /\ Permutation (flat_map (held_reports (s ++ ext)) h) (B ++ trace_faults ext).
Proof.
  induction 1 as [L x Hx | L L' c k HL Hk IH]; intros script s B Hwf Hb Hnd HB h Hh; cbn [run fst snd] in *.
  - unfold holds in Hx. rewrite Hh in Hx. exists []. rewrite !app_nil_r. split; [reflexivity|]. split; [exact Hwf|].
    eapply Permutation_trans; [apply Permutation_flat_map'; exact Hx|exact HB].
  - set (i := N.of_nat (List.length s)).
    assert (Hfresh : ~ In i L) by (intros Hin; apply Hb in Hin; unfold i in Hin; lia).
    set (Lnew := if creates c then i :: L' else L').
    assert (HL'sub : forall j, In j L' -> In j L).
    { intros j Hj. eapply Permutation_in; [apply Permutation_sym; exact HL|]. apply in_or_app. right. exact Hj. }
    assert (Huses : forall j, In j (call_uses c) -> In j L).
    { intros j Hj. eapply Permutation_in; [apply Permutation_sym; exact HL|]. apply in_or_app. left. exact Hj. }
    assert (HndL' : NoDup L').
    { apply Permutation_NoDup in HL; [|exact Hnd]. apply NoDup_app_r in HL. exact HL. }
    assert (Hb' : forall j, In j Lnew -> (N.to_nat j < List.length (s ++ [c]))%nat).
    { intros j Hj. rewrite app_length. cbn [List.length]. unfold Lnew in Hj.
      destruct (creates c).
      - destruct Hj as [<-|Hj]; [unfold i; lia|]. apply HL'sub, Hb in Hj. lia.
      - apply HL'sub, Hb in Hj. lia. }
    assert (Hnd' : NoDup Lnew).
    { unfold Lnew. destruct (creates c); [|exact HndL']. constructor; [|exact HndL'].
      intros Hin. apply Hfresh. apply HL'sub. exact Hin. }
    assert (Hwf' : wf_refs (s ++ [c])).
    { intros n c0 Hn u Hu. destruct (Nat.lt_ge_cases n (List.length s)) as [Hlt|Hge].
      - rewrite nth_opt_app_l in Hn by exact Hlt. eapply Hwf; eassumption.
      - pose proof (nth_opt_lt _ _ _ Hn) as Hlt. rewrite app_length in Hlt. cbn [List.length] in Hlt.
        assert (n = List.length s) by lia. subst n. rewrite nth_opt_app_exact in Hn. inversion Hn; subst c0.
        apply Huses, Hb in Hu. exact Hu. }
    assert (Hold : forall j, (N.to_nat j < List.length s)%nat -> held_reports (s ++ [c]) j = held_reports s j).
    { intros j Hj. unfold held_reports. rewrite ru_extend by assumption.
      apply (ru_fuel s Hwf (S (N.to_nat j))); [lia| |exact Hj]. rewrite app_length. lia. }
    assert (HB' : Permutation (flat_map (held_reports (s ++ [c])) Lnew) (B ++ own_report c)).
    { assert (HL'eq : flat_map (held_reports (s ++ [c])) L' = flat_map (held_reports s) L').
      { apply flat_map_ext_in. intros j Hj. apply Hold. apply Hb. apply HL'sub. exact Hj. }
      unfold Lnew. destruct (creates c) eqn:Ec.
      - cbn [flat_map]. rewrite HL'eq.
        assert (Hi : Permutation (held_reports (s ++ [c]) i) (own_report c ++ flat_map (held_reports s) (call_uses c))).
        { unfold held_reports at 1. rewrite app_length. cbn [List.length]. rewrite Nat.add_1_r.
          eapply Permutation_trans; [apply ru_step; unfold i; rewrite Nat2N.id; apply nth_opt_app_exact|].
          apply Permutation_app_head. erewrite flat_map_ext_in; [reflexivity|].
          intros u Hu. rewrite ru_extend; [reflexivity|exact Hwf|]. apply Hb. apply Huses. exact Hu. }
        eapply Permutation_trans; [apply Permutation_app_tail; exact Hi|].
        rewrite <- app_assoc, <- flat_map_app.
        eapply Permutation_trans; [|apply Permutation_app_comm]. apply Permutation_app_head.
        eapply Permutation_trans; [apply Permutation_flat_map'; apply Permutation_sym; exact HL|exact HB].
      - rewrite HL'eq. destruct c; cbn in Ec; try discriminate. cbn [own_report call_uses app] in *. rewrite app_nil_r.
        eapply Permutation_trans; [apply Permutation_flat_map'; apply Permutation_sym; exact HL|exact HB]. }
    destruct (IH i (script i) Hfresh script (s ++ [c]) (B ++ own_report c) Hwf' Hb' Hnd' HB' h Hh) as (ext & Heq & Hwf2 & Hperm).
    exists (c :: ext). rewrite Heq, <- !app_assoc in *. cbn [app] in *. split; [reflexivity|]. split; [exact Hwf2|].
    rewrite trace_faults_own in *. cbn [flat_map]. exact Hperm.
Qed.

(** the error returned by [deserialize] holds exactly the reports made during the run, each once:
    for every type, payload and script of Continue/Break answers *)
Theorem final_error_holds_all_reports : forall t v script e tr,
  run script (deserialize t v) [] = (RErr e, tr) ->
  Permutation (reports_under tr (List.length tr) e) (trace_faults tr).
Proof.
  intros t v script e tr Hrun.
  destruct (lin_reports held_res [] (deserialize t v) (deser_lin t 0%N v Origin) script [] [])
    with (h := [e]) as (ext & Heq & _ & Hperm).
  - intros n c Hn. destruct n; discriminate.
  - intros i [].
  - constructor.
  - reflexivity.
  - rewrite Hrun. reflexivity.
  - rewrite Hrun in Heq. cbn [snd app] in Heq. subst tr. cbn [flat_map app] in Hperm. rewrite app_nil_r in Hperm.
    exact Hperm.
Qed.
