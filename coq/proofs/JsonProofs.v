From Coq Require Import OrderedTypeEx.
From Deserr Require Import Base Pointer Kinds Value Prog Deser Json.
From Deserr.proofs Require Import ProgProofs.

Lemma str_lt_trans a b c :
  String.compare a b = Lt -> String.compare b c = Lt -> String.compare a c = Lt.
Proof.
  intros H1 H2. apply String_as_OT.cmp_lt.
  apply String_as_OT.lt_trans with b; apply String_as_OT.cmp_lt; assumption.
Qed.

Lemma str_gt_of_lt a b : String.compare a b = Lt -> String.compare b a = Gt.
Proof. intros H. rewrite String.compare_antisym, H. reflexivity. Qed.

(** induction principle for the nested type *)
Section JInd.
  Variable P : jvalue -> Prop.
  Hypothesis Hnull : P JNull.
  Hypothesis Hbool : forall b, P (JBool b).
  Hypothesis Hnum : forall n, P (JNumber n).
  Hypothesis Hstr : forall s, P (JString s).
  Hypothesis Harr : forall l, Forall P l -> P (JArray l).
  Hypothesis Hobj : forall l, Forall (fun kv => P (snd kv)) l -> P (JObject l).

  Fixpoint jvalue_ind' (j : jvalue) : P j :=
    match j with
    | JNull => Hnull
    | JBool b => Hbool b
    | JNumber n => Hnum n
    | JString s => Hstr s
    | JArray l =>
      Harr l ((fix go (l : list jvalue) : Forall P l :=
                 match l with
                 | [] => Forall_nil _
                 | x :: r => Forall_cons _ (jvalue_ind' x) (go r)
                 end) l)
    | JObject l =>
      Hobj l ((fix go (l : list (string * jvalue)) : Forall (fun kv => P (snd kv)) l :=
                 match l with
                 | [] => Forall_nil _
                 | (k, x) :: r => Forall_cons (k, x) (jvalue_ind' x) (go r)
                 end) l)
    end.
End JInd.

Lemma kind_agrees j : kind_json j = kind_of (into_value j).
Proof. destruct j as [| b | [n | z | f] | s | l | l]; reflexivity. Qed.

(** all keys of [acc] are smaller than [k] *)
Definition all_lt {A} (acc : list (string * A)) (k : string) : Prop :=
  forall k' v', In (k', v') acc -> String.compare k' k = Lt.

Lemma jobj_insert_last k v acc :
  all_lt acc k -> jobj_insert k v acc = acc ++ [(k, v)].
Proof.
  induction acc as [|[k' v'] acc IH]; intros H; [reflexivity|].
  cbn [jobj_insert]. rewrite (str_gt_of_lt k' k) by (apply (H k' v'); left; reflexivity).
  cbn [app]. f_equal. apply IH. intros k2 v2 Hin. apply (H k2 v2). right; exact Hin.
Qed.

Lemma jmap_insert_last k v acc :
  all_lt acc k -> jmap_insert k v acc = acc ++ [(k, v)].
Proof.
  induction acc as [|[k' v'] acc IH]; intros H; [reflexivity|].
  cbn [jmap_insert]. rewrite (str_gt_of_lt k' k) by (apply (H k' v'); left; reflexivity).
  cbn [app]. f_equal. apply IH. intros k2 v2 Hin. apply (H k2 v2). right; exact Hin.
Qed.

(** strictly sorted keys: the head is smaller than every later key *)
Lemma sorted_keys_head {A} k (v : A) l :
  sorted_keys ((k, v) :: l) = true -> (forall k' v', In (k', v') l -> String.compare k k' = Lt).
Proof.
  revert k v. induction l as [|[k1 v1] l IH]; intros k v Hs k' v' Hin; [destruct Hin|].
  cbn [sorted_keys] in Hs. destruct (String.compare k k1) eqn:E; try discriminate.
  destruct Hin as [Heq|Hin].
  - inversion Heq; subst. exact E.
  - apply str_lt_trans with k1; [exact E|]. apply (IH k1 v1 Hs k' v' Hin).
Qed.

Lemma sorted_keys_tail {A} (kv : string * A) l : sorted_keys (kv :: l) = true -> sorted_keys l = true.
Proof.
  destruct kv as [k v]. destruct l as [|[k1 v1] l]; [reflexivity|].
  cbn [sorted_keys]. destruct (String.compare k k1); try discriminate. auto.
Qed.

(** *** From<Value> round trip *)
Lemma from_obj_go (l : list (string * jvalue)) :
  forall acc,
    sorted_keys l = true ->
    (forall k v, In (k, v) l -> all_lt acc k) ->
    Forall (fun kv => from_value (into_value (snd kv)) = snd kv) l ->
    (fix go (ms : list (string * value)) (acc : list (string * jvalue)) :=
       match ms with
       | [] => acc
       | (k, x) :: r => go r (jobj_insert k (from_value x) acc)
       end) (map (fun kv => (fst kv, into_value (snd kv))) l) acc = acc ++ l.
Proof.
  induction l as [|[k v] l IH]; intros acc Hs Hlt Hall.
  - cbn. rewrite app_nil_r. reflexivity.
  - cbn [map fst snd]. inversion Hall as [|? ? Hv Hall']; subst. cbn [snd] in Hv.
    rewrite Hv. rewrite jobj_insert_last by (apply (Hlt k v); left; reflexivity).
    rewrite IH.
    + rewrite <- app_assoc. reflexivity.
    + eapply sorted_keys_tail; exact Hs.
    + intros k2 v2 Hin k' v' Hin'. apply in_app_or in Hin'. destruct Hin' as [Hin'|[Heq|[]]].
      * apply (Hlt k2 v2 (or_intror Hin) k' v' Hin').
      * inversion Heq; subst. apply (sorted_keys_head _ _ _ Hs k2 v2 Hin).
    + exact Hall'.
Qed.

Lemma jnum_roundtrip n :
  wf_json (JNumber n) = true -> from_value (num_into_value n) = JNumber n.
Proof.
  destruct n as [x | z | f]; cbn.
  - reflexivity.
  - rewrite Bool.andb_true_iff. intros [_ H]. unfold jnum_of_neg. rewrite H. reflexivity.
  - rewrite Bool.andb_true_iff. intros [_ H]. rewrite H. reflexivity.
Qed.

Lemma from_roundtrip j : wf_json j = true -> from_value (into_value j) = j.
Proof.
  induction j as [| b | n | s | l IH | l IH] using jvalue_ind'; intros Hwf; try reflexivity.
  - apply jnum_roundtrip. exact Hwf.
  - cbn [into_value from_value]. f_equal. cbn [wf_json] in Hwf.
    induction l as [|x l IHl]; [reflexivity|]. cbn [map].
    inversion IH as [|? ? Hx Hl]; subst. cbn [forallb] in Hwf. apply Bool.andb_true_iff in Hwf.
    destruct Hwf as [Hwx Hwl]. rewrite Hx by exact Hwx. f_equal. apply IHl; assumption.
  - cbn [into_value from_value]. f_equal. cbn [wf_json] in Hwf.
    apply Bool.andb_true_iff in Hwf. destruct Hwf as [Hs Hw].
    rewrite (from_obj_go l []); [reflexivity|exact Hs|intros ? ? _ ? ? []|].
    rewrite Forall_forall in *. intros kv Hin. apply IH; [exact Hin|].
    rewrite forallb_forall in Hw. apply Hw; exact Hin.
Qed.

(** *** Deserr for JValue round trip: no call at all, from any state, under any script *)
Lemma deser_json_seq_go script a l s (vs : list jvalue) :
  Forall (fun j => forall l s, run script (deser_json a (into_value j) l) s
                               = (ROk (OJson (into_value j)), s)) vs ->
  forall idx outs_rev,
    run script
        ((fix go (vs : list value) (idx : N) (acc : option N) (outs_rev : list value) : prog res :=
            match vs with
            | [] => Ret (match acc with Some e => RErr e | None => ROk (OJson (VSeq (rev outs_rev))) end)
            | x :: vs' =>
              bind (deser_json a x (Index idx l)) (fun r =>
                match r with
                | ROk o => go vs' (N.succ idx) acc (unjson o :: outs_rev)
                | RErr e =>
                  absorb a acc a e (Index idx l)
                         (fun acc' => go vs' (N.succ idx) acc' outs_rev) (fun i => Ret (RErr i))
                | RPanic s => Ret (RPanic s)
                end)
            end) (map into_value vs) idx None outs_rev) s
    = (ROk (OJson (VSeq (rev outs_rev ++ map into_value vs))), s).
Proof.
  induction vs as [|x vs IH]; intros Hall idx outs_rev.
  - cbn. rewrite app_nil_r. reflexivity.
  - inversion Hall as [|? ? Hx Hvs]; subst. cbn [map].
    rewrite run_bind, Hx. cbn [unjson]. rewrite (IH Hvs).
    cbn [rev]. rewrite <- app_assoc. reflexivity.
Qed.

Lemma deser_json_map_go script a l s (ms : list (string * jvalue)) :
  Forall (fun kv => forall l s, run script (deser_json a (into_value (snd kv)) l) s
                                = (ROk (OJson (into_value (snd kv))), s)) ms ->
  sorted_keys ms = true ->
  forall jm,
    (forall k v, In (k, v) ms -> all_lt jm k) ->
    run script
        ((fix go (ms : list (string * value)) (acc : option N) (jm : list (string * value)) : prog res :=
            match ms with
            | [] => Ret (match acc with Some e => RErr e | None => ROk (OJson (VMap jm)) end)
            | (k, x) :: ms' =>
              bind (deser_json a x (Key k l)) (fun r =>
                match r with
                | ROk o => go ms' acc (jmap_insert k (unjson o) jm)
                | RErr e =>
                  absorb a acc a e (Key k l) (fun acc' => go ms' acc' jm) (fun i => Ret (RErr i))
                | RPanic s => Ret (RPanic s)
                end)
            end) (map (fun kv => (fst kv, into_value (snd kv))) ms) None jm) s
    = (ROk (OJson (VMap (jm ++ map (fun kv => (fst kv, into_value (snd kv))) ms))), s).
Proof.
  induction ms as [|[k v] ms IH]; intros Hall Hs jm Hlt.
  - cbn. rewrite app_nil_r. reflexivity.
  - inversion Hall as [|? ? Hv Hms]; subst. cbn [map fst snd] in *.
    rewrite run_bind, Hv. cbn [unjson].
    rewrite jmap_insert_last by (apply (Hlt k v); left; reflexivity).
    rewrite (IH Hms).
    + rewrite <- app_assoc. reflexivity.
    + eapply sorted_keys_tail; exact Hs.
    + intros k2 v2 Hin k' v' Hin'. apply in_app_or in Hin'. destruct Hin' as [Hin'|[Heq|[]]].
      * apply (Hlt k2 v2 (or_intror Hin) k' v' Hin').
      * inversion Heq; subst. apply (sorted_keys_head _ _ _ Hs k2 v2 Hin).
Qed.

Lemma deser_json_roundtrip script a j :
  wf_json j = true ->
  forall l s, run script (deser_json a (into_value j) l) s = (ROk (OJson (into_value j)), s).
Proof.
  induction j as [| b | n | str | vs IH | ms IH] using jvalue_ind'; intros Hwf l s; try reflexivity.
  - destruct n as [x | z | f]; cbn [into_value num_into_value deser_json]; cbn [wf_json] in Hwf.
    + reflexivity.
    + apply Bool.andb_true_iff in Hwf. destruct Hwf as [_ H]. rewrite H. reflexivity.
    + apply Bool.andb_true_iff in Hwf. destruct Hwf as [_ H]. rewrite H. reflexivity.
  - cbn [into_value deser_json]. cbn [wf_json] in Hwf.
    rewrite (deser_json_seq_go script a l s vs); [reflexivity|].
    rewrite Forall_forall in *. intros j Hin. apply IH; [exact Hin|].
    rewrite forallb_forall in Hwf. apply Hwf; exact Hin.
  - cbn [into_value deser_json]. cbn [wf_json] in Hwf.
    apply Bool.andb_true_iff in Hwf. destruct Hwf as [Hs Hw].
    rewrite (deser_json_map_go script a l s ms); [reflexivity| |exact Hs|intros ? ? _ ? ? []].
    rewrite Forall_forall in *. intros kv Hin. apply IH; [exact Hin|].
    rewrite forallb_forall in Hw. apply Hw; exact Hin.
Qed.

Lemma wf_into_value j : wf_json j = true -> wf_value (into_value j) = true.
Proof.
  induction j as [| b | n | str | vs IH | ms IH] using jvalue_ind'; intros Hwf; try reflexivity.
  - destruct n as [x | z | f]; cbn [into_value num_into_value wf_value]; cbn [wf_json] in Hwf.
    + exact Hwf.
    + apply Bool.andb_true_iff in Hwf. destruct Hwf as [H1 H2]. rewrite H1. cbn [andb].
      apply Z.ltb_lt in H2. apply Z.ltb_lt.
      assert (0 < 2 ^ 63)%Z by (apply Z.pow_pos_nonneg; lia). lia.
    + apply Bool.andb_true_iff in Hwf. destruct Hwf as [H _]. exact H.
  - cbn [into_value wf_value wf_json] in *. rewrite forallb_forall in *.
    intros v Hin. apply in_map_iff in Hin. destruct Hin as [j [<- Hj]].
    rewrite Forall_forall in IH. apply IH; [exact Hj|apply Hwf; exact Hj].
  - cbn [into_value wf_value wf_json] in *. apply Bool.andb_true_iff in Hwf. destruct Hwf as [_ Hw].
    rewrite forallb_forall in *. intros kv Hin. apply in_map_iff in Hin. destruct Hin as [[k j] [<- Hj]].
    cbn [snd fst]. rewrite Forall_forall in IH. apply (IH (k, j) Hj). apply (Hw (k, j) Hj).
Qed.

Lemma classes_pos d fb : (d < 2 ^ 64)%N -> into_value (JNumber (classify_literal (LInt false d fb))) = VInt d.
Proof.
  intros H. cbn [classify_literal]. apply N.ltb_lt in H. rewrite H. reflexivity.
Qed.

Lemma classes_neg d fb : (0 < d <= 2 ^ 63)%N ->
  into_value (JNumber (classify_literal (LInt true d fb))) = VNeg (- Z.of_N d).
Proof.
  intros [H1 H2]. cbn [classify_literal]. apply N.ltb_lt in H1. apply N.leb_le in H2.
  rewrite H1, H2. reflexivity.
Qed.

Lemma classes_float l :
  match l with
  | LInt false d _ => (2 ^ 64 <= d)%N
  | LInt true d _ => d = 0%N \/ (2 ^ 63 < d)%N
  | LFloat _ => True
  end ->
  exists b, into_value (JNumber (classify_literal l)) = VFloat b.
Proof.
  destruct l as [[|] d fb | b]; cbn [classify_literal]; intros H.
  - destruct H as [->|H]; [exists fb; reflexivity|].
    destruct (N.ltb_spec 0 d); cbn [andb]; [|exists fb; reflexivity].
    destruct (N.leb_spec d (2 ^ 63)); [lia|exists fb; reflexivity].
  - destruct (N.ltb_spec d (2 ^ 64)); [lia|exists fb; reflexivity].
  - exists b; reflexivity.
Qed.
