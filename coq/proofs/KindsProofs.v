From Deserr Require Import Base Kinds.
From Coq Require Import Sorting.Sorted.

Definition klt (a b : vkind) : Prop := order a < order b.
Definition kle (a b : vkind) : Prop := order a <= order b.

Lemma order_inj a b : order a = order b -> a = b.
Proof. destruct a, b; cbn; intros H; try reflexivity; discriminate. Qed.

Lemma vkind_eqb_eq a b : vkind_eqb a b = true <-> a = b.
Proof.
  unfold vkind_eqb. rewrite Nat.eqb_eq. split; [apply order_inj|intros ->; reflexivity].
Qed.

Lemma has_In k l : has k l = true <-> In k l.
Proof.
  unfold has. rewrite existsb_exists. split.
  - intros [x [Hx He]]. apply vkind_eqb_eq in He. subst. exact Hx.
  - intros H. exists k. split; [exact H|]. apply vkind_eqb_eq. reflexivity.
Qed.

(** *** insertion sort: sorted, same members *)
Lemma eq_or_sym {A} (a b : A) (P : Prop) : (a = b \/ P) <-> (b = a \/ P).
Proof. split; intros [H|H]; [left; symmetry; exact H|right; exact H|left; symmetry; exact H|right; exact H]. Qed.

Lemma insert_In k x l : In x (insert_kind k l) <-> x = k \/ In x l.
Proof.
  induction l as [|y l IH]; cbn [insert_kind In].
  - apply eq_or_sym.
  - destruct (Nat.ltb (order k) (order y)); cbn [In].
    + apply eq_or_sym.
    + rewrite IH. tauto.
Qed.

Lemma sort_In x l : In x (sort_kinds l) <-> In x l.
Proof.
  induction l as [|y l IH]; cbn [sort_kinds In]; [tauto|]. rewrite insert_In, IH. apply eq_or_sym.
Qed.

Lemma insert_sorted k l :
  StronglySorted kle l -> StronglySorted kle (insert_kind k l).
Proof.
  induction 1 as [|y l Hs IH Hall]; cbn [insert_kind].
  - repeat constructor.
  - destruct (Nat.ltb_spec (order k) (order y)) as [Hlt|Hge].
    + constructor; [constructor; assumption|].
      constructor; [unfold kle; lia|].
      rewrite Forall_forall in *. intros z Hz. specialize (Hall z Hz). unfold kle in *. lia.
    + constructor; [exact IH|].
      rewrite Forall_forall in *. intros z Hz. apply insert_In in Hz. destruct Hz as [->|Hz].
      * unfold kle; lia.
      * apply Hall; exact Hz.
Qed.

Lemma sort_sorted l : StronglySorted kle (sort_kinds l).
Proof. induction l; cbn [sort_kinds]; [constructor|apply insert_sorted; assumption]. Qed.

(** *** dedup of a sorted list: strictly sorted, same members *)
Lemma dedup_In x l : In x (dedup_kinds l) <-> In x l.
Proof.
  induction l as [|y l IH]; [cbn; tauto|].
  cbn [dedup_kinds]. destruct l as [|z l'].
  - cbn; tauto.
  - destruct (vkind_eqb y z) eqn:E.
    + apply vkind_eqb_eq in E. subst z. rewrite IH. cbn. tauto.
    + cbn [In]. rewrite IH. cbn. tauto.
Qed.

Lemma dedup_sorted l : StronglySorted kle l -> StronglySorted klt (dedup_kinds l).
Proof.
  induction l as [|y l IH]; intros Hs; [constructor|].
  inversion Hs as [|? ? Hs' Hall]; subst.
  cbn [dedup_kinds]. destruct l as [|z l'].
  - repeat constructor.
  - destruct (vkind_eqb y z) eqn:E.
    + apply IH; exact Hs'.
    + constructor; [apply IH; exact Hs'|].
      rewrite Forall_forall in *. intros w Hw. apply (proj1 (dedup_In _ _)) in Hw.
      assert (Hyz : klt y z).
      { assert (kle y z) by (apply Hall; left; reflexivity).
        assert (order y <> order z).
        { intros Heq. apply order_inj in Heq. subst. unfold vkind_eqb in E.
          rewrite Nat.eqb_refl in E. discriminate. }
        unfold klt, kle in *. lia. }
      cbn [In] in Hw. destruct Hw as [->|Hw]; [exact Hyz|].
      inversion Hs' as [|? ? ? Hall']; subst.
      rewrite Forall_forall in Hall'. specialize (Hall' w Hw). unfold klt, kle in *. lia.
Qed.

(** *** strictly sorted lists with the same members are equal *)
Lemma strict_sorted_unique l1 : forall l2,
  StronglySorted klt l1 -> StronglySorted klt l2 ->
  (forall x, In x l1 <-> In x l2) -> l1 = l2.
Proof.
  induction l1 as [|a l1 IH]; intros l2 H1 H2 Hm.
  - destruct l2 as [|b l2]; [reflexivity|]. exfalso. apply (Hm b). left; reflexivity.
  - destruct l2 as [|b l2]; [exfalso; apply (Hm a); left; reflexivity|].
    inversion H1 as [|? ? H1' A1]; subst. inversion H2 as [|? ? H2' A2]; subst.
    rewrite Forall_forall in A1, A2.
    assert (a = b) as ->.
    { destruct (proj1 (Hm a) (or_introl eq_refl)) as [E|E]; [symmetry; exact E|].
      destruct (proj2 (Hm b) (or_introl eq_refl)) as [E'|E']; [exact E'|].
      specialize (A1 _ E'). specialize (A2 _ E). unfold klt in *. lia. }
    f_equal. apply IH; [assumption|assumption|].
    intros x. split; intros Hx.
    + destruct (proj1 (Hm x) (or_intror Hx)) as [E|E]; [|exact E].
      subst x. specialize (A1 _ Hx). unfold klt in A1. lia.
    + destruct (proj2 (Hm x) (or_intror Hx)) as [E|E]; [|exact E].
      subst x. specialize (A2 _ Hx). unfold klt in A2. lia.
Qed.

Lemma filter_sorted (f : vkind -> bool) l :
  StronglySorted klt l -> StronglySorted klt (filter f l).
Proof.
  induction 1 as [|a l Hs IH Hall]; cbn; [constructor|].
  destruct (f a); [|exact IH]. constructor; [exact IH|].
  rewrite Forall_forall in *. intros x Hx. apply filter_In in Hx. apply Hall, Hx.
Qed.

Lemma all_kinds_sorted : StronglySorted klt all_kinds.
Proof.
  unfold all_kinds. repeat (constructor; [|repeat constructor; unfold klt; cbn; lia]). constructor.
Qed.

Lemma all_kinds_complete k : In k all_kinds.
Proof. destruct k; cbn; tauto. Qed.

(** Lemma A: sort + dedup only depends on membership *)
Lemma canon_filter l : canon l = filter (fun k => has k l) all_kinds.
Proof.
  apply strict_sorted_unique.
  - apply dedup_sorted, sort_sorted.
  - apply filter_sorted, all_kinds_sorted.
  - intros x. unfold canon. rewrite dedup_In, sort_In, filter_In, has_In.
    split; [intros H; split; [apply all_kinds_complete|exact H]|tauto].
Qed.

(** *** the finite part: 256 membership tables *)
Definition mask := (bool * bool * bool * bool * bool * bool * bool * bool)%type.
Definition mask_fn (m : mask) (k : vkind) : bool :=
  let '(a, b, c, d, e, f, g, h) := m in
  match k with
  | KNull => a | KBoolean => b | KInteger => c | KNegativeInteger => d
  | KFloat => e | KString => f | KSequence => g | KMap => h
  end.
Definition tab (f : vkind -> bool) : mask :=
  (f KNull, f KBoolean, f KInteger, f KNegativeInteger, f KFloat, f KString, f KSequence, f KMap).

Definition bools := [true; false].
Definition all_masks : list mask :=
  flat_map (fun a => flat_map (fun b => flat_map (fun c => flat_map (fun d =>
  flat_map (fun e => flat_map (fun f => flat_map (fun g => map (fun h =>
    (a, b, c, d, e, f, g, h)) bools) bools) bools) bools) bools) bools) bools) bools.

Lemma in_bools b : In b bools.
Proof. destruct b; cbn; tauto. Qed.

Lemma in_all_masks m : In m all_masks.
Proof.
  destruct m as [[[[[[[a b] c] d] e] f] g] h]. unfold all_masks.
  repeat (apply in_flat_map; eexists; split; [apply in_bools|]).
  apply in_map_iff. eexists; split; [reflexivity|apply in_bools].
Qed.

Definition render (ks : list vkind) : string :=
  match ks with [] => "a different value"%string | _ => description_rec ks 0 "" end.

Local Open Scope string_scope.
Definition phrases_f (f : vkind -> bool) : list string :=
  (if f KNull then ["null"] else [])
  ++ (if f KBoolean then ["a boolean"] else [])
  ++ (if f KFloat then ["a number"]
      else if f KInteger && f KNegativeInteger then ["an integer"]
      else (if f KInteger then ["a positive integer"] else [])
           ++ (if f KNegativeInteger then ["a negative integer"] else []))
  ++ (if f KString then ["a string"] else [])
  ++ (if f KSequence then ["an array"] else [])
  ++ (if f KMap then ["an object"] else []).

Definition mask_ok (m : mask) : bool :=
  String.eqb (render (filter (mask_fn m) all_kinds)) (join_phrases (phrases_f (mask_fn m))).

Lemma all_masks_ok : forallb mask_ok all_masks = true.
Proof. vm_compute. reflexivity. Qed.

Lemma mask_fn_tab f k : mask_fn (tab f) k = f k.
Proof. destruct k; reflexivity. Qed.

Lemma render_spec_f f : render (filter f all_kinds) = join_phrases (phrases_f f).
Proof.
  pose proof (proj1 (forallb_forall _ _) all_masks_ok (tab f) (in_all_masks _)) as H.
  unfold mask_ok in H. apply String.eqb_eq in H.
  rewrite (filter_ext _ _ (mask_fn_tab f)) in H.
  unfold phrases_f in *. rewrite !mask_fn_tab in H. exact H.
Qed.

Lemma describe_render l : describe l = render (canon l).
Proof. unfold describe, render. destruct (canon l); reflexivity. Qed.

Lemma describe_spec l : describe l = spec_describe l.
Proof.
  rewrite describe_render, canon_filter, render_spec_f. reflexivity.
Qed.

Lemma has_ext l l' : (forall k, In k l <-> In k l') -> forall k, has k l = has k l'.
Proof.
  intros H k. destruct (has k l) eqn:E1, (has k l') eqn:E2; try reflexivity.
  - apply has_In, H, has_In in E1. congruence.
  - apply has_In, H, has_In in E2. congruence.
Qed.

Lemma describe_set_only l l' : (forall k, In k l <-> In k l') -> describe l = describe l'.
Proof.
  intros H. rewrite !describe_render, !canon_filter.
  rewrite (filter_ext _ _ (has_ext _ _ H)). reflexivity.
Qed.

(** every phrase of the rule names a kind of the set (or the class standing for it) *)
Lemma describe_empty l : (forall k, ~ In k l) -> describe l = "a different value"%string.
Proof.
  intros H. rewrite (describe_set_only l []); [reflexivity|].
  intros k; split; [intros Hk; exfalso; exact (H k Hk)|intros []].
Qed.
