(** The rounding primitive of Fround.v: [round_even m s] is the integer nearest to m / 2^s,
    ties going to the even one. Pure integer arithmetic (no reals). *)
From Coq Require Import ZArith NArith Bool Lia.
From Deserr Require Import Fround.
Local Open Scope N_scope.

Lemma shiftl1_pow s : N.shiftl 1 s = 2 ^ s.
Proof. rewrite N.shiftl_mul_pow2. lia. Qed.

Lemma pow_split s : 0 < s -> 2 ^ s = 2 * 2 ^ (s - 1).
Proof. intros H. rewrite <- N.pow_succ_r'. f_equal. lia. Qed.

(** q is within half a unit of m / 2^s, and on an exact tie q is even *)
Theorem round_even_nearest m s :
  0 < s ->
  let q := round_even m s in
  2 ^ s * q <= m + 2 ^ (s - 1) /\ m <= 2 ^ s * q + 2 ^ (s - 1)
  /\ (m + 2 ^ (s - 1) = 2 ^ s * q \/ m = 2 ^ s * q + 2 ^ (s - 1) -> N.even q = true).
Proof.
  intros Hs. cbv zeta. unfold round_even. replace (s =? 0) with false by (symmetry; apply N.eqb_neq; lia).
  rewrite !N.shiftl_mul_pow2, N.shiftr_div_pow2, N.mul_1_l.
  set (P := 2 ^ s). set (H := 2 ^ (s - 1)).
  assert (HP : P = 2 * H) by (unfold P, H; apply pow_split; exact Hs).
  assert (HH : 0 < H) by (unfold H; apply N.neq_0_lt_0, N.pow_nonzero; lia).
  pose proof (N.div_mod m P ltac:(lia)) as Hdm. pose proof (N.mod_lt m P ltac:(lia)) as Hlt.
  set (q := m / P) in *. set (r := m mod P) in *.
  replace (m - q * P) with r by lia.
  destruct (H <? r) eqn:E1; [apply N.ltb_lt in E1|apply N.ltb_ge in E1].
  - repeat split; lia.
  - destruct (r =? H) eqn:E2; [apply N.eqb_eq in E2|apply N.eqb_neq in E2]; cbn [andb].
    + destruct (N.odd q) eqn:Eo.
      * repeat split; try lia. intros _. rewrite N.even_add, <- N.negb_odd, Eo. reflexivity.
      * repeat split; try lia. intros _. rewrite <- N.negb_odd, Eo. reflexivity.
    + repeat split; lia.
Qed.

(** no shift: nothing is rounded *)
Lemma round_even_zero m : round_even m 0 = m.
Proof. reflexivity. Qed.
