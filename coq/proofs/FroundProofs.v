(** The rounding primitive of Fround.v: [round_even m s] is the integer nearest to m / 2^s,
    ties going to the even one. Pure integer arithmetic (no reals). *)
From Coq Require Import ZArith NArith Bool Lia.
From Deserr Require Import Fround.
Local Open Scope N_scope.

Lemma shiftl1_pow s : N.shiftl 1 s = 2 ^ s.
Proof. rewrite N.shiftl_mul_pow2. lia. Qed.

Lemma pow_split s : 0 < s -> 2 ^ s = 2 * 2 ^ (s - 1).
Proof. intros H. rewrite <- N.pow_succ_r'. f_equal. lia. Qed.

(** q is within half a unit of m / 2^s, and on an exact tie q is even *)
Theorem round_even_nearest m s :
  0 < s ->
  let q := round_even m s in
  2 ^ s * q <= m + 2 ^ (s - 1) /\ m <= 2 ^ s * q + 2 ^ (s - 1)
  /\ (m + 2 ^ (s - 1) = 2 ^ s * q \/ m = 2 ^ s * q + 2 ^ (s - 1) -> N.even q = true).
Proof.
  intros Hs. cbv zeta. unfold round_even. replace (s =? 0) with false by (symmetry; apply N.eqb_neq; lia).
  rewrite !N.shiftl_mul_pow2, N.shiftr_div_pow2, N.mul_1_l.
  set (P := 2 ^ s). set (H := 2 ^ (s - 1)).
  assert (HP : P = 2 * H) by (unfold P, H; apply pow_split; exact Hs).
  assert (HH : 0 < H) by (unfold H; apply N.neq_0_lt_0, N.pow_nonzero; lia).
  pose proof (N.div_mod m P ltac:(lia)) as Hdm. pose proof (N.mod_lt m P ltac:(lia)) as Hlt.
  set (q := m / P) in *. set (r := m mod P) in *.
  replace (m - q * P) with r by lia.
  destruct (H <? r) eqn:E1; [apply N.ltb_lt in E1|apply N.ltb_ge in E1].
  - repeat split; lia.
  - destruct (r =? H) eqn:E2; [apply N.eqb_eq in E2|apply N.eqb_neq in E2]; cbn [andb].
    + destruct (N.odd q) eqn:Eo.
      * repeat split; try lia. intros _. rewrite N.even_add, <- N.negb_odd, Eo. reflexivity.
      * repeat split; try lia. intros _. rewrite <- N.negb_odd, Eo. reflexivity.
    + repeat split; lia.
Qed.

(** no shift: nothing is rounded *)
Lemma round_even_zero m : round_even m 0 = m.
Proof. reflexivity. Qed.

(** ** integer -> f64: what the produced bit pattern denotes *)
Require Import ZifyN ZifyBool.
Ltac Zify.zify_post_hook ::= Z.div_mod_to_equations.

Definition f64_frac (b : N) : N := b mod 2 ^ 52.
Definition f64_exp (b : N) : N := (b / 2 ^ 52) mod 2 ^ 11.
Definition f64_sign (b : N) : N := b / 2 ^ 63.
(** a finite normal f64 denotes (2^52 + frac) * 2^(exp - 1075) *)

Lemma size_bounds m : 0 < m -> 2 ^ (N.size m - 1) <= m < 2 ^ N.size m.
Proof.
  intros Hm. split; [|apply N.size_gt].
  destruct m as [|p]; [lia|]. pose proof (N.size_le (N.pos p)) as H.
  assert (Hs : 0 < N.size (N.pos p)) by (cbn; lia).
  rewrite (pow_split (N.size (N.pos p)) Hs) in H. lia.
Qed.

Lemma pow_add_sub a b : b <= a -> 2 ^ a = 2 ^ (a - b) * 2 ^ b.
Proof. intros H. rewrite <- N.pow_add_r. f_equal. lia. Qed.

Lemma encode64_pos_unfold m :
  0 < m -> N.size m <= 1024 ->
  encode 53 11 false m 0
  = (let k := N.size m in
     let mant := if 53 <? k then round_even m (k - 53) else m * 2 ^ (53 - k) in
     let body := (k + 1022) * 2 ^ 52 + (mant - 2 ^ 52) in
     if 2047 * 2 ^ 52 <=? body then 2047 * 2 ^ 52 else body).
Proof.
  intros Hm Hk. unfold encode. cbv zeta.
  change (N.shiftl 1 (11 - 1) - 1) with 1023. change (Z.of_N 1023) with 1023%Z.
  replace (1 - 1023 <=? 0 + Z.of_N (N.size m) - 1)%Z with true by (symmetry; apply Z.leb_le; lia).
  change (N.shiftl 1 11 - 1) with 2047. change (53 - 1) with 52.
  rewrite !N.shiftl_mul_pow2. rewrite N.mul_1_l.
  replace (Z.to_N (0 + Z.of_N (N.size m) - 1 + 1023)) with (N.size m + 1022) by (assert (0 < N.size m) by (destruct m; [lia|cbn; lia]); lia).
  cbn [N.add]. reflexivity.
Qed.

(** integers of at most 53 significant bits are converted exactly *)
Theorem f64_of_small_exact m :
  0 < m -> N.size m <= 53 ->
  let b := encode 53 11 false m 0 in
  f64_sign b = 0 /\ f64_exp b = N.size m + 1022 /\ 2 ^ 52 + f64_frac b = m * 2 ^ (53 - N.size m).
Proof.
  intros Hm Hk. cbv zeta. rewrite encode64_pos_unfold by lia. cbv zeta.
  replace (53 <? N.size m) with false by (symmetry; apply N.ltb_ge; exact Hk).
  destruct (size_bounds m Hm) as [Hlo Hhi]. set (k := N.size m) in *.
  assert (Hk0 : 0 < k) by (unfold k; destruct m; [lia|cbn; lia]).
  set (X := m * 2 ^ (53 - k)).
  assert (HX : 2 ^ 52 <= X < 2 ^ 53).
  { unfold X. split.
    - replace (2 ^ 52) with (2 ^ (k - 1) * 2 ^ (53 - k)) by (rewrite <- N.pow_add_r; f_equal; lia).
      apply N.mul_le_mono_r. exact Hlo.
    - replace (2 ^ 53) with (2 ^ k * 2 ^ (53 - k)) by (rewrite <- N.pow_add_r; f_equal; lia).
      apply N.mul_lt_mono_pos_r; [apply N.neq_0_lt_0, N.pow_nonzero; lia|exact Hhi]. }
  change (2 ^ 52) with 4503599627370496 in *. change (2 ^ 53) with 9007199254740992 in *.
  unfold f64_sign, f64_exp, f64_frac. change (2 ^ 52) with 4503599627370496. change (2 ^ 63) with 9223372036854775808. change (2 ^ 11) with 2048.
  assert (Hb : (2047 * 4503599627370496 <=? (k + 1022) * 4503599627370496 + (X - 4503599627370496)) = false) by (apply N.leb_gt; lia).
  rewrite Hb. repeat split; lia.
Qed.

(** larger integers are rounded to nearest, ties to even, at the unit 2^(size - 53) *)
Theorem f64_of_large_rounded m :
  53 < N.size m -> N.size m <= 1024 ->
  let k := N.size m in
  let q := round_even m (k - 53) in
  let b := encode 53 11 false m 0 in
  2 ^ 52 <= q <= 2 ^ 53
  /\ (q < 2 ^ 53 -> f64_sign b = 0 /\ f64_exp b = k + 1022 /\ 2 ^ 52 + f64_frac b = q)
  /\ (q = 2 ^ 53 -> k < 1024 -> f64_sign b = 0 /\ f64_exp b = k + 1023 /\ f64_frac b = 0)
  /\ (q = 2 ^ 53 -> k = 1024 -> b = 2047 * 2 ^ 52).
Proof.
  intros Hk Hk2. cbv zeta.
  assert (Hm : 0 < m) by (destruct m; [cbn in Hk; lia|lia]).
  rewrite encode64_pos_unfold by lia. cbv zeta.
  replace (53 <? N.size m) with true by (symmetry; apply N.ltb_lt; exact Hk).
  destruct (size_bounds m Hm) as [Hlo Hhi]. set (k := N.size m) in *. set (s := k - 53).
  assert (Hs : 0 < s) by (unfold s; lia).
  destruct (round_even_nearest m s Hs) as (H1 & H2 & _). set (q := round_even m s) in *.
  (* 2^52 <= q <= 2^53 *)
  assert (Hk1 : 2 ^ (k - 1) = 2 ^ 52 * 2 ^ s) by (rewrite <- N.pow_add_r; f_equal; unfold s; lia).
  assert (Hkk : 2 ^ k = 2 ^ 53 * 2 ^ s) by (rewrite <- N.pow_add_r; f_equal; unfold s; lia).
  assert (Hps : 2 ^ s = 2 * 2 ^ (s - 1)) by (apply pow_split; exact Hs).
  assert (Hp1 : 0 < 2 ^ (s - 1)) by (apply N.neq_0_lt_0, N.pow_nonzero; lia).
  set (P := 2 ^ (s - 1)) in *. rewrite Hps in *. rewrite Hk1 in Hlo. rewrite Hkk in Hhi.
  change (2 ^ 52) with 4503599627370496 in *. change (2 ^ 53) with 9007199254740992 in *.
  assert (Hq : 4503599627370496 <= q <= 9007199254740992) by nia.
  split; [exact Hq|].
  unfold f64_sign, f64_exp, f64_frac. change (2 ^ 52) with 4503599627370496. change (2 ^ 63) with 9223372036854775808. change (2 ^ 11) with 2048.
  repeat split.
  - replace (2047 * 4503599627370496 <=? (k + 1022) * 4503599627370496 + (q - 4503599627370496)) with false by (symmetry; apply N.leb_gt; lia). lia.
  - replace (2047 * 4503599627370496 <=? (k + 1022) * 4503599627370496 + (q - 4503599627370496)) with false by (symmetry; apply N.leb_gt; lia). lia.
  - replace (2047 * 4503599627370496 <=? (k + 1022) * 4503599627370496 + (q - 4503599627370496)) with false by (symmetry; apply N.leb_gt; lia). lia.
  - replace (2047 * 4503599627370496 <=? (k + 1022) * 4503599627370496 + (q - 4503599627370496)) with false by (symmetry; apply N.leb_gt; lia). lia.
  - replace (2047 * 4503599627370496 <=? (k + 1022) * 4503599627370496 + (q - 4503599627370496)) with false by (symmetry; apply N.leb_gt; lia). lia.
  - replace (2047 * 4503599627370496 <=? (k + 1022) * 4503599627370496 + (q - 4503599627370496)) with false by (symmetry; apply N.leb_gt; lia). lia.
  - intros Hq53 Hk1024.
    replace (2047 * 4503599627370496 <=? (k + 1022) * 4503599627370496 + (q - 4503599627370496)) with true by (symmetry; apply N.leb_le; lia). reflexivity.
Qed.

(** ** integer -> f32 *)
Definition f32_frac (b : N) : N := b mod 2 ^ 23.
Definition f32_exp (b : N) : N := (b / 2 ^ 23) mod 2 ^ 8.
Definition f32_sign (b : N) : N := b / 2 ^ 31.
(** a finite normal f64 denotes (2^52 + frac) * 2^(exp - 1075) *)





Lemma encode32_pos_unfold m :
  0 < m -> N.size m <= 128 ->
  encode 24 8 false m 0
  = (let k := N.size m in
     let mant := if 24 <? k then round_even m (k - 24) else m * 2 ^ (24 - k) in
     let body := (k + 126) * 2 ^ 23 + (mant - 2 ^ 23) in
     if 255 * 2 ^ 23 <=? body then 255 * 2 ^ 23 else body).
Proof.
  intros Hm Hk. unfold encode. cbv zeta.
  change (N.shiftl 1 (8 - 1) - 1) with 127. change (Z.of_N 127) with 127%Z.
  replace (1 - 127 <=? 0 + Z.of_N (N.size m) - 1)%Z with true by (symmetry; apply Z.leb_le; lia).
  change (N.shiftl 1 8 - 1) with 255. change (24 - 1) with 23.
  rewrite !N.shiftl_mul_pow2. rewrite N.mul_1_l.
  replace (Z.to_N (0 + Z.of_N (N.size m) - 1 + 127)) with (N.size m + 126) by (assert (0 < N.size m) by (destruct m; [lia|cbn; lia]); lia).
  cbn [N.add]. reflexivity.
Qed.

(** integers of at most 53 significant bits are converted exactly *)
Theorem f32_of_small_exact m :
  0 < m -> N.size m <= 24 ->
  let b := encode 24 8 false m 0 in
  f32_sign b = 0 /\ f32_exp b = N.size m + 126 /\ 2 ^ 23 + f32_frac b = m * 2 ^ (24 - N.size m).
Proof.
  intros Hm Hk. cbv zeta. rewrite encode32_pos_unfold by lia. cbv zeta.
  replace (24 <? N.size m) with false by (symmetry; apply N.ltb_ge; exact Hk).
  destruct (size_bounds m Hm) as [Hlo Hhi]. set (k := N.size m) in *.
  assert (Hk0 : 0 < k) by (unfold k; destruct m; [lia|cbn; lia]).
  set (X := m * 2 ^ (24 - k)).
  assert (HX : 2 ^ 23 <= X < 2 ^ 24).
  { unfold X. split.
    - replace (2 ^ 23) with (2 ^ (k - 1) * 2 ^ (24 - k)) by (rewrite <- N.pow_add_r; f_equal; lia).
      apply N.mul_le_mono_r. exact Hlo.
    - replace (2 ^ 24) with (2 ^ k * 2 ^ (24 - k)) by (rewrite <- N.pow_add_r; f_equal; lia).
      apply N.mul_lt_mono_pos_r; [apply N.neq_0_lt_0, N.pow_nonzero; lia|exact Hhi]. }
  change (2 ^ 23) with 8388608 in *. change (2 ^ 24) with 16777216 in *.
  unfold f32_sign, f32_exp, f32_frac. change (2 ^ 23) with 8388608. change (2 ^ 31) with 2147483648. change (2 ^ 8) with 256.
  assert (Hb : (255 * 8388608 <=? (k + 126) * 8388608 + (X - 8388608)) = false) by (apply N.leb_gt; lia).
  rewrite Hb. repeat split; lia.
Qed.

(** f32: larger integers are rounded to nearest, ties to even, at the unit 2^(size - 53) *)
Theorem f32_of_large_rounded m :
  24 < N.size m -> N.size m <= 128 ->
  let k := N.size m in
  let q := round_even m (k - 24) in
  let b := encode 24 8 false m 0 in
  2 ^ 23 <= q <= 2 ^ 24
  /\ (q < 2 ^ 24 -> f32_sign b = 0 /\ f32_exp b = k + 126 /\ 2 ^ 23 + f32_frac b = q)
  /\ (q = 2 ^ 24 -> k < 128 -> f32_sign b = 0 /\ f32_exp b = k + 127 /\ f32_frac b = 0)
  /\ (q = 2 ^ 24 -> k = 128 -> b = 255 * 2 ^ 23).
Proof.
  intros Hk Hk2. cbv zeta.
  assert (Hm : 0 < m) by (destruct m; [cbn in Hk; lia|lia]).
  rewrite encode32_pos_unfold by lia. cbv zeta.
  replace (24 <? N.size m) with true by (symmetry; apply N.ltb_lt; exact Hk).
  destruct (size_bounds m Hm) as [Hlo Hhi]. set (k := N.size m) in *. set (s := k - 24).
  assert (Hs : 0 < s) by (unfold s; lia).
  destruct (round_even_nearest m s Hs) as (H1 & H2 & _). set (q := round_even m s) in *.
  (* 2^52 <= q <= 2^53 *)
  assert (Hk1 : 2 ^ (k - 1) = 2 ^ 23 * 2 ^ s) by (rewrite <- N.pow_add_r; f_equal; unfold s; lia).
  assert (Hkk : 2 ^ k = 2 ^ 24 * 2 ^ s) by (rewrite <- N.pow_add_r; f_equal; unfold s; lia).
  assert (Hps : 2 ^ s = 2 * 2 ^ (s - 1)) by (apply pow_split; exact Hs).
  assert (Hp1 : 0 < 2 ^ (s - 1)) by (apply N.neq_0_lt_0, N.pow_nonzero; lia).
  set (P := 2 ^ (s - 1)) in *. rewrite Hps in *. rewrite Hk1 in Hlo. rewrite Hkk in Hhi.
  change (2 ^ 23) with 8388608 in *. change (2 ^ 24) with 16777216 in *.
  assert (Hq : 8388608 <= q <= 16777216) by nia.
  split; [exact Hq|].
  unfold f32_sign, f32_exp, f32_frac. change (2 ^ 23) with 8388608. change (2 ^ 31) with 2147483648. change (2 ^ 8) with 256.
  repeat split.
  - replace (255 * 8388608 <=? (k + 126) * 8388608 + (q - 8388608)) with false by (symmetry; apply N.leb_gt; lia). lia.
  - replace (255 * 8388608 <=? (k + 126) * 8388608 + (q - 8388608)) with false by (symmetry; apply N.leb_gt; lia). lia.
  - replace (255 * 8388608 <=? (k + 126) * 8388608 + (q - 8388608)) with false by (symmetry; apply N.leb_gt; lia). lia.
  - replace (255 * 8388608 <=? (k + 126) * 8388608 + (q - 8388608)) with false by (symmetry; apply N.leb_gt; lia). lia.
  - replace (255 * 8388608 <=? (k + 126) * 8388608 + (q - 8388608)) with false by (symmetry; apply N.leb_gt; lia). lia.
  - replace (255 * 8388608 <=? (k + 126) * 8388608 + (q - 8388608)) with false by (symmetry; apply N.leb_gt; lia). lia.
  - intros Hq53 Hk128.
    replace (255 * 8388608 <=? (k + 126) * 8388608 + (q - 8388608)) with true by (symmetry; apply N.leb_le; lia). reflexivity.
Qed.

(** the sign only sets the top bit *)
Lemma encode64_neg m e : encode 53 11 true m e = 2 ^ 63 + encode 53 11 false m e.
Proof. unfold encode. cbv zeta. rewrite N.add_0_l. reflexivity. Qed.
Lemma encode32_neg m e : encode 24 8 true m e = 2 ^ 31 + encode 24 8 false m e.
Proof. unfold encode. cbv zeta. rewrite N.add_0_l. reflexivity. Qed.

(** ** f64 -> f32 (normal range): a finite normal f64 with fraction field [mf] and biased exponent
    [ef] (value (2^52 + mf) * 2^(ef - 1075)) whose f32 exponent is in the normal range becomes
    q * 2^(ef - 1023 - 23) with q = round_even (2^52 + mf) 29: nearest f32, ties to even, with the
    carry into the exponent (and to infinity at the top). *)
Lemma size_53 mf : mf < 2 ^ 52 -> N.size (mf + 2 ^ 52) = 53.
Proof.
  intros H. rewrite N.size_log2 by (change (2 ^ 52) with 4503599627370496; lia).
  rewrite (N.log2_unique (mf + 2 ^ 52) 52); [reflexivity|lia|].
  change (2 ^ N.succ 52) with (2 ^ 52 + 2 ^ 52). lia.
Qed.

Theorem f32_of_f64_normal mf ef :
  mf < 2 ^ 52 -> 897 <= ef -> ef <= 2046 ->       (* 897 = 1023 - 126: the result is a normal f32 or overflows *)
  let q := round_even (mf + 2 ^ 52) 29 in
  let b := encode 24 8 false (mf + 2 ^ 52) (Z.of_N ef - 1075) in
  2 ^ 23 <= q <= 2 ^ 24
  /\ (q < 2 ^ 24 -> ef <= 1150 -> f32_sign b = 0 /\ f32_exp b = ef - 896 /\ 2 ^ 23 + f32_frac b = q)
  /\ (q = 2 ^ 24 -> ef < 1150 -> f32_sign b = 0 /\ f32_exp b = ef - 895 /\ f32_frac b = 0)
  /\ (1150 < ef \/ (q = 2 ^ 24 /\ ef = 1150) -> b = 255 * 2 ^ 23).
Proof.
  intros Hmf Hlo Hhi. cbv zeta. unfold encode. cbv zeta. rewrite (size_53 mf Hmf).
  change (N.shiftl 1 (8 - 1) - 1) with 127. change (Z.of_N 127) with 127%Z.
  replace (1 - 127 <=? Z.of_N ef - 1075 + Z.of_N 53 - 1)%Z with true by (symmetry; apply Z.leb_le; lia).
  change (24 <? 53) with true. cbv iota. change (53 - 24) with 29. change (N.shiftl 1 8 - 1) with 255. change (24 - 1) with 23.
  rewrite !N.shiftl_mul_pow2, N.mul_1_l.
  replace (Z.to_N (Z.of_N ef - 1075 + Z.of_N 53 - 1 + 127)) with (ef - 896) by lia.
  assert (Hs : 0 < 29) by lia.
  destruct (round_even_nearest (mf + 2 ^ 52) 29 Hs) as (H1 & H2 & _). set (q := round_even (mf + 2 ^ 52) 29) in *.
  change (29 - 1) with 28 in *.
  change (2 ^ 52) with 4503599627370496 in *. change (2 ^ 29) with 536870912 in *. change (2 ^ 28) with 268435456 in *.
  change (2 ^ 23) with 8388608 in *. change (2 ^ 24) with 16777216 in *.
  assert (Hq : 8388608 <= q <= 16777216) by lia.
  split; [exact Hq|].
  unfold f32_sign, f32_exp, f32_frac. change (2 ^ 23) with 8388608. change (2 ^ 31) with 2147483648. change (2 ^ 8) with 256.
  rewrite N.add_0_l. repeat split.
  - replace (255 * 8388608 <=? (ef - 896) * 8388608 + (q - 8388608)) with false by (symmetry; apply N.leb_gt; lia). lia.
  - replace (255 * 8388608 <=? (ef - 896) * 8388608 + (q - 8388608)) with false by (symmetry; apply N.leb_gt; lia). lia.
  - replace (255 * 8388608 <=? (ef - 896) * 8388608 + (q - 8388608)) with false by (symmetry; apply N.leb_gt; lia). lia.
  - replace (255 * 8388608 <=? (ef - 896) * 8388608 + (q - 8388608)) with false by (symmetry; apply N.leb_gt; lia). lia.
  - replace (255 * 8388608 <=? (ef - 896) * 8388608 + (q - 8388608)) with false by (symmetry; apply N.leb_gt; lia). lia.
  - replace (255 * 8388608 <=? (ef - 896) * 8388608 + (q - 8388608)) with false by (symmetry; apply N.leb_gt; lia). lia.
  - intros Hov. replace (255 * 8388608 <=? (ef - 896) * 8388608 + (q - 8388608)) with true by (symmetry; apply N.leb_le; lia). reflexivity.
Qed.

(** f64 -> f32, results in the f32 subnormal range (biased f64 exponent 1 <= ef <= 896): the bit
    pattern IS the integer nearest (ties to even) to value / 2^-149 - the unit of f32 subnormals -
    namely round_even (2^52 + mf) (926 - ef); it never reaches infinity. *)
Theorem f32_of_f64_subnormal mf ef :
  mf < 2 ^ 52 -> 1 <= ef -> ef <= 896 ->
  encode 24 8 false (mf + 2 ^ 52) (Z.of_N ef - 1075) = round_even (mf + 2 ^ 52) (926 - ef)
  /\ round_even (mf + 2 ^ 52) (926 - ef) <= 2 ^ 23.
Proof.
  intros Hmf Hlo Hhi. unfold encode. cbv zeta. rewrite (size_53 mf Hmf).
  change (N.shiftl 1 (8 - 1) - 1) with 127. change (Z.of_N 127) with 127%Z.
  replace (1 - 127 <=? Z.of_N ef - 1075 + Z.of_N 53 - 1)%Z with false by (symmetry; apply Z.leb_gt; lia).
  replace (Z.to_N (1 - 127 - Z.of_N 24 + 1 - (Z.of_N ef - 1075))) with (926 - ef) by lia.
  change (N.shiftl 1 8 - 1) with 255. change (24 - 1) with 23. rewrite N.shiftl_mul_pow2, N.add_0_l.
  set (s := 926 - ef). assert (Hs : 0 < s) by (unfold s; lia).
  destruct (round_even_nearest (mf + 2 ^ 52) s Hs) as (H1 & _ & _). set (q := round_even (mf + 2 ^ 52) s) in *.
  assert (Hq : q <= 2 ^ 23).
  { assert (Hps : 2 ^ s = 2 * 2 ^ (s - 1)) by (apply pow_split; exact Hs).
    assert (Hbig : 2 ^ 53 <= 2 ^ 23 * 2 ^ s) by (rewrite <- N.pow_add_r; apply N.pow_le_mono_r; [lia|unfold s; lia]).
    assert (Hp1 : 0 < 2 ^ (s - 1)) by (apply N.neq_0_lt_0, N.pow_nonzero; lia).
    set (P := 2 ^ (s - 1)) in *. rewrite Hps in *.
    change (2 ^ 52) with 4503599627370496 in *. change (2 ^ 53) with 9007199254740992 in *. change (2 ^ 23) with 8388608 in *. nia. }
  split; [|exact Hq].
  change (2 ^ 23) with 8388608 in *.
  replace (255 * 8388608 <=? q) with false by (symmetry; apply N.leb_gt; lia). reflexivity.
Qed.

(** *** f64 -> f32: the remaining inputs (zeros, subnormal f64, infinities, NaN) *)
Lemma round_even_tiny m s : m < 2 ^ (s - 1) -> 0 < s -> round_even m s = 0.
Proof.
  intros Hm Hs. unfold round_even. replace (s =? 0) with false by (symmetry; apply N.eqb_neq; lia). cbv zeta.
  assert (Hq : N.shiftr m s = 0).
  { rewrite N.shiftr_div_pow2. apply N.div_small. eapply N.lt_le_trans; [exact Hm|]. apply N.pow_le_mono_r; lia. }
  rewrite Hq, N.shiftl_0_l, N.sub_0_r, N.shiftl_1_l.
  replace (2 ^ (s - 1) <? m) with false by (symmetry; apply N.ltb_ge; lia).
  replace (m =? 2 ^ (s - 1)) with false by (symmetry; apply N.eqb_neq; lia). reflexivity.
Qed.

Theorem f32_of_f64_special b :
  let sign := N.testbit b 63 in
  let ef := N.land (N.shiftr b 52) 2047 in
  let mf := N.land b 4503599627370495 in
  let signbit := if sign then 2 ^ 31 else 0 in
  (ef = 2047 -> mf = 0 -> f32_of_f64 b = signbit + 255 * 2 ^ 23)          (* infinities keep their sign *)
  /\ (ef = 2047 -> mf <> 0 -> f32_of_f64 b = nan32)                       (* every NaN becomes the canonical one *)
  /\ (ef = 0 -> mf = 0 -> f32_of_f64 b = signbit)                          (* zeros keep their sign *)
  /\ (ef = 0 -> mf <> 0 -> f32_of_f64 b = signbit).                        (* a subnormal f64 is far below half the least f32 *)
Proof.
  cbv zeta. unfold f32_of_f64. cbv zeta.
  set (ef := N.land (N.shiftr b 52) 2047). set (mf := N.land b 4503599627370495).
  assert (Hmf : mf < 2 ^ 52).
  { unfold mf. change 4503599627370495 with (N.ones 52). rewrite N.land_ones. apply N.mod_lt. discriminate. }
  change 2147483648 with (2 ^ 31). change 2139095040 with (255 * 2 ^ 23).
  repeat split; intros He Hm; rewrite He; cbn [N.eqb Pos.eqb].
  - rewrite Hm. reflexivity.
  - replace (mf =? 0) with false by (symmetry; apply N.eqb_neq; exact Hm). reflexivity.
  - rewrite Hm. reflexivity.
  - replace (mf =? 0) with false by (symmetry; apply N.eqb_neq; exact Hm).
    assert (Hk : N.size mf <= 52).
    { destruct (N.eq_dec mf 0) as [->|Hz]; [cbn; lia|]. rewrite N.size_log2 by exact Hz.
      assert (N.log2 mf < 52) by (apply N.log2_lt_pow2; lia). lia. }
    assert (Henc : forall sg, encode 24 8 sg mf (-1074) = (if sg then N.shiftl 1 (24 - 1 + 8) else 0) + 0).
    { intros sg. unfold encode. cbv zeta. change (N.shiftl 1 (8 - 1) - 1) with 127. change (Z.of_N 127) with 127%Z.
      replace (1 - 127 <=? -1074 + Z.of_N (N.size mf) - 1)%Z with false by (symmetry; apply Z.leb_gt; lia).
      change (Z.to_N (1 - 127 - Z.of_N 24 + 1 - -1074)) with 925.
      rewrite (round_even_tiny mf 925); [reflexivity| |lia].
      eapply N.lt_le_trans; [exact Hmf|]. apply N.pow_le_mono_r; lia. }
    rewrite Henc, N.add_0_r. destruct (N.testbit b 63); reflexivity.
Qed.
