From Coq Require Import Permutation.
From Deserr Require Import Base Pointer Kinds Value Prog Utf8 Scalars Types Deser Monitors.
From Deserr.proofs Require Import ProgProofs LinProofs TyInd DeserLin.

Lemma run_pair {X} script (p : prog X) s : run script p s = (fst (run script p s), snd (run script p s)).
Proof. destruct (run script p s); reflexivity. Qed.

(** Ok: not a single call to the error type was made (user-function calls may have been) *)
Lemma deser_ok_silent t a v l script s o s' :
  run script (deser t a v l) s = (ROk o, s') ->
  exists ext, s' = s ++ ext /\ any_creates ext = false.
Proof.
  intros H.
  pose proof (lin_sound held_res [] _ (deser_lin t a v l) script s) as Hs.
  rewrite H in Hs. cbn [fst snd] in Hs.
  destruct (Hs (fun i Hi => match Hi with end) (NoDup_nil _) [] eq_refl) as [ext Heq _ _ _ Hne].
  exists ext. split; [exact Heq|].
  destruct (any_creates ext) eqn:E; [|reflexivity].
  exfalso. apply Hne; [right; reflexivity|reflexivity].
Qed.

(** Err: the returned error together with everything consumed along the way is exactly the set
    of error values created during the call: none dropped, none used twice *)
Lemma deser_err_linear t a v l script s e s' :
  run script (deser t a v l) s = (RErr e, s') ->
  exists ext, s' = s ++ ext
    /\ Permutation (e :: flat_map call_uses ext) (created_ids ext (N.of_nat (List.length s)))
    /\ (e < N.of_nat (List.length s'))%N.
Proof.
  intros H.
  pose proof (lin_sound held_res [] _ (deser_lin t a v l) script s) as Hs.
  rewrite H in Hs. cbn [fst snd] in Hs.
  destruct (Hs (fun i Hi => match Hi with end) (NoDup_nil _) [e] eq_refl) as [ext Heq Hperm _ Hb _].
  exists ext. split; [exact Heq|]. split; [exact Hperm|]. apply Hb. left; reflexivity.
Qed.

(** consequences at the level of single error values *)
Lemma count_N_perm x l1 l2 : Permutation l1 l2 -> count_N x l1 = count_N x l2.
Proof.
  unfold count_N. induction 1 as [|y l1 l2 H IH|y z l|l1 l2 l3 H1 IH1 H2 IH2]; cbn [filter].
  - reflexivity.
  - destruct (N.eqb x y); cbn [List.length]; congruence.
  - destruct (N.eqb x y), (N.eqb x z); reflexivity.
  - congruence.
Qed.

Lemma filter_eqb_notin y l : ~ In y l -> filter (N.eqb y) l = [].
Proof.
  induction l as [|z l IHl]; intros Hy; [reflexivity|]. cbn [filter].
  destruct (N.eqb_spec y z) as [->|_]; [exfalso; apply Hy; left; reflexivity|].
  apply IHl. intros Hc. apply Hy. right. exact Hc.
Qed.

Lemma count_N_nodup x l : NoDup l -> In x l -> count_N x l = 1%nat.
Proof.
  unfold count_N. induction 1 as [|y l Hy Hnd IH]; intros Hin; [destruct Hin|].
  cbn [filter]. destruct (N.eqb_spec x y) as [->|Hne].
  - cbn [List.length]. rewrite (filter_eqb_notin y l Hy). reflexivity.
  - destruct Hin as [Heq|Hin]; [congruence|]. apply IH. exact Hin.
Qed.

(** every error value created during a failing call is either the returned one or consumed by
    exactly one later call *)
Lemma deser_err_each_once t a v l script s e s' :
  run script (deser t a v l) s = (RErr e, s') ->
  exists ext, s' = s ++ ext /\
    forall x, In x (created_ids ext (N.of_nat (List.length s))) ->
              count_N x (e :: flat_map call_uses ext) = 1%nat.
Proof.
  intros H. destruct (deser_err_linear _ _ _ _ _ _ _ _ H) as [ext [Heq [Hperm _]]].
  exists ext. split; [exact Heq|]. intros x Hx.
  rewrite (count_N_perm x _ _ Hperm). apply count_N_nodup; [apply created_ids_nodup|exact Hx].
Qed.
