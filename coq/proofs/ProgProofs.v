(** Generic facts about call trees and their runs: proved once, for every [prog]. *)
From Deserr Require Import Base Pointer Kinds Value Prog.

Lemma run_bind {X Y} script (p : prog X) (f : X -> prog Y) s :
  run script (bind p f) s = let (x, s1) := run script p s in run script (f x) s1.
Proof.
  revert s. induction p as [x | c k IH]; intros s; cbn [bind run]; [reflexivity|].
  apply IH.
Qed.

Lemma run_bind_eq {X Y} script (p : prog X) (f : X -> prog Y) s x s1 :
  run script p s = (x, s1) -> run script (bind p f) s = run script (f x) s1.
Proof. intros H. rewrite run_bind, H. reflexivity. Qed.

(** a run only ever appends to the trace *)
Lemma run_extends {X} script (p : prog X) s :
  exists ext, snd (run script p s) = s ++ ext.
Proof.
  revert s. induction p as [x | c k IH]; intros s; cbn [run].
  - exists []. rewrite app_nil_r. reflexivity.
  - destruct (IH (N.of_nat (List.length s)) (script (N.of_nat (List.length s))) (s ++ [c])) as [ext Hext].
    exists (c :: ext). rewrite Hext, <- app_assoc. reflexivity.
Qed.

Lemma run_user_call {X} script fn args (k : prog X) s :
  run script (user_call fn args k) s = run script k (s ++ [CUser fn args]).
Proof. reflexivity. Qed.

(** ** Causality (C03): what happens up to and including call number [k] depends only on the
    answers given to the calls before [k]. *)

(** the calls of a run, without the initial state *)
Definition calls_from {X} script (p : prog X) (s : list call) : list call :=
  skipn (List.length s) (snd (run script p s)).

Lemma run_causal {X} (p : prog X) :
  forall (sc1 sc2 : N -> bool) (k : N) (s : list call),
    (forall i, (i < k)%N -> sc1 i = sc2 i) ->
    (* either the two runs are the same run and it made no call numbered >= k ... *)
    (run sc1 p s = run sc2 p s /\ (N.of_nat (List.length (snd (run sc1 p s))) <= N.max k (N.of_nat (List.length s)))%N)
    \/
    (* ... or both got past call [k] and their traces agree up to and including it *)
    ((k < N.of_nat (List.length (snd (run sc1 p s))))%N /\ (k < N.of_nat (List.length (snd (run sc2 p s))))%N
     /\ firstn (S (N.to_nat k)) (snd (run sc1 p s)) = firstn (S (N.to_nat k)) (snd (run sc2 p s))).
Proof.
  induction p as [x | c kont IH]; intros sc1 sc2 k s Hagree; cbn [run].
  - left. split; [reflexivity|]. cbn [snd]. lia.
  - set (i := N.of_nat (List.length s)).
    destruct (N.ltb_spec i k) as [Hlt|Hge].
    + (* this call is answered identically *)
      rewrite <- (Hagree i Hlt).
      destruct (IH i (sc1 i) sc1 sc2 k (s ++ [c]) Hagree) as [[Heq Hlen]|Hpast].
      * left. split; [exact Heq|]. rewrite app_length in Hlen. cbn [List.length] in Hlen. lia.
      * right. exact Hpast.
    + (* call number i >= k: the traces already contain call k (if i = k it is [c] itself) *)
      right.
      destruct (run_extends sc1 (kont i (sc1 i)) (s ++ [c])) as [e1 H1].
      destruct (run_extends sc2 (kont i (sc2 i)) (s ++ [c])) as [e2 H2].
      rewrite H1, H2. rewrite !app_length. cbn [List.length].
      split; [lia|]. split; [lia|].
      assert (Hk : (S (N.to_nat k) <= List.length (s ++ [c]))%nat).
      { rewrite app_length. cbn [List.length]. unfold i in Hge. lia. }
      rewrite !firstn_app.
      replace (S (N.to_nat k) - List.length (s ++ [c]))%nat with 0%nat by lia.
      cbn [firstn]. reflexivity.
Qed.
