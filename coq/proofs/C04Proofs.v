(** C04: every call made by the interpreter is true of the payload. *)
From Deserr Require Import Base Pointer Kinds Value Prog Utf8 Scalars Types Deser Monitors C04Defs.
From Deserr.proofs Require Import ProgProofs LeavesProofs TyInd C12Proofs C08Proofs C04Base MiscProofs.

Section Root.
  Variable root : value.
  Hypothesis Hroot : nodup_keys root = true.
  Notation OK := (Calls (call_ok root)).

  (** *** scalars *)
  Lemma calls_deser_int a d v l : resolves root l v -> OK (deser_int a d v l).
  Proof.
    intros H. unfold deser_int.
    destruct v;
      try solve [apply calls_fail_ivk; try exact H; unfold int_accepted; destruct (i_signed d); reflexivity].
    - repeat match goal with |- OK (if ?c then _ else _) => destruct c end;
        try apply calls_ret; eapply calls_fail_unexpected; exact H.
    - destruct (i_signed d) eqn:Es.
      + repeat match goal with |- OK (if ?c then _ else _) => destruct c end;
          try apply calls_ret; eapply calls_fail_unexpected; exact H.
      + apply calls_fail_ivk; try exact H. unfold int_accepted. rewrite Es. reflexivity.
  Qed.

  Lemma calls_deser_f64 a v l : resolves root l v -> OK (deser_f64 a v l).
  Proof. intros H. destruct v; try apply calls_ret; apply calls_fail_ivk; try exact H; reflexivity. Qed.
  Lemma calls_deser_f32 a v l : resolves root l v -> OK (deser_f32 a v l).
  Proof. intros H. destruct v; try apply calls_ret; apply calls_fail_ivk; try exact H; reflexivity. Qed.
  Lemma calls_deser_unit a v l : resolves root l v -> OK (deser_unit a v l).
  Proof. intros H. destruct v; try apply calls_ret; apply calls_fail_ivk; try exact H; reflexivity. Qed.
  Lemma calls_deser_bool a v l : resolves root l v -> OK (deser_bool a v l).
  Proof. intros H. destruct v; try apply calls_ret; apply calls_fail_ivk; try exact H; reflexivity. Qed.
  Lemma calls_deser_string a v l : resolves root l v -> OK (deser_string a v l).
  Proof. intros H. destruct v; try apply calls_ret; apply calls_fail_ivk; try exact H; reflexivity. Qed.
  Lemma calls_deser_char a v l : resolves root l v -> OK (deser_char a v l).
  Proof.
    intros H. destruct v; try solve [apply calls_fail_ivk; try exact H; reflexivity]. unfold deser_char.
    destruct (chars s) as [|c [|c' r]]; try apply calls_ret; eapply calls_fail_unexpected; exact H.
  Qed.
  Lemma calls_deser_cs a ep v l : resolves root l v -> OK (deser_cs a ep v l).
  Proof.
    intros H. destruct v; try solve [apply calls_fail_ivk; try exact H; reflexivity]. unfold deser_cs.
    destruct (parse_cs ep s); [apply calls_ret|eapply calls_fail_unexpected; exact H].
  Qed.

  Lemma calls_absorb {X} a acc oalg e loc (go : option N -> prog X) stop v :
    resolves root loc v -> (forall i, OK (go (Some i))) -> (forall i, OK (stop i)) ->
    OK (absorb a acc oalg e loc go stop).
  Proof.
    intros H Hg Hs. constructor; [eapply resolves_some; exact H|].
    intros i ans. destruct ans; [apply Hg|apply Hs].
  Qed.

  Lemma calls_and_then p f : OK p -> (forall o, OK (f o)) -> OK (and_then p f).
  Proof.
    intros Hp Hf. unfold and_then. apply calls_bind; [exact Hp|].
    intros [o|e|s]; [apply Hf|apply calls_ret|apply calls_ret].
  Qed.

  Lemma calls_map_ok p f : OK p -> OK (map_ok p f).
  Proof. intros Hp. unfold map_ok. apply calls_bind; [exact Hp|]. intros r. apply calls_ret. Qed.

  Lemma resolves_self l v : resolves root l v -> isSome (resolve root (to_owned l)) = true.
  Proof. apply resolves_some. Qed.

  Lemma calls_validate a val l o v : resolves root l v -> OK (validate a val l o).
  Proof.
    intros H. unfold validate. destruct val as [fn|]; [|apply calls_ret].
    apply calls_user.
    - cbn [call_ok forallb]. unfold resolves in H. rewrite H. reflexivity.
    - destruct (ufail o); [|apply calls_ret].
      constructor; [eapply resolves_some; exact H|]. intros i ans. apply calls_ret.
  Qed.

  (** *** sequences: the element at list position [length pre] is payload element number [idx] *)
  Lemma nth_opt_app_exact {A} (pre : list A) x r : nth_opt (pre ++ x :: r) (List.length pre) = Some x.
  Proof. induction pre as [|y pre IH]; [reflexivity|exact IH]. Qed.

  Lemma calls_seq_loop runel a l fin all :
    resolves root l (VSeq all) ->
    (forall v l', resolves root l' v -> OK (runel v l')) ->
    forall vs pre idx acc outs_rev,
      all = pre ++ vs -> idx = N.of_nat (List.length pre) ->
      OK (seq_loop runel a l fin vs idx acc outs_rev).
  Proof.
    intros Hl Hel. induction vs as [|v vs IH]; intros pre idx acc outs_rev Hall Hidx; cbn [seq_loop].
    - apply calls_ret.
    - assert (Hv : resolves root (Index idx l) v).
      { eapply resolves_index; [exact Hl|]. subst all idx. rewrite Nat2N.id. apply nth_opt_app_exact. }
      assert (Hnext : forall acc' outs', OK (seq_loop runel a l fin vs (N.succ idx) acc' outs')).
      { intros acc' outs'. apply (IH (pre ++ [v])); [rewrite <- app_assoc; exact Hall|].
        rewrite app_length. cbn [List.length]. subst idx. lia. }
      apply calls_bind; [apply Hel; exact Hv|].
      intros [o|e|s]; [apply Hnext| |apply calls_ret].
      eapply calls_absorb; [exact Hv|intros i; apply Hnext|intros i; apply calls_ret].
  Qed.

  Lemma calls_tuple_loop a l all :
    resolves root l (VSeq all) ->
    forall items pre idx acc slots_rev,
      all = pre ++ map snd items -> idx = N.of_nat (List.length pre) ->
      Forall (fun it => forall v l', resolves root l' v -> OK (fst it v l')) items ->
      OK (tuple_loop a l items idx acc slots_rev).
  Proof.
    intros Hl. induction items as [|[runel v] items IH]; intros pre idx acc slots_rev Hall Hidx Hf; cbn [tuple_loop].
    - apply calls_ret.
    - inversion Hf as [|? ? Hv0 Hrest]; subst. cbn [fst] in Hv0. cbn [map snd] in Hl.
      assert (Hv : resolves root (Index (N.of_nat (List.length pre)) l) v).
      { eapply resolves_index; [exact Hl|]. rewrite Nat2N.id. apply nth_opt_app_exact. }
      assert (Hnext : forall acc' sl', OK (tuple_loop a l items (N.succ (N.of_nat (List.length pre))) acc' sl')).
      { intros acc' sl'. apply (IH (pre ++ [v])); [rewrite <- app_assoc; reflexivity| |exact Hrest].
        rewrite app_length. cbn [List.length]. lia. }
      apply calls_bind; [apply Hv0; exact Hv|].
      intros [o|e|s]; [apply Hnext| |apply calls_ret].
      eapply calls_absorb; [exact Hv|intros i; apply Hnext|intros i; apply calls_ret].
  Qed.

  (** *** maps *)
  Lemma calls_map_loop runel kp tyname a l all :
    resolves root l (VMap all) ->
    (forall v l', resolves root l' v -> OK (runel v l')) ->
    forall ms acc res_map,
      (forall k v, In (k, v) ms -> lookup_key k all = Some v) ->
      OK (map_loop runel kp tyname a l ms acc res_map).
  Proof.
    intros Hl Hel. induction ms as [|[k v] ms IH]; intros acc res_map Hin; cbn [map_loop].
    - apply calls_ret.
    - assert (Hv : resolves root (Key k l) v) by (eapply resolves_key; [exact Hl|apply Hin; left; reflexivity]).
      assert (Hnext : forall acc' rm, OK (map_loop runel kp tyname a l ms acc' rm)).
      { intros. apply IH. intros k' v' H'. apply Hin. right. exact H'. }
      destruct (parse_key kp k) as [ko|pe].
      + apply calls_bind; [apply Hel; exact Hv|].
        intros [o|e|s]; [apply Hnext| |apply calls_ret].
        eapply calls_absorb; [exact Hv|intros i; apply Hnext|intros i; apply calls_ret].
      + constructor; [eapply kind_true_unexpected; exact Hl|].
        intros i ans. destruct ans; [apply Hnext|apply calls_ret].
  Qed.

  (** *** serde_json::Value *)
  Lemma calls_deser_json a : forall v l, nodup_keys v = true -> resolves root l v -> OK (deser_json a v l).
  Proof.
    fix IH 1. intros v l Hnd Hl. destruct v as [| b | x | x | f | s | vs | ms]; cbn [deser_json];
      try apply calls_ret.
    - destruct (float_is_finite f); [apply calls_ret|eapply calls_fail_unexpected; exact Hl].
    - assert (Hgen : forall rest pre idx acc outs_rev,
                 vs = pre ++ rest -> idx = N.of_nat (List.length pre) ->
                 OK ((fix go (vs : list value) (idx : N) (acc : option N) (outs_rev : list value) : prog res :=
                        match vs with
                        | [] => Ret (match acc with Some e => RErr e | None => ROk (OJson (VSeq (rev outs_rev))) end)
                        | x :: vs' =>
                          bind (deser_json a x (Index idx l)) (fun r =>
                            match r with
                            | ROk o => go vs' (N.succ idx) acc (unjson o :: outs_rev)
                            | RErr e =>
                              absorb a acc a e (Index idx l)
                                     (fun acc' => go vs' (N.succ idx) acc' outs_rev) (fun i => Ret (RErr i))
                            | RPanic s => Ret (RPanic s)
                            end)
                        end) rest idx acc outs_rev)).
      { induction rest as [|x rest IHr]; intros pre idx acc outs_rev Hall Hidx; [apply calls_ret|].
        assert (Hx : resolves root (Index idx l) x).
        { eapply resolves_index; [exact Hl|]. subst vs idx. rewrite Nat2N.id. apply nth_opt_app_exact. }
        assert (Hndx : nodup_keys x = true).
        { cbn [nodup_keys] in Hnd. rewrite forallb_forall in Hnd. apply Hnd. subst vs. apply in_elt. }
        assert (Hnext : forall acc' outs', OK ((fix go (vs : list value) (idx : N) (acc : option N) (outs_rev : list value) : prog res :=
                        match vs with
                        | [] => Ret (match acc with Some e => RErr e | None => ROk (OJson (VSeq (rev outs_rev))) end)
                        | x :: vs' =>
                          bind (deser_json a x (Index idx l)) (fun r =>
                            match r with
                            | ROk o => go vs' (N.succ idx) acc (unjson o :: outs_rev)
                            | RErr e =>
                              absorb a acc a e (Index idx l)
                                     (fun acc' => go vs' (N.succ idx) acc' outs_rev) (fun i => Ret (RErr i))
                            | RPanic s => Ret (RPanic s)
                            end)
                        end) rest (N.succ idx) acc' outs')).
        { intros. apply (IHr (pre ++ [x])); [rewrite <- app_assoc; exact Hall|].
          rewrite app_length. cbn [List.length]. subst idx. lia. }
        apply calls_bind; [apply IH; assumption|].
        intros [o|e|s]; [apply Hnext| |apply calls_ret].
        eapply calls_absorb; [exact Hx|intros i; apply Hnext|intros i; apply calls_ret]. }
      apply (Hgen vs [] 0%N None []); reflexivity.
    - assert (Hgen : forall rest acc jm,
                 (forall k v, In (k, v) rest -> In (k, v) ms) ->
                 OK ((fix go (ms : list (string * value)) (acc : option N) (jm : list (string * value)) : prog res :=
                        match ms with
                        | [] => Ret (match acc with Some e => RErr e | None => ROk (OJson (VMap jm)) end)
                        | (k, x) :: ms' =>
                          bind (deser_json a x (Key k l)) (fun r =>
                            match r with
                            | ROk o => go ms' acc (jmap_insert k (unjson o) jm)
                            | RErr e =>
                              absorb a acc a e (Key k l) (fun acc' => go ms' acc' jm) (fun i => Ret (RErr i))
                            | RPanic s => Ret (RPanic s)
                            end)
                        end) rest acc jm)).
      { induction rest as [|[k x] rest IHr]; intros acc jm Hsub; [apply calls_ret|].
        assert (Hin : In (k, x) ms) by (apply Hsub; left; reflexivity).
        assert (Hx : resolves root (Key k l) x).
        { eapply resolves_key; [exact Hl|]. apply lookup_key_in_nodup; assumption. }
        assert (Hndx : nodup_keys x = true) by (eapply nodup_keys_member; eassumption).
        assert (Hnext : forall acc' jm', OK ((fix go (ms : list (string * value)) (acc : option N) (jm : list (string * value)) : prog res :=
                        match ms with
                        | [] => Ret (match acc with Some e => RErr e | None => ROk (OJson (VMap jm)) end)
                        | (k, x) :: ms' =>
                          bind (deser_json a x (Key k l)) (fun r =>
                            match r with
                            | ROk o => go ms' acc (jmap_insert k (unjson o) jm)
                            | RErr e =>
                              absorb a acc a e (Key k l) (fun acc' => go ms' acc' jm) (fun i => Ret (RErr i))
                            | RPanic s => Ret (RPanic s)
                            end)
                        end) rest acc' jm')).
        { intros. apply IHr. intros k' v' H'. apply Hsub. right. exact H'. }
        apply calls_bind; [apply IH; assumption|].
        intros [o|e|s]; [apply Hnext| |apply calls_ret].
        eapply calls_absorb; [exact Hx|intros i; apply Hnext|intros i; apply calls_ret]. }
      apply Hgen. auto.
  Qed.
End Root.

Lemma calls_tree_true {X} (P : call -> Prop) (p : prog X) : Calls P p -> Tree P (fun _ => True) p.
Proof. induction 1; constructor; auto. Qed.

Lemma nodup_strs_NoDup l : nodup_strs l = true -> NoDup l.
Proof.
  induction l as [|x l IH]; intros H; [constructor|]. cbn [nodup_strs] in H.
  apply Bool.andb_true_iff in H. destruct H as [Hx Hl]. apply Bool.negb_true_iff in Hx.
  constructor; [|apply IH; exact Hl]. intros Hin. clear -Hx Hin.
  induction l as [|y l IH]; [destruct Hin|]. cbn [mem_str] in Hx.
  destruct (String.eqb_spec x y) as [->|Hne]; [discriminate|].
  destruct Hin as [->|Hin]; [contradiction|apply IH; assumption].
Qed.

Lemma mem_str_false_notin x l : mem_str x l = false -> ~ In x l.
Proof.
  induction l as [|y l IH]; intros H Hin; [destruct Hin|]. cbn [mem_str] in H.
  destruct (String.eqb_spec x y) as [->|Hne]; [discriminate|].
  destruct Hin as [->|Hin]; [contradiction|apply IH; assumption].
Qed.

Lemma notin_mem_str_false x l : ~ In x l -> mem_str x l = false.
Proof.
  induction l as [|y l IH]; intros H; [reflexivity|]. cbn [mem_str].
  destruct (String.eqb_spec x y) as [->|Hne]; [exfalso; apply H; left; reflexivity|].
  apply IH. intros Hin. apply H. right. exact Hin.
Qed.

Lemma find_field_none_notin fs k i0 : find_field fs k i0 = None -> ~ In k (map rf_key fs).
Proof.
  revert i0. induction fs as [|f fs IH]; intros i0 H Hin; [destruct Hin|]. cbn [find_field map] in *.
  destruct (String.eqb_spec (rf_key f) k) as [He|Hne]; [discriminate|].
  destruct Hin as [Heq|Hin]; [contradiction|eapply IH; eassumption].
Qed.

Lemma remove_first_in tag ms v rest k x :
  remove_first tag ms = Some (v, rest) -> In (k, x) rest -> In (k, x) ms.
Proof.
  revert rest. induction ms as [|[k' y] ms IH]; intros rest H Hin; [discriminate|]. cbn [remove_first] in H.
  destruct (String.eqb k' tag).
  - inversion H; subst. right. exact Hin.
  - destruct (remove_first tag ms) as [[z r]|]; [|discriminate]. inversion H; subst.
    destruct Hin as [Heq|Hin]; [left; exact Heq|right; eapply IH; [reflexivity|exact Hin]].
Qed.

Lemma remove_first_lookup_other tag ms v rest k :
  remove_first tag ms = Some (v, rest) -> k <> tag -> lookup_key k ms = lookup_key k rest.
Proof.
  revert rest. induction ms as [|[k' y] ms IH]; intros rest H Hne; [discriminate|]. cbn [remove_first] in H.
  destruct (String.eqb_spec k' tag) as [->|Hk'].
  - inversion H; subst. cbn [lookup_key]. destruct (String.eqb_spec tag k); [congruence|reflexivity].
  - destruct (remove_first tag ms) as [[z r]|]; [|discriminate]. inversion H; subst.
    cbn [lookup_key]. destruct (String.eqb k' k); [reflexivity|]. apply IH; [reflexivity|exact Hne].
Qed.

Section Root2.
  Variable root : value.
  Hypothesis Hroot : nodup_keys root = true.
  Notation OK := (Calls (call_ok root)).

  Definition child_ok (f : rfield) : Prop := forall a v l, resolves root l v -> OK (rf_run f a v l).

  Lemma calls_field_entry a f i k v l acc sts :
    resolves root (Key k l) v -> child_ok f -> OK (field_entry a f i k v l acc sts).
  Proof.
    intros Hv Hf. unfold field_entry. apply calls_bind; [apply Hf; exact Hv|].
    intros [x|e|s]; [| |apply calls_ret].
    - destruct (rf_from f) as [|fn|fn]; [apply calls_ret| |].
      + apply calls_user; [reflexivity|apply calls_ret].
      + apply calls_user; [reflexivity|]. destruct (ufail x); [|apply calls_ret].
        constructor; [eapply resolves_some; exact Hv|]. intros i1 a1.
        constructor; [eapply resolves_some; exact Hv|]. intros i2 a2.
        destruct (a1 && a2); apply calls_ret.
    - eapply calls_absorb; [exact Hv|intros; apply calls_ret|intros; apply calls_ret].
  Qed.

  Lemma calls_unknown_key a d fs k l all x acc sts :
    resolves root l (VMap all) -> lookup_key k all = Some x -> find_field fs k 0 = None ->
    OK (unknown_key a d (map rf_key fs) k l acc sts).
  Proof.
    intros Hl Hk Hf. unfold unknown_key. destruct d as [| |fn]; [apply calls_ret| |].
    - constructor; [|intros i ans; destruct ans; apply calls_ret].
      cbn [call_ok]. unfold kind_true. unfold resolves in Hl. rewrite Hl, Hk.
      rewrite (notin_mem_str_false _ _ (find_field_none_notin _ _ _ Hf)). reflexivity.
    - apply calls_user.
      + cbn [call_ok forallb]. unfold resolves in Hl. rewrite Hl. reflexivity.
      + constructor; [eapply resolves_some; exact Hl|]. intros i ans. destruct ans; apply calls_ret.
  Qed.

  Lemma calls_entries_loop a fs d l all :
    resolves root l (VMap all) -> Forall child_ok fs ->
    forall ms acc sts,
      (forall k v, In (k, v) ms -> lookup_key k all = Some v) ->
      OK (entries_loop a fs d (map rf_key fs) l ms acc sts).
  Proof.
    intros Hl Hfs. induction ms as [|[k v] ms IH]; intros acc sts Hin; cbn [entries_loop]; [apply calls_ret|].
    assert (Hk : lookup_key k all = Some v) by (apply Hin; left; reflexivity).
    apply calls_bind.
    - destruct (find_field fs k 0) as [[i f]|] eqn:E.
      + apply calls_field_entry; [eapply resolves_key; eassumption|].
        rewrite Forall_forall in Hfs. apply Hfs. eapply find_field_in'; exact E.
      + eapply calls_unknown_key; eassumption.
    - intros [acc' sts'|r]; [|apply calls_ret]. apply IH. intros k' v' H'. apply Hin. right. exact H'.
  Qed.

  Lemma calls_missing_loop a l all :
    resolves root l (VMap all) ->
    forall fs sts acc,
      Forall (fun p => snd p = FMissing -> lookup_key (rf_key (fst p)) all = None) (combine fs sts) ->
      OK (missing_loop a l fs sts acc).
  Proof.
    intros Hl. induction fs as [|f fs IH]; intros sts acc Hall; cbn [missing_loop]; [apply calls_ret|].
    destruct sts as [|st sts]; [apply calls_ret|]. cbn [combine] in Hall.
    inversion Hall as [|? ? Hf Hrest]; subst. cbn [fst snd] in Hf.
    destruct st; try (apply IH; exact Hrest).
    destruct (rf_missing f) as [fn|].
    - apply calls_user.
      + cbn [call_ok forallb]. unfold resolves in Hl. rewrite Hl. reflexivity.
      + constructor; [eapply resolves_some; exact Hl|]. intros i ans.
        destruct ans; [apply IH; exact Hrest|apply calls_ret].
    - constructor.
      + cbn [call_ok]. unfold kind_true. unfold resolves in Hl. rewrite Hl, (Hf eq_refl). reflexivity.
      + intros i ans. destruct ans; [apply IH; exact Hrest|apply calls_ret].
  Qed.

  Lemma calls_construct : forall items outs_rev, OK (construct items outs_rev).
  Proof.
    induction items as [|[[name st] m] items IH]; intros outs_rev; cbn [construct]; [apply calls_ret|].
    destruct st; try apply calls_ret. destruct m as [fn|]; [apply calls_user; [reflexivity|]|]; apply IH.
  Qed.

  Lemma combine_nth_error {A B} (l1 : list A) (l2 : list B) p :
    In p (combine l1 l2) -> exists i, nth_error l1 i = Some (fst p) /\ nth_error l2 i = Some (snd p).
  Proof.
    revert l2. induction l1 as [|x l1 IH]; intros l2 H; [destruct H|].
    destruct l2 as [|y l2]; [destruct H|]. cbn [combine] in H. destruct H as [<-|H].
    - exists 0%nat. split; reflexivity.
    - destruct (IH l2 H) as [i [H1 H2]]. exists (S i). split; assumption.
  Qed.

  Lemma calls_run_fields a fs sk d mk ms l all :
    resolves root l (VMap all) ->
    Forall child_ok fs -> Forall rfield_np fs -> NoDup (map rf_key fs) ->
    (forall k v, In (k, v) ms -> lookup_key k all = Some v) ->
    (forall k, In k (map rf_key fs) -> ~ In k (map fst ms) -> lookup_key k all = None) ->
    OK (run_fields a fs sk d mk ms l).
  Proof.
    intros Hl Hfs Hnp Hnd Hin Habs. unfold run_fields.
    apply (tree_calls _ (fun _ => True)).
    set (sts0 := map (fun f => state_of_default (rf_default f)) fs).
    apply tree_bind with (okp := missing_after fs sts0 ms).
    - apply leaves_calls_tree.
      + apply entries_missing_inv; [exact Hnp|unfold sts0; rewrite map_length; reflexivity].
      + apply (calls_entries_loop a fs d l all); assumption.
    - intros [acc sts|r] Hso; [|constructor; exact I].
      destruct Hso as [Hlen Hiff]. apply calls_tree_true.
      apply calls_bind.
      + apply (calls_missing_loop a l all); [exact Hl|]. rewrite Forall_forall. intros p Hp Hmiss.
        destruct (combine_nth_error _ _ _ Hp) as [i [Hfi Hsi]]. rewrite Hmiss in Hsi.
        destruct (proj1 (Hiff i) Hsi) as [_ Hnosel].
        apply Habs; [apply in_map; eapply nth_error_In; exact Hfi|].
        intros Hk. apply in_map_iff in Hk. destruct Hk as [[k v] [Hkeq Hkv]]. cbn [fst] in Hkeq. subst k.
        apply (Hnosel _ v Hkv). apply (selects_iff_key fs i (fst p)); [exact Hnd|exact Hfi|reflexivity].
      + intros [[e|]|r]; try apply calls_ret.
        apply calls_bind; [apply calls_construct|]. intros [fields|r]; apply calls_ret.
  Qed.
End Root2.

Lemma fields_ok_forall (fs : list (cfield ty)) :
  (fix go (fs : list (cfield ty)) : bool :=
     match fs with [] => true | f :: r => c04_wf (cf_ty f) && go r end) fs = true ->
  Forall (fun f => c04_wf (cf_ty f) = true) fs.
Proof.
  induction fs as [|f fs IH]; intros H; [constructor|].
  apply Bool.andb_true_iff in H. destruct H as [H1 H2]. constructor; [exact H1|apply IH; exact H2].
Qed.

Lemma c04_wf_variant tag vs val cv :
  c04_wf (TEnumTagged tag vs val) = true -> In cv vs ->
  match cv_data cv with
  | VDUnit => True
  | VDNamed s =>
    nodup_strs (map cf_key (cs_fields s)) = true
    /\ mem_str tag (map cf_key (cs_fields s)) = false
    /\ Forall (fun f => c04_wf (cf_ty f) = true) (cs_fields s)
  end.
Proof.
  cbn [c04_wf]. induction vs as [|v vs IH]; intros H Hin; [destruct Hin|].
  apply Bool.andb_true_iff in H. destruct H as [Hv Hr]. destruct Hin as [<-|Hin]; [|apply IH; assumption].
  destruct (cv_data v) as [|s]; [exact I|].
  apply Bool.andb_true_iff in Hv. destruct Hv as [Hv Hf]. apply Bool.andb_true_iff in Hv. destruct Hv as [Hn Ht].
  apply Bool.negb_true_iff in Ht. split; [exact Hn|]. split; [exact Ht|apply fields_ok_forall; exact Hf].
Qed.

Lemma rfields_of_keys fs : map rf_key (rfields_of fs) = map cf_key fs.
Proof. unfold rfields_of. rewrite map_map. reflexivity. Qed.

Lemma find_variant_in rvs s rv : find_variant rvs s = Some rv -> In rv rvs.
Proof.
  induction rvs as [|x rvs IH]; [discriminate|]. cbn [find_variant].
  destruct (String.eqb (rv_key x) s); [intros E; injection E as <-; left; reflexivity|].
  intros E. right. apply IH. exact E.
Qed.

Section Root3.
  Variable root : value.
  Hypothesis Hroot : nodup_keys root = true.
  Notation OK := (Calls (call_ok root)).
  Definition P04 (t : ty) : Prop :=
    c04_wf t = true -> forall a v l, resolves root l v -> OK (deser t a v l).

  Lemma children_ok fs :
    Forall (fun f => P04 (cf_ty f)) fs -> Forall (fun f => c04_wf (cf_ty f) = true) fs ->
    Forall (child_ok root) (rfields_of fs).
  Proof.
    intros HP Hwf. unfold rfields_of. rewrite Forall_forall in *. intros rf Hin.
    apply in_map_iff in Hin. destruct Hin as [cf [<- Hcf]]. intros a v l Hv. cbn [rf_run].
    apply (HP cf Hcf (Hwf cf Hcf)). exact Hv.
  Qed.

  Lemma bad_len_true vs n l a :
    resolves root l (VSeq vs) -> N.eqb (N.of_nat (List.length vs)) n = false ->
    OK (fail_with a (BadSequenceLen vs n) l).
  Proof.
    intros Hl Hn. constructor; [|intros i ans; apply calls_ret].
    cbn [call_ok]. unfold kind_true. unfold resolves in Hl. rewrite Hl, list_value_eqb_refl, Hn. reflexivity.
  Qed.

  Theorem deser_calls_true : forall t, P04 t.
  Proof.
    induction t using ty_ind'; intros Hwf a v l Hv; cbn [deser].
    - apply calls_deser_unit; exact Hv.
    - apply calls_deser_bool; exact Hv.
    - apply calls_deser_int; exact Hv.
    - apply calls_deser_f32; exact Hv.
    - apply calls_deser_f64; exact Hv.
    - apply calls_deser_char; exact Hv.
    - apply calls_deser_string; exact Hv.
    - apply calls_ret.
    - apply calls_deser_json; [eapply nodup_keys_resolve; [exact Hroot|exact Hv]|exact Hv].
    - (* Vec *)
      destruct v; try solve [apply calls_fail_ivk; try exact Hv; reflexivity].
      apply (calls_seq_loop root (deser t a) a l _ l0 Hv (fun v' l' H' => IHt Hwf a v' l' H') l0 [] 0%N None []); reflexivity.
    - (* array *)
      destruct v; try solve [apply calls_fail_ivk; try exact Hv; reflexivity].
      destruct (N.eqb (N.of_nat (List.length l0)) n) eqn:En; cbn [negb].
      + apply (calls_seq_loop root (deser t a) a l _ l0 Hv (fun v' l' H' => IHt Hwf a v' l' H') l0 [] 0%N None []); reflexivity.
      + apply bad_len_true; assumption.
    - (* tuple 2 *)
      cbn [c04_wf] in Hwf. apply Bool.andb_true_iff in Hwf. destruct Hwf as [W1 W2].
      destruct v; try solve [apply calls_fail_ivk; try exact Hv; reflexivity].
      destruct l0 as [|x [|y [|z r]]]; try (apply bad_len_true; [exact Hv|apply N.eqb_neq; cbn [List.length]; lia]).
      apply (calls_tuple_loop root a l [x; y] Hv [(deser t1 a, x); (deser t2 a, y)] [] 0%N None []); try reflexivity.
      repeat constructor; cbn [fst]; intros v' l' H'; [apply IHt1|apply IHt2]; assumption.
    - (* tuple 3 *)
      cbn [c04_wf] in Hwf. apply Bool.andb_true_iff in Hwf. destruct Hwf as [W12 W3].
      apply Bool.andb_true_iff in W12. destruct W12 as [W1 W2].
      destruct v; try solve [apply calls_fail_ivk; try exact Hv; reflexivity].
      destruct l0 as [|x [|y [|z [|w r]]]]; try (apply bad_len_true; [exact Hv|apply N.eqb_neq; cbn [List.length]; lia]).
      apply (calls_tuple_loop root a l [x; y; z] Hv [(deser t1 a, x); (deser t2 a, y); (deser t3 a, z)] [] 0%N None []); try reflexivity.
      repeat constructor; cbn [fst]; intros v' l' H'; [apply IHt1|apply IHt2|apply IHt3]; assumption.
    - destruct v; try solve [apply calls_fail_ivk; try exact Hv; reflexivity].
      apply (calls_seq_loop root (deser t a) a l _ l0 Hv (fun v' l' H' => IHt Hwf a v' l' H') l0 [] 0%N None []); reflexivity.
    - destruct v; try solve [apply calls_fail_ivk; try exact Hv; reflexivity].
      apply (calls_seq_loop root (deser t a) a l _ l0 Hv (fun v' l' H' => IHt Hwf a v' l' H') l0 [] 0%N None []); reflexivity.
    - (* map *)
      destruct v; try solve [apply calls_fail_ivk; try exact Hv; reflexivity].
      apply (calls_map_loop root (deser t a) kp n a l l0 Hv (fun v' l' H' => IHt Hwf a v' l' H')).
      intros k x Hin. apply lookup_key_in_nodup; [eapply nodup_keys_resolve; [exact Hroot|exact Hv]|exact Hin].
    - (* option *)
      destruct v; try (apply calls_map_ok; apply IHt; assumption). apply calls_ret.
    - apply IHt; assumption.
    - apply calls_deser_cs; exact Hv.
    - (* struct *)
      cbn [c04_wf] in Hwf. apply Bool.andb_true_iff in Hwf. destruct Hwf as [Hn Hf].
      apply fields_ok_forall in Hf.
      apply calls_and_then; [|intros o; eapply calls_validate; exact Hv].
      destruct v; try solve [apply calls_fail_ivk; try exact Hv; reflexivity].
      assert (Hndv : nodup_keys (VMap l0) = true) by (eapply nodup_keys_resolve; [exact Hroot|exact Hv]).
      apply (calls_run_fields root a (rfields_of (cs_fields s)) (cs_skipped s) (cs_deny s) OStruct l0 l l0 Hv).
      + apply children_ok; assumption.
      + apply rfields_of_np.
      + rewrite rfields_of_keys. apply nodup_strs_NoDup. exact Hn.
      + intros k x Hin. apply lookup_key_in_nodup; assumption.
      + intros k _ Hk. apply lookup_key_notin. exact Hk.
    - (* tagged enum *)
      apply calls_and_then; [|intros o; eapply calls_validate; exact Hv].
      unfold run_tagged. destruct v; try solve [apply calls_fail_ivk; try exact Hv; reflexivity].
      assert (Hndv : nodup_keys (VMap l0) = true) by (eapply nodup_keys_resolve; [exact Hroot|exact Hv]).
      destruct (remove_first tag l0) as [[tv rest]|] eqn:Er.
      + assert (Htv : resolves root (Key tag l) tv) by (eapply resolves_key; [exact Hv|eapply remove_first_some; exact Er]).
        destruct tv; try solve [apply calls_fail_ivk; try exact Htv; reflexivity].
        destruct (find_variant _ s) as [rv|] eqn:Efv; [|eapply calls_fail_unexpected; exact Hv].
        pose proof (find_variant_in _ _ _ Efv) as Hin.
        apply in_map_iff in Hin. destruct Hin as [cv [<- Hcv]]. cbn [rv_data rv_ident].
        pose proof (c04_wf_variant _ _ _ _ Hwf Hcv) as Hcvwf.
        rewrite Forall_forall in H. specialize (H cv Hcv). unfold Pvariant in H.
        destruct (cv_data cv) as [|st]; [apply calls_ret|].
        destruct Hcvwf as (Hn & Htag & Hfwf).
        apply (calls_run_fields root a (rfields_of (cs_fields st)) (cs_skipped st) (cs_deny st) _ rest l l0 Hv).
        * apply children_ok; assumption.
        * apply rfields_of_np.
        * rewrite rfields_of_keys. apply nodup_strs_NoDup. exact Hn.
        * intros k x Hkx. apply lookup_key_in_nodup; [exact Hndv|]. eapply remove_first_in; eassumption.
        * intros k Hk Hnot. rewrite rfields_of_keys in Hk.
          assert (Hne : k <> tag) by (intros ->; apply (mem_str_false_notin _ _ Htag); exact Hk).
          rewrite (remove_first_lookup_other _ _ _ _ _ Er Hne). apply lookup_key_notin. exact Hnot.
      + constructor; [|intros i ans; apply calls_ret].
        cbn [call_ok]. unfold kind_true. unfold resolves in Hv. rewrite Hv.
        rewrite (proj1 (remove_first_none tag l0) Er). reflexivity.
    - (* unit enum *)
      apply calls_and_then; [|intros o; eapply calls_validate; exact Hv].
      unfold run_unit_enum. destruct v; try solve [apply calls_fail_ivk; try exact Hv; reflexivity].
      destruct (find_unit vs s) as [ident|] eqn:Ef; [apply calls_ret|].
      constructor; [|intros i ans; apply calls_ret].
      cbn [call_ok]. unfold kind_true. unfold resolves in Hv. rewrite Hv, String.eqb_refl.
      rewrite (notin_mem_str_false _ _ (proj1 (find_unit_none vs s) Ef)). reflexivity.
    - (* from *)
      apply calls_and_then; [apply IHt; assumption|]. intros o.
      apply calls_user; [reflexivity|]. eapply calls_validate; exact Hv.
    - (* try_from *)
      apply calls_and_then; [apply IHt; assumption|]. intros o.
      apply calls_user; [reflexivity|]. destruct (ufail o); [|eapply calls_validate; exact Hv].
      constructor; [eapply resolves_some; exact Hv|]. intros i ans. apply calls_ret.
  Qed.
End Root3.

(** every call made by [deserialize t v] is true of the payload [v] *)
Theorem deserialize_calls_true t v script :
  nodup_keys v = true -> c04_wf t = true ->
  Forall (call_ok v) (snd (run script (deserialize t v) [])).
Proof.
  intros Hnd Hwf. apply calls_sound; [|constructor].
  apply (deser_calls_true v Hnd t Hwf 0%N v Origin). reflexivity.
Qed.
