(** C15, part 2: the field machinery of derived structs depends on the payload members only
    through per-member results, and is insensitive to their order when keys are distinct. *)
From Coq Require Import Permutation.
From Deserr Require Import Base Pointer Kinds Value Prog Utf8 Scalars ScalarSpec Types Deser Spec Monitors.
From Deserr.proofs Require Import RefineFields C15Base.
Local Open Scope list_scope.

Definition member := (option nat * sres)%type.
Definition mrel (a b : member) : Prop := fst a = fst b /\ SEQ (snd a) (snd b).

Lemma mrel_refl a : mrel a a.
Proof. split; [reflexivity|apply SEQ_refl]. Qed.

Definition fields_of_members (fs : list spfield) (sk : list sfield) (mk : list (string * out) -> out) (l : vpr)
           (members : list member) : sres :=
  let vals := map (fun p => s_field_value (fst p) (snd p) members) (indexed_nat fs) in
  let missing :=
      flat_map (fun p : spfield * option (option out) =>
                  match snd p with
                  | None =>
                    match sp_missing (fst p) with
                    | None => [(FKind (MissingField (sp_key (fst p))) l, [])]
                    | Some fn =>
                      let args := [AStr (sp_key (fst p)); ALoc (to_owned l)] in
                      [(FUser (fn, args) l, [(fn, args)])]
                    end
                  | Some _ => []
                  end) (combine fs vals) in
  let faults := (flat_map (fun m : member => s_faults (snd m)) members ++ map fst missing)%list in
  let ucalls := (flat_map (fun m : member => s_ucalls (snd m)) members ++ flat_map snd missing)%list in
  match faults with
  | [] =>
    let items :=
        (map (fun p : spfield * option (option out) =>
                (sp_name (fst p), match snd p with Some (Some o) => Some o | _ => None end, sp_map (fst p)))
             (combine fs vals)
         ++ map (fun s => (sf_name s, Some (sf_default s), sf_map s)) sk)%list in
    let outs := map (fun it : string * option out * option N =>
                       match it with
                       | (n, Some o, Some fn) => (n, Some (OFn fn o), [(fn, [AOut o])])
                       | (n, Some o, None) => (n, Some o, [])
                       | (n, None, _) => (n, None, [])
                       end) items in
    mkS (option_map (fun os => mk (combine (map (fun x => fst (fst x)) outs) os))
                    (all_some (map (fun x => snd (fst x)) outs)))
        [] (ucalls ++ flat_map snd outs)
  | _ => mkS None faults ucalls
  end.

Lemma s_fields_members fs sk d mk ms l :
  s_fields fs sk d mk ms l = fields_of_members fs sk mk l (map (s_member fs d l) ms).
Proof. reflexivity. Qed.

(** filters respect the member relation *)
Lemma filter_hits_PM i members members' :
  PM mrel members members' -> PM mrel (filter (hits i) members) (filter (hits i) members').
Proof.
  intros (m & P & F). exists (filter (hits i) m). split.
  - clear F. induction P as [|x l l' _ IH|x y l|l l' l'' _ IH1 _ IH2]; cbn [filter].
    + constructor.
    + destruct (hits i x); [constructor|]; exact IH.
    + destruct (hits i x), (hits i y); try reflexivity. apply perm_swap.
    + eapply Permutation_trans; eassumption.
  - clear P. induction F as [|a b la lb [Hfst Hs] _ IH]; cbn [filter]; [constructor|].
    unfold hits at 1 3. rewrite Hfst. fold (hits i b). destruct (hits i b); [constructor; [split; assumption|exact IH]|exact IH].
Qed.

Lemma field_value_congr i f members members' :
  PM mrel members members' -> (List.length (filter (hits i) members) <= 1)%nat ->
  s_field_value i f members = s_field_value i f members'.
Proof.
  intros HPM Hone. rewrite !s_field_value_unfold.
  pose proof (filter_hits_PM i _ _ HPM) as (m & P & F).
  destruct (filter (hits i) members) as [|h [|h2 t]] eqn:E; [| |cbn in Hone; lia].
  - apply Permutation_nil in P. subst m. inversion F. reflexivity.
  - apply Permutation_length_1_inv in P. subst m. inversion F as [|? h' ? t' [_ (O & _)] Ft]; subst. inversion Ft; subst.
    cbn [last]. rewrite O. reflexivity.
Qed.

Lemma members_faults_PM members members' :
  PM mrel members members' ->
  PM feq (flat_map (fun m : member => s_faults (snd m)) members) (flat_map (fun m : member => s_faults (snd m)) members').
Proof.
  intros (m & P & F). eapply PM_trans; [exact feq_trans|apply PM_perm; [exact feq_refl|apply Permutation_flat_map_perm; exact P]|].
  clear P. induction F as [|a b la lb [_ (_ & Ff & _)] _ IH]; [apply PM_refl; exact feq_refl|].
  cbn [flat_map]. apply PM_app; assumption.
Qed.

Lemma members_ucalls_perm members members' :
  PM mrel members members' ->
  Permutation (flat_map (fun m : member => s_ucalls (snd m)) members) (flat_map (fun m : member => s_ucalls (snd m)) members').
Proof.
  intros (m & P & F). eapply Permutation_trans; [apply Permutation_flat_map_perm; exact P|].
  clear P. induction F as [|a b la lb [_ (_ & _ & U)] _ IH]; [constructor|].
  cbn [flat_map]. apply Permutation_app; assumption.
Qed.

Lemma fields_members_congr fs sk mk l members members' :
  PM mrel members members' ->
  (forall i, (List.length (filter (hits i) members) <= 1)%nat) ->
  SEQ (fields_of_members fs sk mk l members) (fields_of_members fs sk mk l members').
Proof.
  intros HPM Hone. unfold fields_of_members. cbv zeta.
  assert (Hvals : map (fun p => s_field_value (fst p) (snd p) members) (indexed_nat fs)
                  = map (fun p => s_field_value (fst p) (snd p) members') (indexed_nat fs)).
  { apply map_ext. intros [i f]. cbn [fst snd]. apply field_value_congr; [exact HPM|apply Hone]. }
  rewrite <- Hvals.
  set (vals := map (fun p => s_field_value (fst p) (snd p) members) (indexed_nat fs)).
  pose proof (members_faults_PM _ _ HPM) as HF. pose proof (members_ucalls_perm _ _ HPM) as HU.
  match goal with |- context [map fst ?M] => set (missing := M) end.
  set (mf := flat_map (fun m : member => s_faults (snd m)) members) in *.
  set (mf' := flat_map (fun m : member => s_faults (snd m)) members') in *.
  assert (HF2 : PM feq (mf ++ map fst missing) (mf' ++ map fst missing)) by (apply PM_app; [exact HF|apply PM_refl; exact feq_refl]).
  destruct (mf ++ map fst missing) eqn:E1; destruct (mf' ++ map fst missing) eqn:E2.
  - apply SEQ_mk; [apply PM_refl; exact feq_refl|]. apply Permutation_app_tail. apply Permutation_app_tail. exact HU.
  - apply PM_nil_l in HF2. discriminate.
  - apply PM_nil_r in HF2. discriminate.
  - apply SEQ_mk; [exact HF2|]. apply Permutation_app_tail. exact HU.
Qed.

(** *** at most one payload member fills a given field when keys are distinct *)
Lemma sp_find_key fs k : forall i0 i f, sp_find fs k i0 = Some (i, f) -> sp_key f = k /\ nth_error fs (i - i0) = Some f /\ (i0 <= i)%nat.
Proof.
  induction fs as [|g fs IH]; intros i0 i f H; [discriminate|]. cbn [sp_find] in H.
  destruct (String.eqb (sp_key g) k) eqn:E.
  - inversion H; subst. apply String.eqb_eq in E. rewrite Nat.sub_diag. repeat split; [exact E|lia].
  - destruct (IH (S i0) i f H) as (Hk & Hn & Hle). split; [exact Hk|]. split; [|lia].
    replace (i - i0)%nat with (S (i - S i0)) by lia. exact Hn.
Qed.

Lemma member_hit_key fs d l kv i : hits i (s_member fs d l kv) = true -> exists f, nth_error fs i = Some f /\ sp_key f = fst kv.
Proof.
  destruct kv as [k v]. rewrite s_member_unfold. unfold hits.
  destruct (sp_find fs k 0) as [[j f]|] eqn:E; cbn [fst]; [|discriminate].
  intros H. apply Nat.eqb_eq in H. subst j. destruct (sp_find_key fs k 0 i f E) as (Hk & Hn & _).
  rewrite Nat.sub_0_r in Hn. exists f. split; assumption.
Qed.

Lemma one_hit fs d l ms i :
  NoDup (map fst ms) -> (List.length (filter (hits i) (map (s_member fs d l) ms)) <= 1)%nat.
Proof.
  induction ms as [|kv ms IH]; intros Hnd; [cbn; lia|]. cbn [map filter] in *. inversion Hnd as [|? ? Hni Hnd']; subst.
  destruct (hits i (s_member fs d l kv)) eqn:Eh; [|apply IH; exact Hnd'].
  assert (Hnone : filter (hits i) (map (s_member fs d l) ms) = []).
  { destruct (filter (hits i) (map (s_member fs d l) ms)) as [|h t] eqn:Ef; [reflexivity|]. exfalso.
    assert (Hin : In h (filter (hits i) (map (s_member fs d l) ms))) by (rewrite Ef; left; reflexivity).
    apply filter_In in Hin. destruct Hin as [Hin Hh]. apply in_map_iff in Hin. destruct Hin as (kv' & <- & Hkv').
    destruct (member_hit_key _ _ _ _ _ Eh) as (f & Hn & Hk). destruct (member_hit_key _ _ _ _ _ Hh) as (f' & Hn' & Hk').
    rewrite Hn in Hn'. inversion Hn'; subst f'. apply Hni. rewrite <- Hk, Hk'. apply in_map. exact Hkv'. }
  rewrite Hnone. cbn. lia.
Qed.

(** *** the per-member result respects the relation on the member's value *)
Lemma s_member_congr fs d l k v v' :
  (forall f, In f fs -> SEQ (sp_run f v (Key k l)) (sp_run f v' (Key k l))) ->
  mrel (s_member fs d l (k, v)) (s_member fs d l (k, v')).
Proof.
  intros Hch. rewrite !s_member_unfold. destruct (sp_find fs k 0) as [[i f]|] eqn:E; [|apply mrel_refl].
  split; [reflexivity|]. cbn [snd].
  assert (Hin : In f fs).
  { destruct (sp_find_key fs k 0 i f E) as (_ & Hn & _). eapply nth_error_In; exact Hn. }
  pose proof (Hch f Hin) as H. pose proof H as (O & F & U). cbv zeta. rewrite <- O.
  destruct (s_out (sp_run f v (Key k l))) as [x|]; [|exact H].
  destruct (sp_from f) as [|fn|fn]; [exact H| |].
  - apply SEQ_mk; [apply PM_refl; exact feq_refl|apply Permutation_app_tail; exact U].
  - destruct (ufail x); apply SEQ_mk; try (apply PM_refl; exact feq_refl); apply Permutation_app_tail; exact U.
Qed.

(** *** the two ways the members of an object may change *)
Lemma s_fields_perm fs sk d mk ms ms' l :
  Permutation ms ms' -> NoDup (map fst ms) -> SEQ (s_fields fs sk d mk ms l) (s_fields fs sk d mk ms' l).
Proof.
  intros HP Hnd. rewrite !s_fields_members. apply fields_members_congr.
  - apply PM_perm; [exact mrel_refl|]. apply Permutation_map. exact HP.
  - intros i. apply one_hit. exact Hnd.
Qed.

Lemma s_fields_pointwise fs sk d mk ms ms' l :
  Forall2 (fun a b : string * value =>
             fst a = fst b /\ forall f, In f fs -> SEQ (sp_run f (snd a) (Key (fst a) l)) (sp_run f (snd b) (Key (fst a) l))) ms ms' ->
  NoDup (map fst ms) -> SEQ (s_fields fs sk d mk ms l) (s_fields fs sk d mk ms' l).
Proof.
  intros HF Hnd. rewrite !s_fields_members. apply fields_members_congr.
  - apply PM_forall2. induction HF as [|[k v] [k' v'] la lb [Hk Hs] _ IH]; [constructor|].
    cbn [fst snd] in *. subst k'. cbn [map]. constructor; [apply s_member_congr; exact Hs|].
    apply IH. inversion Hnd; assumption.
  - intros i. apply one_hit. exact Hnd.
Qed.
