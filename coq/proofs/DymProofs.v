From Deserr Require Import Base Utf8 DidYouMean.
Local Open Scope nat_scope.

Lemma min_by_none l : min_by l = None -> l = [].
Proof.
  destruct l as [|x r]; [reflexivity|]. cbn [min_by].
  destruct (min_by r) as [y|]; [destruct (snd y <? snd x)|]; discriminate.
Qed.

Lemma min_by_spec l y :
  min_by l = Some y ->
  exists pre post, l = pre ++ y :: post
    /\ (forall x, In x pre -> snd y < snd x)
    /\ (forall x, In x post -> snd y <= snd x).
Proof.
  revert y. induction l as [|x r IH]; intros y H; [discriminate|].
  cbn [min_by] in H. destruct (min_by r) as [y'|] eqn:E.
  - destruct (IH y' eq_refl) as (pre & post & Hr & Hpre & Hpost).
    destruct (Nat.ltb_spec (snd y') (snd x)) as [Hlt|Hge]; inversion H; subst y.
    + exists (x :: pre), post. split; [rewrite Hr; reflexivity|]. split; [|exact Hpost].
      intros z [<-|Hz]; [exact Hlt|apply Hpre; exact Hz].
    + exists [], r. split; [reflexivity|]. split; [intros z []|].
      intros z Hz. rewrite Hr in Hz. apply in_app_or in Hz.
      destruct Hz as [Hz|[<-|Hz]].
      * specialize (Hpre z Hz). lia.
      * exact Hge.
      * specialize (Hpost z Hz). lia.
  - apply min_by_none in E. subst r. inversion H; subst y.
    exists [], []. split; [reflexivity|]. split; intros z [].
Qed.

Lemma filter_map_split {A B} (p : B -> bool) (g : A -> B) (acc : list A) l1 y l2 :
  filter p (map g acc) = l1 ++ y :: l2 ->
  exists a1 a a2, acc = a1 ++ a :: a2 /\ g a = y /\ p y = true
    /\ filter p (map g a1) = l1 /\ filter p (map g a2) = l2.
Proof.
  revert l1. induction acc as [|a acc IH]; intros l1 H; cbn [map filter] in H.
  - destruct l1; discriminate.
  - destruct (p (g a)) eqn:E.
    + destruct l1 as [|z l1]; cbn [app] in H; injection H as Hz Hrest.
      * subst y. exists [], a, acc. repeat split; assumption.
      * subst z. destruct (IH _ Hrest) as (a1 & a' & a2 & Hacc & Hg & Hp & H1 & H2).
        exists (a :: a1), a', a2. subst acc. repeat split; try assumption.
        cbn [map filter]. rewrite E, H1. reflexivity.
    + destruct (IH _ H) as (a1 & a' & a2 & Hacc & Hg & Hp & H1 & H2).
      exists (a :: a1), a', a2. subst acc. repeat split; try assumption.
      cbn [map filter]. rewrite E. exact H1.
Qed.

Section Dym.
  Variable dist : string -> string -> nat.

  Lemma dym_short r acc : String.length r <= 3 -> dym dist r acc = ""%string.
  Proof.
    intros H. unfold dym, budget.
    destruct (Nat.leb_spec (String.length r) 3); [reflexivity|lia].
  Qed.

  Lemma budget_some_long len t : budget len = Some t -> 3 < len.
  Proof. unfold budget. destruct (Nat.leb_spec len 3); [discriminate|intros _; assumption]. Qed.

  Lemma in_candidates r t acc a d :
    In (a, d) (candidates dist r t acc) <-> In a acc /\ d = dist r a /\ d <= t.
  Proof.
    unfold candidates. rewrite filter_In, in_map_iff. cbn [snd]. rewrite Nat.leb_le. split.
    - intros [[x [Hx Hin]] Hle]. inversion Hx; subst. auto.
    - intros (Hin & -> & Hle). split; [exists a; auto|exact Hle].
  Qed.

  (** no suggestion <-> too short, or nothing within the budget *)
  Lemma dym_empty_iff r acc :
    dym dist r acc = ""%string <->
    (String.length r <= 3 \/
     exists t, budget (String.length r) = Some t /\ forall a, In a acc -> t < dist r a).
  Proof.
    unfold dym. destruct (budget (String.length r)) as [t|] eqn:Eb.
    - pose proof (budget_some_long _ _ Eb) as Hlong.
      destruct (min_by (candidates dist r t acc)) as [[a d]|] eqn:Em.
      + split; [discriminate|]. intros [H|(t' & Ht' & Hall)]; [lia|]. exfalso.
        inversion Ht'; subst t'.
        apply min_by_spec in Em. destruct Em as (pre & post & Hc & _).
        assert (Hin : In (a, d) (candidates dist r t acc)) by (rewrite Hc; apply in_elt).
        apply in_candidates in Hin. destruct Hin as (Hin & -> & Hle).
        specialize (Hall a Hin). lia.
      + split; [|reflexivity]. intros _. right. exists t. split; [reflexivity|].
        intros a Hin. apply min_by_none in Em.
        destruct (Nat.ltb_spec t (dist r a)) as [Hlt|Hge]; [exact Hlt|]. exfalso.
        assert (Hc : In (a, dist r a) (candidates dist r t acc)) by (apply in_candidates; auto).
        rewrite Em in Hc. exact Hc.
    - split; [|reflexivity]. intros _. left. unfold budget in Eb.
      destruct (Nat.leb_spec (String.length r) 3); [assumption|].
      repeat match type of Eb with (if ?c then _ else _) = _ => destruct c end; discriminate.
  Qed.

  (** a suggestion names the earliest accepted string of minimal distance, within the budget *)
  Lemma dym_suggests r acc t :
    budget (String.length r) = Some t ->
    (exists a, In a acc /\ dist r a <= t) ->
    exists pre a post,
      acc = pre ++ a :: post
      /\ dym dist r acc = ("did you mean `" ++ a ++ "`? ")%string
      /\ dist r a <= t
      /\ (forall x, In x pre -> dist r a < dist r x)
      /\ (forall x, In x post -> dist r a <= dist r x).
  Proof.
    intros Eb (a0 & Hin0 & Hle0). unfold dym. rewrite Eb.
    destruct (min_by (candidates dist r t acc)) as [[a d]|] eqn:Em.
    - apply min_by_spec in Em. destruct Em as (pre & post & Hc & Hpre & Hpost).
      unfold candidates in Hc. apply filter_map_split in Hc.
      destruct Hc as (a1 & a' & a2 & Hacc & Hg & Hp & H1 & H2).
      inversion Hg; subst a' d. cbn [snd] in *. apply Nat.leb_le in Hp.
      exists a1, a, a2. split; [exact Hacc|]. split; [reflexivity|]. split; [exact Hp|].
      split; intros x Hx.
      + destruct (Nat.leb_spec (dist r x) t) as [Hxle|Hxgt]; [|lia].
        apply (Hpre (x, dist r x)). rewrite <- H1. apply filter_In. split.
        * apply in_map_iff. exists x. auto.
        * cbn [snd]. apply Nat.leb_le. exact Hxle.
      + destruct (Nat.leb_spec (dist r x) t) as [Hxle|Hxgt]; [|lia].
        apply (Hpost (x, dist r x)). rewrite <- H2. apply filter_In. split.
        * apply in_map_iff. exists x. auto.
        * cbn [snd]. apply Nat.leb_le. exact Hxle.
    - exfalso. apply min_by_none in Em.
      assert (Hc : In (a0, dist r a0) (candidates dist r t acc)) by (apply in_candidates; auto).
      rewrite Em in Hc. exact Hc.
  Qed.
End Dym.

(** the budget table of the property *)
Lemma budget_table len :
  budget len =
  if len <=? 3 then None else
  Some (if len <=? 7 then 1 else if len <=? 12 then 2 else if len <=? 17 then 3
        else if len <=? 24 then 4 else 5).
Proof.
  unfold budget. repeat match goal with |- context [?a <=? ?b] => destruct (a <=? b) end; reflexivity.
Qed.
