(** C06, sets and maps as values: what [dedup_outs] keeps, and [map_insert] as a finite-map update. *)
From Deserr Require Import Base Pointer Kinds Value Prog Utf8 Scalars Types Deser.
From Deserr.proofs Require Import SortedIns.
Local Open Scope list_scope.

(** *** sets: first occurrences are kept, in order; nothing is kept twice; nothing is lost *)
Lemma dedup_in l : forall seen y, In y (dedup_outs l seen) -> In y l.
Proof.
  induction l as [|x l IH]; intros seen y H; [destruct H|]. cbn [dedup_outs] in H.
  destruct (existsb (out_eqb x) seen); [right; eapply IH; exact H|].
  destruct H as [<-|H]; [left; reflexivity|right; eapply IH; exact H].
Qed.

Lemma dedup_fresh l : forall seen y, In y (dedup_outs l seen) -> existsb (out_eqb y) seen = false.
Proof.
  induction l as [|x l IH]; intros seen y H; [destruct H|]. cbn [dedup_outs] in H.
  destruct (existsb (out_eqb x) seen) eqn:E; [apply IH; exact H|].
  destruct H as [<-|H]; [exact E|]. apply IH in H. cbn [existsb] in H. apply Bool.orb_false_elim in H. apply H.
Qed.

(** no kept element equals (by [out_eqb]) an element kept before it *)
Fixpoint later_distinct (l : list out) : Prop :=
  match l with
  | [] => True
  | a :: r => (forall b, In b r -> out_eqb b a = false) /\ later_distinct r
  end.

Lemma dedup_distinct l : forall seen, later_distinct (dedup_outs l seen).
Proof.
  induction l as [|x l IH]; intros seen; [exact I|]. cbn [dedup_outs].
  destruct (existsb (out_eqb x) seen); [apply IH|]. cbn [later_distinct]. split; [|apply IH].
  intros b Hb. apply dedup_fresh in Hb. cbn [existsb] in Hb. apply Bool.orb_false_elim in Hb. apply Hb.
Qed.

Lemma dedup_covers l : forall seen x, In x l ->
  In x (dedup_outs l seen) \/ exists y, (In y seen \/ In y (dedup_outs l seen)) /\ out_eqb x y = true.
Proof.
  induction l as [|a l IH]; intros seen x H; [destruct H|]. cbn [dedup_outs].
  destruct (existsb (out_eqb a) seen) eqn:E.
  - destruct H as [<-|H]; [|apply IH; exact H].
    right. apply existsb_exists in E. destruct E as (y & Hy & Ey). exists y. split; [left; exact Hy|exact Ey].
  - destruct H as [<-|H]; [left; left; reflexivity|].
    destruct (IH (a :: seen) x H) as [Hin|(y & [Hy|Hy] & Ey)].
    + left. right. exact Hin.
    + destruct Hy as [<-|Hy]; [right; exists a; split; [right; left; reflexivity|exact Ey]|right; exists y; split; [left; exact Hy|exact Ey]].
    + right. exists y. split; [right; right; exact Hy|exact Ey].
Qed.

(** *** maps: insertion is a finite-map update *)
Fixpoint map_lookup (k : out) (m : list (out * out)) : option out :=
  match m with
  | [] => None
  | (k', v) :: r => match key_cmp k k' with Eq => Some v | _ => map_lookup k r end
  end.

Notation ksorted := (ssorted out out key_cmp).

Lemma key_cmp_refl_of_eq a b : key_cmp a b = Eq -> key_cmp b a = Eq.
Proof. intros H. rewrite key_cmp_anti, H. reflexivity. Qed.

Lemma lookup_above k m : above out out key_cmp k m -> map_lookup k m = None.
Proof.
  induction m as [|[k' v'] r IH]; intros Ha; [reflexivity|]. cbn [map_lookup].
  pose proof (Ha (k', v') (or_introl eq_refl)) as H. cbn [fst] in H. rewrite H. apply IH.
  intros p Hp. apply Ha. right. exact Hp.
Qed.

Lemma map_lookup_insert_same k v m : key_cmp k k = Eq -> ksorted m -> map_lookup k (map_insert k v m) = Some v.
Proof.
  intros Hr. induction m as [|[k' v'] r IH]; intros Hs; cbn [map_insert map_lookup]; [rewrite Hr; reflexivity|].
  destruct (key_cmp k k') eqn:E; cbn [map_lookup]; rewrite ?Hr, ?E; try reflexivity. apply IH. apply Hs.
Qed.

Lemma map_lookup_insert_other k v k' m :
  key_cmp k' k <> Eq -> ksorted m -> map_lookup k' (map_insert k v m) = map_lookup k' m.
Proof.
  intros Hne. induction m as [|[k0 v0] r IH]; intros Hs; cbn [map_insert map_lookup].
  - destruct (key_cmp k' k); [contradiction|reflexivity|reflexivity].
  - destruct (key_cmp k k0) eqn:E; cbn [map_lookup].
    + (* k = k0: the entry is replaced; k' differs from both *)
      assert (E' : key_cmp k' k0 = key_cmp k' k).
      { rewrite (key_cmp_anti k0 k'), (key_cmp_anti k k'). f_equal. symmetry. apply key_cmp_eq_l. exact E. }
      rewrite E'. destruct (key_cmp k' k); [contradiction|reflexivity|reflexivity].
    + destruct (key_cmp k' k); [contradiction|reflexivity|reflexivity].
    + destruct (key_cmp k' k0); [reflexivity| |]; apply IH; apply Hs.
Qed.
