(** field-level analogue of RejectMerge.v *)
From Deserr Require Import Base Pointer Kinds Value Scalars Types Derive DeriveSpec.
From Deserr.proofs Require Import RejectMerge.

(** ** field attributes *)
Section Fld.
  Context {T : Type}.

  Inductive fslot := FsRn | FsDf | FsMs | FsEr | FsMp | FsFrom | FsTry.

  Definition fhas (s : fslot) (ca : fattrs T) : bool :=
    match s with
    | FsRn => is_some (fa_rename ca) | FsDf => is_some (fa_default ca) | FsMs => is_some (fa_missing ca)
    | FsEr => is_some (fa_error ca) | FsMp => is_some (fa_map ca) | FsFrom => is_some (fa_from ca)
    | FsTry => is_some (fa_try_from ca)
    end.

  Definition fsets (s : fslot) (a : fattr T) : bool :=
    match s with
    | FsRn => f_is_rename a | FsDf => f_is_default a | FsMs => f_is_missing a | FsEr => f_is_error a
    | FsMp => f_is_map a | FsFrom => f_is_from a | FsTry => f_is_try_from a
    end.

  Definition fcnt (s : fslot) (l : list (fattr T)) : nat := count_if (fsets s) l.

  Lemma fcnt_app s l1 l2 : fcnt s (l1 ++ l2) = (fcnt s l1 + fcnt s l2)%nat.
  Proof. unfold fcnt, count_if. rewrite filter_app, app_length. reflexivity. Qed.

  Lemma merge1_inv_f {A} (self other r : option A) :
    merge1 self other = Some r ->
    is_some r = is_some self || is_some other /\ (is_some self && is_some other = false).
  Proof.
    unfold merge1. destruct other as [x|]; destruct self as [y|]; cbn; intros H; inversion H; subst; cbn; auto.
  Qed.

  (** everything a successful merge tells us, slot by slot *)
  Ltac bsolve_f :=
    cbn [fhas fa_rename fa_default fa_missing fa_error fa_map fa_from fa_try_from] in *;
    repeat match goal with
           | H : context [is_some ?x] |- _ => is_var x; destruct x; cbn [is_some orb andb] in *
           | |- context [is_some ?x] => is_var x; destruct x; cbn [is_some orb andb] in *
           end;
    cbn [is_some orb andb] in *; try reflexivity; try discriminate; try tauto; try (split; congruence).

  (** everything a successful merge tells us, slot by slot *)
  Lemma merge_fattrs_inv (self other r : fattrs T) :
    merge_fattrs self other = Some r ->
    (forall s, fhas s r = fhas s self || fhas s other)
    /\ (forall s, fhas s self && fhas s other = false)
    /\ (fhas FsFrom other = true -> fhas FsTry self = false)
    /\ (fhas FsTry other = true -> fhas FsFrom self = false /\ fhas FsFrom other = false).
  Proof.
    destruct self as [ra1 er1 tg1 dn1 vl1 fr1 tf1 np1 sk1], other as [ra2 er2 tg2 dn2 vl2 fr2 tf2 np2 sk2].
    unfold merge_fattrs, merge1. cbn [fa_rename fa_default fa_missing fa_error fa_map fa_from fa_try_from fa_needs_predicate fa_skipped].
    intros H.
    destruct ra2, ra1; cbn [is_some] in H; try discriminate;
      destruct er2, er1; cbn [is_some] in H; try discriminate;
        destruct tg2, tg1; cbn [is_some] in H; try discriminate;
          destruct dn2, dn1; cbn [is_some] in H; try discriminate;
            destruct vl2, vl1; cbn [is_some] in H; try discriminate;
              destruct fr2, fr1, tf2, tf1; cbn [is_some orb] in H; try discriminate;
                inversion H; subst r; clear H;
                  (split; [intros []; reflexivity|split; [intros []; reflexivity|split; cbn; intros; try discriminate; auto]]).
  Qed.

End Fld.
